#!/usr/bin/env python3
"""Regenerates MANIFEST.json from the table below (kept next to the checks so the two stay in step)."""
import json, os

HERE = os.path.dirname(os.path.dirname(os.path.abspath(__file__)))

NOTE_COMMON = ("Trusted base: Lean 4.33 kernel and the axioms propext/Classical.choice/Quot.sound only (audited with "
               "#print axioms on every run; no sorry/native_decide/bv_decide/own axioms); the hand-written model is tied "
               "to /repo's current working tree by the correspondence check of the same run (real code and compiled Lean "
               "driver on the same generated inputs) and by the translator that regenerates "
               "lean/AmrK/Generated/Constants.lean; numpy/scipy/Cantera/pickle/multiprocessing/POSIX are modelled, not verified.")

# pid -> (technique, level text, extra note)   ; pids absent here are listed under not_applicable
CLAIMED = {
    "C01": ("Lean 4 theorems on a byte-level reader model + differential correspondence check",
            "Proof: ReaderR.readR_refuse_or_exact (for every field selector the reader model refuses or returns exactly the "
            "component blocks the selector denotes, for a FAB placed anywhere in any file) with readR_idx/list/slice and the FAB "
            "header codec law parse_canonB; the model is compared bit-for-bit with PlotfileCooker's indexing interface on "
            "thousands of (plotfile, field selector, level, box selector) cases per run, and the real results are compared with an "
            "independent oracle. Right level because the quantifier is all layouts x all selector forms.",
            "Box selection (int/slice/list/mask) and level selection are numpy/Python indexing, checked by the oracle only."),
}

NOT_YET = {}


def main():
    props = [json.loads(l) for l in open(os.path.join(HERE, "properties.jsonl"))]
    checks, na = [], []
    for p in props:
        pid = p["id"]
        if pid in CLAIMED:
            tech, text, note = CLAIMED[pid]
            checks.append({
                "property_id": pid,
                "quick_cmd": f"./check {pid} --tier quick",
                "thorough_cmd": f"./check {pid} --tier thorough",
                "evidence_file": f"/verif/evidence/{pid}.json",
                "replay_cmd_template": f"./check {pid} --replay {{path}}",
                "engine": "amrk-lean",
                "level_claimed": {"category": "proof", "text": text, "design_ref": f"DESIGN.md section 7, {pid}"},
                "level_note": note + " " + NOTE_COMMON,
                "technique": tech,
            })
        else:
            na.append({"property_id": pid,
                       "reason": NOT_YET.get(pid, "not claimed yet: the check for this property is still being built "
                                                  "(the technique applies; see DESIGN.md section 7)")})
    man = {
        "version": 1,
        "setup_cmd": "/venv/bin/python -m harness.setup",
        "hooks": {
            "guard": "AMR_KITCHEN_VERIF",
            "enable": "no instrumentation in /repo is needed: pools, numpy.empty, open/os calls are substituted from the harness process; the guard name is reserved",
            "baseline_off_cmd": "cd /repo && /venv/bin/python -m pytest -ra -q -p no:cacheprovider --timeout=900 --continue-on-collection-errors",
            "source_commits": [],
            "add_only": True,
        },
        "engines": [{"name": "amrk-lean", "path": "/verif/lean",
                     "serves_properties": [c["property_id"] for c in checks],
                     "kind_free_text": "Lean 4 model (AmrK) with property theorems, compiled JSON-lines driver, Python correspondence harness in /verif/harness"}],
        "checks": checks,
        "notes": "Every check: regenerate constants from /repo, lake build, grep for escape hatches, #print axioms audit, corpus, generated cases through real code / Lean model / oracle, verdict protocol of DESIGN.md section 6. Known findings in KNOWN_FINDINGS.txt.",
        "not_applicable": na,
    }
    with open(os.path.join(HERE, "MANIFEST.json"), "w") as f:
        json.dump(man, f, indent=1)
    print(f"{len(checks)} checks, {len(na)} not claimed")


if __name__ == "__main__":
    main()
