#!/usr/bin/env python3
"""Regenerates MANIFEST.json from the table below (kept next to the checks so the two stay in step)."""
import json, os

HERE = os.path.dirname(os.path.dirname(os.path.abspath(__file__)))

NOTE_COMMON = ("Trusted base: Lean 4.33 kernel and the axioms propext/Classical.choice/Quot.sound only (audited with "
               "#print axioms on every run; no sorry/native_decide/bv_decide/own axioms); the hand-written model is tied "
               "to /repo's current working tree by the correspondence check of the same run (real code and compiled Lean "
               "driver on the same generated inputs) and by the translator that regenerates "
               "lean/AmrK/Generated/Constants.lean; numpy/scipy/Cantera/pickle/multiprocessing/POSIX are modelled, not verified.")

# pid -> (technique, level text, extra note)   ; pids absent here are listed under not_applicable
CLAIMED = {
    "C01": ("Lean 4 theorems on a byte-level reader model + differential correspondence check",
            "Proof: ReaderR.readR_refuse_or_exact (for every field selector the reader model refuses or returns exactly the "
            "component blocks the selector denotes, for a FAB placed anywhere in any file) with readR_idx/list/slice and the FAB "
            "header codec law parse_canonB; the model is compared bit-for-bit with PlotfileCooker's indexing interface on "
            "thousands of (plotfile, field selector, level, box selector) cases per run, and the real results are compared with an "
            "independent oracle. Right level because the quantifier is all layouts x all selector forms.",
            "Box selection (int / slice with any step / index list / boolean mask) and level selection are the Lean model BoxSel.positions / BoxSel.level (C01.box_positions_in_level, box_list_order, box_mask), "
            "run by the driver on every case and compared with numpy's own indexing and with what the reader returned or refused; C01.selection_refuse_or_exact composes it with the field read into the whole "
            "pck[fields][level][boxes] statement (each selected box in the order requested, exactly that box's component blocks). numpy's fromfile / reshape(order='F') stay parameters."),
    "C02": ("Lean 4 header/level-header parser models + differential correspondence check",
            "Proof: C02.field_keys_distinct / field_index / field_first_occurrence (the exposed field table: distinct keys, i-th name under index i, "
            "first occurrences keep their name; field_table_distinct: names with positions when distinct), C02.global_header_parse_render / global_header_limit / "
            "global_header_limit_above (parse-after-render = identity for the global Header, recursive line/token parser: any number of fields, dimensions, levels, boxes; "
            "a limit l exposes the per-level tables cut after level l; a limit above the finest level is refused) and level_header_parse_render, with the hypothesis decided on every real "
            "header by the driver (global_header_hypothesis_decidable) and the renderer compared byte for byte with the headers written by plotgen and by every writing tool, C02.grids_are_cell_centres (linspace grids are the cell centres, over Rat), fab_header_codec, on the "
            "line/token model of PlotfileCooker.__init__/read_boxes/read_cell_headers (Header.parse, Taste.parseCellH); every exposed attribute is compared with an independent oracle's parse and "
            "with the Lean models for every opening mode (limits 0..finest+1, header_only on a directory holding only the Header, "
            "maxmins).", "Float tokens are kept verbatim by parser and renderer; their numeric value is the Lean layer F64 (decimalValue: exact rational of the text; mag / mag_strictMono: exact value and order of bit patterns; tokenOK: the bits Python reads are the correctly rounded double, C02.exposed_float_is_nearest_double), run on every float token of every generated header; the reader's attributes are compared with float(token) by the oracle, and Python's str(float) stays a parameter. Headers that are not a text of the renderer (tabs, several blanks between tokens, "
            "more level blocks than the stated finest level as in the shipped 2D asset) are outside the parse-after-render theorems; they are still covered by the differential comparison of the parser model."),
    "C03": ("Lean 4 completeness theorem of the whole validator (well-formed plotfile => reported good) + differential correspondence check",
            "Proof: C03.well_formed_accepted (Taste.tastePlt_complete: EVERY well-formed plotfile - header a text of the header renderer, every selected level a rendered level header plus "
            "binary files that are concatenations of canonical FABs of the announced sizes at the recorded offsets - is reported good by the validator model, for every number of fields / levels / boxes / files, "
            "every distribution and listing order of the boxes, every level limit within the header's levels and every combination of binary_headers / binary_shape), C03.certificate_sound (the executable "
            "well-formedness check pltWFB, evaluated by the driver on the bytes of every generated plotfile, implies the hypothesis), offset_order_unique (insertion by offset of any permutation of a strictly "
            "increasing list gives that list), built from the two parse-after-render theorems (global header, level header followed by further lines), Taste.shapeOK_complete (every well-formed binary file is accepted by the byte walk of mp_fun_shape), "
            "headersOK_entry, isLine_canonB, parse_canonB; the whole-plotfile validator model (Taste.tastePlt) is compared with "
            "Taster on every generated well-formed plotfile under all 16 option sets, limits and both modes.",
            "binary_data is the Lean model TasteData.levelOK (sequential scan, rows sorted by offset, np.isclose(equal_nan=True) over the exact values F64.ofBits of the bit patterns): C03.binary_data_accepted, "
            "compared with the real validator on every well-formed plotfile validated with binary_data and on row edits (both verdicts); boxes_coordinates is TasteCoords (exact rationals). numpy's floating-point evaluation of "
            "the isclose inequality itself is not modelled (the generated edits stay away from the band's edge)."),
    "C04": ("Lean 4 soundness theorem of the validator walk + corruption sweep as correspondence check",
            "Proof: C04.good_plotfile_layout (WHOLE plotfile: a good default verdict implies the global header parses and in every validated level the directory and level header exist, the level header parses, every named binary file is present, "
            "passes the header check and is a chain header line, payload of the announced size, canonical next header, ..., ending exactly at its end - every listed fault negates a conjunct), missing_level_rejected, "
            "C04.level_accepts / accepted_level_is_chain (acceptance of a level decomposes into: header parses, files present, header check and "
            "byte walk accept each file in offset order; hence each file is a chain), Taste.shapeOK_sound / go_sound (if the byte walk accepts a file then the file is a chain header-line, payload of the "
            "announced size, canonical next header, ... ending exactly at EOF) so each listed layout fault is the negation of a conjunct; "
            "every corruption operator x site (singly and in pairs) is run through Taster in both modes and through the Lean "
            "whole-plotfile model on identical bytes.", "Degenerate (negative-size) headers on the walk are a separate disjunct (NoDegenerate hypothesis)."),
    "C15": ("Lean 4 theorem on the sequential file scan + schedule exploration as correspondence check",
            "Proof: C15.level_iteration_perm (however the boxes are distributed over files, the chained per-file scans return a permutation of the level's boxes: each exactly once, "
            "finite), from Scan.scan_fileOf (the scan of a well-formed file returns the selected block of every FAB exactly once, in disk order, and "
            "stops); level iteration is run under several start orders of the per-file tasks and a real pool, compared as multisets with "
            "the stored boxes and, for single fields, element-wise with the model's scan.",
            "multiprocessing imap ordering contract assumed; OS scheduling only sampled with real pools. The on-demand iterator is the selection model BoxSel.positions followed by one read per box (C15.on_demand_order), "
            "compared with the boxes the real iterator delivers for every selector form."),
    "C20": ("Lean 4 theorem read_inside_header + corruption sweep with read-back",
            "Proof: C20.good_plotfile_entries (whole plotfile: a good default verdict implies that every box listed in every validated level has its binary file and, at its recorded position, a FAB header line naming "
            "exactly its index range with the plotfile's component count), ReaderR.read_inside_header (a recorded offset anywhere inside a FAB's header line whose remaining text still parses reads "
            "exactly that FAB's payload) on top of shapeOK_sound; every corrupted instance default validation accepts is read back in full "
            "and compared with the FAB whose header names the box's range.",
            "C20.junk_glued_to_header_is_ignored: bytes without white space glued in front of a FAB header line are part of its first token, which the shared header parse ignores (so that edit is accepted and read consistently). NoStrayHeader: payloads that spell a FAB header are not generated; instances with several candidate headers are counted, not judged."),
    "C05": ("Lean 4 theorem on the record-level colander model + differential correspondence check",
            "Proof: C05.kept_fields_rule (which fields are written, in which order: Names.select, compared with every real output) and C05.kept_positions (the reported source positions hold those very names), Writers.colander_data (for any distribution and order of boxes in the input files, entry i of the output level header "
            "points at a record that is box i and holds exactly the kept components, any payload type) with recAt_tells/scatter_get (offset "
            "re-mapping); C05.output_header_keeps_mesh / output_header_read_back (the global Header colander writes, as the executable writer model Header.rewriteOf applied to the reader model's parse of the input Header under the limit, "
            "has levels 0..limit and is read back as the new field table plus the input's time, domain bounds, cell sizes, grid sizes, steps and physical boxes cut after the limit); C05.level_header_rows_restricted (the line rewriter of update_cell_header keeps index ranges "
            "and file names, replaces the field count and offsets, and cuts EVERY min/max row down to the kept columns in the kept order - any number of boxes, fields, any selection); both writer models are compared byte for byte with every Header / Cell_H colander writes; "
            "outputs are parsed by the oracle, tasted, compared bit for bit with the input and offset for offset with the model, through the API and the console script.",
            "Python's str(float(token)) is a parameter of the header writer model (supplied per token by the harness; the mesh theorem is stated for tokens already in shortest form, which holds for every generated input and is counted)."),
    "C06": ("Lean 4 theorem on the record-level combine model + differential correspondence check",
            "Proof: C06.field_rule / field_names_distinct (which fields are written: the first input's selection first and unchanged, then the second's not already taken, no name twice - Names.combine, compared with the field list and "
            "source positions of every real output), Writers.combine_data / assemble_data (both pairing modes: each output record is the concatenation of the selected "
            "components of the two source boxes with the same index, for independent layouts); outputs compared bit for bit with both "
            "inputs and offset for offset with the model; C06.level_header_rows_assembled (every min/max row of the output level header is the picked columns of the first input's row followed by the picked columns of the second input's row for the same box; "
            "executable line rewriter CellHRewrite.combineLines) and C06.output_header_keeps_mesh / output_header_read_back (the global Header derives from the first input's by the writer model), both compared byte for byte with every written file; "
            "mismatched meshes must be refused before anything is written (API and console script with its exit status).",
            "The mesh comparison (__eq__) is the Lean model MeshEq.eq (level limit, box counts, np.allclose of the physical bounds over exact rationals, index ranges): C06.same_mesh_accepted / different_mesh_refused, "
            "compared with reader1 == reader2 on every generated pair, matched and mismatched; numpy's floating-point evaluation of the allclose inequality itself is not modelled."),
    "C07": ("Lean 4 theorems on the one-pixel column model (exact rationals) + per-pixel correspondence check",
            "Proof: Column.slice_initialised (for every position in the closed domain both samples of a pixel are written before the "
            "pixel is computed, whatever the finer levels hold), Column.slice_affine (affine data is reproduced exactly unless the two "
            "samples are isclose), lerp_affine/lerp_const, and the in-plane placement theorems (Grid.modelVal_eq_specVal, "
            "Cover.cover_finest); every pixel of every generated slice is compared with the Lean column model and an independent "
            "Python specification, with numpy.empty pre-filled with NaN as a taint for never-written reads.",
            "The slicing coordinates (normal, in-plane axes, default / refused / kept position) are the Lean model Slicing.coords (C07.default_position_is_centre, position_outside_refused, position_inside_kept), compared with what the tool accepted or refused for every position tried. Floats: model exact over Rat, implementation compared at rtol 1e-9; numpy.isclose bands are a modelling limit (positions are generated on dyadic offsets, never inside a band)."),
    "C08": ("Lean 4 theorems on the concrete covering-grid model + bit-for-bit correspondence check",
            "Proof: Grid.modelVal_eq_specVal (the repeat/reshape + slice-assign arithmetic puts at each fine cell the stored value of the "
            "coarse cell containing it), Grid.coverAt_last and Cover.cover_finest (after level-ordered overwrites every pixel holds the "
            "finest covering box's value), Cover.region_iff, repeat_reshape_index; C08.requested_fields / all_fields / unknown_field_refused (which components are read and under which names they are "
            "returned, the grid_level pseudo field and 'all': Names.mandolineIdx, compared with the keys of every real result); C08.coordinates_are_cell_centres (np.linspace(lo+dx/2, hi-dx/2, n) is the list of cell centres, "
            "over Rat; Coords.axis compared with every returned x / y array); outputs compared bit for bit with the oracle and the model, through the API and the console script.",
            "numpy repeat/reshape/slice assignment are modelled by their index arithmetic; coordinates are compared up to floating-point rounding (1e-12 of the domain size)."),
    "C10": ("Lean 4 theorems on the covering-grid model and commuting disjoint writes + completion-order exploration",
            "Proof: Grid.coverAt_last / Cover.cover_finest (covering grid), C10.any_arrival_order (any permutation of pairwise-disjoint region writes gives the same array) "
            "and the regenerated obligation that imap_unordered is only used in whip; Probe.write_comm (writes to disjoint regions commute, so the "
            "array does not depend on the completion order of the per-file tasks within a level); whip's CLI is run in-process under "
            "every completion order (<= 4 files) and compared cell for cell with the oracle and the model for both dtypes and limits.",
            "The float32 conversion is the Lean test F32.castOK (correctly rounded, ties to even, overflow to infinity, NaN kept; C10.cast_is_correctly_rounded), run on a sample of some thousand cells of every single-precision grid saved; other dtypes are compared with numpy only."),
    "C09": ("Lean 4 theorem on pestle's covering masks (3-D) + exact rational correspondence check",
            "Proof: C09.as_called (volume_integral as called - all components of every box, the field looked up by name, volFrac used iff requested and present, levels cut at the limit, the workers' "
            "sum(data[mask]*vf[mask]): the result is the sum over the uncovered cells of levels 0..limit of value x cell volume x volume fraction; limit_levels, unknown_field_is_an_error, weighted_sum), on top of C09.integral_eq_sum_over_uncovered (for any number of levels and any mix of box sizes aligned to the resolution, the model's integral IS the sum over "
            "the cells not covered by a finer selected level of value x cell volume), from Pestle.mask_correct (for every even occupancy resolution to which all box faces are aligned the mask is defined and marks "
            "exactly the cells no finer box covers, three dimensions) with aligned_lo_iff/aligned_hi_iff/mask_extent/factor_eq/maskEntry_eq; "
            "the integral is compared with the exact rational sum over uncovered cells (oracle) and with the Lean model's integral and "
            "specification on mixed-size, partially refined, anisotropic meshes for every limit and volfrac setting.",
            "Floating-point summation compared at rtol 1e-9 (the theorem is over Rat). The console script's forwarding of its options is compared on the real code (printed value) only."),
    "C11": ("Lean 4 theorem on the record-level chef model + differential correspondence check with independent recipe evaluation",
            "Proof: C11.field_rule (kept-that-exist then the recipe's names, compared as a set with every real output), Writers.chef_data (entry i of chef's level header points at a record that is box i = kept components then the recipe's, for "
            "any input layout; disk-order visiting via assemble_data_ord / goodOrder_offset); outputs parsed by the oracle, tasted, every "
            "component compared under its own name with the recipe evaluated independently (Cantera per cell for the built-ins), kept fields "
            "bit for bit, min/max rows with the written extrema, layout offset for offset with the model; C11.output_header_keeps_mesh / output_header_read_back (the global Header chef writes derives from the input's by the writer model Header.rewriteOf, "
            "compared byte for byte, and is read back as the input's mesh metadata); serial and pool modes.",
            "The recipe is a parameter of the theorem; Cantera is exercised on the real code only. The min / max rows chef writes are compared, value for value, with the extrema the Lean model computes from the written bytes "
            "(TasteData.fabRows over F64.ofBits; C11.extrema_are_true / extrema_nan say what those are); the text of the tokens is Python's formatting."),
    "C17": ("Lean 4 theorem on the record-level chk2plt model + differential correspondence check on synthetic checkpoints",
            "Proof: Writers.chk_data (each output record is box i's interior state components followed by that box's own gradp and I_R "
            "components, for independent layouts of every data subset), the regenerated state-vector tables (state_layout, "
            "output_names_match_state_order), C17.field_names_align / field_count (the field list - state, then gradient, then rates - lines up group by group with the components of chk_data's record; Names.chkFields compared with every written Header); outputs (API and console script, species from a list or a reference plotfile) parsed by the oracle, tasted with box coordinates, compared with the checkpoint's "
            "interior values, and the checkpoint tree is hashed before and after.",
            "Ghost stripping and flooring are numpy slicing/division, compared on the real output; the written min / max rows are compared with the extrema the Lean model computes from the written bytes (C17.extrema_are_true); the checkpoint Header reading is the Lean model ChkHeader.parse (C17.grid_size_is_largest_upper_index, time_read_partial), compared with the real reader on every generated checkpoint; one known finding (integral time values), whose witness is proved in Lean (C17.integral_time_not_read)."),
    "C18": ("Lean 4 theorem on the two-column table layout + stdout round-trip correspondence check",
            "Proof: MenuR.shown_covers (the repaired two-column table shows every field exactly once, all n) and the pinned counterexample; "
            "C18.extrema_over_all_levels (the all-level entries - reduction of the per-level reductions with numpy's NaN / inf semantics - are the extrema over every box of every level) and nan_is_shown, "
            "on the executable Extrema model whose entries are compared, formatted, with every printed table; "
            "stdout of minuterie and of every menu mode is parsed back and compared with the header tables (oracle) and the layout model; "
            "marinated readers are unpickled and compared with a fresh reader.",
            "Formatting to 3 significant digits and pickle are parameters exercised on the real code. The classification (regular-expression subset of the database, first-match loop with its else branch, case-insensitive sort, species list, units column) is the Lean model MenuClass "
            "(C18.listing_covers_once), run on the database of the module under test and compared with the printed listings; names outside ASCII and patterns outside the subset are left to the oracle."),
    "C19": ("Lean 4 theorems on point-to-index conversion + executable matching model as correspondence check",
            "Proof: C19.query_interior_centre (FULL statement on the model: at the centre of a cell c of box B of level L, one cell away from B's faces, the other boxes of the level separated from B "
            "along some axis and no finer box touching the cell, Point.query - the model of LevelDataSelector.__call__ up to the interpolation call - takes the single-box branch for (L, B) with local index c - lo(B); "
            "any number of levels and boxes, any origin, any positive cell sizes), single_box_case (the decision part from the three match lists), "
            "Point.pointIdxR_centre / pointLocal_centre (the centre of cell i maps to local index i - lo for any origin and cell size) and "
            "pointIdxP_wrong (the pinned formula is wrong for every non-zero origin); sampled interior cell centres are queried and compared "
            "with the stored values and with the Lean matching model (single-box case, box, local index).",
            "scipy map_coordinates at integer indices is a parameter; only CASE 1 (single box) is in the property and the model."),
    "C16": ("Lean 4 theorems on chunk arithmetic and the column model (truncated levels) + per-cell correspondence check",
            "Proof: C16.each_box_once / shared_face_upper (through every in-plane cell, for boxes stacked face to face along the normal and every plane position in the closed domain - inside a box, on a shared face, on a domain face - the selection test of write_cell_data_at_level lists exactly one box; the executable test Meets.meets is compared with the boxes every written slice lists), C16.every_box_written_once (for all n and nfiles the chunks concatenate to all n boxes, in order), Chunks.chunks_le (the repaired chunk size never needs more files than names), Column.slice_initialised / slice_affine applied "
            "to the configuration truncated to levels 0..l (the data written for level l), the regenerated FAB header literal "
            "(mandolineHeader_eq_utilsHeader, without which taste rejects the slice) and threshold; every cell of every written box is compared "
            "with the Python specification and the Lean column model, the listed boxes with the footprints the plane meets, outputs are tasted "
            "with box coordinates, incl. a slice above the one-megabyte threshold.",
            "The 2D Header is the executable writer model Header.slice2D applied to the reader model's parse of the 3D input header (C16.slice_header_content: two dimensions, the input's time, in-plane bounds / cell sizes / grid sizes, per level the in-plane bounds of the selected boxes; slice_header_read_back), compared byte for byte with every written Header; Python's str(float) is a parameter of that model; interpolated values at rtol 1e-9; the written min / max rows are compared with the extrema the Lean model computes from the written bytes (C16.extrema_are_true)."),
    "C12": ("Lean 4 theorems on interleavings of tasks with disjoint path sets + exhaustive order exploration with a controlled pool",
            "Proof: C12.any_interleaving / interleavings_agree (Sched.mergeAll_run), task_outputs_distinct (per-file output paths are injective in the basename), "
            "unordered_results (any arrival order of disjoint writes), unordered_delivery_only_in_whip (regenerated from the sources); Sched.merge_run and Sched.mergeAll_run (any interleaving of any number of tasks touching pairwise disjoint paths ends in the "
            "same file system as running them one after the other); the hypothesis is audited on the real code (sys.addaudithook: write and read "
            "sets of the tasks of every pool call are pairwise disjoint) and every tool is run under every start order (<= 4 tasks per call, "
            "rotations beyond) and completion order, in serial mode, and with real pools of 1/2/3/16 workers, comparing trees byte for byte and "
            "return values bit for bit.",
            "The model cannot exhibit OS-level scheduling or fork-time global state (chef's module globals); those are only sampled with real pools. "
            "The contract of map/imap (results in submission order) is assumed."),
    "C13": ("Lean 4 theorems on default output paths (POSIX path model) + write audit and fault injection at every write-side call",
            "Proof: C13.concat_not_inside / sibling_not_inside / sibling_ne_iff (every repaired default output is a sibling of the input, never inside it), "
            "C13.fault_propagates (effects model: a fault at any write-side call raises when no write sits in a swallowing try block) with the regenerated "
            "obligation no_swallowed_writes_in_source (AST of every module, every run); Paths.concat_not_inside (normpath(p)+suffix is never inside p: chef, marinate) and concat_inside_trailing_slash (the pinned "
            "concatenation is, for every input written with a trailing slash); on the real code every invocation form is run with all inputs "
            "hashed before and after, every write seen by sys.addaudithook checked against the allowed roots, and an OSError injected at every "
            "open-for-write / write / mkdir call of the run, which must surface as an exception or non-zero exit.",
            "Partial: the claim about arbitrary I/O faults rests on the enumeration over the real code (Python-level write calls; numpy/zipfile-internal writes are not intercepted); crash points between calls are not modelled."),
    "C14": ("Lean 4 per-tool data theorems composed along operation sequences + pipeline exploration against pure operations",
            "Proof: C14.pipeline_refines (for EVERY finite sequence of strain / cook / combine operations the contents of the result equal the composed pure operations, "
            "by induction from step_refines), strain_all_id, cook_then_combine_back (the two corollaries the property names), on top of "
            "Writers.colander_data, combine_data, chef_data, chk_data (each tool's output record for box i is the pure operation on box i); "
            "C14.written_headers_read_back (the global header and the level header a writer prints are read back as exactly the content they were printed from; the global header of every "
            "intermediate result is checked to be a text of the Lean renderer satisfying the theorem's hypothesis); "
            "pipelines over {colander, combine with sibling/ancestor, chef} (all sequences of length <= 2 over kinds, sampled to length 4, plus "
            "chk2plt sources) are run on disk with every intermediate tasted, parsed by the oracle and compared bit for bit with the composed pure "
            "operations; the two named corollaries are explicit cases.",
            "Record level; C14.pipeline_refines_levels lifts the induction to whole plotfiles (level limits cut levels, combine refuses other shapes); the float tokens of rewritten headers (str(float)) are compared by the oracle only."),
}

NOT_YET = {}


def main():
    props = [json.loads(l) for l in open(os.path.join(HERE, "properties.jsonl"))]
    checks, na = [], []
    for p in props:
        pid = p["id"]
        if pid in CLAIMED:
            tech, text, note = CLAIMED[pid]
            checks.append({
                "property_id": pid,
                "quick_cmd": f"./check {pid} --tier quick",
                "thorough_cmd": f"./check {pid} --tier thorough",
                "evidence_file": f"/verif/evidence/{pid}.json",
                "replay_cmd_template": f"./check {pid} --replay {{path}}",
                "engine": "amrk-lean",
                "level_claimed": {"category": "proof", "text": text, "design_ref": f"DESIGN.md section 7, {pid}"},
                "level_note": note + " " + NOTE_COMMON,
                "technique": tech,
            })
        else:
            na.append({"property_id": pid,
                       "reason": NOT_YET.get(pid, "not claimed yet: the check for this property is still being built "
                                                  "(the technique applies; see DESIGN.md section 7)")})
    man = {
        "version": 1,
        "setup_cmd": "/venv/bin/python -m harness.setup",
        "hooks": {
            "guard": "AMR_KITCHEN_VERIF",
            "enable": "no instrumentation in /repo is needed: pools, numpy.empty, open/os calls are substituted from the harness process; the guard name is reserved",
            "baseline_off_cmd": "cd /repo && /venv/bin/python -m pytest -ra -q -p no:cacheprovider --timeout=900 --continue-on-collection-errors",
            "source_commits": [],
            "add_only": True,
        },
        "engines": [{"name": "amrk-lean", "path": "/verif/lean",
                     "serves_properties": [c["property_id"] for c in checks],
                     "kind_free_text": "Lean 4 model (AmrK) with property theorems, compiled JSON-lines driver, Python correspondence harness in /verif/harness"}],
        "checks": checks,
        "notes": "Every check: regenerate constants from /repo, lake build, grep for escape hatches, #print axioms audit, corpus, generated cases through real code / Lean model / oracle, verdict protocol of DESIGN.md section 6. Known findings in KNOWN_FINDINGS.txt.",
        "not_applicable": na,
    }
    with open(os.path.join(HERE, "MANIFEST.json"), "w") as f:
        json.dump(man, f, indent=1)
    print(f"{len(checks)} checks, {len(na)} not claimed")


if __name__ == "__main__":
    main()
