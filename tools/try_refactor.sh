#!/bin/bash
# usage: tools/try_refactor.sh <DIR> <R1|R2|R3> checks...  - applies a behaviour-preserving rewrite to /repo and runs the checks (every one must exit 0)
D=$1; X=$2; shift 2
cd /repo && git apply /tmp/mut/${D}_out/$X.diff || { echo "REPO-APPLY-FAIL"; exit 7; }
for c in "$@"; do
  s=$(date +%s)
  /verif/check $c --tier quick > /tmp/mut/${D}_${X}_check_$c.log 2>&1; rc=$?
  e=$(date +%s)
  echo "  $D-$X check $c rc=$rc $((e-s))s $(grep -c VIOLATION /tmp/mut/${D}_${X}_check_$c.log) violation lines; $(grep VIOLATION /tmp/mut/${D}_${X}_check_$c.log | head -1)"
done
git -C /repo checkout -- .
