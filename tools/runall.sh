#!/bin/bash
# usage: tools/runall.sh <tier> <seed...>   - runs every claimed check, prints id, exit code, seconds
tier=$1; shift
for seed in "$@"; do
  for p in $(python3 -c "import json;print(' '.join(c['property_id'] for c in json.load(open('/verif/MANIFEST.json'))['checks']))"); do
    s=$(date +%s.%N)
    VERIF_SEED=$seed /verif/check $p --tier $tier > /tmp/runall_$p.log 2>&1
    rc=$?
    e=$(date +%s.%N)
    printf "%s seed=%s rc=%s %.1fs %s\n" $p $seed $rc $(echo "$e - $s" | bc) "$(grep -c VIOLATION /tmp/runall_$p.log)"
  done
done
