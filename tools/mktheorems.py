#!/usr/bin/env python3
"""regenerates lean/theorems.json: the property theorems of lean/AmrK/Properties/Cnn.lean (every `theorem` of namespace Cnn)"""
import re, json, os
HERE = os.path.dirname(os.path.dirname(os.path.abspath(__file__)))
out = {}
for n in range(1, 21):
    pid = f"C{n:02d}"
    src = open(os.path.join(HERE, "lean", "AmrK", "Properties", pid + ".lean")).read()
    src = re.sub(r"/-(?:(?!/-|-/).|\n)*?-/", "", src, flags=re.S)
    out[pid] = [f"{pid}.{m}" for m in re.findall(r"^theorem\s+([A-Za-z0-9_'.]+)", src, flags=re.M)]
json.dump(out, open(os.path.join(HERE, "lean", "theorems.json"), "w"), indent=1)
print({k: len(v) for k, v in out.items()}, sum(len(v) for v in out.values()))
