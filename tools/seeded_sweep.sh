#!/bin/bash
# applies every seeded change to /repo in turn, runs the checks named in its meta.json, reverts; prints one line per change
cd /verif
for d in ${@:-seeded/*/}; do
  d=${d%/}/
  id=$(basename $d)
  checks=$(python3 -c "import json;print(' '.join(json.load(open('$d/meta.json'))['detected_by']))")
  git -C /repo apply /verif/$d/patch.diff || { echo "$id APPLY-FAIL"; continue; }
  res=""
  for c in $checks; do
    ./check $c --tier quick > /tmp/sweep_$id_$c.log 2>&1; rc=$?
    res="$res $c:rc=$rc"
  done
  git -C /repo checkout -- .
  echo "$id$res"
done
