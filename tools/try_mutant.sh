#!/bin/bash
# usage: tools/try_mutant.sh <ID> <A|B> [checks...]  - confirms a seeded change in its scratch worktree, then runs the checks on /repo with it applied
ID=$1; X=$2; shift 2
WT=/tmp/mut/$ID; OUT=/tmp/mut/${ID}_out
CHECKS=${@:-$ID}
cd $WT || exit 9
git checkout -q -- . ; git clean -fdq
( cd $WT && /venv/bin/python $OUT/demo_$X.py > /tmp/mut/${ID}_${X}_clean.log 2>&1 ); clean_rc=$?
git apply $OUT/$X.diff || { echo "APPLY-FAIL"; exit 8; }
( cd $WT && /venv/bin/python $OUT/demo_$X.py > /tmp/mut/${ID}_${X}_mut.log 2>&1 ); mut_rc=$?
suite=$(cd $WT && /venv/bin/python -m pytest -q -p no:cacheprovider --timeout=900 --deselect test/test_chk2plt.py::Testchk2plt::test_chk2plt 2>&1 | grep -E "passed|failed" | tail -1)
rm -rf $WT/test/plt_tmp
git checkout -q -- . ; git clean -fdq
echo "$ID-$X demo: clean=$clean_rc mutated=$mut_rc suite: $suite"
# now on /repo
cd /repo && git apply $OUT/$X.diff || { echo "REPO-APPLY-FAIL"; exit 7; }
for c in $CHECKS; do
  s=$(date +%s)
  /verif/check $c --tier quick > /tmp/mut/${ID}_${X}_check_$c.log 2>&1; rc=$?
  e=$(date +%s)
  echo "  check $c rc=$rc $((e-s))s $(grep -c VIOLATION /tmp/mut/${ID}_${X}_check_$c.log) violation lines; $(grep VIOLATION /tmp/mut/${ID}_${X}_check_$c.log | head -1)"
done
git -C /repo checkout -- .
