#!/bin/bash
# applies every behaviour-preserving rewrite to /repo in turn, runs the checks named in its meta.json (all must exit 0), reverts
cd /verif
for d in refactors/*/; do
  id=$(basename $d)
  checks=$(python3 -c "import json;print(' '.join(json.load(open('$d/meta.json'))['checks']))")
  git -C /repo apply /verif/$d/patch.diff || { echo "$id APPLY-FAIL"; continue; }
  res=""
  for c in $checks; do
    ./check $c --tier quick > /tmp/rsweep_${id}_$c.log 2>&1; rc=$?
    res="$res $c:rc=$rc"
  done
  git -C /repo checkout -- .
  echo "$id$res"
done
