"""MANIFEST.setup_cmd: build the Lean project (model, proofs, driver) from files on disk."""
import subprocess, sys
from . import translate, leanio


def main():
    missing = translate.regenerate()
    if missing:
        print("translator anchors missing:", missing)
    p = subprocess.run(["lake", "build"], cwd=leanio.LEAN)
    sys.exit(p.returncode)


if __name__ == "__main__":
    main()
