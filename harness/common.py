"""Shared setup for every checker: locate the repository under test, import it from there,
silence the tools' progress output, provide the per-run context."""
import os, sys, io, json, time, random, tempfile, shutil, contextlib, hashlib, signal

VERIF = os.path.dirname(os.path.dirname(os.path.abspath(__file__)))
REPO = os.path.abspath(os.environ.get("AMRK_REPO", "/repo"))

# the repository under test is imported from its *current working tree*
if REPO not in sys.path:
    sys.path.insert(0, REPO)
os.environ.setdefault("MPLBACKEND", "Agg")
os.environ.setdefault("TQDM_DISABLE", "1")
# reserved guard for instrumentation in /repo (none is needed so far)
os.environ.setdefault("AMR_KITCHEN_VERIF", "1")


def repo_check():
    import amr_kitchen
    got = os.path.dirname(os.path.dirname(os.path.abspath(amr_kitchen.__file__)))
    if os.path.realpath(got) != os.path.realpath(REPO):
        raise RuntimeError(f"amr_kitchen imported from {got}, expected {REPO}")
    return got


class CaseTimeout(Exception):
    pass


@contextlib.contextmanager
def alarm(seconds):
    """per-case alarm: a hang is a failing case, not a harness failure"""
    def handler(signum, frame):
        raise CaseTimeout(f"case exceeded {seconds}s")
    old = signal.signal(signal.SIGALRM, handler)
    signal.alarm(int(seconds))
    try:
        yield
    finally:
        signal.alarm(0)
        signal.signal(signal.SIGALRM, old)


@contextlib.contextmanager
def quiet():
    """capture stdout/stderr of the tools (they print timings and progress bars)"""
    out, err = io.StringIO(), io.StringIO()
    with contextlib.redirect_stdout(out), contextlib.redirect_stderr(err):
        yield out, err


@contextlib.contextmanager
def chdir(path):
    old = os.getcwd()
    os.chdir(path)
    try:
        yield
    finally:
        os.chdir(old)


def canon_hash(obj):
    return hashlib.sha256(json.dumps(obj, sort_keys=True, default=str).encode()).hexdigest()[:16]


class Ctx:
    """What a property checker gets: tier, seed, rng, scratch directory."""
    def __init__(self, pid, tier, seed, replay=None):
        self.pid = pid
        self.tier = tier
        self.seed = seed
        self.replay = replay
        self.rng = random.Random(f"{pid}-{seed}")
        self.t0 = time.time()
        self.scratch = tempfile.mkdtemp(prefix=f"amrk-{pid}-")
        self._n = 0

    def newdir(self, tag="p"):
        self._n += 1
        return os.path.join(self.scratch, f"{tag}{self._n}")

    def via_symlink(self, path):
        """another spelling of the directory `path` = D/name: S/lnk/../name where S/lnk is a symbolic link to a directory
        inside D (the operating system resolves `lnk/..` to D; collapsing the `..` as text gives S/name, which does not exist)"""
        d, name = os.path.split(os.path.normpath(path))
        self._n += 1
        t = os.path.join(d, f".deep{self._n}"); os.makedirs(t, exist_ok=True)
        s = os.path.join(self.scratch, f"lnk{self._n}"); os.makedirs(s)
        os.symlink(t, os.path.join(s, "lnk"))
        return os.path.join(s, "lnk", "..", name)

    def long_dir(self, tag="long"):
        """a fresh directory whose path is more than 160 characters long"""
        self._n += 1
        return os.path.join(self.scratch, f"{tag}{self._n}", "a_directory_name_of_some_length_" * 2, "and_another_one_below_it_" * 2, "plt00010")

    def cleanup(self):
        shutil.rmtree(self.scratch, ignore_errors=True)

    @property
    def quick(self):
        return self.tier == "quick"

    def elapsed(self):
        return time.time() - self.t0
