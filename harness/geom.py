"""Shared by the geometry tools (mandoline, whip, pestle, point queries): covering grids from a spec,
integer tags, NaN-tainted numpy.empty."""
import contextlib
import numpy as np
from . import plotgen


def covering_from_truth(spec, truth, k, L):
    """(values, level) on the level-L grid for field k: finest covering box wins"""
    nd = spec["ndims"]
    shape = [g * 2 ** L for g in spec["grid0"]]
    vals = np.full(shape, np.nan)
    lvl = np.full(shape, -1, dtype=int)
    for lv in range(L + 1):
        f = 2 ** (L - lv)
        for bid, (lo, hi) in enumerate(spec["levels"][lv]):
            arr = truth[(lv, bid)][..., k]
            for d in range(nd):
                arr = np.repeat(arr, f, axis=d)
            sl = tuple(slice(lo[d] * f, (hi[d] + 1) * f) for d in range(nd))
            vals[sl] = arr
            lvl[sl] = lv
    return vals, lvl


def model_levels(spec, truth, k, L):
    """levels for the driver's `cover` op (integer-valued payloads only)"""
    out = []
    for lv in range(L + 1):
        bs = []
        for bid, (lo, hi) in enumerate(spec["levels"][lv]):
            a = truth[(lv, bid)][..., k]
            bs.append({"lo": lo, "hi": hi, "data": [int(x) for x in a.flatten(order="F")]})
        out.append(bs)
    return out


@contextlib.contextmanager
def tainted_empty():
    """numpy.empty pre-filled with NaN (floats) so that a pixel computed from a never-written cell is NaN"""
    real = np.empty

    def empty(shape, dtype=float, *a, **k):
        arr = real(shape, dtype, *a, **k)
        if np.issubdtype(arr.dtype, np.floating):
            arr.fill(np.nan)
        elif np.issubdtype(arr.dtype, np.integer):
            arr.fill(-(2 ** 31))
        return arr
    np.empty = empty
    try:
        yield
    finally:
        np.empty = real
