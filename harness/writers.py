"""Shared by the copy tools (colander, combine, chef, chk2plt): record-level view of a plotfile
for the Lean writer models, comparison of an output plotfile with expectations."""
import os
import numpy as np
from . import oracle, plotgen


def canon_len(lo, hi):
    return len(plotgen.fab_header(lo, hi, 0))


def level_records(P, tags_of=None):
    """per level, per box: the InBox record of the Lean writer models from an oracle parse `P`
    (P['levels'][lv] has idx, fab, data).  comps = one integer tag per component (its index)."""
    out = []
    nf = len(P["fields"])
    for lev in P["levels"]:
        boxes = []
        for b, ((lo, hi), (fname, off)) in enumerate(zip(lev["idx"], lev["fab"])):
            ncells = int(np.prod([h - l + 1 for l, h in zip(lo, hi)]))
            hdr_len = len(plotgen.fab_header(lo, hi, nf))
            boxes.append({"file": fname, "offset": off, "ncells": ncells, "hdr_len": hdr_len,
                          "canon_len": canon_len(lo, hi),
                          "comps": list(range(nf)) if tags_of is None else tags_of(lev, b)})
        out.append(boxes)
    return out


def same_mesh_meta(Pin, Pout, nlev, what):
    """time, geometry, cell sizes, boxes of the output equal the input's (levels 0..nlev-1)"""
    bad = []
    if Pout["finest"] != nlev - 1:
        bad.append(f"{what}: output has levels 0..{Pout['finest']}, expected 0..{nlev - 1}")
        return bad
    if Pout["ndims"] != Pin["ndims"]: bad.append(f"{what}: ndims")
    if Pout["time"] != Pin["time"]: bad.append(f"{what}: time {Pout['time']} != {Pin['time']}")
    if Pout["lo"] != Pin["lo"] or Pout["hi"] != Pin["hi"]: bad.append(f"{what}: domain bounds")
    # a valid header says the step of each level twice (the step-number line and the level's own block): the two agree in
    # the output when they agree in the input
    if Pin.get("level_steps") == Pin.get("steps") and "level_steps" in Pout and \
            any(Pout["level_steps"][lv] != Pout["steps"][lv] for lv in range(min(nlev, len(Pout["steps"])))):
        bad.append(f"{what}: the level blocks of the output header give steps {Pout['level_steps']} but its step-number line "
                   f"says {Pout['steps']}")
    for lv in range(nlev):
        if Pout["dx"][lv] != Pin["dx"][lv]: bad.append(f"{what}: cell sizes at level {lv}")
        if Pout["grid"][lv] != Pin["grid"][lv]: bad.append(f"{what}: grid size at level {lv}")
        if Pout["levels"][lv]["pboxes"] != Pin["levels"][lv]["pboxes"]: bad.append(f"{what}: physical boxes at level {lv}")
        if Pout["levels"][lv]["idx"] != Pin["levels"][lv]["idx"]: bad.append(f"{what}: index ranges at level {lv}")
    return bad


def rows_equal(a, b):
    a = np.asarray(a, dtype=float); b = np.asarray(b, dtype=float)
    return a.shape == b.shape and bool(np.all((a == b) | (np.isnan(a) & np.isnan(b))))


def level_header_matches_model(path, P, leanio):
    """the FabOnDisk part of every level header of a written plotfile equals the Lean renderer's text
    (up to the blank line before the min/max tables); returns the list of levels that differ"""
    reqs = []
    for lev in P["levels"]:
        reqs.append({"op": "render_cellh", "nfields": len(P["fields"]),
                     "rows": [{"lo": lo, "hi": hi, "file": f, "offset": o} for (lo, hi), (f, o) in zip(lev["idx"], lev["fab"])]})
    bad = []
    for lv, (lev, m) in enumerate(zip(P["levels"], leanio.driver(reqs))):
        text = open(os.path.join(path, lev["cdir"], "Cell_H")).read()
        if not text.startswith(m["text"]):
            bad.append(lv)
    return bad


def header_request(text):
    """the content of a global Header text as the driver's `render_header` request (tokens verbatim, trailing
    whitespace of the geometry / ratio / grid / step / cell-size lines kept per line); None when the text does not
    have the line structure at all"""
    L = text.split("\n")
    try:
        nv = int(L[1]); names = L[2:2 + nv]; p = 2 + nv
        nd = int(L[p]); nl = int(L[p + 2]) + 1
        tr = lambda s: s[len(s.rstrip()):]
        grid = L[p + 6].split()
        grid_hi = [[int(x) for x in t.strip("()").split(",")] for t in grid[1::3]]
        q = p + 8 + nl
        cur = q + 2
        levels = []
        for lv in range(nl):
            a = L[cur].split(); nb = int(a[1])
            boxes = [[L[cur + 2 + b * nd + d].split() for d in range(nd)] for b in range(nb)]
            pth = L[cur + 2 + nb * nd]
            levels.append({"boxes": boxes, "time": a[2], "step": L[cur + 1], "dir": pth.split("/")[0], "tail": "/".join(pth.split("/")[1:])})
            cur += 3 + nb * nd
        return {"op": "render_header", "version": L[0], "names": names, "ndims": nd, "time": L[p + 1],
                "geo_lo": L[p + 3].split(), "geo_hi": L[p + 4].split(), "factors": [int(x) for x in L[p + 5].split()],
                "grid_hi": grid_hi, "steps": [int(x) for x in L[p + 7].split()], "dx": [L[p + 8 + k].split() for k in range(nl)],
                "coord": L[q], "trails": [tr(L[p + 3 + k]) for k in range(5)], "dx_trails": [tr(L[p + 8 + k]) for k in range(nl)],
                "levels": levels}
    except (ValueError, IndexError):
        return None


def global_header_theorem_applies(path, leanio):
    """Is the Header of the plotfile at `path` exactly the text the Lean renderer prints for its content, and does that
    content satisfy the executable hypothesis of `Header.parse_render` (`HData.goodB`)?  Then the theorem says the model
    of the reader returns exactly that content.  Returns None when it applies, otherwise what does not."""
    text = open(os.path.join(path, "Header"), newline="").read()
    req = header_request(text)
    if req is None:
        return "the header does not have the line structure of the renderer"
    m = leanio.driver([req])[0]
    if "hex" not in m:
        return f"driver: {m.get('status')}"
    if bytes.fromhex(m["hex"]) != text.encode():
        return "the header text differs from the Lean renderer's text for the same content"
    if not m.get("good"):
        return "the header content does not satisfy the hypothesis of the parse-after-render theorem"
    if m.get("parse") != "ok":
        return f"the model of the reader does not accept the rendered text ({m.get('parse')})"
    return None


def output_header_matches_rewrite(inp, out, limit, names, tool, leanio, rep=None):
    """Is the Header a tool wrote at `out` exactly the text the Lean writer model (`Header.rewriteOf`, fed with the reader
    model's parse of the input Header under the level limit, the output names, and Python's str(float(token)) for the
    float tokens) prints - and does it pass the executable hypothesis of `output_header_read_back`?  Returns None when
    it does, otherwise what does not."""
    text = open(os.path.join(inp, "Header"), newline="").read()
    req0 = header_request(text)
    if req0 is None:
        return "the input header does not have the line structure of the renderer"
    floats = []
    for t in set(text.split()):
        try:
            floats.append([t, str(float(t))])
        except ValueError:
            pass
    m = leanio.driver([{"op": "rewrite_header", "hex": text.encode().hex(), "limit": limit, "names": list(names),
                        "coord": req0["coord"], "floats": floats, "tool": tool}])[0]
    if m.get("status") != "ok":
        return f"the reader model does not accept the input header ({m.get('status')}: {m.get('why')})"
    if bytes.fromhex(m["hex"]) != open(os.path.join(out, "Header"), "rb").read():
        return "the written header differs from the text of the Lean writer model for the same input header"
    if not m.get("good"):
        return "the written header does not satisfy the hypothesis of the read-back theorem"
    if rep is not None and all(a == b for a, b in floats if any(c in a.lower() for c in ".en")):
        rep.count("header-float-tokens-in-shortest-form")       # then `output_header_keeps_mesh` (fl = id) applies as stated
    return None


def level_headers_match_rewrite(inp, out, Q, kept, leanio, inp2=None, kept2=None):
    """Is every Cell_H of the output exactly the text the Lean line rewriter derives from the input's Cell_H (colander:
    `CellHRewrite.rewrite` with the kept columns and the output's offsets; combine: `CellHRewrite.combine` with the two
    inputs' level headers and picked columns)?  Returns the list of levels that differ."""
    reqs = []
    for lv, lev in enumerate(Q["levels"]):
        t1 = open(os.path.join(inp, lev["cdir"], "Cell_H"), "rb").read()
        offs = [o for _, o in lev["fab"]]
        if inp2 is None:
            reqs.append({"op": "rewrite_cellh", "hex": t1.hex(), "kept": list(kept), "offsets": offs})
        else:
            t2 = open(os.path.join(inp2, lev["cdir"], "Cell_H"), "rb").read()
            reqs.append({"op": "combine_cellh", "hex1": t1.hex(), "hex2": t2.hex(), "k1": list(kept), "k2": list(kept2), "offsets": offs})
    bad = []
    for lv, (lev, m) in enumerate(zip(Q["levels"], leanio.driver(reqs))):
        real = open(os.path.join(out, lev["cdir"], "Cell_H"), "rb").read()
        if m.get("status") != "ok" or bytes.fromhex(m["hex"]) != real:
            bad.append(lv)
    return bad
