"""C04 - taste rejects missing, truncated, shifted or inconsistent plotfile data.
The sweep below is shared with C20 (whatever taste accepts, the reader reads consistently)."""
import os, re
from .. import plotgen, tastelib, leanio
from ..common import quiet

RULE = ("case = (generated well-formed plotfile spec, list of 1 or 2 corruption operators at enumerated sites, level "
        "limit); operators: remove/truncate/extend binary file, insert/delete payload bytes at start/middle/end of each FAB, "
        "FAB header nfields+-1 / index shift / shape change / garbling / whitespace, level-header entry deleted / garbled / "
        "other file / missing file / offset moved (inside header, into payload, before header, past EOF), box line deleted / "
        "garbled / index mismatch, missing level header or directory, field-count and box-count lines, physical box bounds "
        "(with coordinate validation); every instance validated in failing and non-failing mode, compared with the Lean "
        "whole-plotfile validator model, and read back completely when accepted; every instance is non-trivial (a fault or "
        "edit is applied); distinct = distinct (spec, operators, limit)")


def header_bound_ops(tree, spec):
    """edits of physical box bounds in the global Header (for boxes_coordinates validation)"""
    lines = tree["Header"].decode().split("\n")
    out = []
    nd = spec["ndims"]
    # locate the first box line of each level: after the "lv n time" + step lines
    i = 2 + len(spec["fields"]) + 8 + len(spec["levels"]) + 2
    for lv, boxes in enumerate(spec["levels"]):
        i += 2
        for b in range(len(boxes)):
            for d in range(nd):
                lo, hi = lines[i].split()
                dx = spec["dx0"][d] / 2 ** lv
                if b < 2:
                    out.append(({"op": "line_set", "file": "Header", "line": i, "text": f"{float(lo) + dx!r} {hi}"}, lv, True, "bounds-lo"))
                    out.append(({"op": "line_set", "file": "Header", "line": i, "text": f"{lo} {float(hi) - dx / 2!r}"}, lv, True, "bounds-hi"))
                    out.append(({"op": "line_set", "file": "Header", "line": i, "text": f"{lo}   {hi} "}, lv, None, "bounds-whitespace"))
                    # bounds that are no numbers of the mesh at all (comparisons with NaN are false both ways)
                    out.append(({"op": "line_set", "file": "Header", "line": i, "text": f"{['nan', '-nan', 'NaN'][(b + d) % 3]} {hi}"}, lv, True, "bounds-nan-lo"))
                    out.append(({"op": "line_set", "file": "Header", "line": i, "text": f"{lo} nan"}, lv, True, "bounds-nan-hi"))
                    out.append(({"op": "line_set", "file": "Header", "line": i, "text": f"{lo} {['inf', '-inf'][d % 2]}"}, lv, True, "bounds-inf"))
                i += 1
        i += 1
    return out


def judge(ctx, rep, spec, pristine, ptree, ops, limit, coords, model_batch, pend, focus, fault, cls, lv, case_cli=None):
    tree = tastelib.apply_ops(ptree, ops)
    path = ctx.newdir("c04i_")
    tastelib.write_tree(tree, path, pristine, ptree)
    case = {"spec": spec, "ops": ops, "limit": limit, "coords": coords, "fault": fault, "class": cls, "level": lv}
    rep.case({"s": spec, "o": ops, "l": limit, "c": coords}, nontrivial=True)
    rep.count("class:" + (cls if "+" not in cls else "pair"))
    kw = dict(boxes_coordinates=True) if coords else {}
    cli = case_cli if case_cli is not None else (focus == "C04" and (len(ops) + (limit or 0) + len(cls) + lv) % (2 if coords else 4) == 0)
    if cli:
        case["cli"] = True; rep.count("console-script")
    gf, rf = tastelib.real_taste(path, limit=limit, nofail=False, cli=cli, **kw)
    gn, rn = tastelib.real_taste(path, limit=limit, nofail=True, cli=cli, **kw)
    obs = {"fail_mode": [gf, rf], "nofail_mode": [gn, rn]}
    in_scope = fault is True and (limit is None or lv <= limit)
    if focus == "C04":
        if rn is not None:
            rep.fail(f"non-failing mode raised {rn}", case, obs)
        elif gf != gn:
            rep.fail("failing and non-failing mode disagree about the verdict", case, obs)
        elif gf and rf is not None:
            rep.fail("reported good and raised", case, obs)
        elif not gf and rf is None:
            rep.fail("failing mode evaluated false without raising", case, obs)
        elif in_scope and gf:
            rep.fail(f"a plotfile with a listed fault ({cls}) is reported good", case, obs)
        rep.count("verdict:" + ("accepted" if gf else "rejected"))
    if focus == "C20" and gf and not coords:
        rep.count("accepted:" + cls)
        probs = tastelib.read_back(path, tree, limit)
        if not probs and rep.extra.get("accepted_and_read_back", 0) % 4 == 0:
            probs = tastelib.read_back_through_validator(path, limit); rep.count("read-back-through-the-validator-object")
        for p in probs[:2]:
            rep.fail("validation accepted the directory but " + p, case, obs)
        rep.extra["accepted_and_read_back"] = rep.extra.get("accepted_and_read_back", 0) + 1
    elif focus == "C20":
        rep.count("rejected")
    if model_batch is not None and not coords:
        pend.append((case, gf, model_batch.taste(tree, limit)))
    if coords and focus == "C04" and os.path.exists(leanio.DRIVER):
        # the coordinate validation against its Lean model (exact rationals): the verdicts agree away from the tolerance band
        kw0 = {}
        g0, r0 = tastelib.real_taste(path, limit=limit, nofail=True)
        if g0:          # everything but the coordinates is fine: the verdict with coordinates is the coordinate check's
            mv = tastelib.coords_model_verdict(path, leanio, limit)
            if mv is not None:
                if (mv == "good") == bool(gf):
                    rep.agree(); rep.count("coords-model-agrees")
                else:
                    rep.tie(f"box-coordinate validation: the validator says {gf}, the Lean model {mv}", case)
    import shutil
    shutil.rmtree(path, ignore_errors=True)


def same_path_history(ctx, rep, spec, ptree, op, lv, fault, cls):
    """a history on ONE path in ONE process: the intact plotfile is validated (good), then damaged in place (only the
    files the operator touches are rewritten), then validated again: the second verdict speaks about what is there now"""
    import shutil
    path = ctx.newdir("c04h_")
    tastelib.write_tree(ptree, path)
    case = {"spec": spec, "ops": [op], "limit": None, "coords": False, "fault": fault, "class": cls, "level": lv, "history": "same-path"}
    rep.case({"s": spec, "o": [op], "h": "same-path"}, nontrivial=True)
    rep.count("history:validated-intact-then-damaged-in-place")
    g0, r0 = tastelib.real_taste(path, nofail=False)
    if not g0 or r0 is not None:
        shutil.rmtree(path, ignore_errors=True)
        return          # C03's business
    tree = tastelib.apply_ops(ptree, [op])
    for rel in set(ptree) | set(tree):
        dst = os.path.join(path, rel)
        if rel not in tree:
            os.remove(dst)
        elif tree[rel] is not ptree.get(rel):
            os.makedirs(os.path.dirname(dst), exist_ok=True)
            with open(dst, "wb") as f:
                f.write(tree[rel])
    gf, rf = tastelib.real_taste(path, nofail=False)
    gn, rn = tastelib.real_taste(path, nofail=True)
    obs = {"fail_mode": [gf, rf], "nofail_mode": [gn, rn]}
    if fault is True and (gf or gn):
        rep.fail(f"a plotfile validated while intact, then damaged in place ({cls}), is still reported good", case, obs)
    elif gf != gn:
        rep.fail("failing and non-failing mode disagree about the verdict after the plotfile was damaged in place", case, obs)
    else:
        rep.agree()
    shutil.rmtree(path, ignore_errors=True)


def sweep(ctx, rep, model, focus):
    nspec = 8 if ctx.quick else 24
    for si in range(nspec):
        spec = plotgen.random_spec(ctx.rng, ndims=[3, 2, 3][si % 3], nlev=[2, 2, 1, 3][si % 4], nf=[2, 3, 1][si % 3],
                                   data=["tags", "bits"][si % 2], B=[2, 2, 2, 1][si % 4], layout=["scatter", "files", "perm"][si % 3],
                                   nblk=(([2, 1, 1] if si % 3 != 1 else [2, 2]) if si % 4 != 3 else ([3, 2, 2] if si % 3 != 1 else [3, 3]))
                                   if ctx.quick else None, refine_p=0.3)
        if focus == "C20" and si % 4 == 2:
            # cell indices with four and five digits (a fine level far from the index origin): FAB header lines of more
            # than 100 bytes; only for the read-after-validation sweep (coordinate validation is not part of it)
            # (six-digit indices: a difference of one is below numpy's default relative tolerance)
            spec["idx_shift"] = [1000, 123456][si % 8 == 2]
        if focus == "C04" and si % 4 == 1:
            # six-digit cell indices: a shift of one or two cells is below numpy's default *relative* tolerance, so index
            # ranges compared approximately would pass
            spec["idx_shift"] = 300000; rep.count("six-digit-index-space")
        pristine = ctx.newdir("c04p_")
        plotgen.materialize(spec, pristine)
        ptree = tastelib.snapshot(pristine)
        nlev = len(spec["levels"])
        ops = tastelib.enumerate_ops(ptree, nlev, ctx.rng, spec["ndims"], len(spec["fields"]))
        batch = tastelib.ModelBatch() if model else None
        pend = []
        if focus == "C04":
            hist = [o for o in ops if o[2] is True and not o[0].get("dir")]
            ctx.rng.shuffle(hist)
            seen_cls = set()
            for op, lv, fault, cls in hist:
                if cls in seen_cls or len(seen_cls) >= (10 if ctx.quick else 40):
                    continue
                seen_cls.add(cls)
                same_path_history(ctx, rep, spec, ptree, op, lv, fault, cls)
        # the pristine plotfile itself
        judge(ctx, rep, spec, pristine, ptree, [], None, False, batch, pend, focus, None, "pristine", 0)
        budget = 450 if ctx.quick else 1500
        if len(ops) > budget:
            ctx.rng.shuffle(ops)
            # keep every class represented
            seen, keep = {}, []
            for o in ops:
                if seen.get(o[3], 0) < max(4, budget // 40):
                    seen[o[3]] = seen.get(o[3], 0) + 1
                    keep.append(o)
            ops = keep + [o for o in ops if o not in keep][: max(0, budget - len(keep))]
        for op, lv, fault, cls in ops:
            judge(ctx, rep, spec, pristine, ptree, [op], None, False, batch, pend, focus, fault, cls, lv)
            if len(rep.violations) >= 15:
                break
        # bytes put ahead of the only FAB of a binary file, with the recorded offset moved along: the level header and the FAB
        # header still agree, but the file's layout (and length) no longer is what the level header describes
        for lv in range(nlev):
            view = tastelib.level_view(ptree, lv)
            fabs = [view["lines"][view["fab0"] + b].split() for b in range(view["n"])]
            for b, t in enumerate(fabs):
                if len(t) == 3 and sum(1 for u in fabs if u[1] == t[1]) == 1 and t[2] == "0":
                    # (bytes without a line end become part of the header line's first token, which the lenient header parse
                    # of validator and reader alike ignores: an edit of the header text, counted but not judged; bytes that
                    # end in a line end make the file start with a line that is no FAB header: certainly a fault)
                    for junk, flt in (("41424344454647", None), ("0a", True), ("4641420a", True), ("00000000000000000a", True)):
                        ops2 = [{"op": "insert", "file": f"Level_{lv}/{t[1]}", "pos": 0, "hex": junk},
                                {"op": "line_set", "file": f"Level_{lv}/Cell_H", "line": view["fab0"] + b,
                                 "text": f"FabOnDisk: {t[1]} {len(junk) // 2}"}]
                        judge(ctx, rep, spec, pristine, ptree, ops2, None, False, batch, pend, focus, flt, "junk-ahead-of-only-fab+offset", lv)
                    break
        # a box record gone from the GLOBAL Header (the level's count lowered by one, the bound lines of its last box removed) while
        # the level header and the binary files are intact: not one of the listed faults - whatever the verdict is, an accepted
        # directory must be readable (C20)
        hl = ptree["Header"].decode().split("\n")
        i0 = 2 + len(spec["fields"]) + 8 + nlev + 2
        for lv in range(nlev):
            nb = len(spec["levels"][lv])
            t = hl[i0].split()
            if nb >= 2 and len(t) == 3:
                first = i0 + 2 + (nb - 1) * spec["ndims"]
                ops3 = [{"op": "line_set", "file": "Header", "line": i0, "text": f"{t[0]} {nb - 1} {t[2]}"}] + \
                       [{"op": "line_delete", "file": "Header", "line": first} for _ in range(spec["ndims"])]
                judge(ctx, rep, spec, pristine, ptree, ops3, None, False, batch, pend, focus, None, "header-box-record-removed", lv)
            i0 += 2 + nb * spec["ndims"] + 1
        # level limits: faults above the limit are outside the validated levels
        if nlev > 1:
            for op, lv, fault, cls in ops[:: max(1, len(ops) // 60)]:
                judge(ctx, rep, spec, pristine, ptree, [op], 0, False, batch, pend, focus, fault, cls, lv)
        # physical bounds with coordinate validation
        if focus == "C04" and not spec.get("idx_shift"):
            for op, lv, fault, cls in header_bound_ops(ptree, spec):
                judge(ctx, rep, spec, pristine, ptree, [op], None, True, None, pend, focus, fault, cls, lv)
        # pairs at distinct sites (a second edit elsewhere never repairs the first)
        npairs = 60 if ctx.quick else 600
        for _ in range(npairs):
            a, b = ctx.rng.sample(ops, 2)
            fa, fb = a[0].get("file", a[0].get("dir")), b[0].get("file", b[0].get("dir"))
            if fa == fb or fa.startswith(str(fb)) or fb.startswith(str(fa)):
                continue
            fault = True if (a[2] is True or b[2] is True) else None
            # coordinated edits of the same box's index range in the level header and in its FAB header can
            # cancel (both then name the same other range): such a pair is not certainly a fault
            fam = {"cellh-index-mismatch", "fab-index-shift", "fab-shape"}
            if a[3] in fam and b[3] in fam and a[1] == b[1]:
                fault = None
            lv = min([x[1] for x in (a, b) if x[2] is True] or [a[1]])
            try:
                judge(ctx, rep, spec, pristine, ptree, [a[0], b[0]], None, False, batch, pend, focus, fault,
                      a[3] + "+" + b[3], lv)
            except KeyError:
                continue        # second operator's target removed by the first
        if batch is not None and pend:
            rs = leanio.driver(batch.reqs)
            for case, gf, i in pend:
                if rs[i].get("good") == gf:
                    rep.agree()
                else:
                    rep.tie(f"validator verdict {gf} differs from the model's {rs[i].get('good')} ({rs[i].get('why')})", case)
        if len(rep.violations) >= 15:
            return


LEVEL = "proof"


def run(ctx, rep, model=True):
    sweep(ctx, rep, model, "C04")


def replay(ctx, rep, obj, model=True, focus="C04"):
    c = obj["case"]
    spec = c["spec"]
    pristine = ctx.newdir("c04p_")
    plotgen.materialize(spec, pristine)
    ptree = tastelib.snapshot(pristine)
    batch = tastelib.ModelBatch() if model else None
    pend = []
    if c.get("history") == "same-path":
        same_path_history(ctx, rep, spec, ptree, c["ops"][0], c.get("level", 0), c.get("fault"), c.get("class", "?"))
        return
    judge(ctx, rep, spec, pristine, ptree, c["ops"], c.get("limit"), c.get("coords", False), batch, pend, focus,
          c.get("fault"), c.get("class", "?"), c.get("level", 0), case_cli=c.get("cli", False))
    if batch is not None and pend:
        rs = leanio.driver(batch.reqs)
        for case, gf, i in pend:
            if rs[i].get("good") == gf:
                rep.agree()
            else:
                rep.tie(f"validator verdict {gf} differs from the model's {rs[i].get('good')} ({rs[i].get('why')})", case)
