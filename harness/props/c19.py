"""C19 - point queries at interior cell centres return the stored cell value."""
from fractions import Fraction as Fr
import numpy as np
from .. import plotgen, oracle, leanio, pools, geom
from ..common import quiet, alarm
from .c01 import dedup_names

RULE = ("case = (generated 3D plotfile spec with non-zero origin, anisotropic dyadic cells, 1-3 levels, boxes of >= 4 cells; "
        "physical point = centre of a cell of the finest level covering it, at least one cell away from the faces of its box "
        "(sampled over all such cells) or a point outside the domain; single or multiple field selection); returned values "
        "compared with the stored cell values (oracle) and the box / local index with the Lean matching model; non-trivial = "
        "origin != 0 or anisotropic cells or >= 2 levels")


def J(x):
    x = Fr(x)
    return [x.numerator, x.denominator]


def interior_points(spec, rng, per_box=3):
    """(level, box, cell index, point) for cells not covered by a finer level and >= 1 cell from the box faces"""
    out = []
    nlev = len(spec["levels"])
    for lv in range(nlev):
        fine = spec["levels"][lv + 1] if lv + 1 < nlev else []
        for bid, (lo, hi) in enumerate(spec["levels"][lv]):
            cand = []
            for _ in range(per_box * 6):
                c = [rng.randint(lo[d] + 1, hi[d] - 1) if hi[d] - lo[d] >= 2 else None for d in range(3)]
                if None in c:
                    break
                if any(all(flo[d] <= int(spec.get("ratio", 2)) * c[d] <= fhi[d] for d in range(3)) for flo, fhi in fine):
                    continue
                cand.append(c)
            # the cell next to the box's upper corner (for boxes at the domain's high faces: the last cells before the faces)
            top = [hi[d] - 1 for d in range(3)]
            if all(hi[d] - lo[d] >= 2 for d in range(3)) and not any(
                    all(flo[d] <= int(spec.get("ratio", 2)) * top[d] <= fhi[d] for d in range(3)) for flo, fhi in fine):
                cand.insert(0, top)
            for c in cand[:per_box]:
                pt = [spec["geo_low"][d] + (c[d] + 0.5) * spec["dx0"][d] / int(spec.get("ratio", 2)) ** lv for d in range(3)]
                out.append((lv, bid, c, pt))
    return out


def model_levels(spec):
    levels = []
    for lv, boxes in enumerate(spec["levels"]):
        dx = [Fr(x) / int(spec.get("ratio", 2)) ** lv for x in spec["dx0"]]
        levels.append({"dx": [J(x) for x in dx],
                       "boxes": [[[J(Fr(spec["geo_low"][d]) + lo[d] * dx[d]), J(Fr(spec["geo_low"][d]) + (hi[d] + 1) * dx[d])] for d in range(3)]
                                 for lo, hi in boxes],
                       "idx_lo": [lo for lo, hi in boxes]})
    return levels


def run_spec(ctx, rep, spec, model, only=None):
    from amr_kitchen import PlotfileCooker
    path = ctx.newdir("c19_")
    truth = plotgen.materialize(spec, path)
    if spec.get("path_form") == "symlink":
        path = ctx.via_symlink(path); rep.count("path-through-symlink-and-dotdot")
    names = dedup_names(spec["fields"])
    nf = len(spec["fields"])
    with quiet():
        # "maxmins_reader": the reader also holds the per-box minima / maxima of the level headers
        kw_ = {}
        if spec.get("maxmins_reader"): kw_["maxmins"] = True; rep.count("reader-opened-with-maxmins")
        if spec.get("ghost_reader"): kw_["ghost"] = True; rep.count("reader-opened-with-ghost-map")
        pck = PlotfileCooker(path, **kw_)
        if spec.get("compared_first"):
            # the same mesh with its boxes listed in another order, and a comparison of the two readers, before any query
            import copy
            other = copy.deepcopy(spec)
            for l in other["levels"]:
                l.reverse()
            other["layout"] = plotgen.random_layout(ctx.rng, other["levels"], "scatter")
            opath = ctx.newdir("c19o_"); plotgen.materialize(other, opath)
            po = PlotfileCooker(opath)
            _ = (pck == po); _ = (po != pck)
            rep.count("reader-compared-with-another-before-queries")
    feats = plotgen.describe(spec)
    pts = interior_points(spec, ctx.rng) if only is None else [only]
    reqs, pend = [], []
    mlv = model_levels(spec)
    # the selector is an object that can be reused: half of the queries go through shared selectors,
    # in an order that hops between levels and boxes
    shared = {}
    limited = {}
    if only is None:
        ctx.rng.shuffle(pts)
    for n, item in enumerate(pts):
        lv, bid, c, pt = item[:4]
        nl = list(names)
        forms = [0, nl[-1], [0, nf - 1], list(range(nf)), nl[::-1], [nf - 1, 0], [-1, -2], -1, [0, 0, nf - 1]]
        if nf >= 3:
            forms += [[2, 0, 1], [nl[1], nl[0], nl[2]], [-1, -2, -3]]
        fsel = forms[n % len(forms)]
        case = {"spec": spec, "point": pt, "level": lv, "box": bid, "cell": c, "fsel": fsel}
        rep.case({"s": spec, "p": pt, "f": fsel}, nontrivial=("origin" in feats or "aniso" in feats or len(spec["levels"]) >= 2))
        rep.count(f"level:{lv}"); rep.count("multi" if isinstance(fsel, list) else "single")
        if isinstance(fsel, list) and idx != sorted(set(idx)): rep.count("multi-out-of-file-order")
        lo = spec["levels"][lv][bid][0]
        loc = tuple(c[d] - lo[d] for d in range(3))
        idx = [(names[f] if isinstance(f, str) else f % nf) for f in (fsel if isinstance(fsel, list) else [fsel])]
        want = [float(truth[(lv, bid)][loc + (k,)]) for k in idx]
        nlev_ = len(spec["levels"])
        args = list(pt)
        how = case_how = None
        if all(float(x).is_integer() for x in pt) and (n % 2 == 1 or only is not None):
            # a cell centre whose coordinates are whole numbers, given as integers (Python ints / numpy integers)
            args = [int(x) for x in pt] if n % 4 == 1 else [np.int64(x) for x in pt]
            case["int_coords"] = True; rep.count("integer-typed-coordinates")
        klim = None
        if only is None and lv < nlev_ - 1 and n % 5 == 3:
            klim = lv + (n // 5) % (nlev_ - 1 - lv)          # a reader opened with a level limit below the file's finest level
        elif only is not None and len(only) > 4:
            klim = only[4]
        try:
            with alarm(60), quiet(), pools.controlled():
                if klim is not None:
                    case["limit"] = klim; rep.count("level-limited-reader")
                    if klim not in limited:
                        limited[klim] = PlotfileCooker(path, limit_level=klim)
                    got = limited[klim][fsel](*args)
                elif n % 2 == 0 or only is not None:
                    got = pck[fsel](*args)
                else:
                    key = repr(fsel)
                    if key not in shared:
                        shared[key] = pck[fsel]
                    case["reused_selector"] = True
                    rep.count("reused-selector")
                    got = shared[key](*args)
        except Exception as e:
            rep.fail(f"query at an interior cell centre raised {type(e).__name__}: {e}", case)
            continue
        got = [float(x) for x in np.atleast_1d(np.asarray(got, dtype=float))]
        # the centre is only representable up to the rounding of its coordinates: an error of a few ulp(p) is an error of
        # ulp(p)/dx cells in the index the interpolation is asked for, times the variation of the data between cells (< 2**9)
        # tolerance relative to the magnitude of each field (its values are small integers times the field's scale)
        rel = 1e-9 + 8 * 16 * 2.2e-16 * max(abs(pt[d]) / (spec["dx0"][d] / int(spec.get("ratio", 2)) ** lv) for d in range(3))
        fs = spec["data"].get("field_scale")
        scale = [64.0 * (fs[k % len(fs)] if fs else 1.0) for k in idx]
        if len(got) != len(want) or any(abs(a - b) > rel * s for a, b, s in zip(got, want, scale)):
            rep.fail(f"query returned {got}, the stored cell value is {want}", case, obs={"got": got, "want": want})
            continue
        if model:
            pend.append((case, lv, bid, loc))
            reqs.append({"op": "point", "geo_low": [J(x) for x in spec["geo_low"]], "point": [J(x) for x in pt], "levels": mlv})
    # one selector hopping between boxes that carry the same number on different levels (and back)
    if only is None and len(spec["levels"]) >= 2:
        first = {}
        for item in pts:
            first.setdefault((item[0], item[1]), item)
        hops = [(a, first[(a[0] + 1, a[1])]) for k, a in first.items() if (a[0] + 1, a[1]) in first][:4]
        for a, b in hops:
            case = {"spec": spec, "point": b[3], "level": b[0], "box": b[1], "cell": b[2], "fsel": 0, "reused_selector": True}
            rep.case({"s": spec, "hop": [a[3], b[3]]}, nontrivial=True); rep.count("one-selector-hopping-between-levels-same-box-number")
            try:
                with alarm(60), quiet(), pools.controlled():
                    sel = pck[0]
                    got = [float(np.atleast_1d(np.asarray(sel(*x[3]), dtype=float))[0]) for x in (a, b, a)]
            except Exception as e:
                rep.fail(f"query at an interior cell centre raised {type(e).__name__}: {e}", case); continue
            want = []
            for x in (a, b, a):
                lo_ = spec["levels"][x[0]][x[1]][0]
                want.append(float(truth[(x[0], x[1])][tuple(x[2][d] - lo_[d] for d in range(3)) + (0,)]))
            fs = spec["data"].get("field_scale")
            tol = 1e-6 * 64.0 * (fs[0] if fs else 1.0)
            if any(abs(g_ - w_) > tol for g_, w_ in zip(got, want)):
                rep.fail(f"one selector queried at level {a[0]}, level {b[0]} and level {a[0]} again (box number {a[1]} each time) returned {got}, the stored values are {want}", case,
                         obs={"got": got, "want": want})
            else:
                rep.agree()
    # points outside the domain are refused
    if only is None:
        G = [spec["geo_low"][d] + spec["grid0"][d] * spec["dx0"][d] for d in range(3)]
        mid = [(spec["geo_low"][d] + G[d]) / 2 for d in range(3)]
        nanpts = [(d, float("nan")) for d in range(3)] + [(None, float("nan"))]
        for d, v in [(d, v) for d in range(3) for v in (spec["geo_low"][d] - spec["dx0"][d], G[d] + spec["dx0"][d] / 4)] + nanpts:
            if True:
                # (a coordinate that is not a number lies in no box: such a point is not in the domain either)
                pt = list(mid)
                if d is None:
                    pt = [v, v, v]
                else:
                    pt[d] = v
                case = {"spec": spec, "point": pt, "outside": True}
                rep.case({"s": spec, "p": pt, "out": 1}); rep.count("outside")
                try:
                    with alarm(60), quiet(), pools.controlled():
                        got = pck[0](*pt)
                    rep.fail(f"a point outside the domain was answered with {got}", case)
                except Exception:
                    pass
    if model and reqs:
        for (case, lv, bid, loc), m in zip(pend, leanio.driver(reqs)):
            # the model works on the exact rational value of the float coordinates: on dyadic meshes the local index is the
            # integer itself, otherwise it is the integer up to the rounding of the point
            if (m.get("status") == "case1" and m["level"] == lv and m["box"] == bid
                    and all(abs(Fr(a, b) - Fr(x)) <= Fr(1, 10 ** 6) for (a, b), x in zip(m["local"], loc))):
                rep.agree()
            else:
                rep.tie("the Lean matching model does not select this cell (single-box case, box, local index)", case, m)


def run(ctx, rep, model=True):
    n = 12 if ctx.quick else 50
    for i in range(n):
        spec = plotgen.random_spec(ctx.rng, ndims=3, nlev=[2, 1, 3][i % 3], nf=[2, 3][i % 2], data="smallint", B=4,
                                   nblk=[[2, 1, 1], [1, 2, 1], [1, 1, 2]][i % 3], origin=(i % 4 != 3), aniso=(i % 2 == 0),
                                   refine_p=0.4, scale=[None, "far", None, "tiny", None][i % 5], exact=(i % 3 != 1))
        if i % 3 == 2:
            spec["data"]["field_scale"] = [1e5, 1e-12, 3e-7]        # e.g. pressure next to radical mass fractions
            rep.count("fields-of-very-different-magnitudes")
        if i % 4 == 2: spec["path_form"] = "symlink"
        if i % 2 == 1: spec["maxmins_reader"] = True
        if i % 3 == 0: spec["ghost_reader"] = True
        if i % 6 == 2 and len(spec["levels"]) == 3:
            # refinement ratio 4 (the middle level of a properly nested three-level mesh dropped)
            spec = plotgen.to_ratio4(spec); rep.count("refinement-ratio-4")
        if i % 6 == 5:
            # twelve fields, selections of fields far apart in the record
            spec["fields"] = [f"f{k:02d}" for k in range(12)]; rep.count("twelve-fields")
        if i % 3 == 1:
            for l in spec["levels"]:
                ctx.rng.shuffle(l)
            spec["layout"] = plotgen.random_layout(ctx.rng, spec["levels"], "scatter")
            spec["compared_first"] = True
        if i % 6 == 3 and len(spec["levels"]) >= 2:
            # a domain whose lower corner is fractional and whose level-1 cell centres are whole numbers
            spec["geo_low"] = [-3.5, 0.5, -1.5]; spec["dx0"] = [2.0, 2.0, 2.0]
            rep.count("whole-number-cell-centres")
        run_spec(ctx, rep, spec, model)
        if len(rep.violations) >= 10:
            return
    rep.count("one-large-box-beside-64-small-ones")
    run_spec(ctx, rep, big_and_small_spec(ctx.rng), model)


def big_and_small_spec(rng):
    """a level of 65 boxes of very different sizes: one of 16^3 cells beside sixty-four of 4^3 cells"""
    small = [[[16 + 4 * i, 4 * j, 4 * k], [16 + 4 * i + 3, 4 * j + 3, 4 * k + 3]] for i in range(4) for j in range(4) for k in range(4)]
    levels = [[[[0, 0, 0], [15, 15, 15]]] + small]
    rng.shuffle(levels[0])
    return {"ndims": 3, "fields": ["rho", "temp"], "time": 0.5, "geo_low": [-1.0, 0.5, 0.0], "dx0": [0.125, 0.25, 0.125], "grid0": [32, 16, 16],
            "block": 4, "levels": levels, "layout": plotgen.random_layout(rng, levels, "scatter"),
            "data": {"mode": "smallint", "seed": rng.randrange(1 << 30)}, "header_style": "amrex", "step": 1}


def replay(ctx, rep, obj, model=True):
    c = obj["case"]
    if c.get("outside") or c.get("reused_selector"):
        run_spec(ctx, rep, c["spec"], model)
    else:
        run_spec(ctx, rep, c["spec"], model, only=(c["level"], c["box"], c["cell"], c["point"]) + ((c["limit"],) if "limit" in c else ()))
