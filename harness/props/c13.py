"""C13 - tools never touch their inputs and report failures instead of returning."""
import os, shutil
import numpy as np
from .. import plotgen, chkgen, pools, audit, tools
from ..common import quiet, alarm, chdir, CaseTimeout

LEVEL = "proof"
RULE = ("case = (tool out of colander / combine / chef / mandoline array+plotfile / whip / chk2plt / marinate / taste / pestle / "
        "menu / minuterie / reader, invocation form: explicit or default output x relative / absolute / trailing-slash input "
        "path, scenario out of {success, unknown field, missing binary file, injected OSError at the k-th write-side call "
        "(open for write, write, mkdir) for every k of the run (sampled in the quick tier)}); input trees hashed before and "
        "after, every write seen by sys.addaudithook and every created file checked against the allowed output roots, and a "
        "failing run must raise or exit non-zero; every case is non-trivial; distinct = distinct (tool, form, scenario, k)")

IGNORED = ("/dev/", "/proc/", "/sys/")


def build_template(ctx):
    """root directory with one input of every kind"""
    root = ctx.newdir("c13tpl_"); os.makedirs(root)
    rng = ctx.rng
    p = plotgen.random_spec(rng, ndims=3, nlev=2, nf=3, data="smallint", B=2, nblk=[2, 1, 1], layout="files", refine_p=0.5)
    p["fields"] = ["density", "temp", "volFrac"]
    plotgen.materialize(p, os.path.join(root, "plt00010"))
    q = dict(p); q["fields"] = ["pressure", "mach"]; q["data"] = {"mode": "smallint", "seed": 77}
    plotgen.materialize(q, os.path.join(root, "plt00020"))
    # same mesh as plt00010, boxes distributed differently over the binary files (combine then works box by box)
    q4 = dict(p); q4["fields"] = ["vort", "mixfrac"]; q4["data"] = {"mode": "smallint", "seed": 78}
    q4["layout"] = [[[(f + 1 + b) % 2, -k] for b, (f, k) in enumerate(lay)] for lay in p["layout"]]
    plotgen.materialize(q4, os.path.join(root, "plt00040"))
    p2 = plotgen.random_spec(rng, ndims=2, nlev=2, nf=2, data="smallint", B=2, nblk=[2, 2])
    p2["fields"] = ["density", "temp"]
    plotgen.materialize(p2, os.path.join(root, "plt2d00030"))
    c = chkgen.random_chk_spec(rng, nlev=2, nspec=3, ng=1)
    chkgen.materialize(c, os.path.join(root, "chk00005"))
    shutil.copytree(os.path.join(root, "chk00005"), os.path.join(root, "restart7"))
    # a checkpoint whose own name holds no "chk" while a directory above it does
    os.makedirs(os.path.join(root, "chk_runs"))
    shutil.copytree(os.path.join(root, "chk00005"), os.path.join(root, "chk_runs", "sim00100"))
    # plotfiles kept in a results directory that is also asked for as the output directory
    os.makedirs(os.path.join(root, "plt_runs"))
    shutil.copytree(os.path.join(root, "plt00010"), os.path.join(root, "plt_runs", "plt00100"))
    shutil.copytree(os.path.join(root, "plt00020"), os.path.join(root, "plt_runs", "plt00200"))
    # a plotfile of the same name in another run directory
    os.makedirs(os.path.join(root, "plt_runs2"))
    shutil.copytree(os.path.join(root, "plt00020"), os.path.join(root, "plt_runs2", "plt00100"))
    # a pair on a mesh of two boxes kept in ONE binary file (what a copy interrupted between the two FABs leaves is a file of
    # one FAB: a single offset, which numpy broadcasts)
    two = {"ndims": 3, "fields": ["density", "temp", "volFrac"], "time": 0.5, "geo_low": [0.0, 0.0, 0.0], "dx0": [0.25, 0.25, 0.25],
           "grid0": [4, 2, 2], "block": 2, "levels": [[[[0, 0, 0], [1, 1, 1]], [[2, 0, 0], [3, 1, 1]]]], "layout": [[[0, 0], [0, 1]]],
           "data": {"mode": "smallint", "seed": 5}, "header_style": "amrex", "step": 1}
    plotgen.materialize(two, os.path.join(root, "plt2fab10"))
    two2 = dict(two); two2["fields"] = ["pressure", "mach"]; two2["data"] = {"mode": "smallint", "seed": 6}
    plotgen.materialize(two2, os.path.join(root, "plt2fab20"))
    with open(os.path.join(root, "rec.py"), "w") as f:
        f.write(tools.USER_RECIPE)
    # the plotfile of the same step beside the checkpoint (holds the species names a conversion can take from it)
    q5 = dict(p); q5["fields"] = ["density"] + [f"Y({s})" for s in ["H2", "O2", "N2", "H2O", "OH"][:c["nspec"]]]
    q5["data"] = {"mode": "smallint", "seed": 79}
    plotgen.materialize(q5, os.path.join(root, "plt00007"))
    shutil.copytree(os.path.join(root, "chk00005"), os.path.join(root, "chk00007"))
    # a plotfile named like the result of an earlier recipe
    shutil.copytree(os.path.join(root, "plt00010"), os.path.join(root, "plt00050_ck"))
    return root


INPUTS = ["plt00010", "plt00020", "plt00040", "plt2d00030", "chk00005", "restart7", "chk_runs/sim00100", "chk00007", "plt00007", "plt00050_ck",
          "plt_runs/plt00100", "plt_runs/plt00200", "plt_runs2/plt00100", "plt2fab10", "plt2fab20"]


def form_path(root, name, form):
    if form == "rel":
        return name
    if form == "abs":
        return os.path.join(root, name)
    if form == "slash":
        return name + "/"
    if form == "abs-slash":
        return os.path.join(root, name) + "/"
    raise ValueError(form)


def invocations():
    """(tool, writes?, callable(root, inp_form, out_kind) -> None, main input name, out kinds)"""
    def P(root, n, f): return form_path(root, n, f)
    def O(root, kind, name):
        if kind == "explicit-parent":
            return os.path.join(root, "chk_runs")        # an existing directory that holds the checkpoint (the run directory)
        if kind == "explicit-results":
            return os.path.join(root, "plt_runs")        # an existing directory that holds the input plotfile(s)
        return None if kind == "default" else (name if kind == "explicit-rel" else os.path.join(root, name))
    inv = []
    inv.append(("colander", lambda r, f, o: tools.colander(P(r, "plt00010", f), O(r, o, "out_col"), ["temp", "density"]),
                "plt00010", ["explicit-rel", "explicit-abs"]))
    inv.append(("colander2d", lambda r, f, o: tools.colander(P(r, "plt2d00030", f), O(r, o, "out_col2"), ["all"], 0),
                "plt2d00030", ["explicit-rel"]))
    inv.append(("combine", lambda r, f, o: tools.combine(P(r, "plt00010", f), P(r, "plt00020", f), O(r, o, "out_cmb")),
                "plt00010", ["explicit-rel", "explicit-abs", "default"]))
    inv.append(("combine-bybox", lambda r, f, o: tools.combine(P(r, "plt00010", f), P(r, "plt00040", f), O(r, o, "out_cmb4")),
                "plt00010", ["explicit-rel", "default"]))
    inv.append(("combine-bybox-swapped", lambda r, f, o: tools.combine(P(r, "plt00040", f), P(r, "plt00010", f), O(r, o, "out_cmb5")),
                "plt00040", ["explicit-abs"]))
    inv.append(("chef", lambda r, f, o: tools.chef(P(r, "plt00010", f), os.path.join(r, "rec.py"), O(r, o, "out_ck"), kept="temp"),
                "plt00010", ["explicit-rel", "default"]))
    inv.append(("chef-oncooked", lambda r, f, o: tools.chef(P(r, "plt00050_ck", f), os.path.join(r, "rec.py"), O(r, o, "out_ck"), kept="temp"),
                "plt00050_ck", ["default"]))
    inv.append(("chef-serial", lambda r, f, o: tools.chef(P(r, "plt00010", f), os.path.join(r, "rec.py"), O(r, o, "out_cks"), serial=True),
                "plt00010", ["explicit-abs", "default"]))
    inv.append(("mandoline-array", lambda r, f, o: tools.mandoline(P(r, "plt00010", f), "array", O(r, o, "out_arr"), ["density"], 2),
                "plt00010", ["explicit-rel", "default"]))
    inv.append(("mandoline-plotfile", lambda r, f, o: tools.mandoline(P(r, "plt00010", f), "plotfile", O(r, o, "out_slc"), ["density", "temp"], 0),
                "plt00010", ["explicit-rel", "default"]))
    inv.append(("mandoline-2d-array", lambda r, f, o: tools.mandoline(P(r, "plt2d00030", f), "array", O(r, o, "out_arr2"), ["temp"]),
                "plt2d00030", ["explicit-rel", "default"]))
    inv.append(("whip", lambda r, f, o: tools.whip(P(r, "plt00010", f), "temp", O(r, o, "out_grid")),
                "plt00010", ["explicit-rel", "default"]))
    inv.append(("chk2plt", lambda r, f, o: tools.chk2plt(P(r, "chk00005", f), O(r, o, "out_plt")),
                "chk00005", ["explicit-rel", "default"]))
    inv.append(("chk2plt-ref", lambda r, f, o: tools.chk2plt(P(r, "chk00007", f), O(r, o, "out_plt"), ref=P(r, "plt00007", f)),
                "chk00007", ["explicit-rel"]))
    inv.append(("chk2plt-noname", lambda r, f, o: tools.chk2plt(P(r, "restart7", f), O(r, o, "out_plt")),
                "restart7", ["default"]))
    inv.append(("chk2plt-parentchk", lambda r, f, o: tools.chk2plt(P(r, "chk_runs/sim00100", f), O(r, o, "out_plt")),
                "chk_runs/sim00100", ["default"]))
    inv.append(("chk2plt-intorundir", lambda r, f, o: tools.chk2plt(P(r, "chk_runs/sim00100", f), O(r, o, "out_plt")),
                "chk_runs/sim00100", ["explicit-parent"]))
    inv.append(("colander-intoresults", lambda r, f, o: tools.colander(P(r, "plt_runs/plt00100", f), O(r, o, "out_col"), ["temp"]),
                "plt_runs/plt00100", ["explicit-results"]))
    inv.append(("combine-intoresults", lambda r, f, o: tools.combine(P(r, "plt_runs/plt00100", f), P(r, "plt_runs/plt00200", f), O(r, o, "out_cmb")),
                "plt_runs/plt00100", ["explicit-results"]))
    def same_name(r, f, o):
        # two plotfiles of the same name from two run directories, combined from inside one of them, no output named
        from ..common import chdir
        with chdir(os.path.join(r, "plt_runs")):
            tools.combine("plt00100" + ("/" if "slash" in f else ""), os.path.join(r, "plt_runs2", "plt00100"), None)
    inv.append(("combine-samename", same_name, "plt_runs/plt00100", ["explicit-results"]))
    inv.append(("marinate", lambda r, f, o: tools.marinate(P(r, "plt00010", f)), "plt00010", ["default"]))
    inv.append(("taste", lambda r, f, o: tools.taste(P(r, "plt00010", f), boxes_coordinates=True), "plt00010", ["none"]))
    inv.append(("pestle", lambda r, f, o: tools.pestle(P(r, "plt00010", f), "density", None, True), "plt00010", ["none"]))
    inv.append(("menu", lambda r, f, o: tools.menu(P(r, "plt00010", f), "-m"), "plt00010", ["none"]))
    inv.append(("minuterie", lambda r, f, o: tools.minuterie(P(r, "plt00010", f)), "plt00010", ["none"]))
    return inv


def _rm_first(root, d, prefix):
    lv = os.path.join(root, d, "Level_0")
    os.remove(os.path.join(lv, sorted(f for f in os.listdir(lv) if f.startswith(prefix))[0]))


def _truncate(root, d, prefix, cut, level="Level_0", which=0):
    """cut `cut` bytes off the end of a binary file (inside the data of its last box): an unreadable input"""
    lv = os.path.join(root, d, level)
    fn = os.path.join(lv, sorted(f for f in os.listdir(lv) if f.startswith(prefix))[which])
    data = open(fn, "rb").read()
    with open(fn, "wb") as f:
        f.write(data[:len(data) - cut])


def _cut_at_fab(root, d, prefix, level="Level_0"):
    """cut a binary file holding several FABs exactly where its last FAB begins (an interrupted copy that stopped between
    two FABs): the file is a valid sequence of FABs, one fewer than the level header announces"""
    cands = []
    for level in sorted(x for x in os.listdir(os.path.join(root, d)) if x.startswith("Level_")):
        lv = os.path.join(root, d, level)
        for name in sorted(f for f in os.listdir(lv) if f.startswith(prefix)):
            fn = os.path.join(lv, name)
            data = open(fn, "rb").read()
            n = data.count(b"FAB ((")
            if n >= 2:
                cands.append((n != 2, fn, data))       # a file of exactly two FABs first: one offset is left, which numpy would broadcast
    if not cands:
        raise RuntimeError("no binary file with two FABs")
    _, fn, data = sorted(cands, key=lambda c: (c[0], c[1]))[0]
    with open(fn, "wb") as f:
        f.write(data[:data.rfind(b"FAB ((")])


_FSIZE = {}


def _probe_colander_sizes(r):
    """(outside the audited run) an input whose strained binary files are larger than every header the strain writes, and
    the size of the largest of them, from runs in a scratch copy"""
    import glob, tempfile
    for name in ("plt00010", "plt00020", "plt00040"):
        d = tempfile.mkdtemp(prefix="c13probe_")
        try:
            shutil.copytree(os.path.join(r, name), os.path.join(d, name))
            with chdir(d), quiet(), pools.controlled():
                tools.colander(name, "out", ["all"])
            big = max(os.path.getsize(p) for p in glob.glob(os.path.join(d, "out", "Level_*", "Cell_D*")))
            hdr = max(os.path.getsize(p) for p in glob.glob(os.path.join(d, "out", "Level_*", "Cell_H")) + [os.path.join(d, "out", "Header")])
            if big - 8 > hdr:
                _FSIZE[r] = (name, big)
                return
        finally:
            shutil.rmtree(d, ignore_errors=True)
    _FSIZE[r] = None


def _colander_file_size_limit(r):
    """colander under a file-size limit (quota, `ulimit -f`) that only the last write of its largest binary file crosses: the
    operating system refuses the write (EFBIG) or performs it in part - either way the tool must not return normally"""
    import resource
    if _FSIZE.get(r) is None:
        raise OSError("no input whose binary files outgrow the headers: nothing to try")
    name, big = _FSIZE[r]
    old = resource.getrlimit(resource.RLIMIT_FSIZE)
    resource.setrlimit(resource.RLIMIT_FSIZE, (big - 8, old[1]))
    try:
        tools.colander(name, "out_col", ["all"])
    finally:
        resource.setrlimit(resource.RLIMIT_FSIZE, old)


# (name, preparation outside the audited run, invocation)
FAILING = [
    ("mandoline-unknown-field", None, lambda r: tools.mandoline("plt00010", "array", "out_x", ["no_such_field"], 0)),
    # unknown names that contain the keyword "all", given as a bare string / a list / through the console script
    ("mandoline-unknown-field-wall", None, lambda r: tools.mandoline("plt00010", "array", "out_x", "wall_temp", 0)),
    ("mandoline-unknown-field-overall", None, lambda r: tools.mandoline("plt00010", "plotfile", "out_x", "overall_density", 1)),
    ("mandoline-unknown-field-list", None, lambda r: tools.mandoline("plt00010", "array", "out_x", ["small_scales"], 2)),
    ("mandoline-cli-unknown-field", None, lambda r: tools.mandoline_cli("plt00010", "array", "out_x", ["wall_temp"], 0)),
    ("colander-cli-limit-above", None, lambda r: tools.colander_cli("plt00010", "out_col", ["temp"], 7)),
    # a misspelt name among valid ones
    ("mandoline-unknown-among-known", None, lambda r: tools.mandoline("plt00010", "array", "out_x", ["density", "tmep", "temp"], 0)),
    ("mandoline-cli-unknown-among-known", None, lambda r: tools.mandoline_cli("plt00010", "plotfile", "out_x", ["temp", "no_such", "grid_level"], 1)),
    # the default output of the conversion is the reference plotfile of the same step / the reference is named as output
    ("chk2plt-default-is-reference", None, lambda r: tools.chk2plt("chk00007", None, ref="plt00007")),
    ("chk2plt-output-is-reference", None, lambda r: tools.chk2plt("chk00007", "plt00007/", ref="plt00007")),
    # ... with the checkpoint and the reference plotfile named in different forms (one relative to the working directory,
    # the other absolute; through a `.` component)
    ("chk2plt-default-is-reference-mixed-forms", None, lambda r: tools.chk2plt("chk00007", None, ref=os.path.join(r, "plt00007"))),
    ("chk2plt-default-is-reference-mixed-forms-2", None, lambda r: tools.chk2plt(os.path.join(r, "chk00007"), None, ref="./plt00007")),
    ("chk2plt-output-is-reference-mixed-forms", None, lambda r: tools.chk2plt("chk00007", os.path.join(r, "plt00007"), ref="plt00007")),
    ("marinate-device-full", lambda r: os.symlink("/dev/full", os.path.join(r, "plt00010.pkl")), lambda r: tools.marinate("plt00010")),
    ("marinate-small-device-full", lambda r: os.symlink("/dev/full", os.path.join(r, "plt2fab10.pkl")), lambda r: tools.marinate("plt2fab10")),
    # the Header FILE of a plotfile named where the plotfile directory is expected
    ("chef-header-file-as-plotfile", None, lambda r: tools.chef("plt00010/Header", "rec.py", None)),
    ("marinate-header-file-as-plotfile", None, lambda r: tools.marinate("plt00010/Header")),
    ("colander-header-file-as-plotfile", None, lambda r: tools.colander("plt00010/Header", "out_col", ["temp"])),
    ("whip-device-full", lambda r: os.symlink("/dev/full", os.path.join(r, "out_grid.npy")), lambda r: tools.whip("plt00010", "temp", "out_grid")),
    ("pestle-truncated", lambda r: _truncate(r, "plt00010", "Cell_D", 24), lambda r: tools.pestle("plt00010", "volFrac")),        # the last field: its data end the file
    ("pestle-unknown-field", None, lambda r: tools.pestle("plt00010", "no_such_field")),
    ("whip-unknown-field", None, lambda r: tools.whip("plt00010", "no_such_field", "out_g")),
    ("chef-unknown-recipe", None, lambda r: tools.chef("plt00010", "NOPE", "out_ck")),
    ("combine-no-fields", None, lambda r: tools.combine("plt00010", "plt00020", "out_cmb", None, ["nope"])),
    ("colander-missing-binary", lambda r: _rm_first(r, "plt00020", "Cell_D"), lambda r: tools.colander("plt00020", "out_col", ["all"])),
    ("chk2plt-missing-binary", lambda r: _rm_first(r, "chk00005", "state_D"), lambda r: tools.chk2plt("chk00005", "out_plt")),
    ("combine-missing-binary", lambda r: _rm_first(r, "plt00020", "Cell_D"), lambda r: tools.combine("plt00010", "plt00020", "out_cmb")),
    # truncated binary files: every selection form of colander (all fields / one field / neighbouring fields / reordered)
    ("colander-truncated-all", lambda r: _truncate(r, "plt00010", "Cell_D", 24), lambda r: tools.colander("plt00010", "out_col", ["all"])),
    ("colander-truncated-one", lambda r: _truncate(r, "plt00010", "Cell_D", 24), lambda r: tools.colander("plt00010", "out_col", ["volFrac"])),
    ("colander-truncated-neighbours", lambda r: _truncate(r, "plt00010", "Cell_D", 8), lambda r: tools.colander("plt00010", "out_col", ["temp", "volFrac"])),
    ("colander-truncated-reordered", lambda r: _truncate(r, "plt00010", "Cell_D", 8), lambda r: tools.colander("plt00010", "out_col", ["volFrac", "density"])),
    ("colander2d-truncated", lambda r: _truncate(r, "plt2d00030", "Cell_D", 16), lambda r: tools.colander("plt2d00030", "out_col2", ["all"])),
    ("colander-truncated-level1", lambda r: _truncate(r, "plt00010", "Cell_D", 8, level="Level_1", which=-1), lambda r: tools.colander("plt00010", "out_col", ["density", "temp"])),
    ("combine-truncated-first", lambda r: _truncate(r, "plt00010", "Cell_D", 16), lambda r: tools.combine("plt00010", "plt00020", "out_cmb")),
    ("combine-truncated-second", lambda r: _truncate(r, "plt00020", "Cell_D", 16), lambda r: tools.combine("plt00010", "plt00020", "out_cmb")),
    ("combine-cut-between-fabs-first", lambda r: _cut_at_fab(r, "plt00010", "Cell_D"), lambda r: tools.combine("plt00010", "plt00020", "out_cmb")),
    ("combine-cut-between-fabs-second", lambda r: _cut_at_fab(r, "plt00020", "Cell_D"), lambda r: tools.combine("plt00010", "plt00020", "out_cmb")),
    ("colander-cut-between-fabs", lambda r: _cut_at_fab(r, "plt00010", "Cell_D"), lambda r: tools.colander("plt00010", "out_col", ["temp", "density"])),
    ("chef-cut-between-fabs", lambda r: _cut_at_fab(r, "plt00010", "Cell_D"), lambda r: tools.chef("plt00010", "rec.py", "out_ck")),
    ("combine-two-fab-file-cut-first", lambda r: _cut_at_fab(r, "plt2fab10", "Cell_D"), lambda r: tools.combine("plt2fab10", "plt2fab20", "out_cmb")),
    ("combine-two-fab-file-cut-second", lambda r: _cut_at_fab(r, "plt2fab20", "Cell_D"), lambda r: tools.combine("plt2fab10", "plt2fab20", "out_cmb")),
    ("colander-two-fab-file-cut", lambda r: _cut_at_fab(r, "plt2fab10", "Cell_D"), lambda r: tools.colander("plt2fab10", "out_col", ["temp", "density"])),
    ("chef-two-fab-file-cut", lambda r: _cut_at_fab(r, "plt2fab10", "Cell_D"), lambda r: tools.chef("plt2fab10", "rec.py", "out_ck")),
    ("colander-file-size-limit", _probe_colander_sizes, _colander_file_size_limit),
    ("combine-bybox-truncated", lambda r: _truncate(r, "plt00040", "Cell_D", 16), lambda r: tools.combine("plt00010", "plt00040", "out_cmb4")),
    ("chef-truncated", lambda r: _truncate(r, "plt00010", "Cell_D", 16), lambda r: tools.chef("plt00010", "rec.py", "out_ck")),
    ("chk2plt-truncated", lambda r: _truncate(r, "chk00005", "state_D", 16), lambda r: tools.chk2plt("chk00005", "out_plt")),
]


def fresh(ctx, template):
    root = ctx.newdir("c13_")
    shutil.copytree(template, root)
    return root


def execute(root, fn, inj=None):
    """returns (outcome, audit events); outcome = 'ok' | exception class name | 'exit:<code>'"""
    with chdir(root), audit.record() as ev:
        try:
            with alarm(300), quiet(), pools.controlled():
                if inj is not None:
                    with audit.inject(inj):
                        fn()
                else:
                    fn()
            return "ok", ev
        except SystemExit as e:
            return ("ok" if e.code in (None, 0) else f"exit:{e.code}"), ev
        except CaseTimeout:
            return "TIMEOUT", ev
        except BaseException as e:
            if isinstance(e, KeyboardInterrupt):
                raise
            return type(e).__name__, ev


def judge_writes(rep, case, root, before, events, allowed, removed_ok=()):
    """inputs untouched; every write and every created file under an allowed root"""
    bad = []
    for name in INPUTS:
        now = audit.tree_hash(os.path.join(root, name))
        b = dict(before[name])
        for r in removed_ok:
            if r[0] == name:
                b.pop(r[1], None)
        if now != b:
            changed = sorted(set(now.items()) ^ set(b.items()))[:3]
            bad.append(f"input {name} was modified: {changed}")
    inputs_abs = [os.path.join(root, n) for n in INPUTS]
    wr = [p for p in audit.writes(events) if not p.startswith(IGNORED) and not p.endswith(".pyc") and "__pycache__" not in p
          and audit.inside(p, root)]
    # files created anywhere in the case root
    for p in wr:
        if any(audit.inside(p, i) for i in inputs_abs) and not any(os.path.relpath(p, os.path.join(root, r[0])) == r[1] for r in removed_ok):
            bad.append(f"write inside an input directory: {os.path.relpath(p, root)}")
        elif not any(audit.inside(p, a) or p.startswith(a) for a in allowed):
            bad.append(f"write outside the output path / documented default: {os.path.relpath(p, root)}")
    for b in sorted(set(bad))[:3]:
        rep.fail(b, case)
    return not bad


def allowed_roots(root, tool, out_kind, inp_name):
    if out_kind == "none":
        return []
    if out_kind != "default":
        return [os.path.join(root, n) for n in ("out_col", "out_col2", "out_cmb", "out_cmb4", "out_cmb5", "out_ck", "out_cks", "out_arr", "out_slc", "out_arr2",
                                                "out_grid", "out_plt", "plt00010.pkl", "plt2fab10.pkl", "chk_runs", "plt_runs")]
    # documented defaults: beside the input (same parent directory) or in the working directory, never inside the input
    base = tool.split("-")[0]
    if base == "chef":
        return [os.path.join(root, inp_name + "_ck")]
    if base == "marinate":
        return [os.path.join(root, inp_name + ".pkl")]
    if base == "combine":
        return [os.path.join(root, "plt00010plt00040" if "bybox" in tool else "plt00010plt00020")]
    if base == "chk2plt":
        d, b = os.path.split(inp_name)
        return [os.path.join(root, d, b.replace("chk", "plt") if "chk" in b else b + "_plt")]
    if base == "mandoline":
        return [os.path.join(root, "S")]          # S<normal><pos><field>_<number> beside the input
    if base == "whip":
        return [os.path.join(root, "temp_ugrid_")]
    return [root]


def model_default(rep, case, root, template, tool, form, inp_name):
    """where the tool wrote vs. the Lean model of its default output path"""
    from .. import leanio
    base = tool.split("-")[0]
    if base not in ("chef", "marinate", "chk2plt", "combine", "mandoline") or "parentchk" in tool:
        return
    new = sorted(set(os.listdir(root)) - set(os.listdir(template)))
    if len(new) != 1:
        rep.tie(f"{tool}: expected one new entry beside the inputs, found {new}", case); return
    arg = form_path(root, inp_name, form)
    req = {"op": "paths", "path": arg, "path2": form_path(root, "plt00040" if "bybox" in tool else "plt00020", form)}
    if base == "mandoline":
        name = new[0][:-4] if new[0].endswith(".npz") else new[0]
        req["slicename"] = name.rsplit("_", 1)[0]
    m = leanio.driver([req])[0]
    want = m[base] + (".npz" if base == "mandoline" and new[0].endswith(".npz") else "")
    got = os.path.join(root, new[0])
    if os.path.normpath(os.path.join(root, want)) == got:
        rep.agree()
    else:
        rep.tie(f"{tool}: default output {new[0]!r} differs from the Lean path model's {want!r}", case, {"model": m})


def run(ctx, rep, model=True):
    template = build_template(ctx)
    before = {n: audit.tree_hash(os.path.join(template, n)) for n in INPUTS}
    forms = ["rel", "abs", "slash"] + ([] if ctx.quick else ["abs-slash"])
    fault_budget = 16 if ctx.quick else 10 ** 6
    for tool, fn, inp_name, out_kinds in invocations():
        for out_kind in out_kinds:
            for form in forms:
                case = {"tool": tool, "form": form, "out": out_kind, "scenario": "success"}
                rep.case(case, nontrivial=True); rep.count("tool:" + tool.split("-")[0]); rep.count("form:" + form); rep.count("out:" + out_kind)
                root = fresh(ctx, template)
                outcome, ev = execute(root, lambda: fn(root, form, out_kind))
                judge_writes(rep, case, root, before, ev, allowed_roots(root, tool, out_kind, inp_name))
                rep.count("outcome:" + ("ok" if outcome == "ok" else "raised"))
                if model and out_kind == "default" and outcome == "ok":
                    model_default(rep, case, root, template, tool, form, inp_name)
                shutil.rmtree(root, ignore_errors=True)
            # fault at every write-side call (first form)
            if out_kind == "none":
                continue
            form = forms[(len(tool) + len(out_kind)) % 2]
            root = fresh(ctx, template)
            inj = audit.Injector(None)
            outcome, ev = execute(root, lambda: fn(root, form, out_kind), inj)
            shutil.rmtree(root, ignore_errors=True)
            if outcome != "ok":
                continue            # this form does not run to completion: nothing to inject into
            N = inj.n
            ks = list(range(N))
            if N > fault_budget:
                ks = audit.stratified(inj.sites, fault_budget, ctx.rng)
            rep.extra.setdefault("write_side_calls", {})[f"{tool}/{out_kind}"] = N
            for k in ks:
                case = {"tool": tool, "form": form, "out": out_kind, "scenario": "fault", "k": k}
                rep.case(case, nontrivial=True); rep.count("scenario:fault")
                root = fresh(ctx, template)
                inj = audit.Injector(k)
                outcome, ev = execute(root, lambda: fn(root, form, out_kind), inj)
                if inj.fired is None:
                    rep.count("fault-not-reached")
                elif outcome == "ok":
                    rep.fail(f"an I/O error at write-side call {k} ({inj.fired}) was swallowed: the tool returned normally", case)
                judge_writes(rep, case, root, before, ev, allowed_roots(root, tool, out_kind, inp_name))
                shutil.rmtree(root, ignore_errors=True)
                if len(rep.violations) >= 15:
                    return
    for tool, fn, inp_name, out_kinds in invocations():
        if "explicit-rel" not in out_kinds and "default" not in out_kinds:
            continue
        out_kind = "explicit-rel" if "explicit-rel" in out_kinds else "default"
        case = {"tool": tool, "form": "rel", "out": out_kind, "scenario": "second-directory"}
        rep.case(case, nontrivial=True); rep.count("scenario:second-directory")
        rootA = fresh(ctx, template); rootB = fresh(ctx, template)
        execute(rootA, lambda: fn(rootA, "rel", out_kind))
        hashA = audit.tree_hash(rootA)
        outcome, ev = execute(rootB, lambda: fn(rootB, "rel", out_kind))
        if outcome != "ok":
            rep.fail(f"{tool}: the invocation that succeeds from one working directory fails ({outcome}) from a second one "
                     "with the same relative names", case)
        judge_writes(rep, case, rootB, before, ev, allowed_roots(rootB, tool, out_kind, inp_name))
        if audit.tree_hash(rootA) != hashA:
            rep.fail(f"{tool}: run from a second working directory, it changed files of the first one", case)
        shutil.rmtree(rootA, ignore_errors=True); shutil.rmtree(rootB, ignore_errors=True)
        if len(rep.violations) >= 15:
            return
    for name, prep, fn in FAILING:
        case = {"tool": name, "scenario": "failing-input"}
        rep.case(case, nontrivial=True); rep.count("scenario:failing-input")
        root = fresh(ctx, template)
        if prep is not None:
            try:
                prep(root)
            except RuntimeError:
                # the generated inputs do not allow this damage (e.g. no binary file holding two FABs)
                rep.count("failing-input-not-applicable"); shutil.rmtree(root, ignore_errors=True); continue
        before2 = {n: audit.tree_hash(os.path.join(root, n)) for n in INPUTS}
        outcome, ev = execute(root, lambda: fn(root))
        if outcome == "ok":
            rep.fail(f"{name}: the tool returned normally", case)
        judge_writes(rep, case, root, before2, ev, allowed_roots(root, "x", "explicit-rel", "plt00010"))
        shutil.rmtree(root, ignore_errors=True)


def replay(ctx, rep, obj, model=True):
    c = obj["case"]
    template = build_template(ctx)
    before = {n: audit.tree_hash(os.path.join(template, n)) for n in INPUTS}
    root = fresh(ctx, template)
    if c["scenario"] == "failing-input":
        prep, fn = {n: (p, f) for n, p, f in FAILING}[c["tool"]]
        if prep is not None:
            try:
                prep(root)
            except RuntimeError:
                return
        outcome, ev = execute(root, lambda: fn(root))
        if outcome == "ok":
            rep.fail(f"{c['tool']}: the tool returned normally", c)
        return
    if c["scenario"] == "second-directory":
        for tool, fn, inp_name, out_kinds in invocations():
            if tool == c["tool"]:
                rootA = fresh(ctx, template)
                execute(rootA, lambda: fn(rootA, "rel", c["out"]))
                hashA = audit.tree_hash(rootA)
                outcome, ev = execute(root, lambda: fn(root, "rel", c["out"]))
                if outcome != "ok":
                    rep.fail(f"{tool}: fails ({outcome}) from a second working directory with the same relative names", c)
                judge_writes(rep, c, root, before, ev, allowed_roots(root, tool, c["out"], inp_name))
                if audit.tree_hash(rootA) != hashA:
                    rep.fail(f"{tool}: run from a second working directory, it changed files of the first one", c)
        return
    for tool, fn, inp_name, out_kinds in invocations():
        if tool == c["tool"]:
            inj = audit.Injector(c["k"]) if c["scenario"] == "fault" else None
            outcome, ev = execute(root, lambda: fn(root, c["form"], c["out"]), inj)
            if inj is not None and inj.fired is not None and outcome == "ok":
                rep.fail(f"an I/O error at write-side call {c['k']} ({inj.fired}) was swallowed: the tool returned normally", c)
            judge_writes(rep, c, root, before, ev, allowed_roots(root, tool, c["out"], inp_name))
