"""C05 - colander output holds exactly the kept fields and levels, bit for bit."""
import os
import numpy as np
from .. import plotgen, oracle, leanio, pools, tastelib, writers
from ..common import quiet, alarm
from .c01 import dedup_names

RULE = ("case = (generated plotfile spec (2D/3D, scattered layouts, random bit patterns), ordered variable selection "
        "(subset / reordering / unknown names mixed in / 'all' / only unknown names), level limit); output parsed by the "
        "independent oracle, validated with taste, compared field by field and bit for bit with the input, and offset for "
        "offset with the Lean record-level model; non-trivial = spec has >=2 layout/mesh features or the selection is not 'all'")


def selections(rng, names):
    names = list(names)
    n = len(names)
    out = [["all"], list(names), names[::-1], [names[-1]], [names[0], "nope"], ["nope", names[n // 2]]]
    if n >= 3:
        out += [[names[2], names[0]], names[1:], ["zzz"] + names[::2] + ["yyy"]]
    if n >= 4:
        # lowest position first, highest last, the ones between them out of file order (a block of neighbouring fields that
        # is no ascending range)
        out.append(names[:1] + names[1:-1][::-1] + names[-1:])
        out.append(names[1:2] + names[2:-1][::-1] + names[-1:] if n >= 5 else names[:1] + names[2:-1] + names[1:2] + names[-1:])
    out.append(["nope", "neither"])
    # names absent from the plotfile that equal a field up to letter case, alone and next to a field
    for nm in names[:2]:
        v = nm.upper() if nm != nm.upper() else nm.lower()
        if v not in names:
            out += [[v], [v, names[-1]]]
    for _ in range(2):
        k = rng.randint(1, n)
        out.append(rng.sample(names, k))
    return out


def run_case(ctx, rep, spec, variables, limit, model, path=None, P=None, start=None, cli=False, before=None, slash=False):
    from amr_kitchen.colander.colander import Colander
    if path is None:
        path = ctx.newdir("c05in_")
        plotgen.materialize(spec, path)
        P = oracle.parse(path)
    out = ctx.newdir("c05out_")
    case = {"spec": spec, "variables": variables, "limit": limit, "cli": cli, "before": before, "slash": slash}
    if slash: rep.count("input-named-with-a-trailing-separator")
    if cli: rep.count("console-script")
    if before is not None:
        # the output directory already holds another strain of the same input (same boxes per file, same number of
        # kept fields): a series of runs writing to one place
        try:
            with alarm(120), quiet(), pools.controlled():
                Colander(plotfile=path, limit_level=limit, output=out, variables=list(before)).strain()
            rep.count("output-directory-holds-an-earlier-strain")
        except Exception:
            pass
    names = dedup_names(spec["fields"])
    nlev_in = len(spec["levels"])
    L = nlev_in - 1 if limit is None else limit
    if variables == ["all"]:
        kept_names = list(names); kept = [names[n] for n in kept_names]
    else:
        kept_names = [v for v in variables if v in names]; kept = [names[v] for v in kept_names]
    feats = plotgen.describe(spec)
    rep.case({"s": spec, "v": variables, "l": limit, "cli": cli}, nontrivial=(len(feats) >= 2 or variables != ["all"]))
    rep.count(f"kept:{min(len(kept), 4)}"); rep.count(f"limit:{limit}")
    try:
        with alarm(120), quiet(), pools.controlled(start=start):
            # the input named the way shell completion leaves it (a trailing separator), the output without one
            pin = path + "/" if slash else path
            if cli:
                from .. import tools
                tools.colander_cli(pin, out, variables, limit)
            else:
                Colander(plotfile=pin, limit_level=limit, output=out, variables=list(variables)).strain()
    except SystemExit as e:
        rep.fail(f"the colander console script exited ({e.code}) on a valid invocation", case)
        return
    except Exception as e:
        rep.fail(f"colander raised {type(e).__name__}: {e}", case)
        return
    keys = ["colander-kept-empty"] if not kept else []
    good, raised = tastelib.real_taste(out)
    if not good:
        rep.fail(f"validation rejects colander's output (raised {raised})", case, keys=keys)
        return
    try:
        Q = oracle.parse(out)
    except (oracle.OracleError, OSError) as e:
        rep.fail(f"colander's output is not a well-formed plotfile: {e}", case, keys=keys)
        return
    bad = []
    if Q["fields"] != kept_names:
        bad.append(f"fields {Q['fields']} != requested-and-present {kept_names}")
    bad += writers.same_mesh_meta(P, Q, L + 1, "colander")
    if not bad:
        for lv in range(L + 1):
            for b in range(len(P["levels"][lv]["idx"])):
                if not oracle.same_bits(Q["levels"][lv]["data"][b], P["levels"][lv]["data"][b][..., kept]):
                    bad.append(f"level {lv} box {b}: kept fields are not bit-identical to the input box"); break
            if not writers.rows_equal(Q["levels"][lv]["mins"], np.asarray(P["levels"][lv]["mins"])[:, kept]) or \
               not writers.rows_equal(Q["levels"][lv]["maxs"], np.asarray(P["levels"][lv]["maxs"])[:, kept]):
                bad.append(f"level {lv}: min/max rows are not the input rows restricted to the kept fields")
    for b in bad[:3]:
        rep.fail(b, case, keys=keys)
    if bad or not model:
        return
    # correspondence with the Lean record-level model: same files, same offsets, right record at each offset
    recs = writers.level_records(P)[: L + 1]
    m = leanio.driver([{"op": "colander", "levels": recs, "kept": kept, "nvars": len(spec["fields"])}])[0]
    ok = True
    for lv in range(L + 1):
        for b, ob in enumerate(m["levels"][lv]):
            f, o = Q["levels"][lv]["fab"][b]
            if (ob["file"], ob["offset"]) != (f, o) or ob["found"] is None or ob["found"]["box"] != b or ob["found"]["comps"] != kept:
                ok = False
    if ok:
        rep.agree()
    else:
        rep.tie("colander's output layout (file, offset per box) differs from the model's", case)
    mn = leanio.driver([{"op": "names", "tool": "colander", "names": list(names),
                         "vars": None if variables == ["all"] else list(variables)}])[0]
    if mn.get("fields") == Q["fields"] and mn.get("indices") == kept:
        rep.agree()
    else:
        rep.tie("the fields colander wrote (names / positions) differ from the Lean selection rule", case,
                {"real": Q["fields"], "model": mn})
    if kept:
        diff = writers.level_headers_match_rewrite(path, out, Q, kept, leanio)
        if diff:
            rep.tie(f"the level headers of levels {diff} differ from the Lean line rewriter's (C05.level_header_rows_restricted)", case)
        else:
            rep.agree(); rep.count("level-headers-are-the-rewriter's")
    cert = tastelib.wf_certificate(out, leanio)
    if cert is None:
        rep.agree(); rep.count("wf-certificate-passes")
    elif cert != "names":
        rep.tie(f"colander's output does not pass the Lean well-formedness certificate ({cert})", case)
    why = writers.output_header_matches_rewrite(path, out, limit, Q["fields"], "colander", leanio, rep)
    if why:
        rep.tie(f"header colander derives from its input: {why} (C05.output_header_keeps_mesh / output_header_read_back)", case)
    else:
        rep.agree(); rep.count("output-header-is-the-writer-model's")
    why = writers.global_header_theorem_applies(out, leanio)
    if why:
        rep.tie(f"global header of colander's output: {why} (whose parse-after-render law is proved)", case)
    else:
        rep.agree(); rep.count("header-theorem-applies")


def relative_session(ctx, rep, seed):
    """colander (API, then console script) started from two working directories in turn, each holding its own `plt`, with the
    relative names `plt` / `out`: every output must be the strained copy of the `plt` of its own directory, in that directory"""
    import random
    from ..common import chdir
    from amr_kitchen.colander.colander import Colander
    rng = random.Random(seed)
    base = ctx.newdir("c05rel_")
    dirs = []
    for k in range(2):
        d = os.path.join(base, f"case{k}"); os.makedirs(d)
        spec = plotgen.random_spec(rng, ndims=3, nf=3, data="smallint", B=2, layout="scatter", nlev=2)
        plotgen.materialize(spec, os.path.join(d, "plt"))
        dirs.append((d, spec))
    case = {"relative_session": seed}
    rep.case({"relsession": seed}, nontrivial=True); rep.count("relative-names-from-two-working-directories")
    for rnd, how in enumerate(("api", "cli")):
        for k, (d, spec) in enumerate(dirs):
            names = list(dedup_names(spec["fields"]))
            sel = [names[-1], names[0]]
            outname = f"out{rnd}"
            try:
                with chdir(d), alarm(120), quiet(), pools.controlled():
                    if how == "api":
                        Colander(plotfile="plt", limit_level=None, output=outname, variables=list(sel)).strain()
                    else:
                        from .. import tools
                        tools.colander_cli("plt", outname, sel, None)
            except BaseException as e:
                if isinstance(e, KeyboardInterrupt): raise
                rep.fail(f"colander ({how}) with relative names from working directory #{k} raised {type(e).__name__}: {e}", case); return
            try:
                P = oracle.parse(os.path.join(d, "plt")); Q = oracle.parse(os.path.join(d, outname))
            except (oracle.OracleError, OSError) as e:
                rep.fail(f"colander ({how}) with relative names from working directory #{k}: no well-formed output there ({e})", case); return
            kept = [dedup_names(spec["fields"])[v] for v in sel]
            ok = Q["fields"] == sel and all(
                oracle.same_bits(Q["levels"][lv]["data"][b], P["levels"][lv]["data"][b][..., kept])
                for lv in range(len(P["levels"])) for b in range(len(P["levels"][lv]["idx"])))
            if not ok:
                rep.fail(f"colander ({how}) with relative names from working directory #{k}: the output is not the strained copy of that directory's plotfile", case)
                return
    rep.agree()


def run(ctx, rep, model=True):
    relative_session(ctx, rep, ctx.rng.randrange(1 << 30))
    n = 16 if ctx.quick else 120
    for i in range(n):
        spec = plotgen.random_spec(ctx.rng, ndims=[3, 2][i % 2], nf=[3, 4, 2, 5, 1][i % 5], data=["bits", "tags"][i % 3 == 2],
                                   B=2, layout=["scatter", "perm", "files", "scatter"][i % 4], repeats=(i % 7 == 6))
        if i % 5 == 2:
            spec["subcycle"] = True; spec["step"] = 7        # per-level steps 7, 14, 28
        if i % 4 == 3:
            # species names with a comma (isomers such as 1,3-butadiene) or a space in them
            k = ctx.rng.randrange(len(spec["fields"]))
            spec["fields"][k] = ["Y(C4H6-1,3)", "Y(C5H8 1,3)", "I_R(C4H6-1,3)"][(i // 4) % 3]; rep.count("field-name-with-comma")
        if i % 6 == 1:
            spec["cellh_no_final_newline"] = True; rep.count("level-header-without-final-newline")
        if i % 5 == 1 and len(spec["fields"]) >= 2 and len(set(spec["fields"])) == len(spec["fields"]):
            # two fields whose names differ only in letter case (CO and Co, temp and Temp)
            a, b = [("Y(CO)", "Y(Co)"), ("temp", "Temp"), ("rhoh", "RhoH")][(i // 5) % 3]
            ks = ctx.rng.sample(range(len(spec["fields"])), 2)
            spec["fields"][ks[0]], spec["fields"][ks[1]] = a, b; rep.count("field-names-differing-only-in-case")
        path = ctx.newdir("c05in_")
        plotgen.materialize(spec, path)
        P = oracle.parse(path)
        names = dedup_names(spec["fields"])
        nlev = len(spec["levels"])
        sels = selections(ctx.rng, names)
        for j, v in enumerate(sels):
            limit = [None, 0, nlev - 1, max(0, nlev - 2)][j % 4]
            start = [None, pools.order_reversed][j % 2]
            run_case(ctx, rep, spec, v, limit, model, path, P, start, cli=(j % 4 == 1 and i % 2 == 0), slash=(j % 5 == 2))
        if len(names) >= 2:
            nm = list(names)
            run_case(ctx, rep, spec, [nm[0]], None, model, path, P, before=[nm[-1]])
            run_case(ctx, rep, spec, nm[:-1], 0, model, path, P, before=nm[1:])
        if len(rep.violations) >= 10:
            return


def replay(ctx, rep, obj, model=True):
    c = obj["case"]
    if "relative_session" in c:
        relative_session(ctx, rep, c["relative_session"]); return
    run_case(ctx, rep, c["spec"], c["variables"], c["limit"], model, cli=c.get("cli", False), before=c.get("before"), slash=c.get("slash", False))
