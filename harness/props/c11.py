"""C11 - chef writes recipe(box) under the right names with true min/max."""
import os, copy
import numpy as np
from .. import plotgen, oracle, leanio, pools, tastelib, writers
from ..common import quiet, alarm, REPO
from .c01 import dedup_names

RULE = ("case = (generated 3D plotfile spec with scattered layouts, recipe out of {one-component .py recipe, two-component .py "
        "recipe, callable recipe, .py recipe with solution array, built-in HRR / ENT / SRi / SDi / RRi on a 21-species synthetic "
        "plotfile with tiny boxes and cells at T=0 / sum(Y)=0}, kept-field list (none, subset, reordered, unknown names), serial "
        "or pool with a start order; thermochemical cooks follow each other in one process at different pressures); output parsed by the oracle and tasted; new components compared with the recipe evaluated "
        "by the oracle on the input box (Cantera evaluated independently per cell, rtol 1e-9), kept components bit for bit, "
        "names by position, min/max rows with the extrema of the written data, layout with the Lean record-level model; "
        "non-trivial = kept fields given or non-monotone layout or built-in recipe")

MECH = os.path.join(REPO, "test_assets", "drm19.yaml")
SPECIES = ['H2', 'H', 'O', 'O2', 'OH', 'H2O', 'HO2', 'CH2', 'CH2(S)', 'CH3', 'CH4', 'CO', 'CO2', 'HCO', 'CH2O', 'CH3O',
           'C2H4', 'C2H5', 'C2H6', 'N2', 'AR']

REC1 = '''
def recipe(field_indexes, box_array):
    """dbl"""
    return box_array[:, :, :, field_indexes[%r]] * 2
'''
REC2 = '''
import numpy as np
def recipe(field_indexes, box_array):
    """sum diff"""
    a = box_array[:, :, :, field_indexes[%r]]
    b = box_array[:, :, :, field_indexes[%r]]
    return np.stack([a + b, a - b], axis=-1)
'''
REC4 = '''
import numpy as np
def recipe(field_indexes, box_array):
    """%s"""
    a = box_array[:, :, :, field_indexes[%r]]
    return %s
'''
REC4_FORMS = [("above", "a > 2", lambda a: (a > 2).astype(float)),
              ("bin", "np.digitize(a, [1.5, 3.5, 6.5])", lambda a: np.digitize(a, [1.5, 3.5, 6.5]).astype(float)),
              ("half", "(a / 2).astype(np.float32)", lambda a: (a / 2).astype(np.float32).astype(float)),
              # a ratio whose denominator vanishes in at least one cell of every box: +inf (and -inf) are data like any other
              ("ratio", "np.divide(np.sign(a - 0.5), a - a[0, 0, 0])", lambda a: _ratio(a))]


def _ratio(a):
    with np.errstate(divide="ignore", invalid="ignore"):
        return np.divide(np.sign(a - 0.5), a - a[0, 0, 0])


_REC4_N = 4
REC5 = '''
import numpy as np
def recipe(field_indexes, box_array):
    """
    mom_a
    mom_b
    mom_ab
    """
    a = box_array[:, :, :, field_indexes[%r]]
    b = box_array[:, :, :, field_indexes[%r]]
    return np.stack([a * 2, b * 3, a * b], axis=-1)
'''
REC6 = '''
import numpy as np
_out = {}
def recipe(field_indexes, box_array):
    """twice"""
    # the output buffer is kept between calls (one per box shape) to save allocations
    buf = _out.setdefault(box_array.shape[:3], np.empty(box_array.shape[:3]))
    buf[...] = box_array[:, :, :, field_indexes[%r]] * 2
    return buf
'''
REC7 = '''
import numpy as np
def recipe(field_indexes, box_array):
    """q1 q2 q3 q4"""
    a = box_array[:, :, :, field_indexes[%r]]
    return np.stack([a, a * 2, a + 1, -a], axis=-1)
'''
REC3 = '''
def recipe(field_indexes, box_array, sol_array):
    """cpmass"""
    return sol_array.cp_mass
'''


def species_spec(rng, nlev=1):
    spec = plotgen.random_spec(rng, ndims=3, nlev=nlev, nf=1, data="thermo", B=2, nblk=[2, 1, 1], layout="scatter", refine_p=0.3)
    spec["fields"] = ["density", "temp"] + [f"Y({s})" for s in SPECIES] + ["x_velocity"]
    return spec


def thermo_payload(spec, lv, bid, k):
    """plotgen hook for data mode 'thermo'"""
    lo, hi = spec["levels"][lv][bid]
    shape = [hi[d] - lo[d] + 1 for d in range(3)]
    n = int(np.prod(shape))
    r = np.random.RandomState((spec["data"]["seed"] + 1000003 * lv + 10007 * bid) % (1 << 31))
    T = r.uniform(400, 2200, size=n)
    Y = r.uniform(0.0, 1.0, size=(n, len(SPECIES))) ** 4
    Y /= Y.sum(axis=1)[:, None]
    if spec["data"].get("nearly_uniform"):
        # a box of (almost) quiescent gas: the temperature varies by millikelvins, one radical by 1e-9 - every cell is still
        # its own state
        T = 300.0 + r.uniform(0.0, 2.5e-3, size=n)
        Y = np.tile(Y[0], (n, 1))
        Y[:, SPECIES.index("H")] = r.uniform(0.0, 1e-9, size=n)
    # a cell without temperature and one without composition (the cleaning rule)
    elif n > 2:
        # at positions that differ from box to box (a state left behind by another box of the same shape would show)
        T[(1 + bid + 2 * lv) % n] = 0.0
        Y[(2 + 3 * bid + lv) % n, :] = 0.0
    name = spec["fields"][k]
    if name == "temp":
        v = T
    elif name.startswith("Y("):
        v = Y[:, SPECIES.index(name[2:-1])]
    else:
        v = r.uniform(-1, 1, size=n) + k
    return v.reshape(shape, order="F")


plotgen.EXTRA_MODES = getattr(plotgen, "EXTRA_MODES", {})
plotgen.EXTRA_MODES["thermo"] = thermo_payload


_UL = {}


def mech_of(ctx, spec):
    """the mechanism file of a case: the shipped one, or (spec["unity_lewis"]) a copy of it whose phase declares the
    unity-Lewis-number transport model instead of the mixture-averaged one"""
    if not spec.get("unity_lewis"):
        return MECH
    if "path" not in _UL or not os.path.exists(_UL["path"]):
        d = ctx.newdir("c11mech_"); os.makedirs(d)
        _UL["path"] = os.path.join(d, "drm19_unity_lewis.yaml")
        text = open(MECH).read()
        assert "transport: mixture-averaged" in text
        open(_UL["path"], "w").write(text.replace("transport: mixture-averaged", "transport: unity-Lewis-number"))
    return _UL["path"]


def cantera_expected(arr, names, recipe, species=None, reactions=None, pressure=1.0, mech=None):
    """independent per-cell evaluation (not through SolutionArray)"""
    import cantera as ct
    gas = ct.Solution(mech or MECH)
    P = pressure * ct.one_atm
    it = names["temp"]
    iy = [names[f"Y({s})"] for s in SPECIES]
    shape = arr.shape[:3]
    attr = {"HRR": "heat_release_rate", "ENT": "enthalpy_mass", "SRi": "net_production_rates",
            "SDi": "mix_diff_coeffs_mass", "RRi": "net_rates_of_progress", "cpmass": "cp_mass"}[recipe]
    ncomp = 1 if recipe in ("HRR", "ENT", "cpmass") else (len(species) if species else len(reactions))
    out = np.zeros(shape + (ncomp,))
    for idx in np.ndindex(*shape):
        T = arr[idx + (it,)]
        Y = np.array([arr[idx + (i,)] for i in iy])
        if np.isclose(T, 0):
            T = 1.0
        if np.isclose(Y.sum(), 0):
            Y = Y.copy(); Y[SPECIES.index("O2")] = 1.0
        gas.TPY = T, P, Y
        v = getattr(gas, attr)
        if recipe in ("HRR", "ENT", "cpmass"):
            out[idx + (0,)] = v
        elif species:
            out[idx] = [v[gas.species_index(s)] for s in species]
        else:
            out[idx] = [v[r] for r in reactions]
    return out


def recipe_path(ctx, kind):
    """every user recipe of a run is a file called `recipe.py` (in its own fresh directory): what one process cooks one after
    the other has the same module name and different contents"""
    d = ctx.newdir("c11rec_"); os.makedirs(d)
    return os.path.join(d, "recipe.py")


LAST = []      # the previous thermochemical cook of this process (module state of the tool survives between Chef objects)


def run_case(ctx, rep, spec, recipe, kept, serial, model, start=None, species=None, reactions=None, pressure=1.0, check=True):
    from amr_kitchen.chef.chef import Chef
    path = ctx.newdir("c11in_")
    truth = plotgen.materialize(spec, path)
    P = oracle.parse(path)
    names = dedup_names(spec["fields"])
    out = ctx.newdir("c11out_")
    case = {"spec": spec, "recipe": recipe, "kept": kept, "serial": serial, "species": species, "reactions": reactions,
            "pressure": pressure}
    feats = plotgen.describe(spec)
    builtin = recipe in ("HRR", "ENT", "SRi", "SDi", "RRi")
    if builtin or recipe == "rec3":
        case["previous"] = list(LAST)
        LAST[:] = [{k: v for k, v in case.items() if k != "previous"}]
        rep.count(f"pressure:{pressure}")
    rep.case({"s": spec, "r": recipe, "k": kept, "ser": serial, "sp": species, "rx": reactions, "P": pressure},
             nontrivial=(kept is not None or "nonmonotone" in feats or builtin))
    rep.count("recipe:" + recipe); rep.count("kept" if kept else "no-kept"); rep.count("serial" if serial else "pool")
    kept_names = [f for f in (kept.split() if kept else []) if f in names]
    kept_idx = [names[f] for f in kept_names]
    a, b = list(names)[0], list(names)[-1]
    kw = {}
    if recipe == "rec1":
        rp = recipe_path(ctx, "rec1"); open(rp, "w").write(REC1 % a)
        rec, new_names = rp, ["dbl"]
        fn = lambda arr: (arr[..., names[a]] * 2)[..., None]
    elif recipe == "rec2":
        rp = recipe_path(ctx, "rec2"); open(rp, "w").write(REC2 % (a, b))
        rec, new_names = rp, ["sum", "diff"]
        fn = lambda arr: np.stack([arr[..., names[a]] + arr[..., names[b]], arr[..., names[a]] - arr[..., names[b]]], axis=-1)
    elif recipe.startswith("rec4"):
        # a recipe whose result is not float64 (a mask, a bin index, single precision)
        nm4, expr, f4 = REC4_FORMS[int(recipe[4:] or 0)]
        rp = recipe_path(ctx, "rec4"); open(rp, "w").write(REC4 % (nm4, a, expr))
        rec, new_names = rp, [nm4]
        fn = lambda arr: f4(arr[..., names[a]])[..., None]
    elif recipe == "rec5":
        # the names of the components one per line in the docstring
        rp = recipe_path(ctx, "rec5"); open(rp, "w").write(REC5 % (a, b))
        rec, new_names = rp, ["mom_a", "mom_b", "mom_ab"]
        fn = lambda arr: np.stack([arr[..., names[a]] * 2, arr[..., names[b]] * 3, arr[..., names[a]] * arr[..., names[b]]], axis=-1)
    elif recipe == "rec6":
        rp = recipe_path(ctx, "rec6"); open(rp, "w").write(REC6 % a)
        rec, new_names = rp, ["twice"]
        fn = lambda arr: (arr[..., names[a]] * 2)[..., None]
    elif recipe == "rec7":
        rp = recipe_path(ctx, "rec7"); open(rp, "w").write(REC7 % a)
        rec, new_names = rp, ["q1", "q2", "q3", "q4"]
        fn = lambda arr: np.stack([arr[..., names[a]], arr[..., names[a]] * 2, arr[..., names[a]] + 1, -arr[..., names[a]]], axis=-1)
    elif recipe == "callable":
        def rcall(fi, arr):
            "triple"
            return arr[..., fi[a]] * 3
        rec, new_names = rcall, ["triple"]
        fn = lambda arr: (arr[..., names[a]] * 3)[..., None]
    elif recipe == "rec3":
        rp = os.path.join(ctx.scratch, f"rec3_{ctx._n}.py"); open(rp, "w").write(REC3)
        rec, new_names = rp, ["cpmass"]
        kw = dict(mech=mech_of(ctx, spec), pressure=pressure)
        fn = lambda arr: cantera_expected(arr, names, "cpmass", pressure=pressure, mech=mech_of(ctx, spec))
    else:
        rec = recipe
        kw = dict(mech=mech_of(ctx, spec), pressure=pressure, species=species, reactions=reactions)
        prefix = {"HRR": "HeatRelease", "ENT": "Enthalpy", "SRi": "IRm", "RRi": "R", "SDi": "DI"}[recipe]
        new_names = [f"{prefix}({s})" for s in species] if species else ([f"{prefix}{r}" for r in reactions] if reactions else [prefix])
        fn = lambda arr: cantera_expected(arr, names, recipe, species, reactions, pressure=pressure, mech=mech_of(ctx, spec))
    try:
        with alarm(300), quiet(), pools.controlled(start=start):
            Chef(plotfile=path, recipe=rec, outfile=out, kept_fields=kept, serial=serial, **kw).cook()
    except Exception as e:
        if spec.get("species_permuted") and isinstance(e, ValueError):
            rep.count("permuted-species-refused")      # refusing a species block in another order than the mechanism's is fine
            return
        rep.fail(f"chef raised {type(e).__name__}: {e}", case)
        return
    if not check:
        return
    good, r = tastelib.real_taste(out)
    try:
        Q = oracle.parse(out)
    except (oracle.OracleError, OSError) as e:
        rep.fail(f"chef's output is not a well-formed plotfile: {e}", case, obs={"taste": good}); return
    if not good:
        rep.fail(f"validation rejects chef's output (raised {r})", case); return
    bad = []
    if sorted(Q["fields"]) != sorted(kept_names + new_names) or len(set(Q["fields"])) != len(Q["fields"]):
        bad.append(f"fields {Q['fields']} are not the kept names {kept_names} plus the recipe's names {new_names}")
    bad += writers.same_mesh_meta(P, Q, len(spec["levels"]), "chef")
    exact = recipe in ("rec1", "rec2", "callable", "rec5") or recipe.startswith("rec4")
    if not bad:
        for lv in range(len(spec["levels"])):
            for bx in range(len(P["levels"][lv]["idx"])):
                src = P["levels"][lv]["data"][bx]
                got = Q["levels"][lv]["data"][bx]
                want_new = fn(np.array(src))
                for pos, nm in enumerate(Q["fields"]):
                    # every component is stored under its own name, whatever the order of the names
                    if nm in kept_names:
                        if not oracle.same_bits(got[..., pos], src[..., names[nm]]):
                            bad.append(f"level {lv} box {bx}: component stored as kept field {nm!r} is not bit-identical to the input field"); break
                    else:
                        w = want_new[..., new_names.index(nm)]
                        ok = oracle.same_bits(got[..., pos], w) if exact else \
                            np.allclose(got[..., pos], w, rtol=1e-9, atol=1e-300 + 1e-12 * np.nanmax(np.abs(w)) if np.isfinite(w).any() else 0.0, equal_nan=True)
                        if not ok:
                            bad.append(f"level {lv} box {bx}: component stored as {nm!r} is not the recipe evaluated on the input box"); break
                if bad:
                    break
                with np.errstate(invalid="ignore"):
                    mn = np.min(got.reshape(-1, got.shape[-1]), axis=0); mx = np.max(got.reshape(-1, got.shape[-1]), axis=0)
                if not writers.rows_equal(Q["levels"][lv]["mins"][bx], mn) or not writers.rows_equal(Q["levels"][lv]["maxs"][bx], mx):
                    bad.append(f"level {lv} box {bx}: min/max row is not the extrema of the written data"); break
            if bad:
                break
    for x in bad[:3]:
        rep.fail(x, case)
    if bad or not model or Q["fields"] != kept_names + new_names:
        return
    nf_in = len(spec["fields"])
    newtags = [[[1000 + j for j in range(len(new_names))] for _ in lev["idx"]] for lev in P["levels"]]
    m = leanio.driver([{"op": "chef", "levels": writers.level_records(P), "kept": kept_idx, "nf_in": nf_in, "new": newtags}])[0]
    ok = True
    for lv in range(len(spec["levels"])):
        for bx, ob in enumerate(m["levels"][lv]):
            f, o = Q["levels"][lv]["fab"][bx]
            if (ob["file"], ob["offset"]) != (f, o) or ob["found"] is None or ob["found"]["box"] != bx or \
                    ob["found"]["comps"] != kept_idx + newtags[lv][bx]:
                ok = False
    if ok:
        rep.agree()
    else:
        rep.tie("chef's output layout (file, offset per box) differs from the model's", case)
    mn = leanio.driver([{"op": "names", "tool": "chef", "names": list(names), "kept": kept.split() if kept else [], "new": new_names}])[0]
    if sorted(mn.get("fields", [])) == sorted(Q["fields"]) and mn.get("kept_indices") == kept_idx:
        rep.agree()
    else:
        rep.tie("the fields chef wrote differ (as a set) from the Lean kept-plus-new rule", case, {"real": Q["fields"], "model": mn})
    cert = tastelib.wf_certificate(out, leanio)
    if cert is None:
        rep.agree(); rep.count("wf-certificate-passes")
    elif cert != "names":
        rep.tie(f"chef's output does not pass the Lean well-formedness certificate ({cert})", case)
    rc = tastelib.rows_model_check(out, leanio)
    if rc is not None and not rc[1]:
        rep.agree(); rep.count("rows-are-the-model's-true-extrema", rc[0])
    elif rc is not None:
        rep.tie(f"min/max rows of the plotfile chef wrote differ from the extrema the Lean model computes from the written bytes: {rc[1][0]} (C11.extrema_are_true)", case)
    why = writers.output_header_matches_rewrite(path, out, None, Q["fields"], "chef", leanio, rep)
    if why:
        rep.tie(f"header chef derives from its input: {why} (C11.output_header_keeps_mesh / output_header_read_back)", case)
    else:
        rep.agree(); rep.count("output-header-is-the-writer-model's")
    why = writers.global_header_theorem_applies(out, leanio)
    if why:
        rep.tie(f"global header of chef's output: {why} (whose parse-after-render law is proved)", case)
    else:
        rep.agree(); rep.count("header-theorem-applies")


def own_pool_twice(ctx, rep, seed):
    """two thermochemical cooks in pool mode in ONE process with the tool's own (pathos) pool, at different pressures: the
    second must be the serial result at ITS pressure (worker processes kept from the first cook still hold the first one's
    pressure and solution arrays)"""
    import random
    from amr_kitchen.chef.chef import Chef
    rng = random.Random(seed)
    spec = species_spec(rng, nlev=1)
    path = ctx.newdir("c11own_"); plotgen.materialize(spec, path)
    case = {"own_pool_twice": seed}
    rep.case({"own_pool_twice": seed}, nontrivial=True); rep.count("two-pool-mode-cooks-with-the-tool's-own-pool")
    outs = {}
    try:
        for key, pressure, serial in (("pool-1atm", 1.0, False), ("pool-3atm", 3.0, False), ("serial-3atm", 3.0, True)):
            out = ctx.newdir("c11ownout_")
            with alarm(600), quiet():
                Chef(plotfile=path, recipe="HRR", outfile=out, kept_fields=None, serial=serial, mech=MECH, pressure=pressure).cook()
            outs[key] = [np.array(a) for a in oracle.parse(out)["levels"][0]["data"]]
    except Exception as e:
        rep.fail(f"chef raised {type(e).__name__}: {e}", case); return
    same = lambda a, b: all(x.shape == y.shape and np.allclose(x, y, rtol=1e-12, atol=0, equal_nan=True) for x, y in zip(a, b))
    if not same(outs["pool-3atm"], outs["serial-3atm"]):
        rep.fail("the second pool-mode cook of this process (3 atm, the tool's own pool) differs from the serial cook at 3 atm"
                 + (": it holds the values of the FIRST cook's pressure (1 atm)" if same(outs["pool-3atm"], outs["pool-1atm"]) else ""), case)
    else:
        rep.agree()


def run(ctx, rep, model=True):
    own_pool_twice(ctx, rep, ctx.rng.randrange(1 << 30))
    n = 10 if ctx.quick else 50
    for i in range(n):
        spec = plotgen.random_spec(ctx.rng, ndims=3, nlev=[2, 1, 3][i % 3], nf=[3, 4, 2][i % 3], data="smallint", B=2,
                                   layout=["scatter", "perm", "files"][i % 3], profile="plain")
        if i % 3 == 0:
            spec["subcycle"] = True; spec["step"] = 7
        if i % 3 == 1:
            # a writer that prints the min / max tables with six significant digits (validation with binary_data accepts them)
            spec["rows_digits"] = 6; spec["data"]["field_scale"] = [1.0 / 3.0, 0.7, 1.1]; rep.count("input-extrema-printed-with-six-digits")
        names = list(dedup_names(spec["fields"]))
        kepts = [None, names[-1], " ".join(names[::-1]), f"nope {names[0]}", " ".join(names[1:])]
        for j, recipe in enumerate(["rec1", "rec2", "callable", f"rec4{i % 4}", "rec5"]):
            kept = kepts[(i + j) % len(kepts)]
            if recipe.startswith("rec4") and not kept:
                kept = names[-1]
            run_case(ctx, rep, spec, recipe, kept, serial=(j + i) % 2 == 0, model=model,
                     start=[None, pools.order_reversed][(i + j) % 2])
        if len(rep.violations) >= 10:
            return
    # a recipe that keeps its output buffer between calls, no kept fields, several boxes of one shape in a binary file; and four
    # components on boxes of 4 x 4 x 4 cells (as many cells along each edge as components)
    spec = plotgen.random_spec(ctx.rng, ndims=3, nlev=1, nf=2, data="smallint", B=4, nblk=[2, 2, 1], layout="mono", single0=False, profile="plain")
    spec["levels"] = [[[[4 * i, 4 * j, 0], [4 * i + 3, 4 * j + 3, 3]] for i in range(2) for j in range(2)]]
    spec["layout"] = [[[0, b] for b in range(4)]]
    rep.count("four-boxes-of-4x4x4-in-one-file")
    for recipe, kept, serial in (("rec6", None, True), ("rec6", None, False), ("rec7", None, True), ("rec7", list(dedup_names(spec["fields"]))[0], False)):
        run_case(ctx, rep, spec, recipe, kept, serial=serial, model=model)
    # thermochemical recipes on a 21-species synthetic plotfile with tiny boxes
    nb = 8 if ctx.quick else 24
    combos = [("HRR", None, None, None), ("ENT", "temp density", None, None), ("SRi", "temp", ["O2", "H2"], None),
              ("SDi", None, ["CH4"], None), ("RRi", "x_velocity temp", None, [0, 5, 83]), ("rec3", "density", None, None),
              ("HRR", "temp", None, None), ("SRi", None, ["N2", "AR", "OH"], None)]
    for i in range(nb):
        spec = species_spec(ctx.rng, nlev=[1, 2][i % 2])
        if i % 4 == 2:
            spec["data"]["nearly_uniform"] = True; rep.count("nearly-uniform-thermochemical-state")
        if combos[i % len(combos)][0] == "SDi":
            spec["unity_lewis"] = True; rep.count("mechanism-declaring-unity-Lewis-transport")
        recipe, kept, sp, rx = combos[i % len(combos)]
        run_case(ctx, rep, spec, recipe, kept, serial=(i % 2 == 0), model=model, species=sp, reactions=rx,
                 start=[None, pools.order_reversed][i % 2], pressure=[1.0, 3.0, 0.5, 1500.0, 2.0][i % 5])
        if i % 4 == 1:
            # the species block in another order than the mechanism's (its first species still first): refuse, or evaluate
            # every mass fraction under its own name
            sp2 = copy.deepcopy(spec)
            ys = [f for f in sp2["fields"] if f.startswith("Y(")]
            perm = ys[:1] + ys[1:][::-1]
            it = iter(perm)
            sp2["fields"] = [next(it) if f.startswith("Y(") else f for f in sp2["fields"]]
            sp2["species_permuted"] = True
            run_case(ctx, rep, sp2, recipe if recipe != "rec3" else "ENT", kept, serial=(i % 2 == 1), model=False, species=sp, reactions=rx)
        if len(rep.violations) >= 10:
            return


def replay(ctx, rep, obj, model=True):
    c = obj["case"]
    if "own_pool_twice" in c:
        own_pool_twice(ctx, rep, c["own_pool_twice"]); return
    for h in c.get("previous") or []:
        # the cook that preceded the failing one in the same process
        run_case(ctx, rep, h["spec"], h["recipe"], h["kept"], h["serial"], False, species=h.get("species"),
                 reactions=h.get("reactions"), pressure=h.get("pressure", 1.0), check=False)
    run_case(ctx, rep, c["spec"], c["recipe"], c["kept"], c["serial"], model, species=c.get("species"), reactions=c.get("reactions"),
             pressure=c.get("pressure", 1.0))
