"""C03 - taste accepts every well-formed plotfile under every option combination."""
import itertools
from .. import plotgen, tastelib, leanio

RULE = ("case = (generated well-formed plotfile spec, option set out of the 16 combinations of binary_headers / "
        "binary_shape / binary_data / boxes_coordinates, level limit in {None, 0..finest}, failing or non-failing mode); "
        "payloads alternate between unique tags and random 64-bit patterns (NaN, inf, denormals); non-trivial = spec has "
        ">=2 of {multilevel, multifile, non-monotone, non-cubic, origin, anisotropic} or a non-default option set")

OPTS = [dict(binary_headers=a, binary_shape=b, binary_data=c, boxes_coordinates=d)
        for a, b, c, d in itertools.product([True, False], repeat=4)]


def run_spec(ctx, rep, spec, model, only=None):
    path = ctx.newdir("c03_")
    if spec.get("path_sub"):
        # characters that mean something to glob / fnmatch / the shell in the plotfile path
        import os
        path = os.path.join(path, *spec["path_sub"]); os.makedirs(os.path.dirname(path))
        rep.count("glob-characters-in-path")
    plotgen.materialize(spec, path)
    tree = tastelib.snapshot(path)
    if spec.get("level_symlink"):
        # the directory of the finest level lives elsewhere and is reached through a symbolic link (data kept on another
        # file system); the snapshot above was taken before, the bytes are the same
        import os, shutil
        lv = len(spec["levels"]) - 1
        real = ctx.newdir("c03lvl_")
        shutil.move(os.path.join(path, f"Level_{lv}"), real)
        os.symlink(real, os.path.join(path, f"Level_{lv}"))
        rep.count("level-directory-is-a-symbolic-link")
    if spec.get("path_form") == "symlink":
        path = ctx.via_symlink(path); rep.count("path-through-symlink-and-dotdot")
    feats = plotgen.describe(spec)
    nlev = len(spec["levels"])
    batch = tastelib.ModelBatch()
    pend = []
    limits = [None] + list(range(nlev))
    for oi, opts in enumerate(OPTS):
        for limit in limits:
            for nofail in (False, True):
                mode = {"opts": opts, "limit": limit, "nofail": nofail}
                if only is not None and {k: v for k, v in only.items() if k != "cli"} != mode:
                    continue
                # the full product on every plotfile is wasteful: every option set with limit None,
                # every limit with a rotating option set
                if only is None and limit is not None and (oi + (limit or 0)) % 4 != 0:
                    continue
                case = {"spec": spec, "mode": mode}
                rep.case({"s": spec, "m": mode}, nontrivial=(len(feats) >= 2 or oi != 3))
                rep.count("opts:" + "".join("HSDC"[i] if v else "-" for i, v in enumerate(opts.values())))
                cli = only.get("cli", False) if only is not None else ((oi + (limit or 0) + int(nofail)) % 3 == 1)
                if cli:
                    mode = dict(mode, cli=True); case = {"spec": spec, "mode": mode}; rep.count("console-script")
                good, raised = tastelib.real_taste(path, limit=limit, nofail=nofail, cli=cli, **opts)
                if raised is not None or not good:
                    rep.fail(f"a well-formed plotfile is reported bad (good={good}, raised={raised})", case,
                             obs={"good": good, "raised": raised},
                             keys=["taste-binary-data"] if (opts["binary_data"] and raised in ("NameError", None)) else [])
                    continue
                if model:
                    pend.append((case, batch.taste(tree, limit, opts["binary_headers"], opts["binary_shape"])))
                    if opts.get("boxes_coordinates") and not nofail and not cli:
                        mv = tastelib.coords_model_verdict(path, leanio, limit)
                        if mv == "good":
                            rep.agree(); rep.count("coords-model-accepts")
                        elif mv is not None:
                            rep.tie(f"box-coordinate validation: the Lean model says {mv} for a well-formed plotfile the validator accepts", case)
                    if opts.get("binary_data") and not nofail and not cli:
                        dv = tastelib.data_model_verdict(path, leanio, limit)
                        if dv == "good":
                            rep.agree(); rep.count("binary-data-model-accepts")
                        elif dv is not None:
                            rep.tie(f"binary-data validation: the Lean model says {dv} for a well-formed plotfile the validator accepts", case)
    if model and only is None:
        row_edits(ctx, rep, spec, tree)
    if only is None and ctx.rng.random() < 0.2:
        after_rejection(ctx, rep, spec, tree, path)
    wf_idx = []
    if model and only is None and len(set(spec["fields"])) == len(spec["fields"]):
        # certificate: is this plotfile, as bytes on disk, well formed in the sense of the completeness theorem
        # (C03.well_formed_accepted / certificate_sound)?  Then the theorem says the model reports it good for every
        # admissible limit and both binary options
        for n in sorted({nlev, 1}):
            wf_idx.append((n, batch.wf(tree, n)))
    if model and (pend or wf_idx):
        rs = leanio.driver(batch.reqs)
        for n, i in wf_idx:
            if i is not None and rs[i].get("wf") is True:
                rep.agree(); rep.count("completeness-theorem-applies")
            else:
                rep.tie("generated plotfile does not pass the Lean well-formedness certificate (hypothesis of the completeness theorem)",
                        {"spec": spec, "mode": {"opts": OPTS[0], "limit": n - 1, "nofail": False}}, None if i is None else rs[i])
        for case, i in pend:
            if rs[i].get("good") is True:
                rep.agree()
            else:
                rep.tie("validator accepts a well-formed plotfile the model rejects", case, rs[i])


def edit_row(text, nf, which, box, field, kind):
    """the level header `text` with one entry of its minimum (which=0) or maximum (1) table replaced: 'near' = within numpy's
    isclose band of the recorded value, 'far' = well outside it, 'nan' = not a number; None when the table is not where the
    writers put it"""
    L = text.decode("latin1").split("\n")
    try:
        N = int(L[4].split()[0].lstrip("("))
        row = (9 + 2 * N if which == 0 else 11 + 3 * N) + box
        parts = L[row].split(",")
        if len(parts) != nf + 1:
            return None
        v = float(parts[field])
    except (ValueError, IndexError):
        return None
    if kind == "nan":
        new = "nan"
    elif v != v or v in (float("inf"), float("-inf")):
        return None
    elif kind == "near":
        new = repr(v * (1 + 2e-6) + 2e-9)
    else:
        new = repr(v * 1.5 + 1.0 if abs(v) < 1e300 else v / 2)
    parts[field] = new
    L[row] = ",".join(parts)
    return "\n".join(L).encode("latin1")


def row_edits(ctx, rep, spec, tree):
    """correspondence of the binary-data model on both verdicts: one entry of a min / max table replaced by a value near it
    (still accepted), far from it or NaN (rejected); the real validator with binary_data=True against `TasteData.levelOK`"""
    nf = len(spec["fields"])
    nlev = len(spec["levels"])
    for k, kind in enumerate(("near", "far", "nan")):
        lv = ctx.rng.randrange(nlev)
        box = ctx.rng.randrange(len(spec["levels"][lv]))
        field = ctx.rng.randrange(nf)
        which = ctx.rng.randrange(2)
        rel = f"Level_{lv}/Cell_H"
        if rel not in tree:
            return
        new = edit_row(tree[rel], nf, which, box, field, kind)
        if new is None or new == tree[rel]:
            continue
        t2 = dict(tree); t2[rel] = new
        p2 = ctx.newdir("c03row_")
        tastelib.write_tree(t2, p2)
        nofail = bool(k % 2)
        good, raised = tastelib.real_taste(p2, nofail=nofail, binary_data=True)
        mv = tastelib.data_model_verdict(p2, leanio)
        case = {"spec": spec, "row_edit": [lv, which, box, field, kind]}
        rep.count("row-edit:" + kind)
        if mv is None:
            continue
        real = "good" if (good and raised is None) else ("bad" if raised in (None, "TastesBadError") else "crash")
        if real == mv:
            rep.agree(); rep.count("row-edit-verdict:" + mv)
        else:
            rep.tie(f"binary-data validation of a level header with a {kind} entry: validator says {real} (raised={raised}), the Lean model {mv}", case)


def fresh_process_tastes(calls):
    """runs the validator calls [(path, kwargs), ...] one after the other in ONE fresh Python process with the process pools
    the validator creates itself; returns [(good, raised exception name or None), ...] or None when the process failed"""
    import subprocess, sys, json
    from ..common import REPO
    script = (
        "import sys, json, io, contextlib\n"
        f"sys.path.insert(0, {REPO!r})\n"
        "from amr_kitchen.taste.taste import Taster\n"
        "calls = json.loads(sys.argv[1]); res = []\n"
        "for p, kw in calls:\n"
        "    try:\n"
        "        with contextlib.redirect_stdout(io.StringIO()):\n"
        "            res.append([bool(Taster(p, verbose=0, **kw)), None])\n"
        "    except BaseException as e:\n"
        "        res.append([False, type(e).__name__])\n"
        "print('RESULT' + json.dumps(res))\n")
    try:
        r = subprocess.run([sys.executable, "-c", script, json.dumps(calls)], capture_output=True, text=True, timeout=300)
    except subprocess.TimeoutExpired:
        return None
    for line in r.stdout.split("\n"):
        if line.startswith("RESULT"):
            return [tuple(x) for x in json.loads(line[6:])]
    return None


def after_rejection(ctx, rep, spec, tree, path):
    """a history in ONE (fresh) process: a plotfile with a wrong recorded extremum is rejected under binary_data (failing mode:
    the validator raises part-way through its work), then the well-formed plotfile is validated under several option sets"""
    nf = len(spec["fields"])
    rel = "Level_0/Cell_H"
    new = edit_row(tree.get(rel, b""), nf, 1, 0, 0, "far") if rel in tree else None
    if new is None:
        return
    t2 = dict(tree); t2[rel] = new
    p2 = ctx.newdir("c03rej_")
    tastelib.write_tree(t2, p2)
    case = {"spec": spec, "after_rejection": True}
    rep.case({"s": spec, "after_rejection": True}, nontrivial=True); rep.count("history:rejection-then-well-formed")
    calls = [(p2, dict(nofail=False, binary_data=True))]
    modes = [(opts, nofail) for opts in (OPTS[3], OPTS[1]) for nofail in (False, True)]
    calls += [(path, dict(nofail=nofail, **opts)) for opts, nofail in modes]
    res = fresh_process_tastes(calls)
    if res is None:
        rep.notes.append("after_rejection: the fresh process gave no result"); return
    g, r = res[0]
    if g or r is None:
        return          # not rejected: nothing to come after (the verdict itself is compared in row_edits)
    for (opts, nofail), (good, raised) in zip(modes, res[1:]):
        if raised is not None or not good:
            rep.fail(f"after another plotfile was rejected in the same process, a well-formed plotfile is reported bad "
                     f"(good={good}, raised={raised}, options {opts}, nofail={nofail})", case, obs={"good": good, "raised": raised})
            return
    rep.agree()


def directories_session(ctx, rep, seed):
    from amr_kitchen.taste.taste import Taster
    from .. import sessions
    dirs = sessions.two_directories(ctx, seed, "c03dirs_", names=("plt00010", "plt00020"), nf=2, data="tags", B=2, layout="scatter")
    case = {"directories_session": seed}
    rep.case({"dirsession": seed}, nontrivial=True); rep.count("relative-names-from-two-working-directories-real-pool")

    def action(k, name, spec, truth):
        for kw in (dict(), dict(binary_data=True, boxes_coordinates=True), dict(nofail=True)):
            try:
                if not bool(Taster(name, verbose=0, **kw)):
                    return f"the well-formed plotfile opened as {name!r} is reported bad ({kw})"
            except BaseException as e:
                if isinstance(e, KeyboardInterrupt): raise
                return f"validation of the well-formed plotfile opened as {name!r} raised {type(e).__name__}: {e}"
        return None
    bad = sessions.visit(dirs, action)
    if bad:
        rep.fail(bad, case)
    else:
        rep.agree()


def run(ctx, rep, model=True):
    # first of all (before this process has built any pool of its own kind): a rejection, then well-formed plotfiles
    spec0 = plotgen.random_spec(ctx.rng, nf=2, data="tags", B=2, layout="scatter")
    path0 = ctx.newdir("c03_"); plotgen.materialize(spec0, path0)
    after_rejection(ctx, rep, spec0, tastelib.snapshot(path0), path0)
    directories_session(ctx, rep, ctx.rng.randrange(1 << 30))
    huge_offsets(ctx, rep)
    n = 14 if ctx.quick else 80
    for i in range(n):
        spec = plotgen.random_spec(ctx.rng, nf=[2, 3, 1, 4][i % 4], data=["tags", "bits"][i % 2], B=2,
                                   layout=["scatter", "files", "perm", "scatter", "files", "mono", "scatter"][i % 7], exact=(i % 3 != 2),
                                   scale=[None, None, "centred", None, "far", "centred", "tiny"][i % 7])
        if i % 5 == 3: spec["path_form"] = "symlink"
        if i % 5 == 1: spec["level_symlink"] = True
        if i % 7 == 5 and not spec.get("level_symlink"):
            spec["level_dir"] = ["Lev_{lv}", "Level_{lv:02d}"][(i // 7) % 2]; rep.count("level-directories-not-named-Level_n")
        if i % 5 == 2: spec["path_sub"] = [["case[3]", "run*x", "a?b"][(i // 5) % 3], "plt00010"]
        if i % 4 == 1 and len(spec["fields"]) == 3:
            # a repeated name next to the name its repetition would be given (avg, avg_2, avg -> avg, avg_2, avg_3)
            spec["fields"] = ["avg", "avg_2", "avg"]; rep.count("repeated-name-beside-its-numbered-form")
        run_spec(ctx, rep, spec, model)
        if len(rep.violations) >= 10:
            return


def huge_offsets(ctx, rep):
    """a binary file larger than 2 GiB: a box of 512 x 512 x 1024 cells (2 GiB of one field, written as a sparse hole: all zeros)
    followed by a small box whose byte offset lies above 2**31; validated with the default options (which seek, and read the
    FAB headers only)"""
    import os
    boxes = [[[0, 0, 0], [511, 511, 1023]], [[512, 0, 0], [513, 511, 1023]]]
    spec = {"ndims": 3, "fields": ["f"], "time": 0.5, "geo_low": [0.0, 0.0, 0.0], "dx0": [0.125, 0.125, 0.125], "grid0": [514, 512, 1024],
            "block": 2, "levels": [boxes], "layout": [[[0, 0], [0, 1]]], "data": {"mode": "zeros", "seed": 0}, "header_style": "amrex", "step": 1}
    path = ctx.newdir("c03big_"); os.makedirs(os.path.join(path, "Level_0"))
    with open(os.path.join(path, "Header"), "w") as h:
        h.write(plotgen.header_text(spec))
    offsets = []
    with open(os.path.join(path, "Level_0", "Cell_D_00000"), "wb") as bf:
        for lo, hi in boxes:
            offsets.append(bf.tell())
            bf.write(("FAB ((8, (64 11 52 0 1 12 0 1023)),(8, (8 7 6 5 4 3 2 1)))"
                      f"(({','.join(map(str, lo))}) ({','.join(map(str, hi))}) (0,0,0)) 1\n").encode())
            n = 1
            for d in range(3):
                n *= hi[d] - lo[d] + 1
            bf.seek(n * 8, 1)
        bf.truncate(bf.tell())
    with open(os.path.join(path, "Level_0", "Cell_H"), "w") as ch:
        ch.write("1\n1\n1\n0\n(2 0\n")
        for lo, hi in boxes:
            ch.write(f"(({','.join(map(str, lo))}) ({','.join(map(str, hi))}) (0,0,0))\n")
        ch.write(")\n2\n")
        for o in offsets:
            ch.write(f"FabOnDisk: Cell_D_00000 {o}\n")
        ch.write("\n2,1\n0.0000000000000000e+00,\n0.0000000000000000e+00,\n\n2,1\n0.0000000000000000e+00,\n0.0000000000000000e+00,\n\n")
    rep.count("offsets>=2^31")
    for nofail in (False, True):
        mode = {"opts": OPTS[3], "limit": None, "nofail": nofail, "gap": True}
        case = {"spec": spec, "mode": mode}
        rep.case({"s": "huge", "m": mode}, nontrivial=True)
        good, raised = tastelib.real_taste(path, nofail=nofail, **OPTS[3])
        if raised is not None or not good:
            rep.fail(f"a well-formed plotfile with a byte offset above 2**31 is reported bad (good={good}, raised={raised})", case,
                     obs={"good": good, "raised": raised})
        else:
            rep.agree()
    import shutil; shutil.rmtree(path, ignore_errors=True)


def replay(ctx, rep, obj, model=True):
    c = obj["case"]
    if c.get("mode", {}).get("gap"):
        huge_offsets(ctx, rep); return
    if "directories_session" in c:
        directories_session(ctx, rep, c["directories_session"]); return
    if c.get("after_rejection"):
        path = ctx.newdir("c03_")
        plotgen.materialize(c["spec"], path)
        after_rejection(ctx, rep, c["spec"], tastelib.snapshot(path), path); return
    run_spec(ctx, rep, c["spec"], model, only=c["mode"])
