"""C08 - mandoline 2D flattening equals the finest-level covering grid exactly."""
import numpy as np
from .. import plotgen, oracle, leanio, pools, geom
from ..common import quiet, alarm
from .c01 import dedup_names
from . import c07

COORDS_DONE = set()

RULE = ("case = (generated 2D plotfile spec (rectangular domains down to one block, non-zero origin, non-square boxes, "
        "scattered layouts), field list incl. several fields / 'all' / grid_level, level limit, serial or pool with a start "
        "order); returned arrays compared bit for bit with the oracle's covering grid and with the Lean covering-grid model; "
        "numpy.empty is pre-filled with NaN so a never-written pixel is visible; non-trivial = >=2 levels or >=2 mesh/layout features")


def run_case(ctx, rep, spec, fields, limit, serial, model, start=None, path=None, truth=None, cli=False, previous=None, reuse=False):
    from amr_kitchen.mandoline.mandoline import Mandoline
    if path is None:
        path = ctx.newdir("c08_")
        if previous is not None:
            # another plotfile on the same mesh lived at this very path and was flattened in this process before
            import shutil
            plotgen.materialize(previous, path)
            for ser in (True, False):
                try:
                    with alarm(120), quiet(), pools.controlled():
                        Mandoline(path, fields=fields, limit_level=limit, serial=ser, verbose=0).slice(fformat="return")
                except BaseException as e:
                    if isinstance(e, KeyboardInterrupt): raise
            shutil.rmtree(path)
        truth = plotgen.materialize(spec, path)
    names = dedup_names(spec["fields"])
    nlev = len(spec["levels"])
    L = nlev - 1 if limit is None else limit
    asked = list(fields) if isinstance(fields, list) else fields          # what the caller asked for (the tool gets the caller's own object)
    case = {"spec": spec, "fields": asked, "limit": limit, "serial": serial, "cli": cli, "reuse": reuse}
    if reuse: rep.count("one-object-flattened-twice-first-result-converted-in-place")
    if previous is not None:
        case["previous"] = previous; rep.count("path-rewritten-with-other-data-then-flattened-again")
    if cli: rep.count("console-script")
    feats = plotgen.describe(spec)
    rep.case({"s": spec, "f": fields, "l": limit, "ser": serial, "cli": cli}, nontrivial=(nlev >= 2 or len(feats) >= 2))
    rep.count("serial" if serial else "pool"); rep.count(f"limit:{limit}")
    try:
        with alarm(120), quiet(), geom.tainted_empty(), pools.controlled(start=start):
            if cli:
                from .. import tools
                out = tools.mandoline_cli(path, "array", ctx.newdir("c08cli_"), fields, None, None, limit, serial)
            elif reuse:
                # one object flattened twice; what the first call returned is the caller's: it converts the arrays in place
                # (coordinates to other units, values rescaled) before asking again
                m = Mandoline(path, fields=fields, limit_level=limit, serial=serial, verbose=0)
                first = m.slice(fformat="return")
                for k, v in first.items():
                    if isinstance(v, np.ndarray) and v.dtype.kind == "f" and v.flags.writeable:
                        v *= 100.0; v -= 1.0
                out = m.slice(fformat="return")
            else:
                out = Mandoline(path, fields=fields, limit_level=limit, serial=serial, verbose=0).slice(fformat="return")
    except SystemExit as e:
        rep.fail(f"the mandoline console script exited ({e.code}) on a valid invocation", case)
        return
    except Exception as e:
        rep.fail(f"flattening raised {type(e).__name__}: {e}", case)
        return
    if isinstance(fields, list) and fields != asked:
        rep.fail(f"the caller's field list {asked} was changed by the call (now {fields})", case)
        fields[:] = asked
    want_names = list(names) if (fields == "all" or (isinstance(fields, list) and "all" in fields)) else \
        [f for f in ([fields] if isinstance(fields, str) else fields) if f != "grid_level"]
    do_grid = fields == "all" or "grid_level" in (fields if isinstance(fields, list) else [fields]) or "all" in fields
    bad = []
    covers = {}
    for nm in want_names:
        vals, lvl = geom.covering_from_truth(spec, truth, names[nm], L)
        covers[nm] = vals
        got = out.get(nm)
        if got is None or not oracle.same_bits(np.asarray(got), vals.T):
            bad.append(f"field {nm}: returned array is not the covering grid of level {L} (indexed [y][x])")
    _, lvl = geom.covering_from_truth(spec, truth, 0, L)
    if do_grid:
        g = out.get("grid_level")
        if g is None or not np.array_equal(np.asarray(g), lvl.T.astype(float)):
            bad.append("grid_level is not the level of the finest covering box")
    for d, key in enumerate(("x", "y")):
        n = spec["grid0"][d] * 2 ** L
        dx = spec["dx0"][d] / 2 ** L
        want = spec["geo_low"][d] + (np.arange(n) + 0.5) * dx
        got = np.asarray(out.get(key))
        # cell sizes printed with few digits: the centres are known to that precision only
        ctol = 1e-12 if not spec.get("dx_digits") else 10.0 ** (1 - int(spec["dx_digits"])) * max(1.0, abs(spec["geo_low"][d]) + n * dx)
        if got.shape != want.shape or not np.allclose(got, want, rtol=ctol, atol=ctol):
            bad.append(f"{key} coordinates are not the cell centres of the level-{L} grid")
    if not bad and model and (path, L) not in COORDS_DONE and not spec.get("dx_digits"):
        COORDS_DONE.add((path, L))
        for d, key in enumerate(("x", "y")):
            n = spec["grid0"][d] * 2 ** L
            lo_d = spec["geo_low"][d]; hi_d = lo_d + spec["dx0"][d] * spec["grid0"][d]; dx_d = spec["dx0"][d] / 2 ** L
            m = leanio.driver([{"op": "coords", "lo": c07.J(lo_d), "hi": c07.J(hi_d), "dx": c07.J(dx_d), "n": n}])[0]
            mv = np.array([a / b for a, b in m["axis"]]) if "axis" in m else None
            rep.count("coords-theorem-hypothesis-" + ("holds" if m.get("exact") else "fails"))
            if mv is not None and mv.shape == np.asarray(out[key]).shape and \
                    np.allclose(np.asarray(out[key]), mv, rtol=0, atol=1e-12 * max(abs(lo_d), abs(hi_d), dx_d)):
                rep.agree()
            else:
                rep.tie("coordinates differ from the Lean coordinate model", case, {"model": m.get("status")})
    extra = [k for k in out if k in names and k not in want_names]
    if extra:
        bad.append(f"the result holds fields that were not requested: {extra}")
    for b in bad[:3]:
        rep.fail(b, case)
    if not bad and model:
        # which components are read and under which names they are returned: the Lean field rule of mandoline
        m = leanio.driver([{"op": "names", "tool": "mandoline", "names": list(names),
                            "vars": [fields] if isinstance(fields, str) else list(fields)}])[0]
        real_names = [k for k in out if k in names]
        if m.get("refused") is False and m.get("fields") == real_names and m.get("grid") == ("grid_level" in out):
            rep.agree()
        else:
            rep.tie("the fields mandoline returned differ from the Lean field rule", case, {"real": real_names, "model": m})
    if bad or not model or spec["data"]["mode"] != "tags":
        return
    shape = [g * 2 ** L for g in spec["grid0"]]
    reqs = [{"op": "cover", "levels": geom.model_levels(spec, truth, names[nm], L), "L": L, "shape": shape} for nm in want_names[:2]]
    if not reqs:
        return
    for nm, m in zip(want_names, leanio.driver(reqs)):
        got = np.asarray(out[nm]).T.flatten(order="F")
        if m["vals"] == [int(x) for x in got] and (not do_grid or m["lvls"] == [int(x) for x in np.asarray(out["grid_level"]).T.flatten(order="F")]):
            rep.agree()
        else:
            rep.tie("flattened array differs from the Lean covering-grid model", case)


def run(ctx, rep, model=True):
    n = 30 if ctx.quick else 160
    for i in range(n):
        spec = plotgen.random_spec(ctx.rng, ndims=2, nlev=[1, 2, 3, 2][i % 4], nf=[2, 3, 1][i % 3], data="tags", B=[2, 4][i % 2],
                                   nblk=[[1, 1], [2, 1], [3, 2], [1, 3]][i % 4] if i % 2 == 0 else None,
                                   layout=["scatter", "perm", "files"][i % 3])
        if i % 6 == 4 and len(spec["levels"]) >= 2:
            # cell sizes that are no dyadic numbers, printed with six digits (0.333333 / 0.166667 = 1.999994...)
            spec["dx0"] = [1.0 / 3.0, 0.7]; spec["dx_digits"] = 6
            rep.count("cell-sizes-printed-with-six-digits")
        if i % 5 == 3 and len(spec["fields"]) >= 2:
            # two names that differ only by the shell-friendly spelling of the parentheses
            spec["fields"][0], spec["fields"][-1] = [("Y_OH", "Y(OH)"), ("Y(HO2)", "Y_HO2"), ("I_R_H2", "I_R(H2)")][(i // 5) % 3]
            rep.count("names-differing-by-parentheses")
        path = ctx.newdir("c08_")
        truth = plotgen.materialize(spec, path)
        if i % 7 == 2:
            path = ctx.via_symlink(path); rep.count("path-through-symlink-and-dotdot")
        names = list(dedup_names(spec["fields"]))
        nlev = len(spec["levels"])
        forms = [names[0], [names[-1], "grid_level"], "all", list(names), ["grid_level"], list(names)[::-1],
                 ["grid_level"] + list(names)[::-1]]
        for j, f in enumerate(forms):
            limit = [None, 0, nlev - 1, max(nlev - 2, 0)][(i + j) % 4]
            serial = (i + j) % 2 == 0
            run_case(ctx, rep, spec, f, limit, serial, model, start=[None, pools.order_reversed, pools.order_rot(1)][j % 3],
                     path=path, truth=truth, cli=(limit == 0 and nlev >= 2 and j % 2 == 0) or (i + j) % 9 == 4)
        if i % 3 == 1:
            run_case(ctx, rep, spec, list(names), None, True, model, path=path, truth=truth, reuse=True)
            run_case(ctx, rep, spec, [names[0], "grid_level"], None, False, model, path=path, truth=truth, reuse=True)
        if i % 3 == 0 and i % 7 != 2:
            # the plotfile is rewritten at the same path (same mesh and layout, other values) and flattened again
            import copy, shutil
            spec2 = copy.deepcopy(spec); spec2["data"] = dict(spec["data"], mode="smallint", seed=spec["data"].get("seed", 0) + 101)
            shutil.rmtree(path); truth2 = plotgen.materialize(spec2, path)
            run_case(ctx, rep, spec2, list(names), None, True, model, path=path, truth=truth2, previous=spec)
            run_case(ctx, rep, spec2, [names[-1], "grid_level"], None, False, model, path=path, truth=truth2, previous=spec)
        if len(rep.violations) >= 10:
            return
    spec = big_box_spec(ctx.rng)
    rep.count("box-of-393216-cells")
    run_case(ctx, rep, spec, ["rho", "grid_level"], None, True, False)
    run_case(ctx, rep, spec, "temp", 0, False, False)


def big_box_spec(rng):
    """one level-0 box of 768 x 512 cells (3 MB per field) under two small level-1 boxes"""
    levels = [[[[0, 0], [767, 511]]], [[[0, 0], [15, 15]], [[32, 16], [47, 31]]]]
    return {"ndims": 2, "fields": ["rho", "temp"], "time": 0.5, "geo_low": [0.0, -1.0], "dx0": [1 / 256, 1 / 256], "grid0": [768, 512],
            "block": 16, "levels": levels, "layout": plotgen.random_layout(rng, levels, "files"),
            "data": {"mode": "smallint", "seed": rng.randrange(1 << 30)}, "header_style": "amrex", "step": 1}


def replay(ctx, rep, obj, model=True):
    c = obj["case"]
    run_case(ctx, rep, c["spec"], c["fields"], c["limit"], c["serial"], model, cli=c.get("cli", False), previous=c.get("previous"), reuse=c.get("reuse", False))
