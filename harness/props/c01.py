"""C01 - box data read through the indexing interface is exactly what is on disk."""
import os, json
import numpy as np
from .. import plotgen, oracle, selectors, leanio, pools
from ..common import quiet, alarm, CaseTimeout

RULE = ("case = (generated plotfile spec, field selector, level, box selector); plotfiles: 2D/3D, 1-3 levels, "
        "1-5 fields, scattered non-monotone layouts, random 64-bit payloads incl. NaN/inf/denormal; field selectors "
        "enumerated exhaustively for the plotfile's field count (every int, every slice(a,b,c), permutations, "
        "negative/repeated/out-of-range lists, names, masks); non-trivial = spec has >=2 of {multilevel, multifile, "
        "non-monotone offsets, non-cubic box, origin!=0, anisotropic} or the selector is not a plain in-range int")


def dedup_names(fields):
    out = {}
    for i, f in enumerate(fields):
        if f not in out:
            out[f] = i
        else:
            k = 2
            while f"{f}_{k}" in out:
                k += 1
            out[f"{f}_{k}"] = i
    return out


def real_read(pck, fsel, level, bsel):
    """('refused', stage, exc name) or ('ok', result)"""
    try:
        s = pck[selectors.decode(fsel)]
    except Exception as e:
        return ("refused", "field", type(e).__name__)
    try:
        st = s[level]
    except Exception as e:
        return ("refused", "level", type(e).__name__)
    try:
        r = st[selectors.decode(bsel)]
    except Exception as e:
        return ("refused", "box", type(e).__name__)
    if r is None:
        return ("refused", "box", "None")
    return ("ok", r)


def expected(truth, spec, names, fsel, level, bsel, limit):
    """('refused',) when Python semantics give no meaning, else ('ok', single_box, [arrays])"""
    nf = len(spec["fields"])
    fm = selectors.meaning(fsel, nf, names)
    nlev = limit + 1
    if fm is None:
        return ("refused",)
    if not (-nlev <= level < nlev):
        return ("refused",)
    lv = level % nlev
    nb = len(spec["levels"][lv])
    bm = selectors.meaning(bsel, nb)
    if bm is None:
        if bsel["t"] in ("list", "ndarray") and len(bsel["v"]) == 0:
            return ("ok", False, [])
        return ("refused",)
    single_f, fidx = fm
    single_b, bidx = bm
    arrs = []
    for b in bidx:
        a = truth[(lv, b)]
        arrs.append(a[..., fidx[0]] if single_f else a[..., fidx])
    return ("ok", single_b, arrs)


def compare(real, exp):
    """None when the real result is refused-or-exact w.r.t. the expectation, else a description"""
    if real[0] == "refused":
        return None
    r = real[1]
    if exp[0] == "refused":
        return f"returned data for a selection with no meaning ({type(r).__name__})"
    _, single_b, arrs = exp
    if single_b:
        if isinstance(r, list):
            return "list returned for a single box"
        rr = [r]
    else:
        if not isinstance(r, list):
            try:
                rr = list(r)
            except TypeError:
                return "non-iterable result for a box collection"
        else:
            rr = r
    if len(rr) != len(arrs):
        return f"{len(rr)} boxes returned, {len(arrs)} selected"
    for i, (a, b) in enumerate(zip(rr, arrs)):
        a = np.asarray(a)
        if a.shape != b.shape:
            return f"box #{i}: shape {a.shape} != {b.shape}"
        if not oracle.same_bits(a, b):
            return f"box #{i}: values differ from the stored values"
    return None


def make_cases(ctx, spec, names, full):
    nf = len(spec["fields"])
    fs = selectors.field_selectors(ctx.rng, nf, list(names), exhaustive=full, budget=120)
    nlev = len(spec["levels"])
    cases = []
    k = 0
    for fsel in fs:
        lv = k % nlev
        nb = len(spec["levels"][lv])
        cases.append((fsel, lv, {"t": "int", "v": k % nb}))
        k += 1
    # box selectors with a few field selectors
    rich = [{"t": "int", "v": nf - 1}, {"t": "slice", "v": [None, None, None]},
            {"t": "list", "v": list(range(0, nf, 2))}, {"t": "slice", "v": [1, None, 2]}]
    for lv in range(nlev):
        for bsel in selectors.box_selectors(ctx.rng, len(spec["levels"][lv])):
            for fsel in rich:
                cases.append((fsel, lv, bsel))
    # level selectors
    for lv in (-1, nlev, -nlev - 1, -nlev):
        cases.append(({"t": "int", "v": 0}, lv, {"t": "int", "v": 0}))
    return cases


def run_spec(ctx, rep, spec, cases, model, limit=None):
    """runs all cases of one plotfile; returns nothing (reports through rep)"""
    from amr_kitchen import PlotfileCooker
    path = ctx.newdir("c01_") if spec.get("path_form") != "long" else ctx.long_dir("c01_")
    truth = plotgen.materialize(spec, path)
    if spec.get("path_form") == "symlink":
        path = ctx.via_symlink(path); rep.count("path-through-symlink-and-dotdot")
    if spec.get("path_form") == "long": rep.count("path-longer-than-160-characters")
    names = dedup_names(spec["fields"])
    nf = len(spec["fields"])
    nlev = len(spec["levels"])
    lim = nlev - 1 if limit is None else limit
    try:
        with quiet():
            pck = PlotfileCooker(path, limit_level=limit)
    except Exception as e:
        rep.case({"s": spec, "open": 1}, nontrivial=True)
        rep.fail(f"opening a well-formed plotfile raised {type(e).__name__}: {e}",
                 {"spec": spec, "fsel": {"t": "int", "v": 0}, "level": 0, "bsel": {"t": "int", "v": 0}, "limit": limit})
        return
    feats = plotgen.describe(spec)
    # model requests
    reqs, req_index = [], {}
    files_sent = set()

    def model_req(lv, b, farg):
        fpath = pck.cells[lv]["files"][b]
        key = os.path.relpath(fpath, path)
        if key not in files_sent:
            files_sent.add(key)
            with open(fpath, "rb") as f:
                reqs.append({"op": "file", "name": key, "hex": f.read().hex()})
        k = (key, int(pck.cells[lv]["offsets"][b]), json.dumps(farg))
        if k not in req_index:
            req_index[k] = len(reqs)
            reqs.append({"op": "read", "name": key, "off": k[1], "nf": nf, "farg": farg})
        return req_index[k]

    pending = []   # (case, real, exp, [(box, req idx)])
    boxpend = []   # (case, real, bsel, level, req idx): box / level selection against BoxSel.positions / BoxSel.level
    for fsel, level, bsel in cases:
        case = {"spec": spec, "fsel": fsel, "level": level, "bsel": bsel, "limit": limit}
        triv = fsel["t"] == "int" and 0 <= fsel["v"] < nf
        rep.case({"s": spec, "f": fsel, "l": level, "b": bsel}, nontrivial=(len(feats) >= 2 or not triv))
        rep.count("fsel:" + fsel["t"]); rep.count("bsel:" + bsel["t"])
        try:
            with alarm(60), quiet():
                real = real_read(pck, fsel, level, bsel)
        except CaseTimeout:
            rep.fail("read did not return within 60 s", case)
            continue
        exp = expected(truth, spec, names, fsel, level, bsel, lim)
        bad = compare(real, exp)
        rep.count("real:" + real[0] + (":" + real[1] if real[0] == "refused" else ""))
        if bad is None and real[0] == "refused" and exp[0] == "ok" and selectors.must_honour_field(fsel, nf, names) \
                and real[1] == "field":
            bad = f"a selection form the reader promises to honour was refused ({real[2]})"
        if bad is None and real[0] == "refused" and exp[0] == "ok" and real[1] in ("level", "box") and \
                selectors.must_honour_field(fsel, nf, names):
            bad = f"a valid level/box selection was refused at the {real[1]} stage ({real[2]})"
        if bad is not None:
            rep.fail(bad, case, obs={"real": real[0] if real[0] == "refused" else "ok", "detail": str(real[1:])[:300]})
            continue
        if model and not (real[0] == "refused" and real[1] == "field"):
            bd = selectors.box_to_driver(bsel)
            if bd is not None:
                inl = -(lim + 1) <= level < lim + 1
                reqs.append({"op": "boxsel", "size": len(spec["levels"][level % (lim + 1)]) if inl else 0,
                             "nlev": lim + 1, "level": level, "t": bd["t"], "v": bd["v"]})
                boxpend.append((case, real, bsel, level, len(reqs) - 1))
        # correspondence with the model (per selected box)
        if model and exp[0] == "ok":
            farg = selectors.to_driver(fsel, names)
            if farg is not None or fsel["t"] in ("name", "names"):
                lv = level % (lim + 1)
                bm = selectors.meaning(bsel, len(spec["levels"][lv]))
                if bm is not None:
                    idxs = bm[1][:3]
                    if farg is not None:
                        try:
                            pending.append((case, real, [(b, model_req(lv, b, farg)) for b in idxs], bm[0]))
                        except IndexError:
                            rep.fail(f"the reader's table of level {lv} lists fewer boxes than the level holds", case)
    if model and reqs:
        replies = leanio.driver(reqs)
        for case, real, bsel, level, ri in boxpend:
            m = replies[ri]
            if m.get("status") not in ("ok", "refused"):
                rep.tie("the box-selection model has no answer", case, m); continue
            if m.get("level") is None:
                if real[0] == "ok":
                    rep.tie("reader answers a level key the model (BoxSel.level) refuses", case, m)
                else:
                    rep.agree(); rep.count("boxsel:level-refused")
                continue
            if m["level"] != level % (lim + 1):
                rep.tie("level key denotes another level in the model (BoxSel.level)", case, m); continue
            if real[0] == "refused" and real[1] == "level":
                rep.tie("reader refuses a level key the model (BoxSel.level) honours", case, m); continue
            bm = selectors.meaning(bsel, len(spec["levels"][m["level"]]))
            want = None if bm is None else bm[1]
            if bm is None and bsel["t"] in ("list", "ndarray", "mask", "lmask") and len(bsel["v"]) == 0:
                want = []
            if m["status"] == "refused":
                if real[0] == "ok" or want is not None:
                    rep.tie("reader (or numpy's indexing) honours a box selector the model (BoxSel.positions) refuses", case, m)
                else:
                    rep.agree(); rep.count("boxsel:refused")
            elif want is None or m["positions"] != want:
                rep.tie("the boxes a selector denotes differ between numpy's indexing and the model (BoxSel.positions)", case,
                        {"model": m, "numpy": want})
            else:
                rep.agree(); rep.count("boxsel:positions-agree")
        for case, real, lst, single_b in pending:
            for pos, (b, ri) in enumerate(lst):
                m = replies[ri]
                if real[0] == "refused":
                    if real[1] == "field" and m.get("status") != "refused":
                        rep.tie("reader refuses a field selector the model honours", case, {"model": m.get("status")})
                    elif real[1] == "field":
                        rep.agree()
                    continue
                r = real[1]
                arr = np.asarray(r if single_b else r[pos])
                if m.get("status") != "ok":
                    rep.tie("model refuses a read the reader honours", case, {"model": m})
                    continue
                if list(arr.shape) != m["shape"] or oracle.bits(arr).hex() != m["data"]:
                    rep.tie("reader and model return different shape/bytes", case,
                            {"real_shape": list(arr.shape), "model_shape": m["shape"]})
                else:
                    rep.agree()


def run_history(ctx, rep, spec, fsel, level, history, path=None, truth=None, pck=None):
    """several reads through ONE selector / stream object (the interface is an object that is reused):
    every read of the sequence must be refused or exact, whatever was read before"""
    from amr_kitchen import PlotfileCooker
    if path is None:
        path = ctx.newdir("c01h_")
        truth = plotgen.materialize(spec, path)
        with quiet():
            pck = PlotfileCooker(path)
    names = dedup_names(spec["fields"])
    nf = len(spec["fields"])
    lim = len(spec["levels"]) - 1
    case = {"spec": spec, "fsel": fsel, "level": level, "history": history}
    rep.case({"s": spec, "f": fsel, "l": level, "h": history}, nontrivial=True)
    rep.count("history:" + fsel["t"])
    try:
        with quiet():
            stream = pck[selectors.decode(fsel)][level]
    except Exception:
        return
    for n, bsel in enumerate(history):
        try:
            with alarm(60), quiet():
                r = stream[selectors.decode(bsel)]
            real = ("ok", r) if r is not None else ("refused", "box", "None")
        except CaseTimeout:
            rep.fail("read did not return within 60 s", case); return
        except Exception as e:
            real = ("refused", "box", type(e).__name__)
        exp = expected(truth, spec, names, fsel, level, bsel, lim)
        bad = compare(real, exp)
        if bad is None and real[0] == "refused" and exp[0] == "ok" and selectors.must_honour_field(fsel, nf, names):
            bad = f"a valid box selection was refused ({real[2]})"
        if bad is not None:
            rep.fail(f"read #{n + 1} through a reused stream object: " + bad, case, obs={"step": n, "bsel": bsel})
            return
    rep.agree()


def histories(ctx, rep, spec):
    from amr_kitchen import PlotfileCooker
    path = ctx.newdir("c01h_")
    truth = plotgen.materialize(spec, path)
    with quiet():
        pck = PlotfileCooker(path)
    nf = len(spec["fields"])
    names = list(dedup_names(spec["fields"]))
    fsels = [{"t": "int", "v": nf - 1}, {"t": "int", "v": -1}, {"t": "slice", "v": [1, None, None]},
             {"t": "list", "v": [nf - 1]}, {"t": "ndarray", "v": [nf - 1]}, {"t": "names", "v": names[-1:]},
             {"t": "slice", "v": [None, None, 2]}]
    if nf >= 3:
        fsels += [{"t": "list", "v": [1, nf - 1]}, {"t": "ndarray", "v": [1, 2]}, {"t": "names", "v": [names[1], names[-1]]},
                  {"t": "list", "v": [2, 1]}]
    for lv in range(len(spec["levels"])):
        nb = len(spec["levels"][lv])
        b = [ctx.rng.randrange(nb) for _ in range(3)]
        hist = [{"t": "int", "v": b[0]}, {"t": "int", "v": b[1]}, {"t": "list", "v": [b[2], b[0]]}, {"t": "int", "v": b[0]},
                {"t": "slice", "v": [None, None, None]}, {"t": "int", "v": -1}]
        for fsel in fsels:
            run_history(ctx, rep, spec, fsel, lv, hist, path, truth, pck)


def specs_for(ctx, n):
    out = []
    for i in range(n):
        nf = [1, 2, 3, 4, 5, 3, 2, 24][i % 8]
        thin = i % 4 == 3           # one-cell blocks: boxes one cell thick in some direction
        nd = [3, 2, 3][i % 3]
        out.append(plotgen.random_spec(ctx.rng, ndims=nd, nf=nf, data="bits", B=1 if thin else 2,
                                       nblk=[3, 2, 2][:nd] if thin else None, repeats=(i % 5 == 4)))
        if i % 8 == 6:
            # twelve levels (the directory Level_10 sorts before Level_2): a chain of small refined patches
            out[-1] = plotgen.random_spec(ctx.rng, ndims=nd, nlev=12, nf=2, data="bits", B=2, nblk=[2, 1, 1][:nd], refine_p=0.05)
        if i % 7 in (1, 4) and min(out[-1]["grid0"]) >= 2:
            # index space reaching below zero (first cell of the domain negative, last one >= 0)
            out[-1]["idx_shift"] = -ctx.rng.randint(1, min(out[-1]["grid0"]) - 1)
    return out


def run(ctx, rep, model=True):
    n = 14 if ctx.quick else 80
    with pools.controlled():
        for i, spec in enumerate(specs_for(ctx, n)):
            if i % 5 == 2: spec["path_form"] = "symlink"
            if i % 5 == 4: spec["path_form"] = "long"
            if i % 7 in (1, 2) and len(spec["fields"]) >= 3:
                # fields whose names are the decimal strings of OTHER valid positions
                nf_ = len(spec["fields"])
                spec["fields"] = ["temp"] + [str(k) for k in range(nf_ - 1, 0, -1)]
                rep.count("field-names-that-are-position-strings")
            names = dedup_names(spec["fields"])
            full = len(spec["fields"]) <= (3 if ctx.quick else 5)
            cases = make_cases(ctx, spec, names, full)
            limit = None
            if i % 4 == 3 and len(spec["levels"]) > 1:
                limit = len(spec["levels"]) - 2
                cases = [c for c in cases if True]
            run_spec(ctx, rep, spec, cases, model, limit=limit)
            histories(ctx, rep, spec)
            if len(rep.violations) >= 25:
                break
    # plotfiles written WITH ghost cells (every FAB on disk is its box grown by g cells; the FAB header names the grown box, the
    # level header records g): what is on disk for a box is the grown block.  Own random stream: the cases above are unchanged
    import random
    grng = random.Random(ctx.seed * 1000003 + 1)
    with pools.controlled():
        for i in range(2 if ctx.quick else 8):
            if len(rep.violations) >= 25:
                break
            spec = plotgen.random_spec(grng, ndims=[3, 2][i % 2], nf=[3, 2][i % 2], data="bits", B=2)
            spec["nghost"] = 1 + i % 2
            rep.count(f"ghost-cells-on-disk:{spec['nghost']}")
            names = dedup_names(spec["fields"])
            run_spec(ctx, rep, spec, make_cases(ctx, spec, names, True), model)
    if not ctx.quick and not rep.violations:
        # real process pools for the box-collection forms
        for spec in specs_for(ctx, 3):
            names = dedup_names(spec["fields"])
            cases = [c for c in make_cases(ctx, spec, names, False) if c[2]["t"] != "int"][:30]
            run_spec(ctx, rep, spec, cases, model)


def replay(ctx, rep, obj, model=True):
    c = obj["case"]
    if "history" in c:
        with pools.controlled():
            run_history(ctx, rep, c["spec"], c["fsel"], c["level"], c["history"])
        return
    with pools.controlled():
        run_spec(ctx, rep, c["spec"], [(c["fsel"], c["level"], c["bsel"])], model, limit=c.get("limit"))
