"""C10 - whip's uniform grid is the covering grid of the chosen field."""
import os, sys
import numpy as np
from .. import plotgen, oracle, leanio, pools, geom
from ..common import quiet, alarm, chdir
from .c01 import dedup_names

RULE = ("case = (generated 3D plotfile spec with boxes spread over several binary files, field, dtype in {float64, float32}, "
        "level limit, completion order of the per-file read tasks (every permutation for <= 4 files, sampled beyond)); the "
        "saved .npy compared cell for cell with the oracle's covering grid cast to the dtype and with the Lean covering-grid "
        "model; non-trivial = >=2 levels or >=2 binary files at some level")


def run_whip(path, field, dtype, limit, outfile, finish=None, start=None):
    import amr_kitchen.whip.cli as whip
    argv = ["whip", "-v", field, "-o", outfile, "-d", dtype, "-y"]
    if limit is not None:
        argv += ["-l", str(limit)]
    argv.append(path)
    old = sys.argv
    sys.argv = argv
    try:
        with alarm(180), quiet(), pools.controlled(start=start, finish=finish):
            whip.main()
    finally:
        sys.argv = old


def place(ctx, spec):
    """where the plotfile of a spec is written (spec["path_sub"]: sub-directories / name below a fresh scratch directory)"""
    path = ctx.newdir("c10_")
    if spec.get("path_sub"):
        path = os.path.join(path, *spec["path_sub"])
        os.makedirs(os.path.dirname(path))
    return path


def run_case(ctx, rep, spec, field, dtype, limit, order_id, model, path=None, truth=None, orders=None, before=None):
    if path is None:
        path = place(ctx, spec)
        truth = plotgen.materialize(spec, path)
    orders = orders or pools.all_orders()
    names = dedup_names(spec["fields"])
    nlev = len(spec["levels"])
    L = nlev - 1 if limit is None else limit
    case = {"spec": spec, "field": field, "dtype": dtype, "limit": limit, "order": order_id, "before": before}
    nfiles = max(len({f for f, _ in lay}) for lay in spec["layout"])
    rep.case({"s": spec, "f": field, "d": dtype, "l": limit, "o": order_id}, nontrivial=(nlev >= 2 or nfiles >= 2))
    rep.count(f"dtype:{dtype}"); rep.count(f"limit:{limit}"); rep.count(f"files:{min(nfiles, 4)}")
    out = os.path.join(ctx.newdir("c10o_"))
    os.makedirs(out)
    outfile = os.path.join(out, "grid")
    if before is not None:
        # the output file already holds the grid of an earlier run (another field, same shape and type)
        try:
            run_whip(path, before, dtype, limit, outfile)
            rep.count("output-file-holds-an-earlier-grid")
        except BaseException as e:
            if isinstance(e, KeyboardInterrupt): raise
    try:
        run_whip(path, field, dtype, limit, outfile, finish=orders[order_id % len(orders)])
    except SystemExit as e:
        rep.fail(f"whip exited ({e.code}) on a valid invocation", case); return
    except Exception as e:
        rep.fail(f"whip raised {type(e).__name__}: {e}", case); return
    try:
        arr = np.load(outfile + ".npy")
    except Exception as e:
        rep.fail(f"whip saved no readable array: {e}", case); return
    vals, _ = geom.covering_from_truth(spec, truth, names[field], L)
    want = vals.astype(dtype)
    if arr.shape != want.shape or arr.dtype != want.dtype or arr.tobytes() != want.tobytes():
        nz = int(np.count_nonzero(arr)) if arr.size else 0
        rep.fail(f"saved array (shape {arr.shape}, {nz} non-zero cells) is not the covering grid of level {L}", case)
        return
    if model and dtype == "float32":
        # the conversion itself against the Lean test `F32.castOK` (C10.cast_is_correctly_rounded): every saved single is
        # the correctly rounded value of the double of the covering grid
        w = np.ascontiguousarray(vals, dtype="<f8").view("<u8").ravel()
        v = np.ascontiguousarray(arr, dtype="<f4").view("<u4").ravel()
        pairs = sorted({(int(a), int(b)) for a, b in zip(w[:: max(1, w.size // 4000)], v[:: max(1, w.size // 4000)])})
        m = leanio.driver([{"op": "cast32", "pairs": [list(p) for p in pairs]}])[0]
        if m.get("status") == "ok" and not m.get("bad"):
            rep.agree(); rep.count("singles-are-correctly-rounded-doubles", len(pairs))
        else:
            rep.tie("a saved single-precision value is not the correctly rounded double by the Lean test F32.castOK", case,
                    {"bad": [pairs[i] for i in (m.get("bad") or [])[:4]]})
    if model and dtype == "float64" and spec["data"]["mode"] == "tags" and arr.size <= 40000 and not spec["data"].get("plant"):
        m = leanio.driver([{"op": "cover", "levels": geom.model_levels(spec, truth, names[field], L), "L": L,
                            "shape": list(arr.shape)}])[0]
        if m["vals"] == [int(x) for x in arr.flatten(order="F")]:
            rep.agree()
        else:
            rep.tie("saved array differs from the Lean covering-grid model", case)


def run(ctx, rep, model=True):
    n = 16 if ctx.quick else 60
    orders = pools.all_orders()
    for i in range(n):
        # three-level meshes with exposed coarse cells in boxes longer than two cells matter: replication by 4
        spec = plotgen.random_spec(ctx.rng, ndims=3, nlev=[3, 2, 3, 1][i % 4], nf=[2, 3, 1][i % 3], data="tags", B=[2, 4][i % 2],
                                   nblk=[[2, 1, 2], [1, 2, 1], [2, 2, 1], [1, 1, 2]][i % 4], layout=["scatter", "files"][i % 2],
                                   single0=(i % 3 == 0), refine_p=0.3, scale=[None, None, "tiny", None, "far"][i % 5],
                                   exact=(i % 2 == 0))
        if i % 3 == 1:
            spec["data"]["zero_boxes"] = True
            rep.count("identically-zero-fine-boxes")
        if i % 4 == 2:
            # characters that mean something to glob / fnmatch / the shell in the plotfile path
            spec["path_sub"] = [["sweep[2]", "run*x", "a?b"][i % 3], "plt_phi[0.8]_00007"]
            rep.count("glob-characters-in-path")
        if i % 3 == 0 and len(spec["fields"]) >= 2:
            # field names that differ only in the case of a letter (PeleLMeX: `Temp` and `temp`, `rhoh` and `rhoH`)
            spec["fields"][0], spec["fields"][-1] = [("Temp", "temp"), ("rhoh", "rhoH"), ("y(oh)", "Y(OH)")][(i // 3) % 3]
            rep.count("names-differing-by-case")
        if i % 4 == 1:
            spec["data"]["plant"] = "nan-fine"; rep.count("nan-stored-in-fine-cells-over-finite-coarse-cells")
        if i % 6 == 2:
            spec["data"]["plant"] = "huge"; rep.count("values-beyond-the-single-precision-range")
        if i % 4 == 0:
            # every level in ONE binary file, its boxes out of header order in it
            spec["layout"] = plotgen.random_layout(ctx.rng, spec["levels"], "perm"); rep.count("one-binary-file-per-level")
        if i % 6 == 4:
            # (multi-level, scattered layouts with two or three fields: boxes that are not the last of their file)
            spec["data"]["plant"] = "fab-bytes"; rep.count("finite-value-whose-bytes-spell-FAB")
        path = place(ctx, spec)
        truth = plotgen.materialize(spec, path)
        names = list(dedup_names(spec["fields"]))
        nlev = len(spec["levels"])
        norders = 6 if ctx.quick else 24
        for o in range(norders):
            field = names[o % len(names)]
            dtype = ["float64", "float32"][o % 2 if o > 1 else 0]
            limit = [None, None, nlev - 1, 0, max(nlev - 2, 0), None][o % 6]
            # (the covering-grid model works on integer tags: plotfiles with planted NaN / byte patterns go to the oracle only)
            run_case(ctx, rep, spec, field, dtype, limit, o * 5 + i, model, path, truth, orders,
                     before=(names[(o + 1) % len(names)] if o == 1 and len(names) >= 2 else None))
        if len(rep.violations) >= 10:
            return
    spec = equal_volume_spec(ctx.rng)
    rep.count("boxes-of-equal-cell-count-and-different-shape")
    for o, (field, dtype, limit) in enumerate([("rho", "float64", None), ("temp", "float32", None), ("rho", "float64", 0)]):
        run_case(ctx, rep, spec, field, dtype, limit, o, model, orders=orders)


def equal_volume_spec(rng):
    """level 0: boxes of 8x4x4 and 4x8x4 cells (same cell count, other shape) and 4x4x8; level 1 over a corner"""
    levels = [[[[0, 0, 0], [7, 3, 3]], [[0, 4, 0], [3, 11, 3]], [[4, 4, 0], [7, 7, 7]], [[0, 0, 4], [7, 3, 7]], [[0, 4, 4], [3, 11, 7]],
               [[4, 8, 0], [7, 11, 7]]],
              [[[0, 0, 0], [7, 7, 7]]]]
    return {"ndims": 3, "fields": ["rho", "temp"], "time": 0.5, "geo_low": [0.0, -1.0, 0.5], "dx0": [0.25, 0.25, 0.5], "grid0": [8, 12, 8],
            "block": 4, "levels": levels, "layout": plotgen.random_layout(rng, levels, "scatter"),
            "data": {"mode": "tags", "seed": rng.randrange(1 << 30)}, "header_style": "amrex", "step": 1}


def replay(ctx, rep, obj, model=True):
    c = obj["case"]
    run_case(ctx, rep, c["spec"], c["field"], c["dtype"], c["limit"], c["order"], model, before=c.get("before"))
