"""C09 - pestle integrates every point of the domain exactly once."""
import sys, re, os
from fractions import Fraction as Fr
import numpy as np
from .. import plotgen, oracle, leanio, pools, geom
from ..common import quiet, alarm
from .c01 import dedup_names

RULE = ("case = (generated 3D plotfile spec with properly nested levels, mixed box sizes (runs of 1-3 blocks, e.g. 4/8/12 or "
        "8/16/24 cells), partial refinement, anisotropic cells, 1-4 levels, scattered layouts; field; volfrac on/off; level limit "
        "in {None, 0..finest}; one reader object reused for a shuffled sequence of calls with different limits; variants whose cells "
        "under the next level hold NaN/inf filler); the returned integral compared with the exact rational sum over cells not covered by a finer "
        "selected level (oracle) and with the Lean model's integral; the field `one` must integrate to the domain volume; "
        "non-trivial = >=2 levels or mixed box sizes")


def J(x):
    x = Fr(x)
    return [x.numerator, x.denominator]


def exact_integral(spec, truth, k, kvol, L):
    """sum over uncovered cells of levels 0..L of value * dV (* volfrac), exact"""
    tot = Fr(0)
    for lv in range(L + 1):
        dV = Fr(1)
        for d in range(3):
            dV *= Fr(spec["dx0"][d]) / 2 ** lv
        fine = spec["levels"][lv + 1] if lv + 1 <= L else []
        for bid, (lo, hi) in enumerate(spec["levels"][lv]):
            arr = truth[(lv, bid)]
            shape = [hi[d] - lo[d] + 1 for d in range(3)]
            mask = np.ones(shape, dtype=bool)
            for flo, fhi in fine:
                # coarse cells covered by this fine box
                clo = [max(lo[d], flo[d] // 2) for d in range(3)]
                chi = [min(hi[d], fhi[d] // 2) for d in range(3)]
                if all(clo[d] <= chi[d] for d in range(3)):
                    mask[tuple(slice(clo[d] - lo[d], chi[d] - lo[d] + 1) for d in range(3))] = False
            v = arr[..., k][mask]
            if kvol is not None:
                w = arr[..., kvol][mask]
                s = sum((Fr(float(a)) * Fr(float(b)) for a, b in zip(v, w)), Fr(0))
            else:
                s = sum((Fr(float(a)) for a in v), Fr(0))
            tot += s * dV
    return tot


def model_request(spec, truth, k, kvol, L):
    levels = []
    for lv in range(L + 1):
        boxes = []
        for bid, (lo, hi) in enumerate(spec["levels"][lv]):
            a = np.where(np.isfinite(truth[(lv, bid)]), truth[(lv, bid)], 2.0 ** 100)   # filler of covered cells: huge sentinel
            v = a[..., k].flatten(order="F")
            if kvol is not None:
                w = a[..., kvol].flatten(order="F")
                data = [J(Fr(float(x)) * Fr(float(y))) for x, y in zip(v, w)]
            else:
                data = [J(float(x)) for x in v]
            boxes.append({"lo": lo, "hi": hi, "data": data})
        levels.append({"grid": [g * 2 ** lv for g in spec["grid0"]], "dx": [J(Fr(x) / 2 ** lv) for x in spec["dx0"]], "boxes": boxes})
    return {"op": "pestle", "repaired": True, "levels": levels}


def call_request(spec, truth, names, field, volfrac, limit):
    """the call as made, for the Lean model of `volume_integral`: every component of every box of every level, the field
    name, the volume-fraction flag and the limit (the model looks the components up, cuts the levels and weights the values)"""
    levels = []
    for lv in range(len(spec["levels"])):
        boxes = []
        for bid, (lo, hi) in enumerate(spec["levels"][lv]):
            a = np.where(np.isfinite(truth[(lv, bid)]), truth[(lv, bid)], 2.0 ** 100)
            boxes.append({"lo": lo, "hi": hi, "comps": [[J(float(x)) for x in a[..., k].flatten(order="F")] for k in range(a.shape[-1])]})
        levels.append({"grid": [g * 2 ** lv for g in spec["grid0"]], "dx": [J(Fr(x) / 2 ** lv) for x in spec["dx0"]], "boxes": boxes})
    return {"op": "pestle_call", "names": list(names), "field": field, "volfrac": bool(volfrac), "limit": limit, "levels": levels}


def run_case(ctx, rep, spec, field, volfrac, limit, model, path=None, truth=None, cli=False, start=None, pck=None, previous=None, finish=None, maxmins=False):
    from amr_kitchen import PlotfileCooker
    from amr_kitchen.pestle.pestle import volume_integral
    if path is None:
        path = ctx.newdir("c09_")
        if previous is not None:
            # another plotfile (other refined region) lived at this very path and was integrated in this process before
            import shutil
            plotgen.materialize(previous, path)
            try:
                with alarm(120), quiet(), pools.controlled():
                    volume_integral(PlotfileCooker(path, limit_level=limit), field, limit_level=limit, use_volfrac=volfrac)
            except BaseException as e:
                if isinstance(e, KeyboardInterrupt): raise
            shutil.rmtree(path)
        truth = plotgen.materialize(spec, path)
    names = dedup_names(spec["fields"])
    nlev = len(spec["levels"])
    L = nlev - 1 if limit is None else limit
    sizes = {hi[d] - lo[d] + 1 for boxes in spec["levels"] for lo, hi in boxes for d in range(3)}
    case = {"spec": spec, "field": field, "volfrac": volfrac, "limit": limit, "cli": cli, "finish": finish, "maxmins": maxmins}
    if previous is not None:
        case["previous"] = previous; rep.count("path-rewritten-with-another-refined-region-then-integrated-again")
    if pck is not None:
        # one reader object reused for a sequence of calls: the earlier calls are part of the case
        pck[1].append([field, volfrac, limit])
        case["history"] = [list(h) for h in pck[1][:-1]]
        rep.count("reused-reader")
    if spec["data"].get("covered_fill"):
        rep.count("non-finite-filler-in-covered-cells")
    rep.case({"s": spec, "f": field, "v": volfrac, "l": limit, "cli": cli, "h": case.get("history")}, nontrivial=(nlev >= 2 or len(sizes) > 1))
    rep.count(f"levels:{nlev}"); rep.count(f"limit:{limit}"); rep.count("volfrac" if volfrac else "plain")
    rep.count("mixed-sizes" if len(sizes) > 1 else "uniform-sizes")
    k = names[field]
    kvol = names.get("volFrac") if volfrac else None
    want = exact_integral(spec, truth, k, kvol, L)
    try:
        with alarm(180), quiet() as (out, err), pools.controlled(start=start, finish={"reversed": pools.order_reversed, "rot1": pools.order_rot(1)}.get(finish)):
            if cli:
                import amr_kitchen.pestle.cli as pcli
                argv = ["pestle", "-v", field] + (["-l", str(limit)] if limit is not None else []) + (["-vf"] if volfrac else []) + [path]
                old = sys.argv; sys.argv = argv
                try:
                    pcli.main()
                finally:
                    sys.argv = old
                m = re.search(r"Volume integral of .* in plotfile: (\S+)", out.getvalue())
                if not m:
                    raise RuntimeError("no integral printed")
                got = float(m.group(1))
            else:
                if pck is None:
                    reader = PlotfileCooker(path, ghost=True, maxmins=True) if maxmins else PlotfileCooker(path, ghost=True)
                else:
                    if pck[0] is None:
                        pck[0] = PlotfileCooker(path, ghost=True)
                    reader = pck[0]
                got = float(volume_integral(reader, field, limit_level=limit, use_volfrac=volfrac))
    except SystemExit as e:
        rep.fail(f"pestle exited ({e.code}) on a valid invocation", case); return
    except Exception as e:
        rep.fail(f"pestle raised {type(e).__name__}: {e}", case); return
    w = float(want)
    if not np.isfinite(got):
        rep.fail(f"integral is {got}: a value of a cell covered by a finer selected level (non-finite filler) was used; the sum "
                 f"over uncovered cells is {w} (levels 0..{L})", case, obs={"got": repr(got), "want": w})
        return
    fs_ = spec["data"].get("field_scale")
    unit = abs(fs_[names[field] % len(fs_)]) if fs_ else 1.0         # magnitude of one value of the field (trace species: 1e-11)
    tol = 1e-9 * max(unit, abs(w)) if not cli else 1e-9 * max(unit, abs(w)) + 1e-14
    if abs(got - w) > tol:
        rep.fail(f"integral {got} differs from the sum over uncovered cells {w} (levels 0..{L})", case, obs={"got": got, "want": w})
        return
    if model and not cli:
        m = leanio.driver([call_request(spec, truth, names, field, volfrac, limit)])[0]
        if m.get("nlevels") != L + 1:
            rep.tie(f"the model of the call integrates {m.get('nlevels')} levels, the call is for levels 0..{L}", case)
        elif m.get("integral") is None:
            rep.tie("model's covering masks are undefined for a mesh the tool integrates", case, m.get("rez"))
        else:
            mv = m["integral"][0] / m["integral"][1]
            sv = m["spec"][0] / m["spec"][1]
            rep.count("theorem-hypothesis-holds" if m.get("aligned") else "theorem-hypothesis-fails")
            if abs(got - mv) <= tol and abs(mv - sv) <= tol:
                rep.agree()
            else:
                rep.tie("integral differs from the Lean model's", case, {"real": got, "model": mv, "spec": sv})


def make_spec(rng, i):
    nlev = [2, 3, 1, 2, 4][i % 5]
    B = [4, 2, 4, 8, 2][i % 5]
    spec = plotgen.random_spec(rng, ndims=3, nlev=nlev, nf=3, data="smallint", B=B,
                               nblk=[[3, 1, 1], [2, 2, 1], [1, 3, 2], [3, 2, 1], [2, 1, 1]][i % 5], refine_p=0.55,
                               layout="scatter", single0=False)
    spec["fields"] = ["density", "volFrac", "one"]
    return spec


def mixed_spec(rng, i):
    """boxes of 2 and 3 blocks only (e.g. 16 and 24 cells): the smallest extent does not divide every face"""
    B = [2, 4, 8][i % 3]
    if i % 2 == 1:
        # every extent a multiple of 3 blocks, refined region aligned to 2 blocks only
        lv0 = [[[0, 0, 0], [3 * B - 1, 3 * B - 1, 3 * B - 1]], [[3 * B, 0, 0], [6 * B - 1, 3 * B - 1, 3 * B - 1]]]
        lv1 = [[[2 * B, 0, 0], [5 * B - 1, 6 * B - 1, 3 * B - 1]], [[5 * B, 0, 0], [8 * B - 1, 3 * B - 1, 3 * B - 1]],
               [[5 * B, 3 * B, 0], [8 * B - 1, 6 * B - 1, 3 * B - 1]]]
        levels = [lv0, lv1]
        for l in levels:
            rng.shuffle(l)
        return {"ndims": 3, "fields": ["density", "volFrac", "one"], "time": 0.25, "geo_low": [0.0, 1.0, -0.5],
                "dx0": [0.25, 0.5, 0.125], "grid0": [6 * B, 3 * B, 3 * B], "block": B, "levels": levels,
                "layout": plotgen.random_layout(rng, levels, "scatter"),
                "data": {"mode": "pestle", "seed": rng.randrange(1 << 30)}, "header_style": "amrex", "step": 3}
    cuts0 = [[2, 3], [3, 2], [2, 2, 3]][i % 3]
    nx = sum(cuts0)
    lv0, x = [], 0
    for c in cuts0:
        lv0.append([[x * B, 0, 0], [(x + c) * B - 1, 2 * B - 1, 2 * B - 1]]); x += c
    levels = [lv0]
    # level 1: refine coarse blocks x in [1, nx-1) over the full y, half z -> fine blocks 2..2(nx-1)
    f0, f1 = 2, 2 * (nx - 1)
    n = f1 - f0
    cuts1 = [3] * (n // 3) + ([2] if n % 3 == 2 else []) if n % 3 != 1 else [2, 2] + [3] * ((n - 4) // 3)
    lv1, x = [], f0
    for c in cuts1:
        lv1.append([[x * B, 0, 0], [(x + c) * B - 1, 4 * B - 1, 2 * B - 1]]); x += c
    levels.append(lv1)
    if i % 2 == 0:
        # level 2 over the first level-1 box only
        lo, hi = lv1[0]
        levels.append([[[2 * lo[0], 0, 0], [2 * lo[0] + 3 * B - 1, 2 * B - 1, 2 * B - 1]],
                       [[2 * lo[0] + 3 * B, 0, 0], [2 * (hi[0] + 1) - 1, 2 * B - 1, 2 * B - 1]]])
    for l in levels:
        rng.shuffle(l)
    spec = {"ndims": 3, "fields": ["density", "volFrac", "one"], "time": 1.5, "geo_low": [0.5, -1.0, 0.0],
            "dx0": [0.5, 0.25, 0.125], "grid0": [nx * B, 2 * B, 2 * B], "block": B, "levels": levels,
            "layout": plotgen.random_layout(rng, levels, "scatter"), "data": {"mode": "pestle", "seed": rng.randrange(1 << 30)},
            "header_style": "amrex", "step": 3}
    return spec


def slab_spec(rng, axis=2):
    """one coarse box refined by a slab in the MIDDLE of its extent along `axis`, over its whole cross-section: the coarse
    cells no finer level covers lie on both sides of the slab (two separate runs of planes)"""
    B = 4
    n = [2 * B, 2 * B, 2 * B]; n[axis] = 4 * B
    lo1 = [0, 0, 0]; hi1 = [2 * x - 1 for x in n]
    lo1[axis] = 2 * B; hi1[axis] = 6 * B - 1            # coarse cells B .. 3B-1 along the axis
    levels = [[[[0, 0, 0], [x - 1 for x in n]]], [[lo1, hi1]]]
    return {"ndims": 3, "fields": ["density", "volFrac", "one"], "time": 0.75, "geo_low": [0.0, -0.5, 1.0], "dx0": [0.25, 0.5, 0.125],
            "grid0": n, "block": B, "levels": levels, "layout": plotgen.random_layout(rng, levels, "scatter"),
            "data": {"mode": "pestle", "seed": rng.randrange(1 << 30)}, "header_style": "amrex", "step": 3}


def directories_session(ctx, rep, seed):
    from amr_kitchen import PlotfileCooker
    from amr_kitchen.pestle.pestle import volume_integral
    from .. import sessions
    dirs = sessions.two_directories(ctx, seed, "c09dirs_", ndims=3, nlev=2, nf=3, data="smallint", B=4, nblk=[2, 1, 1],
                                    refine_p=0.5, layout="scatter", single0=False)
    case = {"directories_session": seed}
    rep.case({"dirsession": seed}, nontrivial=True); rep.count("relative-names-from-two-working-directories-real-pool")

    def action(k, name, spec, truth):
        try:
            got = float(volume_integral(PlotfileCooker(name, ghost=True), spec["fields"][0]))
        except Exception as e:
            return f"pestle on the plotfile opened as {name!r} raised {type(e).__name__}: {e}"
        w = float(exact_integral(spec, truth, 0, None, len(spec["levels"]) - 1))
        if abs(got - w) > 1e-9 * max(1.0, abs(w)):
            return f"integral {got} of the plotfile opened as {name!r} is not the sum over the cells of THIS directory's plotfile ({w})"
        return None
    bad = sessions.visit(dirs, action)
    if bad:
        rep.fail(bad, case)
    else:
        rep.agree()


def damaged_input(ctx, rep, seed):
    """a binary file cut short: the integral cannot be computed; a number returned normally is a partial sum"""
    import random
    from amr_kitchen import PlotfileCooker
    from amr_kitchen.pestle.pestle import volume_integral
    rng = random.Random(seed)
    spec = make_spec(rng, 0)
    spec["data"] = {"mode": "pestle", "seed": rng.randrange(1 << 30)}
    path = ctx.newdir("c09cut_")
    plotgen.materialize(spec, path)
    case = {"damaged_input": seed}
    rep.case({"damaged": seed}, nontrivial=True); rep.count("truncated-binary-file")
    for lv in (0, len(spec["levels"]) - 1):
        d = os.path.join(path, f"Level_{lv}")
        f = os.path.join(d, sorted(x for x in os.listdir(d) if x.startswith("Cell_D"))[-1])
        data = open(f, "rb").read()
        open(f, "wb").write(data[: len(data) - 24])
        try:
            with alarm(180), quiet(), pools.controlled():
                got = volume_integral(PlotfileCooker(path, ghost=True), "one")      # the last field: its data end the file
            rep.fail(f"pestle returned {got} for a plotfile whose binary file {os.path.relpath(f, path)} is cut short "
                     "(a partial sum, not the integral)", case)
            return
        except Exception:
            pass
        open(f, "wb").write(data)
    rep.agree()


def run(ctx, rep, model=True):
    directories_session(ctx, rep, ctx.rng.randrange(1 << 30))
    damaged_input(ctx, rep, ctx.rng.randrange(1 << 30))
    for axis in range(3):
        spec = slab_spec(ctx.rng, axis); rep.count("refined-slab-in-the-middle-of-a-box")
        for f, vf in (("density", False), ("one", True)):
            run_case(ctx, rep, spec, f, vf, None, model)
    # a reader that also holds the level headers' extrema, and a field whose values are all tiny (a trace species)
    spec = slab_spec(ctx.rng, 0); spec["data"]["field_scale"] = [1e-11, 1.0, 1.0]; rep.count("trace-field-with-maxmins-reader")
    run_case(ctx, rep, spec, "density", False, None, False, maxmins=True)
    n = 16 if ctx.quick else 80
    for i in range(n):
        spec = make_spec(ctx.rng, i) if i % 2 == 0 else mixed_spec(ctx.rng, i // 2)
        # payload: density small ints, volFrac dyadic fractions in [0,1], one == 1
        spec["data"] = {"mode": "pestle", "seed": ctx.rng.randrange(1 << 30)}
        D = "density"
        if i % 4 == 3:
            # another field whose name holds "frac", stored ahead of the volume fraction
            D = spec["fields"][0] = ["mixture_fraction", "mass_fractions"][(i // 4) % 2]; rep.count("another-frac-field-ahead-of-volFrac")
        path = ctx.newdir("c09_")
        truth = plotgen.materialize(spec, path)
        nlev = len(spec["levels"])
        combos = [("one", False, None), (D, False, None), (D, True, None)]
        for L in range(nlev):
            combos.append(([D, "one"][L % 2], L % 2 == 1, L))
        for j, (f, vf, lim) in enumerate(combos):
            run_case(ctx, rep, spec, f, vf, lim, model, path, truth, cli=(j in (1, 3, 4) and i % 2 == 0),
                     start=[None, pools.order_reversed][j % 2], finish=[None, "reversed", "rot1"][(i + j) % 3])
        if nlev >= 2 and i % 2 == 0:
            # one reader object for a sequence of calls with different limits and fields
            pck = [None, []]
            seq = [(D, False, L) for L in range(nlev)] + [("one", False, None), (D, True, 0), (D, False, nlev - 1)]
            ctx.rng.shuffle(seq)
            for f, vf, lim in seq:
                run_case(ctx, rep, spec, f, vf, lim, model and lim is None, path, truth, pck=pck)
        if nlev >= 2 and i % 4 in (1, 2):
            # the cells lying under the next level hold NaN / inf: only selections including every level use none of them
            spec2 = dict(spec, data=dict(spec["data"], covered_fill=["nan", "mix", "inf"][i % 3]))
            path2 = ctx.newdir("c09n_")
            truth2 = plotgen.materialize(spec2, path2)
            for j, (f, vf, lim) in enumerate([(D, False, None), (D, True, nlev - 1), ("one", False, None)]):
                run_case(ctx, rep, spec2, f, vf, lim, model, path2, truth2, cli=(j == 2 and i % 4 == 1))
        if nlev >= 2 and i % 2 == 0:
            # the plotfile is rewritten at the same path with another refined region and integrated again in this process
            import shutil
            for _ in range(20):
                spec2 = make_spec(ctx.rng, i)
                if spec2["levels"] != spec["levels"] and len(spec2["levels"]) == nlev:
                    break
            spec2["data"] = {"mode": "pestle", "seed": ctx.rng.randrange(1 << 30)}
            shutil.rmtree(path); truth2 = plotgen.materialize(spec2, path)
            run_case(ctx, rep, spec2, spec2["fields"][0], False, None, model, path, truth2, previous=spec)
            run_case(ctx, rep, spec2, "one", False, nlev - 1, model, path, truth2, previous=spec)
        if len(rep.violations) >= 10:
            return


def replay(ctx, rep, obj, model=True):
    c = obj["case"]
    if "directories_session" in c:
        directories_session(ctx, rep, c["directories_session"]); return
    if "damaged_input" in c:
        damaged_input(ctx, rep, c["damaged_input"]); return
    pck = None
    if c.get("history"):
        pck = [None, []]
        path = ctx.newdir("c09_")
        truth = plotgen.materialize(c["spec"], path)
        for f, vf, lim in c["history"]:
            run_case(ctx, rep, c["spec"], f, vf, lim, False, path, truth, pck=pck)
        run_case(ctx, rep, c["spec"], c["field"], c["volfrac"], c["limit"], model, path, truth, pck=pck)
        return
    run_case(ctx, rep, c["spec"], c["field"], c["volfrac"], c["limit"], model, cli=c.get("cli", False), previous=c.get("previous"), finish=c.get("finish"), maxmins=c.get("maxmins", False))
