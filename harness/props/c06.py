"""C06 - combine merges fields box by box, independent of either input's file layout."""
import os, copy
import numpy as np
from .. import plotgen, oracle, leanio, pools, tastelib, writers
from ..common import quiet, alarm
from .c01 import dedup_names

RULE = ("case = (pair of generated 3D plotfile specs on a common mesh with independently drawn binary layouts out of "
        "{monotone, same files other order, other files, fully scattered}, field selections for each side as None / string / "
        "list incl. unknown and shared names) and mismatched pairs (level count, one box moved, one box split, index +-1 at "
        "index >= 1e5); output parsed by the oracle, validated with taste, compared bit for bit with both inputs and offset "
        "for offset with the Lean record-level model; non-trivial = layouts differ or a selection is given")

P_FIELDS = ["density", "temp", "x_velocity", "Y(H2)", "pressure"]
Q_FIELDS = ["mixture_fraction", "temp", "HeatRelease", "Y(O2)", "vort"]


def pair_specs(rng, nlev=None, kinds=None):
    p = plotgen.random_spec(rng, ndims=3, nlev=nlev or rng.choice([1, 2, 2, 3]), nf=rng.choice([1, 2, 3, 4, 4, 5]), data="bits", B=2)
    p["fields"] = P_FIELDS[: len(p["fields"])]
    q = copy.deepcopy(p)
    q["fields"] = rng.sample(Q_FIELDS, rng.choice([1, 2, 3, 4, 4, 5]))
    q["data"] = {"mode": "bits", "seed": rng.randrange(1 << 30)}
    kp, kq = kinds or (rng.choice(["mono", "perm", "files", "scatter"]), rng.choice(["mono", "perm", "files", "scatter", "same"]))
    if kp == "mixed":
        # the levels differ in kind: the coarsest has one file map for both inputs with the boxes out of header order in
        # it, the finer ones spread their boxes over files independently in the two inputs
        for _ in range(50):
            if len(p["levels"]) >= 2 and len(p["levels"][0]) >= 2 and len(p["levels"][1]) >= 2:
                break
            p = plotgen.random_spec(rng, ndims=3, nlev=rng.choice([2, 3]), nf=len(p["fields"]), data="bits", B=2)
            p["fields"] = P_FIELDS[: len(p["fields"])]
            q = copy.deepcopy(p)
            q["fields"] = rng.sample(Q_FIELDS, rng.choice([1, 2, 3, 4]))
            q["data"] = {"mode": "bits", "seed": rng.randrange(1 << 30)}
        lp = plotgen.random_layout(rng, p["levels"], "files"); lq = plotgen.random_layout(rng, q["levels"], "scatter")
        l0 = plotgen.random_layout(rng, p["levels"][:1], "perm")[0]
        if l0 == sorted(l0):
            l0 = l0[::-1]
        p["layout"] = [l0] + lp[1:]
        q["layout"] = [copy.deepcopy(l0) if kq == "mixed" else [[f, -k] for f, k in l0]] + lq[1:]
        q["header_style"] = rng.choice(["amrex", "tight"])
        return p, q, (kp, kq)
    p["layout"] = plotgen.random_layout(rng, p["levels"], kp)
    if kq == "same":
        q["layout"] = copy.deepcopy(p["layout"])
    elif kq == "sameperm":
        # same files, other order inside each file
        q["layout"] = [[[f, -k] for f, k in lay] for lay in p["layout"]]
    else:
        q["layout"] = plotgen.random_layout(rng, q["levels"], kq)
    q["header_style"] = rng.choice(["amrex", "tight"])
    return p, q, (kp, kq)


def mesh_eq_tie(rep, case, d1, d2, model):
    """`reader1 == reader2` against the Lean model `MeshEq.eq` (C06.same_mesh_accepted / different_mesh_refused): the
    physical bounds as exact rationals, the index ranges, the level limits"""
    if not model:
        return
    from fractions import Fraction as Fr
    from amr_kitchen import PlotfileCooker
    try:
        with quiet():
            a, b = PlotfileCooker(d1), PlotfileCooker(d2)
            real = bool(a == b)
    except Exception:
        return          # the comparison of readers with different level counts may raise: combine's refusal covers it
    J = lambda x: [Fr(float(x)).numerator, Fr(float(x)).denominator]

    def lv(r, l):
        return {"bounds": [[[J(d[0]), J(d[1])] for d in box] for box in r.boxes[l]],
                "idx": [[[int(x) for x in ix[0]], [int(x) for x in ix[1]]] for ix in r.cells[l]["indexes"]]}
    try:
        req = {"op": "mesh_eq", "limA": int(a.limit_level), "limB": int(b.limit_level),
               "A": [lv(a, l) for l in range(a.limit_level + 1)], "B": [lv(b, l) for l in range(b.limit_level + 1)]}
    except (ValueError, OverflowError, TypeError, IndexError):
        return
    m = leanio.driver([req])[0]
    if m.get("equal") is real:
        rep.agree(); rep.count("reader-equality-agrees-with-model:" + str(real))
    else:
        rep.tie(f"reader1 == reader2 is {real}, the Lean model MeshEq.eq says {m.get('equal')}", case)


def selection_forms(rng, pn, qn):
    pn, qn = list(pn), list(qn)
    out = [(None, None), (None, list(qn)), (" ".join(pn[::-1]), None), (pn[:1], qn[:1]),
           (pn[0] + " nope", qn[::-1] + ["nope"]), (list(pn), " ".join(qn))]

    def inner_shuffled(names):
        # lowest field first, highest last, the fields between them out of file order (a "contiguous" block that is no range)
        if len(names) < 3:
            return list(names)
        mid = names[1:-1][::-1] if len(names) <= 4 else rng.sample(names[1:-1], len(names) - 2)
        return names[:1] + mid + names[-1:]
    out.append((inner_shuffled(pn), " ".join(inner_shuffled(qn))))
    out.append((" ".join(rng.sample(pn, len(pn))), rng.sample(qn, rng.randint(1, len(qn)))))
    return out


def sel_names(v, names):
    if v is None:
        return list(names)
    toks = v.split() if isinstance(v, str) else list(v)
    return [t for t in toks if t in names]


def tree_listing(root):
    out = []
    for r, ds, fs in os.walk(root):
        for x in ds + fs:
            out.append(os.path.relpath(os.path.join(r, x), root))
    return sorted(out)


FINISH = {None: None, "reversed": pools.order_reversed, "rot1": pools.order_rot(1)}    # delivery order of unordered results


class low_fd_limit:
    """the process may hold only `extra` more files open than it does now (a login shell's default of 256 is reached
    quickly by a tool that keeps one handle per binary file)"""
    def __init__(self, extra):
        self.extra = extra

    def __enter__(self):
        import resource
        self.old = resource.getrlimit(resource.RLIMIT_NOFILE)
        used = len(os.listdir("/proc/self/fd"))
        resource.setrlimit(resource.RLIMIT_NOFILE, (min(self.old[1], used + self.extra), self.old[1]))

    def __exit__(self, *a):
        import resource
        resource.setrlimit(resource.RLIMIT_NOFILE, self.old)
        return False


def run_case(ctx, rep, p, q, vars1, vars2, model, kinds=("?", "?"), start=None, expect_refusal=None, finish=None, cli=False, relout=False,
             fdlimit=None):
    from amr_kitchen import PlotfileCooker
    from amr_kitchen.combine.combine import combine
    d1, d2 = ctx.newdir("c06a_"), ctx.newdir("c06b_")
    plotgen.materialize(p, d1); plotgen.materialize(q, d2)
    work = ctx.newdir("c06w_"); os.makedirs(work)
    out = os.path.join(work, "out")
    case = {"p": p, "q": q, "vars1": vars1, "vars2": vars2, "kinds": list(kinds), "expect_refusal": expect_refusal, "finish": finish, "cli": cli,
            "relout": relout, "fdlimit": fdlimit}
    if fdlimit: rep.count("few-file-descriptors-left")
    if cli: rep.count("console-script")
    if relout: rep.count("relative-output-after-chdir")
    rep.case({"p": p, "q": q, "v1": vars1, "v2": vars2}, nontrivial=(kinds[0] != "mono" or kinds[1] not in ("mono", "same")
                                                                   or vars1 is not None or vars2 is not None or bool(expect_refusal)))
    rep.count(f"layouts:{kinds[0]}/{kinds[1]}")
    rep.count("sel:" + ("none" if vars1 is None else type(vars1).__name__) + "/" + ("none" if vars2 is None else type(vars2).__name__))
    raised = None
    try:
        with alarm(180), quiet(), pools.controlled(start=start, finish=FINISH[finish]):
            if cli:
                from .. import tools
                status = tools.combine_cli(d1, d2, out, vars1, vars2)
                if status != 0:
                    raised = SystemExit(status)       # a refusal the shell sees
            elif relout:
                # the readers are opened (absolute paths) in one working directory, the combination is asked for from another
                # one under a bare relative name
                from ..common import chdir
                r1, r2 = PlotfileCooker(d1), PlotfileCooker(d2)
                with chdir(work):
                    combine(r1, r2, pltout="out", vars1=vars1, vars2=vars2)
            elif fdlimit:
                r1, r2 = PlotfileCooker(d1), PlotfileCooker(d2)
                with low_fd_limit(fdlimit):
                    combine(r1, r2, pltout=out, vars1=vars1, vars2=vars2)
            else:
                combine(PlotfileCooker(d1), PlotfileCooker(d2), pltout=out, vars1=vars1, vars2=vars2)
    except Exception as e:
        raised = e
    mesh_eq_tie(rep, case, d1, d2, model)
    if expect_refusal:
        rep.count("mismatch:" + expect_refusal)
        if raised is None:
            rep.fail(f"inputs on different meshes ({expect_refusal}) were combined without an error"
                     + (" (the console script returned exit status 0)" if cli else ""), case)
        elif tree_listing(work):
            rep.fail(f"inputs on different meshes ({expect_refusal}) were refused only after writing {tree_listing(work)[:3]}", case)
        return
    pn, qn = dedup_names(p["fields"]), dedup_names(q["fields"])
    s1 = sel_names(vars1, pn)
    s2 = [v for v in sel_names(vars2, qn) if v not in s1]
    if not s1 or not s2:
        # nothing to take from one side: refusing is the documented behaviour
        if raised is None:
            rep.fail("combine accepted a selection that takes no field from one input", case)
        return
    if raised is not None:
        rep.fail(f"combine raised {type(raised).__name__}: {raised}", case)
        return
    good, r = tastelib.real_taste(out)
    try:
        Q = oracle.parse(out)
    except (oracle.OracleError, OSError) as e:
        rep.fail(f"combine's output is not a well-formed plotfile: {e}", case, obs={"taste": good})
        return
    if not good:
        rep.fail(f"validation rejects combine's output (raised {r})", case)
        return
    P1, P2 = oracle.parse(d1), oracle.parse(d2)
    bad = []
    if Q["fields"] != s1 + s2:
        bad.append(f"fields {Q['fields']} != {s1 + s2}")
    bad += writers.same_mesh_meta(P1, Q, len(p["levels"]), "combine")
    i1 = [pn[v] for v in s1]; i2 = [qn[v] for v in s2]
    if not bad:
        for lv in range(len(p["levels"])):
            for b in range(len(P1["levels"][lv]["idx"])):
                want = np.concatenate([P1["levels"][lv]["data"][b][..., i1], P2["levels"][lv]["data"][b][..., i2]], axis=-1)
                if not oracle.same_bits(Q["levels"][lv]["data"][b], want):
                    bad.append(f"level {lv} box {b}: values are not the two source boxes' values"); break
            wmin = np.concatenate([np.asarray(P1["levels"][lv]["mins"])[:, i1], np.asarray(P2["levels"][lv]["mins"])[:, i2]], axis=1)
            wmax = np.concatenate([np.asarray(P1["levels"][lv]["maxs"])[:, i1], np.asarray(P2["levels"][lv]["maxs"])[:, i2]], axis=1)
            if not writers.rows_equal(Q["levels"][lv]["mins"], wmin) or not writers.rows_equal(Q["levels"][lv]["maxs"], wmax):
                bad.append(f"level {lv}: min/max rows are not assembled from the two sources")
    for b in bad[:3]:
        rep.fail(b, case)
    if bad or not model:
        return
    m = leanio.driver([{"op": "combine", "levels1": writers.level_records(P1), "levels2": writers.level_records(P2),
                        "v1": i1, "v2": i2}])[0]
    ok = True
    for lv in range(len(p["levels"])):
        for b, ob in enumerate(m["levels"][lv]):
            f, o = Q["levels"][lv]["fab"][b]
            if (ob["file"], ob["offset"]) != (f, o) or ob["found"] is None or ob["found"]["box"] != b or ob["found"]["comps"] != i1 + i2:
                ok = False
    if ok:
        rep.agree()
    else:
        rep.tie("combine's output layout (file, offset per box) differs from the model's", case)
    tok = lambda v: None if v is None else (v.split() if isinstance(v, str) else list(v))
    mn = leanio.driver([{"op": "names", "tool": "combine", "names": list(pn), "names2": list(qn), "v1": tok(vars1), "v2": tok(vars2)}])[0]
    if mn.get("fields") == Q["fields"] and mn.get("i1") == i1 and mn.get("i2") == i2:
        rep.agree()
    else:
        rep.tie("the fields combine wrote (names / source positions) differ from the Lean merge rule", case,
                {"real": Q["fields"], "model": mn})
    diff = writers.level_headers_match_rewrite(d1, out, Q, i1, leanio, inp2=d2, kept2=i2)
    if diff:
        rep.tie(f"the level headers of levels {diff} differ from the Lean line rewriter's (C06.level_header_rows_assembled)", case)
    else:
        rep.agree(); rep.count("level-headers-are-the-rewriter's")
    cert = tastelib.wf_certificate(out, leanio)
    if cert is None:
        rep.agree(); rep.count("wf-certificate-passes")
    elif cert != "names":
        rep.tie(f"combine's output does not pass the Lean well-formedness certificate ({cert})", case)
    why = writers.output_header_matches_rewrite(d1, out, None, Q["fields"], "combine", leanio, rep)
    if why:
        rep.tie(f"header combine derives from its input: {why} (C06.output_header_keeps_mesh / output_header_read_back)", case)
    else:
        rep.agree(); rep.count("output-header-is-the-writer-model's")
    why = writers.global_header_theorem_applies(out, leanio)
    if why:
        rep.tie(f"global header of combine's output: {why} (whose parse-after-render law is proved)", case)
    else:
        rep.agree(); rep.count("header-theorem-applies")


def mismatches(rng, p, q):
    """(kind, q') with q' on a different mesh than p"""
    out = []
    if len(q["levels"]) > 1:
        q1 = copy.deepcopy(q); q1["levels"] = q1["levels"][:-1]; q1["layout"] = q1["layout"][:-1]
        out.append(("level-count", q1))
    else:
        q1 = copy.deepcopy(q)
        # add a level refining the first level-0 block
        B = q1["block"]
        q1["levels"].append([[[0, 0, 0], [2 * B - 1] * 3]]); q1["layout"].append([[0, 0]])
        out.append(("level-count", q1))
    lv = len(q["levels"]) - 1
    if lv > 0:
        # drop one box of the finest level (partial refinement differs)
        if len(q["levels"][lv]) > 1:
            q2 = copy.deepcopy(q); q2["levels"][lv] = q2["levels"][lv][:-1]; q2["layout"][lv] = q2["layout"][lv][:-1]
            out.append(("box-missing", q2))
    # split one box in two along x
    for b, (lo, hi) in enumerate(q["levels"][lv]):
        if hi[0] - lo[0] + 1 >= 4 and (hi[0] - lo[0] + 1) % 4 == 0:
            q3 = copy.deepcopy(q)
            mid = lo[0] + (hi[0] - lo[0] + 1) // 2
            q3["levels"][lv][b] = [lo, [mid - 1, hi[1], hi[2]]]
            q3["levels"][lv].append([[mid, lo[1], lo[2]], hi]); q3["layout"][lv].append([0, 10 ** 6])
            out.append(("box-split", q3)); break
    # same boxes in another order
    if len(q["levels"][lv]) > 1:
        q4 = copy.deepcopy(q); q4["levels"][lv] = q4["levels"][lv][1:] + q4["levels"][lv][:1]
        out.append(("box-order", q4))
    return out


def big_index_pair():
    """two single-level meshes whose only difference is an index of 1e5 vs 1e5 + 1"""
    def mk(split):
        return {"ndims": 3, "fields": ["a"], "time": 0.0, "geo_low": [0.0, 0.0, 0.0], "dx0": [1.0, 1.0, 1.0],
                "grid0": [100004, 2, 2], "block": 2,
                "levels": [[[[0, 0, 0], [split - 1, 1, 1]], [[split, 0, 0], [100003, 1, 1]]]],
                "layout": [[[0, 0], [0, 1]]], "data": {"mode": "smallint", "seed": 5}, "header_style": "amrex", "step": 0}
    p = mk(100000); q = mk(100001); q["fields"] = ["b"]
    return p, q


def same_directory_other_limit(ctx, rep):
    """one plotfile opened twice, with different level limits: two readers of different level counts are refused like any other
    pair of different level counts, before anything is written"""
    from amr_kitchen import PlotfileCooker
    from amr_kitchen.combine.combine import combine
    for _ in range(30):
        p = plotgen.random_spec(ctx.rng, ndims=3, nlev=2, nf=2, data="bits", B=2)
        if len(p["levels"]) == 2:
            break
    p["fields"] = P_FIELDS[:2]
    d1 = ctx.newdir("c06s_"); plotgen.materialize(p, d1)
    for la, lb in ((0, None), (None, 0)):
        work = ctx.newdir("c06sw_"); os.makedirs(work)
        case = {"same_directory_other_limit": [la, lb], "p": p}
        rep.case({"p": p, "limits": [la, lb]}, nontrivial=True); rep.count("mismatch:same-directory-other-limit")
        raised = None
        try:
            with alarm(120), quiet(), pools.controlled():
                combine(PlotfileCooker(d1, limit_level=la), PlotfileCooker(d1, limit_level=lb), pltout=os.path.join(work, "out"),
                        vars1=P_FIELDS[:1], vars2=P_FIELDS[1:2])
        except Exception as e:
            raised = e
        if raised is None:
            rep.fail(f"one plotfile opened with the level limits {la} and {lb} (different level counts) was combined with itself without an error", case)
        elif tree_listing(work):
            rep.fail(f"readers of different level counts were refused only after writing {tree_listing(work)[:3]}", case)
        else:
            rep.agree()


def run(ctx, rep, model=True):
    n = 40 if ctx.quick else 240
    lay_pairs = [("mono", "mono"), ("mono", "sameperm"), ("perm", "same"), ("files", "scatter"), ("scatter", "files"),
                 ("scatter", "same"), ("perm", "perm"), ("mono", "files"), ("mixed", "mixed"), ("mixed", "mixedperm")]
    for i in range(n):
        p, q, kinds = pair_specs(ctx.rng, kinds=lay_pairs[i % len(lay_pairs)])
        if i % 3 == 1:
            p["subcycle"] = q["subcycle"] = True; p["step"] = q["step"] = 7       # a sub-cycling run: steps 7, 14, 28 per level
            rep.count("per-level-steps-differ")
        if i % 4 == 2:
            # names with a comma in them (a rate between two species, an isomer): string selections are split at blanks only
            p["fields"][ctx.rng.randrange(len(p["fields"]))] = "rate(H2,O2)"
            q["fields"][ctx.rng.randrange(len(q["fields"]))] = "Y(C4H6-1,3)"; rep.count("field-name-with-comma")
        if i % 5 == 4 and len(p["fields"]) >= 2 and len(q["fields"]) >= 3 and "rate(H2,O2)" not in p["fields"]:
            # two fields that both inputs carry, next to each other in the second one
            for spec_ in (p, q):
                spec_["fields"] = ["x_velocity", "y_velocity"] + [("z_velocity" if f in ("x_velocity", "y_velocity") else f) for f in spec_["fields"][2:]]
            rep.count("two-adjacent-fields-shared-by-both-inputs")
        forms = selection_forms(ctx.rng, dedup_names(p["fields"]), dedup_names(q["fields"]))
        for j, (v1, v2) in enumerate(forms):
            if ctx.quick and j not in (0, 1 + i % 7):
                continue
            run_case(ctx, rep, p, q, v1, v2, model, kinds, start=[None, pools.order_reversed][j % 2],
                     finish=[None, "reversed", "rot1"][(i + j) % 3], cli=((i + j) % 5 == 3), relout=((i + j) % 5 == 1))
        if i % 3 == 0:
            for kind, q2 in mismatches(ctx.rng, p, q):
                run_case(ctx, rep, p, q2, None, None, model, kinds, expect_refusal=kind, cli=(i % 2 == 0))
        if len(rep.violations) >= 12:
            return
    p, q = big_index_pair()
    run_case(ctx, rep, p, q, None, None, model, ("mono", "mono"), expect_refusal="index-1e5")
    same_directory_other_limit(ctx, rep)
    # four fields against twelve (their FAB header lines differ in length), boxes spread differently over files
    for _ in range(30):
        p, q, kinds = pair_specs(ctx.rng, nlev=2, kinds=("files", "scatter"))
        if any(len(b) >= 2 for b in p["levels"]):
            break
    p["fields"] = P_FIELDS[:4]; q["fields"] = [f"q{k:02d}" for k in range(12)]
    rep.count("field-counts-of-different-digit-counts")
    run_case(ctx, rep, p, q, None, None, model, kinds)
    run_case(ctx, rep, q, p, None, None, model, kinds[::-1])
    # 64 boxes in one binary file of the first input, each in a file of its own in the second, with room for 24 more open files
    p = plotgen.random_spec(ctx.rng, ndims=3, nlev=1, nf=2, data="bits", B=2, nblk=[4, 4, 4], single0=False, layout="mono")
    p["fields"] = P_FIELDS[:2]
    p["levels"] = [[[[2 * i, 2 * j, 2 * k], [2 * i + 1, 2 * j + 1, 2 * k + 1]] for i in range(4) for j in range(4) for k in range(4)]]
    p["layout"] = [[[0, b] for b in range(64)]]
    q = copy.deepcopy(p); q["fields"] = Q_FIELDS[:2]; q["data"] = {"mode": "bits", "seed": 4242}
    q["layout"] = [[[b, 0] for b in range(len(lv))] for lv in q["levels"]]
    if len(p["levels"][0]) >= 40:
        run_case(ctx, rep, p, q, None, None, False, ("mono", "file-per-box"), fdlimit=24)


def replay(ctx, rep, obj, model=True):
    c = obj["case"]
    if "same_directory_other_limit" in c:
        same_directory_other_limit(ctx, rep); return
    run_case(ctx, rep, c["p"], c["q"], c["vars1"], c["vars2"], model, tuple(c.get("kinds", ("?", "?"))),
             expect_refusal=c.get("expect_refusal"), finish=c.get("finish"), cli=c.get("cli", False), relout=c.get("relout", False),
             fdlimit=c.get("fdlimit"))
