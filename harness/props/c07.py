"""C07 - mandoline 3D slices interpolate the right samples at every pixel."""
import json, os
from fractions import Fraction as Fr
import numpy as np
from .. import plotgen, oracle, leanio, pools, geom
from ..common import quiet, alarm
from .c01 import dedup_names

RULE = ("case = (generated 3D plotfile spec with nested levels, non-zero origin, anisotropic dyadic cells, normal in {x,y,z}, "
        "plane position out of {cell centres and faces of every level, box faces, +-1/4 cell around box faces on each level, "
        "domain faces, just inside them, default, outside, random dyadic}, field list, level limit, serial or pool); every "
        "pixel compared with the Python specification (finest adjacent sample on each side, linear interpolation), with the "
        "Lean column model (exact rationals), and NaN-tainted numpy.empty exposes reads of never-written cells; affine and "
        "level-constant payloads give closed-form expectations; non-trivial = >=2 levels or position not a level-0 cell centre")

TOL = 1e-9


def J(x):
    x = Fr(x)
    return [x.numerator, x.denominator]


def positions(spec, cn, rng, n_extra=4):
    g = spec["geo_low"][cn]; d0 = spec["dx0"][cn]; N = spec["grid0"][cn]
    G = g + N * d0
    nlev = len(spec["levels"])
    out = [("default", None), ("domain-lo", g), ("domain-hi", G), ("inside-lo", g + d0 / 16), ("inside-hi", G - d0 / 16),
           ("outside-lo", g - d0), ("outside-hi", G + d0 / 4),
           # outside by one unit in the last place, and by a relative 1e-7 (inside any "rounding tolerance", outside the domain)
           ("just-outside-lo", float(np.nextafter(g, -np.inf))), ("just-outside-hi", G + max(abs(G), d0) * 1e-7)]
    for lv in range(nlev):
        d = d0 / 2 ** lv
        faces = sorted({b[0][cn] for b in spec["levels"][lv]} | {b[1][cn] + 1 for b in spec["levels"][lv]})
        for f in faces:
            x = g + f * d
            for nm, off in (("box-face", 0), ("face-1/4", -d / 4), ("face+1/4", d / 4), ("face-3/4", -3 * d / 4), ("face+3/4", 3 * d / 4),
                            ("face-1/2", -d / 2), ("face+1/2", d / 2)):
                p = x + off
                if g <= p <= G:
                    out.append((f"L{lv}:{nm}", p))
        for _ in range(2):
            i = rng.randrange(N * 2 ** lv)
            c = g + (i + 0.5) * d
            out.append((f"L{lv}:centre", c))
            out.append((f"L{lv}:cell-face", g + i * d))
            # a cell centre up to the rounding of however the caller computed it (a few units in the last place off)
            k = rng.choice([1, 2, 3])
            out.append((f"L{lv}:centre+ulps", float(np.nextafter(c, np.inf)) if k == 1 else c + k * float(np.spacing(c))))
            out.append((f"L{lv}:centre-ulps", c - k * float(np.spacing(c))))
    for _ in range(n_extra):
        out.append(("random", g + rng.randrange(1, N * 64) * d0 / 64))
    if g < 0.0 < G:
        out.insert(1, ("zero", 0.0))     # the coordinate 0 (falsy as an option value); ahead of any face that lies there
    seen, uniq = set(), []
    for nm, p in out:
        if p not in seen:
            seen.add(p); uniq.append((nm, p))
    return uniq


def pixel_columns(spec, truth, k, L, cn):
    """per pixel of the level-L in-plane grid: per level the boxes covering it (box order) with their samples along the normal"""
    cx, cy = [i for i in range(3) if i != cn]
    nx, ny = spec["grid0"][cx] * 2 ** L, spec["grid0"][cy] * 2 ** L
    cols = {}
    for px in range(nx):
        for py in range(ny):
            levels = []
            for lv in range(L + 1):
                f = 2 ** (L - lv); bs = []
                for bid, (lo, hi) in enumerate(spec["levels"][lv]):
                    if lo[cx] <= px // f <= hi[cx] and lo[cy] <= py // f <= hi[cy]:
                        ix = [None] * 3; ix[cx] = px // f - lo[cx]; ix[cy] = py // f - lo[cy]; ix[cn] = slice(None)
                        bs.append((lo[cn], truth[(lv, bid)][tuple(ix) + (k,)]))
                levels.append(bs)
            cols[(px, py)] = levels
    return cols


def spec_value(spec, levels, cn, pos):
    """Python specification for one pixel: (value, grid level) with exact fractions; None when no sample exists"""
    g = Fr(spec["geo_low"][cn]); d0 = Fr(spec["dx0"][cn]); N = spec["grid0"][cn]
    G = g + N * d0
    pos = Fr(pos)
    left = right = None
    gl = gr = None
    for lv, bs in enumerate(levels):
        d = d0 / 2 ** lv
        first, last = g + d / 2, G - d / 2
        cl = cr = None
        for a, vals in bs:
            for i, v in enumerate(vals):
                c = g + (a + i + Fr(1, 2)) * d
                if c <= pos and pos - c <= d and (cl is None or c > cl[1]):
                    cl = (Fr(float(v)), c)
                if c >= pos and c - pos <= d and (cr is None or c < cr[1]):
                    cr = (Fr(float(v)), c)
        # beyond the outermost cell centres of the domain: the single nearest sample
        if cl is not None and cl[1] == last and cr is None:
            cr = cl
        if cr is not None and cr[1] == first and cl is None:
            cl = cr
        if cl is not None:
            left, gl = cl, lv
        if cr is not None:
            right, gr = cr, lv
    if left is None or right is None:
        return None
    (lv_, ln), (rv_, rn) = left, right
    if ln == rn:
        val = rv_
    else:
        val = (lv_ * (rn - pos) + rv_ * (pos - ln)) / (rn - ln)
    return val, min(gl, gr), gl, gr


def box_holds_plane(spec, boxes, lv, cn, pos):
    """does one of `boxes` (pairs (first cell along the normal, samples)) of level `lv` contain the plane (closed box, with a
    rounding allowance)"""
    g = spec["geo_low"][cn]; d = spec["dx0"][cn] / 2 ** lv
    eps = 64 * float(np.spacing(max(abs(pos), abs(g), d)))
    return any(g + a * d - eps <= pos <= g + (a + len(vals)) * d + eps for a, vals in boxes)


def dyadic(spec):
    """all cell sizes and the origin are dyadic rationals of small height: every float operation of the tool is exact"""
    def ok(x):
        f = Fr(x)
        return f.denominator & (f.denominator - 1) == 0 and f.denominator <= 2 ** 20 and abs(f.numerator) < 2 ** 30
    return all(ok(x) for x in list(spec["dx0"]) + list(spec["geo_low"]))


COORDS_DONE = set()   # (plotfile, level, axis) whose coordinate array has been compared with the Lean model
GL_CANDS = set()      # grid levels of the admissible positions of the last call of spec_candidates


def spec_candidates(spec, levels, cn, pos):
    """The specification is discontinuous in the position where the set of bracketing samples changes (cell centres, half a
    cell from a box face).  On meshes whose numbers are dyadic the tool's float arithmetic is exact and the side is decided;
    otherwise a position within rounding of such a point may fall on either side: the admissible values are those of the
    position itself and of the positions a rounding error below and above it.  Returns (spec at pos, [admissible values])."""
    sv = spec_value(spec, levels, cn, pos)
    fp = Fr(pos)
    if dyadic(spec) and fp.denominator <= 2 ** 20:
        GL_CANDS.clear()
        if sv is not None:
            GL_CANDS.add(sv[1])
        return sv, ([float(sv[0])] if sv is not None else [])
    g = spec["geo_low"][cn]; G = g + spec["grid0"][cn] * spec["dx0"][cn]
    eps = 64 * float(np.spacing(max(abs(pos), abs(g), abs(G), spec["dx0"][cn])))     # a few dozen units in the last place
    out = []
    GL_CANDS.clear()
    for p in (pos, pos - eps, pos + eps):
        v = spec_value(spec, levels, cn, p)
        if v is not None:
            out.append(float(v[0])); GL_CANDS.add(v[1])
    return sv, out


class EarlierResultChanged(Exception):
    pass


SLICING_LOG = []      # (normal, position or None, "refused" | position sliced at): what define_slicing_coordinates did, per spec


def flush_slicing(rep, spec, path, model):
    """the positions accepted / refused by the real tool against the Lean model `Slicing.coords` on the exact values of the
    header's domain corners (C07.default_position_is_centre, position_outside_refused, position_inside_kept)"""
    log, SLICING_LOG[:] = [e[1:] for e in SLICING_LOG if e[0] == path], []        # (entries of other directories - replays - are dropped)
    if not model or not log:
        return
    try:
        H = oracle.parse(path, maxmins=False, data=False)
        lo, hi = [J(x) for x in H["lo"]], [J(x) for x in H["hi"]]
    except Exception:
        return
    uniq = sorted({(cn, pos, str(res)) for cn, pos, res in log}, key=str)
    rs = leanio.driver([{"op": "slicing", "normal": cn, "pos": None if pos is None else J(pos), "lo": lo, "hi": hi} for cn, pos, _ in uniq])
    for (cn, pos, res), m in zip(uniq, rs):
        case = {"spec": spec, "normal": cn, "posname": "slicing", "pos": pos, "fields": [spec["fields"][0]], "limit": None, "serial": True, "cli": False}
        if res == "refused":
            ok = m.get("status") == "refused"
        else:
            ok = m.get("status") == "ok" and m["cn"] == cn and abs(m["pos"][0] / m["pos"][1] - float(res)) <= 1e-15 * max(1.0, abs(float(res)))
        if ok:
            rep.agree(); rep.count("slicing-position:" + ("refused" if res == "refused" else "kept"))
        else:
            rep.tie(f"normal {cn}, position {pos}: the tool {'refused' if res == 'refused' else 'sliced at ' + str(res)}, the Lean model Slicing.coords says {m}", case)


def run_slice(path, fields, limit, serial, cn, pos, start=None, cache=None, cli_out=None):
    """cache: reuse one Mandoline object for several slices (the object keeps normal and position);
    cli_out: go through the console script (format "array", saved under this name) instead of the API"""
    from amr_kitchen.mandoline.mandoline import Mandoline
    with alarm(180), quiet(), geom.tainted_empty(), pools.controlled(start=start):
        if cli_out is not None:
            from .. import tools
            return tools.mandoline_cli(path, "array", cli_out, fields, cn, pos, limit, serial), None
        key = (path, tuple(fields), limit, serial)
        if cache is not None and key in cache:
            m = cache[key]
        else:
            m = Mandoline(path, fields=fields, limit_level=limit, serial=serial, verbose=0)
            if cache is not None:
                cache[key] = m
        out = m.slice(normal=cn, pos=pos, fformat="return")
        if cache is not None:
            # what this object returned last time (kept by the caller, as in a sweep over positions) and a private copy of it
            prev = cache.get(("last", key))
            cache[("last", key)] = (out, {k: np.array(v, copy=True) for k, v in out.items() if isinstance(v, np.ndarray)})
            if prev is not None:
                ref, copy_ = prev
                for k, v in copy_.items():
                    if not (isinstance(ref.get(k), np.ndarray) and ref[k].shape == v.shape and oracle.same_bits(ref[k], v)):
                        raise EarlierResultChanged(k)
        return out, m


def run_case(ctx, rep, spec, cn, posname, pos, fields, limit, serial, model, path=None, truth=None, start=None, batch=None,
             cache=None, cli=False, previous=None):
    if path is None:
        path = ctx.newdir("c07_")
        if previous is not None:
            # another plotfile on the same mesh lived at this very path and was sliced in this process before
            import shutil
            plotgen.materialize(previous, path)
            for ser in (True, False):
                try:
                    run_slice(path, fields, limit, ser, cn, pos)
                except BaseException as e:
                    if isinstance(e, KeyboardInterrupt): raise
            shutil.rmtree(path)
        truth = plotgen.materialize(spec, path)
    names = dedup_names(spec["fields"])
    nlev = len(spec["levels"])
    L = nlev - 1 if limit is None else limit
    g = spec["geo_low"][cn]; G = g + spec["grid0"][cn] * spec["dx0"][cn]
    case = {"spec": spec, "normal": cn, "posname": posname, "pos": pos, "fields": fields, "limit": limit, "serial": serial, "cli": cli}
    if previous is not None:
        case["previous"] = previous; rep.count("path-rewritten-with-other-data-then-sliced-again")
    if cli: rep.count("console-script")
    if isinstance(fields, str): rep.count("bare-string-field")
    rep.case({"s": spec, "n": cn, "p": pos, "f": fields, "l": limit, "ser": serial, "cli": cli},
             nontrivial=(nlev >= 2 or not posname.startswith("L0:centre")))
    rep.count("pos:" + posname.split(":")[-1]); rep.count(f"normal:{cn}")
    if cache is not None and not cli:
        # the slices this very object made before are part of the case
        hk = ("hist", path, repr(fields), limit, serial)
        case["history"] = [list(h) for h in cache.get(hk, [])]
        cache.setdefault(hk, []).append([cn, pos])
    try:
        if cache is not None:
            rep.count("reused-mandoline-object")
        out, m = run_slice(path, fields, limit, serial, cn, pos, start, None if cli else cache,
                           cli_out=os.path.join(ctx.newdir("c07cli_") ) if cli else None)
        if out is not None and "slice_pos" in out:
            out = dict(out); out["slice_pos"] = float(out["slice_pos"])
    except SystemExit as e:
        if pos is not None and (pos < g or pos > G) and e.code not in (0, None):
            return
        rep.fail(f"the mandoline console script exited ({e.code})", case); return
    except EarlierResultChanged as e:
        rep.fail(f"the array {e} returned by an EARLIER slice of the same object changed when the object was used again "
                 "(results of a sweep over positions all end up holding the last plane)", case); return
    except ValueError as e:
        if not cli and "outside the domain" in str(e):
            SLICING_LOG.append((path, cn, pos, "refused"))
        if pos is not None and (pos < g or pos > G):
            return        # refused, as required
        rep.fail(f"slice raised ValueError: {e}", case); return
    except Exception as e:
        rep.fail(f"slice raised {type(e).__name__}: {e}", case); return
    if not cli and out is not None and "slice_pos" in out:
        SLICING_LOG.append((path, cn, pos, out["slice_pos"]))
    if pos is not None and (pos < g or pos > G):
        rep.fail("a position outside the domain was answered", case); return
    if pos is None:
        Gh = max(G, float(f"{G:.12g}")) if spec.get("nominal_hi") else G        # the upper bound as the header states it
        if out["slice_pos"] != g + (Gh - g) / 2:
            rep.fail(f"default position {out['slice_pos']} is not the domain centre {g + (Gh - g) / 2}", case)
            return
        pos = out["slice_pos"]
    cx, cy = [i for i in range(3) if i != cn]
    fields = [fields] if isinstance(fields, str) else fields
    # the grid the pixels live on: the cell centres of the finest selected level
    for key_, d in (("x", cx), ("y", cy)):
        n = spec["grid0"][d] * 2 ** L
        lo_d = spec["geo_low"][d]; hi_d = lo_d + spec["dx0"][d] * spec["grid0"][d]; dx_d = spec["dx0"][d] / 2 ** L
        want = lo_d + (np.arange(n) + 0.5) * dx_d
        gotc = np.asarray(out[key_]) if key_ in out else None
        atol = 1e-12 * max(abs(lo_d), abs(hi_d), dx_d)
        if gotc is None or gotc.shape != want.shape or not np.allclose(gotc, want, rtol=0, atol=atol):
            rep.fail(f"the {key_} coordinates of the slice are not the {n} cell centres of level {L} along axis {d}"
                     f" ({None if gotc is None else gotc.shape} values)", case)
            return
        if batch is not None and (path, L, d) not in COORDS_DONE:
            COORDS_DONE.add((path, L, d))
            m = leanio.driver([{"op": "coords", "lo": J(lo_d), "hi": J(hi_d), "dx": J(dx_d), "n": n}])[0]
            mv = np.array([a / b for a, b in m["axis"]]) if "axis" in m else None
            rep.count("coords-theorem-hypothesis-" + ("holds" if m.get("exact") else "fails"))
            if mv is not None and mv.shape == gotc.shape and np.allclose(gotc, mv, rtol=0, atol=atol):
                rep.agree()
            else:
                rep.tie("slice coordinates differ from the Lean coordinate model", case, {"model": m.get("status")})
    flist = [f for f in fields if f != "grid_level"]
    do_grid = "grid_level" in fields
    extra_keys = [k for k in out if k not in set(fields) | {"x", "y", "z", "slice_pos", "normal", "time", "grid_level", "pos"} and k in names]
    if extra_keys:
        rep.fail(f"the slice holds fields that were not requested: {extra_keys}", case); return
    mode = spec["data"]["mode"]
    nbad = 0
    for fname in flist:
        k = names[fname]
        cols = pixel_columns(spec, truth, k, L, cn)
        arr = np.asarray(out[fname])
        garr = np.asarray(out["grid_level"]) if do_grid else None
        for (px, py), levels in cols.items():
            got = arr[py, px]
            sv, cands = spec_candidates(spec, levels, cn, pos)
            knife = len(cands) > 1 and max(cands) - min(cands) > TOL * max(1.0, max(abs(c) for c in cands))
            what = None
            if np.isnan(got):
                what = "pixel computed from never-written memory (NaN taint)"
            elif not cands:
                what = "specification has no sample for a pixel the tool answers"
            else:
                want = min(cands, key=lambda c: abs(got - c))
                if knife:
                    rep.count("position-within-rounding-of-a-discontinuity")
                if abs(got - want) > TOL * max(1.0, abs(want)):
                    what = f"pixel value {got} is not the interpolation of the bracketing samples ({sorted(set(cands))})"
                elif do_grid and fname == flist[0]:
                    gg = garr[py, px]
                    if np.isnan(gg) or gg < -1e9:
                        what = "grid_level read from never-written memory"
                    elif not levels[int(gg)] if 0 <= int(gg) <= L else True:
                        what = f"grid_level {gg} is a level without a box at this pixel"
                    elif int(gg) not in GL_CANDS and not box_holds_plane(spec, levels[int(gg)], int(gg), cn, pos):
                        # the boxes of that level over this pixel all lie beside the plane (one of them may lend a sample)
                        what = (f"grid_level {gg} is a level whose boxes over this pixel do not reach the plane (the finest level "
                                f"with data at the pixel is {sorted(GL_CANDS)})")
            if what is None and mode == "affine" and sv is not None and sv[2] == sv[3] and not knife:
                # closed form: both samples from one level -> exactly c0 + c_n*pos + in-plane terms of that level's cell
                lv = sv[2]
                dn = spec["dx0"][cn] / 2 ** lv
                if g + dn / 2 <= pos <= G - dn / 2:
                    c0, c = plotgen.affine_coeffs(spec, k)
                    f = 2 ** (L - lv)
                    xc = spec["geo_low"][cx] + (px // f + 0.5) * spec["dx0"][cx] / 2 ** lv
                    yc = spec["geo_low"][cy] + (py // f + 0.5) * spec["dx0"][cy] / 2 ** lv
                    want = c0 + c[cn] * pos + c[cx] * xc + c[cy] * yc
                    rep.count("affine-closed-form")
                    if abs(got - want) > TOL * max(1.0, abs(want)):
                        what = f"affine field not reproduced: {got} != {want}"
            if what is None and mode == "levelconst" and sv is not None:
                # constant along the normal within a level-0 cell column is not guaranteed; compare with the covering value
                pass
            if what is not None:
                nbad += 1
                if nbad <= 2:
                    rep.fail(what, dict(case, pos=pos, pixel=[px, py], field=fname))
            elif batch is not None and mode in ("smallint", "levelconst", "affine") and not knife and sv is not None:
                cfg = {"op": "column", "fixed": True, "N": spec["grid0"][cn], "g": J(spec["geo_low"][cn]), "G": J(G), "d0": J(spec["dx0"][cn]), "pos": J(pos),
                       "levels": [[{"a": a, "vals": [J(float(v)) for v in vals]} for a, vals in bs] for bs in levels]}
                batch.append((case, (px, py), float(got), float(garr[py, px]) if (do_grid and len(GL_CANDS) == 1) else None, cfg))
    if do_grid and not flist:
        garr = np.asarray(out["grid_level"])
        if np.isnan(garr).any() or (garr < -1e9).any():
            rep.fail("grid_level read from never-written memory", dict(case, pos=pos))


def flush_model(rep, batch):
    if not batch:
        return
    uniq = {}
    for _, _, _, _, cfg in batch:
        uniq.setdefault(json.dumps(cfg, sort_keys=True), cfg)
    keys = list(uniq)
    rs = dict(zip(keys, leanio.driver([uniq[k] for k in keys])))
    bad = 0
    for case, pix, got, gl, cfg in batch:
        r = rs[json.dumps(cfg, sort_keys=True)]
        rep.count("theorem-hypothesis-holds" if r.get("wf0") else "theorem-hypothesis-fails")
        if r.get("result") is None:
            ok = False
        else:
            mv = r["result"][0] / r["result"][1]
            ok = abs(got - mv) <= TOL * max(1.0, abs(mv)) and (gl is None or r.get("grid_level") == gl)
        if ok:
            rep.agree()
        else:
            bad += 1
            if bad <= 3:
                rep.tie("pixel differs from the Lean column model", dict(case, pixel=list(pix)), {"real": got, "model": r})
    batch.clear()


def run(ctx, rep, model=True):
    n = 6 if ctx.quick else 30
    for i in range(n):
        spec = plotgen.random_spec(ctx.rng, ndims=3, nlev=[2, 3, 1, 2][i % 4], nf=[2, 3][i % 2],
                                   data=["smallint", "affine", "levelconst"][i % 3], B=2,
                                   nblk=[[2, 2, 1], [1, 2, 2], [2, 1, 2]][i % 3], origin=True, aniso=True, refine_p=0.5,
                                   layout="scatter", exact=(i % 4 != 3))     # every fourth mesh: cell sizes / origin that are no dyadic numbers
        if i % 4 == 3:
            spec["nominal_hi"] = True; rep.count("domain-bound-printed-as-nominal-decimal")
            for d in range(3):
                m = plotgen.ulp_below(spec["grid0"][d])
                if m is not None:
                    spec["geo_low"][d], spec["dx0"][d] = m; rep.count("box-bound-one-ulp-below-domain-bound")
        if i % 3 == 0:
            # a domain that holds the coordinate 0 away from its centre, in every direction
            spec["geo_low"] = [-spec["dx0"][d] * max(1, spec["grid0"][d] // 4) for d in range(3)]
            rep.count("domain-holding-the-coordinate-0-off-centre")
        if i % 4 == 1 and len(spec["levels"]) >= 2:
            # cell sizes printed with 15 significant digits: the parsed sizes of two levels are not exact halves
            hb = plotgen.halving_breaks(15, 3, len(spec["levels"]))
            if len(hb) == 3:
                spec["dx0"] = hb; spec["dx_digits"] = 15; rep.count("cell-sizes-with-15-digits-not-exact-halves")
        path = ctx.newdir("c07_")
        truth = plotgen.materialize(spec, path)
        if i % 2 == 1 and len(spec["fields"]) >= 2:
            spec["fields"][1] = ["wall_dist", "overall_hr", "Y(all)"][i % 3]       # a field name containing the keyword "all"
            os.remove(os.path.join(path, "Header")); import shutil; shutil.rmtree(path); truth = plotgen.materialize(spec, path)
        names = list(dedup_names(spec["fields"]))
        nlev = len(spec["levels"])
        batch = [] if model else None
        cache = {}
        for cn in range(3):
            plist = positions(spec, cn, ctx.rng)
            if ctx.quick and len(plist) > 26:
                head = plist[:10]
                rest = plist[10:]
                ctx.rng.shuffle(rest)
                plist = head + rest[:19]
            for j, (nm, pos) in enumerate(plist):
                # field lists in and out of header order, with grid_level at any position
                fields = [[names[0], "grid_level"], [names[-1], names[0]], [names[0], names[1], "grid_level"], ["grid_level"],
                          ["grid_level", names[-1], names[1], names[0]][: 2 + len(names) - 1], [names[1]]][j % 6]
                limit = [None, None, nlev - 1, 0, None, max(nlev - 2, 0)][j % 6]
                serial = j % 2 == 0
                cli = (j % 6 == 3 and j % 4 == 1) or nm == "zero" or (j % 12 == 5)
                if j % 6 == 5 and not cli:
                    fields = names[1]          # a single field given as a bare string
                run_case(ctx, rep, spec, cn, nm, pos, fields, limit, serial, model, path, truth,
                         start=[None, pools.order_reversed][j % 2], batch=batch,
                         cache=cache if (j % 3 != 0 and pos is not None) else None, cli=cli)
                if len(rep.violations) >= 12:
                    flush_model(rep, batch)
                    return
        # one object, two planes in the same layer of cells beside a face between boxes, the farther one first
        for cn in range(3):
            g_ = spec["geo_low"][cn]; d0_ = spec["dx0"][cn]; N_ = spec["grid0"][cn]
            for lv in range(nlev):
                d_ = d0_ / 2 ** lv
                faces = sorted(({b[0][cn] for b in spec["levels"][lv]} | {b[1][cn] + 1 for b in spec["levels"][lv]}) - {0, N_ * 2 ** lv})
                for f in faces[:1]:
                    x_ = g_ + f * d_
                    for ser in (True, False):
                        c2 = {}
                        for nm, p_ in (("pair:face+3/4", x_ + 3 * d_ / 4), ("pair:face+1/4", x_ + d_ / 4),
                                       ("pair:face-3/4", x_ - 3 * d_ / 4), ("pair:face-1/4", x_ - d_ / 4)):
                            run_case(ctx, rep, spec, cn, f"L{lv}:{nm}", p_, [names[0], "grid_level"], None, ser, model, path, truth,
                                     batch=batch, cache=c2)
        if i % 2 == 0:
            # the plotfile is rewritten at the same path (same mesh and layout, other values) and sliced again in this process
            import copy, shutil
            spec2 = copy.deepcopy(spec); spec2["data"] = dict(spec["data"], seed=spec["data"]["seed"] + 101)
            shutil.rmtree(path); truth2 = plotgen.materialize(spec2, path)
            for cn in range(3):
                for j, (nm, pos) in enumerate([x for x in positions(spec2, cn, ctx.rng) if x[1] is not None][:2]):
                    run_case(ctx, rep, spec2, cn, nm, pos, [names[0], "grid_level"], None, (cn + j) % 2 == 0, model, path, truth2,
                             batch=batch, previous=spec)
        flush_model(rep, batch)
        flush_slicing(rep, spec, path, model)
    if not ctx.quick and not rep.violations:
        # real process pool
        spec = plotgen.random_spec(ctx.rng, ndims=3, nlev=2, nf=1, data="smallint", B=2, nblk=[2, 1, 1], origin=True, aniso=True)
        path = ctx.newdir("c07_"); truth = plotgen.materialize(spec, path)
        from amr_kitchen.mandoline.mandoline import Mandoline
        for cn in range(3):
            for nm, pos in positions(spec, cn, ctx.rng)[:6]:
                if pos is None or not (spec["geo_low"][cn] <= pos <= spec["geo_low"][cn] + spec["grid0"][cn] * spec["dx0"][cn]):
                    continue
                with quiet(), geom.tainted_empty():
                    a = Mandoline(path, fields=[spec["fields"][0]], serial=True, verbose=0).slice(normal=cn, pos=pos, fformat="return")
                    b = Mandoline(path, fields=[spec["fields"][0]], serial=False, verbose=0).slice(normal=cn, pos=pos, fformat="return")
                rep.case({"s": spec, "realpool": [cn, pos]})
                if not oracle.same_bits(a[spec["fields"][0]], b[spec["fields"][0]]):
                    rep.fail("serial and process-pool slices differ", {"spec": spec, "normal": cn, "pos": pos, "posname": nm,
                                                                        "fields": [spec["fields"][0]], "limit": None, "serial": False})


def replay(ctx, rep, obj, model=True):
    c = obj["case"]
    batch = [] if model else None
    pos = c["pos"] if c.get("posname") != "default" else None
    if c.get("history") and not c.get("previous"):
        # the same object made other slices before
        path = ctx.newdir("c07_"); truth = plotgen.materialize(c["spec"], path)
        cache = {}
        for cn_, pos_ in c["history"]:
            try:
                run_slice(path, c["fields"], c["limit"], c["serial"], cn_, pos_, None, cache)
            except BaseException as e:
                if isinstance(e, KeyboardInterrupt): raise
        cache[("hist", path, repr(c["fields"]), c["limit"], c["serial"])] = [list(h) for h in c["history"]]
        run_case(ctx, rep, c["spec"], c["normal"], c.get("posname", "?"), pos, c["fields"], c["limit"], c["serial"], model, path, truth,
                 batch=batch, cache=cache)
        flush_model(rep, batch)
        return
    run_case(ctx, rep, c["spec"], c["normal"], c.get("posname", "?"), pos, c["fields"], c["limit"], c["serial"], model, batch=batch,
             cli=c.get("cli", False), previous=c.get("previous"))
    flush_model(rep, batch)
