"""C20 - whatever taste accepts, the reader can read completely and consistently."""
import shutil
from . import c04
from .. import plotgen, tastelib

RULE = c04.RULE + ("; for C20 the cases that count are the instances default validation accepts: each is read back in full; "
                   "plus histories on one path in one process: a plotfile read in full, replaced by another valid plotfile (same file "
                   "names, other boxes), validated and read again")


def replaced_directory(ctx, rep, seed, model=True):
    """one path, one process: plotfile A is read in full, the directory is replaced by plotfile B (another mesh: FABs of other
    shapes at the same file names and offsets), default validation accepts B, and B is read back in full"""
    import random
    rng = random.Random(seed)
    nf = rng.choice([1, 2, 3])
    a = plotgen.random_spec(rng, ndims=3, nlev=rng.choice([1, 2]), nf=nf, data="tags", B=2, layout="files")
    for _ in range(20):
        b = plotgen.random_spec(rng, ndims=3, nlev=rng.choice([1, 2]), nf=nf, data="bits", B=2, layout="files")
        if b["levels"] != a["levels"]:
            break
    path = ctx.newdir("c20r_")
    case = {"replaced_directory": seed}
    rep.case({"replaced": seed}, nontrivial=True); rep.count("history:read-then-directory-replaced-then-read")
    plotgen.materialize(a, path)
    first = tastelib.read_back(path, tastelib.snapshot(path))
    shutil.rmtree(path)
    plotgen.materialize(b, path)
    tree = tastelib.snapshot(path)
    good, raised = tastelib.real_taste(path)
    if not good:
        return          # C03's business
    probs = tastelib.read_back(path, tree)
    for p in probs[:2]:
        rep.fail("validation accepted the directory (which replaced another plotfile read before in this process) but " + p, case)
    if not probs and not first:
        rep.agree()


def run(ctx, rep, model=True):
    for _ in range(3 if ctx.quick else 12):
        replaced_directory(ctx, rep, ctx.rng.randrange(1 << 30), model)
    c04.sweep(ctx, rep, model, "C20")


def replay(ctx, rep, obj, model=True):
    if "replaced_directory" in obj["case"]:
        replaced_directory(ctx, rep, obj["case"]["replaced_directory"], model); return
    c04.replay(ctx, rep, obj, model=model, focus="C20")
