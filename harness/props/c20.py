"""C20 - whatever taste accepts, the reader can read completely and consistently."""
from . import c04

RULE = c04.RULE + "; for C20 the cases that count are the instances default validation accepts: each is read back in full"


def run(ctx, rep, model=True):
    c04.sweep(ctx, rep, model, "C20")


def replay(ctx, rep, obj, model=True):
    c04.replay(ctx, rep, obj, model=model, focus="C20")
