"""C14 - tool outputs are valid tool inputs: pipelines equal the composed pure operations."""
import os, copy, itertools
import numpy as np
from .. import plotgen, chkgen, oracle, pools, tastelib, tools, writers, leanio
from ..common import quiet, alarm
from .c01 import dedup_names

RULE = ("case = (generated 3D plotfile spec with scattered layout, a sibling on the same mesh, operation sequence over "
        "{colander(vars, limit), combine(with the sibling or an ancestor), chef(user recipe, kept)}: every sequence of length "
        "<= 2 over operation kinds, sampled to length 4; plus chk2plt outputs as pipeline sources); every intermediate is "
        "tasted and parsed by the oracle, and its fields, mesh and box values are compared bit for bit with the same sequence "
        "of pure operations on the in-memory contents; non-trivial = sequence length >= 2 or non-monotone layout")

RECIPE = '''
def recipe(field_indexes, box_array):
    """%s"""
    return box_array[:, :, :, 0] * 2 + 1
'''


class Refused(Exception):
    pass


def content_of(P):
    return {"fields": list(P["fields"]), "idx": [lev["idx"] for lev in P["levels"]],
            "data": [[np.array(a) for a in lev["data"]] for lev in P["levels"]], "time": P["time"], "geom": geom_of(P)}


def geom_of(P, nlev=None):
    """the mesh beyond the index ranges: dimensions, domain bounds, and per level cell sizes, domain size in cells, physical boxes"""
    n = len(P["levels"]) if nlev is None else nlev
    return {"ndims": P["ndims"], "lo": list(P["lo"]), "hi": list(P["hi"]),
            "levels": [[list(P["dx"][l]), list(P["grid"][l]), P["levels"][l]["pboxes"]] for l in range(n)]}


def cut_geom(g, n):
    return dict(g, levels=g["levels"][:n])


def pure_strain(c, variables, limit):
    names = dedup_names(c["fields"])
    L = len(c["idx"]) - 1 if limit is None else limit
    if L > len(c["idx"]) - 1:
        raise Refused("limit above finest")
    if variables == ["all"]:
        kept = list(range(len(c["fields"]))); kn = list(names)
    else:
        kn = [v for v in variables if v in names]; kept = [names[v] for v in kn]
    return {"fields": kn, "idx": c["idx"][: L + 1], "data": [[a[..., kept] for a in lev] for lev in c["data"][: L + 1]], "time": c["time"],
            "geom": cut_geom(c["geom"], L + 1)}


def pure_combine(a, b, v1, v2):
    if a["idx"] != b["idx"]:
        raise Refused("different meshes")
    na, nb = dedup_names(a["fields"]), dedup_names(b["fields"])
    s1 = list(na) if v1 is None else [v for v in v1 if v in na]
    s2 = [v for v in (list(nb) if v2 is None else [v for v in v2 if v in nb]) if v not in s1]
    if not s1 or not s2:
        raise Refused("no fields")
    i1 = [na[v] for v in s1]; i2 = [nb[v] for v in s2]
    return {"fields": s1 + s2, "idx": a["idx"],
            "data": [[np.concatenate([x[..., i1], y[..., i2]], axis=-1) for x, y in zip(la, lb)] for la, lb in zip(a["data"], b["data"])],
            "time": a["time"], "geom": a["geom"]}


def pure_cook(c, newname, kept):
    names = dedup_names(c["fields"])
    kn = [v for v in (kept or []) if v in names]
    ki = [names[v] for v in kn]
    if newname in kn:
        raise Refused("duplicate name")
    return {"fields": kn + [newname], "idx": c["idx"],
            "data": [[np.concatenate([a[..., ki], (a[..., 0] * 2 + 1)[..., None]], axis=-1) for a in lev] for lev in c["data"]],
            "time": c["time"], "geom": c["geom"]}


def same_content(c, P):
    """None or a description of the first difference between pure contents and a parsed plotfile"""
    if P["fields"] != c["fields"]:
        return f"fields {P['fields']} != {c['fields']}"
    if [lev["idx"] for lev in P["levels"]] != c["idx"]:
        return "mesh differs"
    if P["time"] != c["time"]:
        return "time differs"
    g = geom_of(P)
    if g != c["geom"]:
        for k in ("ndims", "lo", "hi"):
            if g[k] != c["geom"][k]:
                return f"mesh differs: {k} {g[k]} != {c['geom'][k]}"
        for l, (x, y) in enumerate(zip(g["levels"], c["geom"]["levels"])):
            for what, u, v in zip(("cell sizes", "domain size in cells", "physical boxes"), x, y):
                if u != v:
                    return f"mesh differs: {what} at level {l}: {u} != {v}"
        return "mesh differs"
    for lv, (lp, lc) in enumerate(zip(P["levels"], c["data"])):
        for b, (x, y) in enumerate(zip(lp["data"], lc)):
            if not oracle.same_bits(x, y):
                return f"level {lv} box {b}: values differ"
    return None


def apply_real(ctx, op, cur, env, readers=None):
    """runs the real tool; returns the output path; `readers` (path -> reader object) makes the combine steps of a
    sequence share one reader object per plotfile, as a script that opens its inputs once does"""
    out = ctx.newdir("c14o_")
    k = op["op"]
    if k == "colander":
        if op.get("cli"):
            tools.colander_cli(cur, out, op["vars"], op["limit"])        # the console script
        else:
            tools.colander(cur, out, op["vars"], op["limit"])
    elif k == "combine":
        other = env[op["with"]]
        a, b = (cur, other) if op.get("first", True) else (other, cur)
        lim = op.get("limit")
        if op.get("cli") and lim is None:
            st = tools.combine_cli(a, b, out, op.get("v1"), op.get("v2"))          # the console script
            if st != 0:
                raise RuntimeError(f"the combine console script exited with status {st!r}")
        elif readers is None and lim is None:
            tools.combine(a, b, out, op.get("v1"), op.get("v2"))
        else:
            from amr_kitchen import PlotfileCooker
            from amr_kitchen.combine.combine import combine as cb
            if readers is None:
                readers = {}
            for x in (a, b):
                if (x, lim) not in readers:
                    readers[(x, lim)] = PlotfileCooker(x) if lim is None else PlotfileCooker(x, limit_level=lim)
            cb(readers[(a, lim)], readers[(b, lim)], pltout=out, vars1=op.get("v1"), vars2=op.get("v2"))
    elif k == "chef":
        ctx._n += 1
        rd = os.path.join(ctx.scratch, f"c14rec{ctx._n}"); os.makedirs(rd)
        rp = os.path.join(rd, "recipe.py")          # every cooking step of a process uses a file of this name
        with open(rp, "w") as f:
            f.write(RECIPE % op["name"])
        tools.chef(cur, rp, out, kept=" ".join(op["kept"]) if op["kept"] else None, serial=op.get("serial", False))
    return out


def apply_pure(op, c, cenv):
    k = op["op"]
    if k == "colander":
        return pure_strain(c, op["vars"], op["limit"])
    if k == "combine":
        other = cenv[op["with"]]
        a, b = (c, other) if op.get("first", True) else (other, c)
        if op.get("limit") is not None:
            # both readers are opened with this level limit
            a, b = pure_strain(a, ["all"], op["limit"]), pure_strain(b, ["all"], op["limit"])
        return pure_combine(a, b, op.get("v1"), op.get("v2"))
    if k == "chef":
        return pure_cook(c, op["name"], op["kept"])


def run_seq(ctx, rep, spec, sib, ops, start=None, source="plotgen", reuse=False):
    case = {"spec": spec, "sibling": sib, "ops": ops, "reuse": reuse}
    readers = {} if reuse else None
    rep.count("shared-readers" if reuse else "fresh-readers")
    feats = plotgen.describe(spec)
    rep.case({"s": spec, "o": ops, "r": reuse}, nontrivial=(len(ops) >= 2 or "nonmonotone" in feats))
    rep.count(f"len:{len(ops)}")
    for o in ops:
        rep.count("op:" + o["op"])
    d0, d1 = ctx.newdir("c14a_"), ctx.newdir("c14b_")
    plotgen.materialize(spec, d0); plotgen.materialize(sib, d1)
    env = {"orig": d0, "sibling": d1}
    cenv = {"orig": content_of(oracle.parse(d0)), "sibling": content_of(oracle.parse(d1))}
    cur, c = d0, cenv["orig"]
    for n, op in enumerate(ops):
        try:
            want = apply_pure(op, c, cenv)
            refused = None
        except Refused as e:
            want, refused = None, str(e)
        try:
            with alarm(300), quiet(), pools.controlled(start=start):
                out = apply_real(ctx, op, cur, env, readers)
            err = None
        except SystemExit as e:
            out, err = None, RuntimeError(f"console script exited ({e.code})")
        except Exception as e:
            out, err = None, e
        if refused is not None:
            if err is None:
                rep.fail(f"step {n} ({op['op']}): the pure operation is undefined ({refused}) but the tool returned normally", case)
            return
        if err is not None:
            rep.fail(f"step {n} ({op['op']}) raised {type(err).__name__}: {err}", case)
            return
        good, r = tastelib.real_taste(out)
        if not good:
            rep.fail(f"step {n} ({op['op']}): the intermediate result fails validation (raised {r})", case); return
        try:
            P = oracle.parse(out)
        except (oracle.OracleError, OSError) as e:
            rep.fail(f"step {n} ({op['op']}): the intermediate result is not a well-formed plotfile: {e}", case); return
        d = same_content(want, P)
        if d is not None:
            rep.fail(f"step {n} ({op['op']}): contents differ from the pure operation: {d}", case); return
        if os.path.exists(leanio.DRIVER):
            cert = tastelib.wf_certificate(out, leanio)
            if cert is None:
                rep.count("wf-certificate-passes")
            elif cert != "names":
                rep.tie(f"step {n} ({op['op']}): the intermediate result does not pass the Lean well-formedness certificate ({cert})", case)
            # the header of this step's output derives from the header of its (first) input by the Lean writer model
            src = cur if op["op"] != "combine" or op.get("first", True) else env[op["with"]]
            w2 = writers.output_header_matches_rewrite(src, out, op.get("limit") if op["op"] != "chef" else None, P["fields"],
                                                       op["op"], leanio, rep)
            if w2:
                rep.tie(f"step {n} ({op['op']}): header derivation: {w2}", case)
            else:
                rep.count("output-header-is-the-writer-model's")
            why = writers.global_header_theorem_applies(out, leanio)
            if why:
                rep.tie(f"step {n} ({op['op']}): global header of the intermediate result: {why}", case)
            else:
                rep.count("header-theorem-applies")
        cur, c = out, want
        env[f"step{n}"] = out; cenv[f"step{n}"] = want
    rep.agree()


def gen_ops(rng, spec, sib, kinds, trunc=False):
    """operation arguments for a sequence of kinds, chosen so that the pure sequence is defined
    (a combine always has something to add, the mesh is only truncated when no combine follows)"""
    names = list(dedup_names(spec["fields"]))
    snames = list(dedup_names(sib["fields"]))
    nlev = len(spec["levels"])
    ops = []
    fields = list(names)
    cooked = 0
    cur_levels = nlev
    for n, k in enumerate(kinds):
        later = kinds[n + 1:]
        combine_later = any(x.startswith("combine") for x in later)
        nxt = later[0] if later else ""
        if k == "colander":
            sel = rng.choice([["all"], fields[::-1], fields[:1] + ["nope"], rng.sample(fields, max(1, len(fields) - 1))])
            # a later combination opens its other operand with the same level limit, so the meshes still agree
            lim = rng.choice([None, cur_levels - 1, 0] if not combine_later else [None, None, cur_levels - 1, max(cur_levels - 2, 0)])
            if trunc and combine_later and cur_levels >= 2:
                lim = cur_levels - 2          # a strain that drops the finest level, followed by a combination
            if lim is not None:
                cur_levels = lim + 1
            if nxt.startswith("combine-ancestor") and len(fields) > 1:
                sel = fields[-1:]            # leave something for the ancestor to add back
            ops.append({"op": "colander", "vars": sel, "limit": lim, "cli": lim == 0 or rng.random() < 0.3})
            fields = list(fields) if sel == ["all"] else [v for v in sel if v in fields]
        elif k == "chef":
            cooked += 1
            kept = rng.choice([[], fields[-1:], list(fields), list(fields)[::-1]])
            if nxt.startswith("combine-ancestor"):
                kept = fields[-1:]
            nm = f"cooked{cooked}"
            ops.append({"op": "chef", "name": nm, "kept": kept, "serial": rng.random() < 0.5})
            fields = [f for f in kept] + [nm]
        else:
            choice = k[len("combine-"):]
            if choice == "sibling" and all(x in fields for x in snames):
                choice = "ancestor"
            if choice in ("ancestor", "ancestor-first") and all(x in fields for x in names) and choice == "ancestor":
                choice = "ancestor-first" if any(x not in names for x in fields) else "sibling"
            if choice == "ancestor-first" and all(x in names for x in fields):
                choice = "ancestor" if any(x not in fields for x in names) else "sibling"
            if choice == "sibling":
                v2 = rng.choice([None, [x for x in snames if x not in fields][:1]])
                # every field of the current plotfile, named in another order than its header
                v1 = fields[::-1] if (len(fields) >= 2 and rng.random() < 0.4) else None
                ops.append({"op": "combine", "with": "sibling", "first": True, "v1": v1, "v2": v2, "limit": cur_levels - 1 if cur_levels < nlev else None,
                            "cli": v2 is not None or rng.random() < 0.3})
                fields = (fields if v1 is None else list(v1)) + [x for x in (snames if v2 is None else v2) if x not in fields]
            elif choice == "ancestor":
                ops.append({"op": "combine", "with": "orig", "first": True, "v1": None, "v2": None, "limit": cur_levels - 1 if cur_levels < nlev else None})
                fields = fields + [x for x in names if x not in fields]
            else:
                ops.append({"op": "combine", "with": "orig", "first": False, "v1": None, "v2": None, "limit": cur_levels - 1 if cur_levels < nlev else None})
                fields = names + [x for x in fields if x not in names]
    return ops


def run(ctx, rep, model=True):
    kinds = ["colander", "combine-sibling", "combine-ancestor", "combine-ancestor-first", "chef"]
    seqs = [[k] for k in kinds] + [list(p) for p in itertools.product(kinds, repeat=2)]
    extra = 14 if ctx.quick else 100
    for _ in range(extra):
        seqs.append([ctx.rng.choice(kinds) for _ in range(ctx.rng.choice([3, 4]))])
    # the same ancestor / sibling is an argument of two combinations
    seqs.append(["chef", "combine-ancestor-first", "colander", "combine-ancestor-first"])
    seqs.append(["combine-sibling", "chef", "colander", "combine-ancestor-first", "chef", "colander", "combine-ancestor-first"])
    seqs.append(["chef", "combine-ancestor-first", "colander", "combine-ancestor"])
    # a strain that drops the finest level, then combinations whose first / second reader is opened with that limit on a
    # plotfile holding more levels
    trunc_seqs = [["colander", "combine-ancestor-first"], ["colander", "combine-ancestor"], ["chef", "colander", "combine-ancestor-first", "combine-sibling"],
                  ["colander", "combine-sibling", "combine-ancestor-first"]]
    seqs += trunc_seqs
    # the two corollaries named by the property
    seqs.append("cook-combine-back"); seqs.append("strain-all")
    # a field left out of the first selection and taken from the second plotfile instead (both hold it)
    seqs.append("take-from-second"); seqs.append("take-from-second")
    for i, ks in enumerate(seqs):
        is_trunc = any(ks is t for t in trunc_seqs)
        for _ in range(20):
            spec = plotgen.random_spec(ctx.rng, ndims=3, nlev=[2, 3][i % 2] if is_trunc else [2, 1, 3][i % 3],
                                       nf=[2, 3][i % 2], data="smallint", B=2,
                                       layout=["perm", "scatter", "perm", "files"][i % 4], profile="plain")
            # pipelines are only telling on layouts that are not in box order inside a file
            if i % 4 == 3 or "nonmonotone" in plotgen.describe(spec):
                break
        if i % 4 == 1 and len(set(spec["fields"])) == len(spec["fields"]):
            # a field name with a comma in it (a derivative, an isomer): selections given as strings are split at blanks only
            spec["fields"][-1] = ["d(u,v)", "Y(C4H6-1,3)"][(i // 4) % 2]; rep.count("field-name-with-comma")
        sib = copy.deepcopy(spec)
        sib["fields"] = ["sib_a", "sib_b"] if i % 8 != 5 else ["sib_a", "rate(H2,O2)"]
        sib["data"] = {"mode": "smallint", "seed": ctx.rng.randrange(1 << 30)}
        sib["layout"] = plotgen.random_layout(ctx.rng, sib["levels"], "scatter")
        if ks == "cook-combine-back":
            ops = [{"op": "chef", "name": "cooked1", "kept": [], "serial": False},
                   {"op": "combine", "with": "orig", "first": False, "v1": None, "v2": None}]
        elif ks == "strain-all":
            ops = [{"op": "colander", "vars": ["all"], "limit": None}]
        elif ks == "take-from-second":
            nm_ = list(dedup_names(spec["fields"]))
            ops = [{"op": "chef", "name": "cooked1", "kept": nm_[-1:], "serial": i % 2 == 0},
                   {"op": "combine", "with": "orig", "first": False, "v1": nm_[:-1], "v2": nm_[-1:] + ["cooked1"], "cli": i % 2 == 1}]
        else:
            ops = gen_ops(ctx.rng, spec, sib, ks, trunc=is_trunc)
        run_seq(ctx, rep, spec, sib, ops, start=[None, pools.order_reversed][i % 2], reuse=(i % 3 != 0))
        if len(rep.violations) >= 10:
            return
    # chk2plt outputs as sources
    for i in range(2 if ctx.quick else 10):
        c = chkgen.random_chk_spec(ctx.rng, nlev=[1, 2][i % 2], nspec=2, ng=[1, 2][i % 2])
        chk = ctx.newdir("c14chk_"); chkgen.materialize(c, chk)
        out = ctx.newdir("c14plt_")
        case = {"chk": c, "ops": "chk2plt->colander->chef"}
        rep.case({"c": c, "o": "chk"}, nontrivial=True); rep.count("source:chk2plt")
        try:
            with alarm(300), quiet(), pools.controlled():
                tools.chk2plt(chk, out, species=("H2", "O2"))
                P0 = oracle.parse(out)
                c0 = content_of(P0)
                o1 = ctx.newdir("c14o_"); tools.colander(out, o1, ["temp", "Y(H2)", "density"], None)
                rp = os.path.join(ctx.scratch, "rec_ck.py"); open(rp, "w").write(RECIPE % "cooked")
                o2 = ctx.newdir("c14o_"); tools.chef(o1, rp, o2, kept="density")
            for path, want in ((o1, pure_strain(c0, ["temp", "Y(H2)", "density"], None)),
                               (o2, pure_cook(pure_strain(c0, ["temp", "Y(H2)", "density"], None), "cooked", ["density"]))):
                good, r = tastelib.real_taste(path)
                d = same_content(want, oracle.parse(path)) if good else f"fails validation ({r})"
                if d is not None:
                    rep.fail(f"pipeline from a chk2plt output: {d}", case); break
            else:
                rep.agree()
        except Exception as e:
            rep.fail(f"pipeline from a chk2plt output raised {type(e).__name__}: {e}", case)


def replay(ctx, rep, obj, model=True):
    c = obj["case"]
    if "chk" in c:
        return
    run_seq(ctx, rep, c["spec"], c["sibling"], c["ops"], reuse=c.get("reuse", False))
