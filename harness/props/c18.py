"""C18 - header-only tools report what the full reader holds."""
import os, sys, re, copy, pickle
import numpy as np
from .. import plotgen, oracle, leanio, pools
from ..common import quiet, alarm
from .c01 import dedup_names

RULE = ("case = (generated plotfile spec with odd and even field counts, with and without species fields, unknown names "
        "that contain one another, 2D and 3D, negative / tiny / non-finite times and extrema; tool invocation out of "
        "{minuterie, menu default listing, menu --min_max, menu --finest_lv, menu --description, menu --has_var, marinate}); "
        "captured stdout parsed back into rows and compared with the header tables (oracle) and with the Lean table-layout model; "
        "pickles reloaded and compared with a fresh reader; non-trivial = odd field count or no species or non-finite values or "
        ">= 2 levels")

_TABLE = None


def pristine_table():
    """menu's class-level database as shipped (copied before any Menu instance can alter it)"""
    global _TABLE
    if _TABLE is None:
        from amr_kitchen.menu.menu import Menu
        _TABLE = copy.deepcopy(Menu.field_info)
    return _TABLE


def reset_menu():
    from amr_kitchen.menu.menu import Menu
    Menu.field_info = copy.deepcopy(pristine_table())


def key_overwritten(names):
    """a header field is named like a key of the database without being of that key's class (e.g. a field `Y` next to the
    species `Y(...)`): the tool registers it under its own name, over the database entry"""
    t = pristine_table()
    return any(f in t and not re.search(t[f][0], f) for f in names)


def listing_ok(listed, names):
    """every field of the header is shown exactly once: under its own name or under the name of its class (a class is
    shown once for all its fields), nothing twice, nothing that is neither a field nor a class of a field"""
    if not key_overwritten(names):
        return False        # no field overwrites a key of the database: the classification is the database's
    classes = {classify(f)[0] for f in names}
    return (all(f in listed or classify(f)[0] in listed for f in names) and len(listed) == len(set(listed))
            and all(l in names or l in classes for l in listed))


def classify(field):
    for key, (rx, _, units) in pristine_table().items():
        if re.search(rx, field):
            return key, units
    return field, "[...]"


def model_listing(names):
    """menu's classification by the Lean model `MenuClass.variables` on the database of the module under test:
    {"vars": listing in the order shown, "units": per field, "species": [...]}; None when a name is not ASCII or the
    database uses a pattern outside the modelled subset"""
    if not all(ord(c) < 128 for f in names for c in f):
        return None
    t = pristine_table()
    r = leanio.driver([{"op": "menu_vars", "table": [[k, v[0], v[2]] for k, v in t.items()], "fields": list(names),
                        "species_pattern": t["Y"][0]}])[0]
    return r if r.get("status") == "ok" else None


def run_main(mod, argv):
    old = sys.argv
    sys.argv = argv
    try:
        with alarm(120), quiet() as (out, err), pools.controlled():
            mod.main()
        return out.getvalue()
    finally:
        sys.argv = old


def fmt(x):
    s = "{:.3}".format(x)
    return s if s.startswith("-") else " " + s


def check_minmax(rep, case, text, P, finest):
    names = list(dedup_names(P["fields"]))
    rows = {}
    order = []
    for line in text.split("\n"):
        if " : " not in line:
            continue
        for part in line.split("\t"):
            m = re.match(r"^(.*?)\s* :\s+(\S+)\s+(\S+)\s+(\[.*\])\s*$", part)
            if m:
                rows.setdefault(m.group(1), []).append((m.group(2), m.group(3), m.group(4)))
                order.append(m.group(1))
            elif part.strip() not in ("", ":"):
                order.append(None)
            else:
                order.append(None)
    bad = []
    lv_range = [P["finest"]] if finest else range(P["finest"] + 1)
    for k, nm in enumerate(names):
        if len(rows.get(nm, [])) != 1:
            bad.append(f"field {nm!r} appears {len(rows.get(nm, []))} times in the min/max table")
            continue
        with np.errstate(invalid="ignore"):
            mn = np.min([np.min(np.asarray(P["levels"][lv]["mins"])[:, k]) for lv in lv_range])
            mx = np.max([np.max(np.asarray(P["levels"][lv]["maxs"])[:, k]) for lv in lv_range])
        got = rows[nm][0]
        if (got[0], got[1]) != (fmt(mn).strip(), fmt(mx).strip()):
            bad.append(f"field {nm!r}: table shows {got[0]} / {got[1]}, the header tables give {fmt(mn).strip()} / {fmt(mx).strip()}")
        elif got[2] != classify(nm)[1]:
            rep.count("units-differ-from-database")      # the property does not speak about units
    extra = [n for n in rows if n not in names and n.strip() != ""]
    if extra:
        bad.append(f"table lists {extra} which are not fields")
    LAST_ROWS.clear(); LAST_ROWS.update(rows)
    return bad, [names.index(o) if o in names else None for o in order]


LAST_ROWS = {}        # rows of the table parsed by the last call of check_minmax


def enc(x):
    """a float for the Lean extrema model: nan / inf / -inf / exact rational"""
    from fractions import Fraction
    x = float(x)
    if x != x: return "nan"
    if x == float("inf"): return "inf"
    if x == float("-inf"): return "-inf"
    f = Fraction(x)
    return [f.numerator, f.denominator]


def dec(v):
    if v == "nan": return float("nan")
    if v == "inf": return float("inf")
    if v == "-inf": return float("-inf")
    return v[0] / v[1]


def extrema_tie(rep, case, P, finest, leanio):
    """the entries of the table against the Lean extrema model (numpy's NaN / inf semantics; proved to be the extrema over
    every box of every level) formatted the way the tool formats them"""
    names = list(dedup_names(P["fields"]))
    reqs = []
    for k, nm in enumerate(names):
        reqs.append({"op": "extrema", "finest": finest, "levels": [[enc(r[k]) for r in lev["mins"]] for lev in P["levels"]]})
        reqs.append({"op": "extrema", "finest": finest, "levels": [[enc(r[k]) for r in lev["maxs"]] for lev in P["levels"]]})
    rs = leanio.driver(reqs)
    for k, nm in enumerate(names):
        if len(LAST_ROWS.get(nm, [])) != 1:
            continue
        got = LAST_ROWS[nm][0]
        want = (fmt(dec(rs[2 * k]["min"])).strip(), fmt(dec(rs[2 * k + 1]["max"])).strip())
        if (got[0], got[1]) == want:
            rep.agree()
        else:
            rep.tie(f"min/max entries of field {nm!r} differ from the Lean extrema model", case, {"real": got[:2], "model": want})


def marinated_differs(marinate, path, truth):
    """runs marinate on `path`; None or what differs between the unpickled reader and a fresh one / the stored data"""
    from amr_kitchen import PlotfileCooker
    run_main(marinate, ["marinate", path])
    pk = path + ".pkl"
    if not os.path.exists(pk):
        return "marinate wrote no pickle beside the plotfile"
    with open(pk, "rb") as f:
        un = pickle.load(f)
    with quiet():
        fresh = PlotfileCooker(path, maxmins=True, ghost=True)
    bad = []
    for a in ("fields", "ndims", "time", "max_level", "limit_level", "geo_low", "geo_high", "factors", "step_numbers",
              "dx", "boxes", "npoints", "cell_paths", "nfields"):
        if repr(getattr(un, a, None)) != repr(getattr(fresh, a, None)):
            bad.append(a)
    ba_un, ba_fr = getattr(un, "box_arrays", None), getattr(fresh, "box_arrays", None)
    if (ba_un is None) != (ba_fr is None) or (ba_fr is not None and (len(ba_un) != len(ba_fr) or any(
            np.asarray(a).shape != np.asarray(b).shape or not np.array_equal(np.asarray(a), np.asarray(b)) for a, b in zip(ba_un, ba_fr)))):
        bad.append("box_arrays")
    for lv in range(fresh.limit_level + 1):
        for key in ("files", "offsets"):
            if list(un.cells[lv][key]) != list(fresh.cells[lv][key]): bad.append(f"cells[{lv}][{key}]")
        if not np.array_equal(np.asarray(un.cells[lv]["indexes"]), np.asarray(fresh.cells[lv]["indexes"])): bad.append("indexes")
        for f in fresh.fields:
            if not np.array_equal(un.cells[lv]["mins"][f], fresh.cells[lv]["mins"][f], equal_nan=True): bad.append(f"mins[{f}]")
        with quiet(), pools.controlled():
            a = un[:][lv][0]; b = fresh[:][lv][0]
        if not oracle.same_bits(a, b) or not oracle.same_bits(a, truth[(lv, 0)]):
            bad.append(f"box data at level {lv}")
    return f"unpickled reader differs from a fresh one in {bad[:5]}" if bad else None


def run_spec(ctx, rep, spec, model, only=None):
    import amr_kitchen.minuterie as minuterie
    import amr_kitchen.marinate as marinate
    import amr_kitchen.menu.cli as menucli
    from amr_kitchen import PlotfileCooker
    root = ctx.newdir("c18_"); os.makedirs(root)
    # plotfile directory names as they occur: plain, AMReX backup names with dots, a dot in a parent directory
    dname = spec.get("dirname", "plt00010")
    path = os.path.join(root, dname)
    os.makedirs(os.path.dirname(path), exist_ok=True)
    truth = plotgen.materialize(spec, path)
    P = oracle.parse(path)
    names = list(dedup_names(spec["fields"]))
    nf = len(names)
    has_species = any(re.search(r"^Y\(.+\)$", f) for f in names)
    nontriv = nf % 2 == 1 or not has_species or len(spec["levels"]) >= 2 or spec["data"]["mode"] == "bits"
    tools = ["minuterie", "menu", "menu-mm", "menu-finest", "menu-mm-finest", "menu-mm-desc", "menu-desc", "menu-has", "menu-has-desc", "menu-every", "marinate"]
    reqs = []
    for tool in tools:
        if only is not None and tool != only:
            continue
        case = {"spec": spec, "tool": tool}
        rep.case({"s": spec, "t": tool}, nontrivial=nontriv)
        rep.count("tool:" + tool); rep.count(f"nf:{'odd' if nf % 2 else 'even'}"); rep.count("species" if has_species else "no-species")
        reset_menu()
        try:
            if tool == "minuterie":
                out = run_main(minuterie, ["minuterie", path])
                m = re.search(r"Plotfile time = (\S+)", out)
                t = float(m.group(1)) if m else None
                if t is None or not (t == P["time"] or (t != t and P["time"] != P["time"])):
                    rep.fail(f"minuterie printed {out.strip()!r}, the header time is {P['time']}", case)
            elif tool == "menu":
                out = run_main(menucli, ["menu", path])
                want = sorted({classify(f)[0] for f in names}, key=str.lower)
                body = out.split("Species found in file:")[0]
                cells = [l for l in body.split("\n") if l and not l.startswith("+") and "Fields found" not in l]
                # names are padded to a common width and joined with spaces (generated names hold no spaces)
                listed = [w for l in cells for w in l.split()]
                if sorted(listed) != sorted(want) and not listing_ok(listed, names):
                    missing = [w for w in want if w not in listed]
                    rep.fail(f"default listing shows {listed}; every field should be classified exactly once: {want} (missing {missing})", case)
                sp = sorted(re.sub(r"\)$", "", re.sub(r"^Y\(", "", f)) for f in names if re.search(r"^Y\(.+\)$", f))
                got = None
                if has_species:
                    sbody = out.split("Species found in file:")[1] if "Species found in file:" in out else ""
                    got = [w for l in sbody.split("\n") if l and not l.startswith("+") for w in l.split()]
                    if got != sp:
                        rep.fail(f"species listing {got} != {sp}", case)
                ml = model_listing(names) if model else None
                if ml is not None:
                    if listed == ml["vars"] and (got is None or got == ml["species"]):
                        rep.agree(); rep.count("listing-is-the-classification-model's")
                    else:
                        rep.tie("default listing differs from the Lean classification model (MenuClass.variables / species)", case,
                                {"real": listed[:12], "model": ml["vars"][:12], "species": (got or [])[:6], "model_species": (ml["species"] or [])[:6]})
            elif tool in ("menu-mm", "menu-finest", "menu-mm-finest", "menu-mm-desc"):
                flags = {"menu-mm": ["-m"], "menu-finest": ["-f"], "menu-mm-finest": ["-m", "-f"], "menu-mm-desc": ["-d", "-m"]}[tool]
                out = run_main(menucli, ["menu", path] + flags)
                # "finest when asked": -f alone or together with -m
                bad, order = check_minmax(rep, case, out.split("Fields found in file:")[0], P, "-f" in flags)
                for b in bad[:2]:
                    rep.fail(b, case)
                if not bad and model:
                    reqs.append((case, order, {"op": "menu_table", "n": nf}))
                    extrema_tie(rep, case, P, "-f" in flags, leanio)
                    ml = model_listing(names)
                    if ml is not None:
                        shown = [LAST_ROWS[nm][0][2] if len(LAST_ROWS.get(nm, [])) == 1 else None for nm in names]
                        if shown == ml["units"]:
                            rep.agree(); rep.count("units-are-the-classification-model's")
                        else:
                            rep.tie("units column of the min/max table differs from the Lean classification model", case,
                                    {"real": shown[:10], "model": ml["units"][:10]})
            elif tool == "menu-desc":
                out = run_main(menucli, ["menu", path, "-d"])
                want = sorted({classify(f)[0] for f in names}, key=str.lower)
                got = [l.split(" : ")[0].rstrip() for l in out.split("\n") if " : " in l]
                if sorted(got) != sorted(want) and not listing_ok(got, names):
                    rep.fail(f"description listing shows {got}, expected {want}", case)
                ml = model_listing(names) if model else None
                if ml is not None:
                    if got == ml["vars"]:
                        rep.agree(); rep.count("listing-is-the-classification-model's")
                    else:
                        rep.tie("description listing differs from the Lean classification model (MenuClass.variables)", case,
                                {"real": got[:12], "model": ml["vars"][:12]})
            elif tool == "menu-has-desc":
                # a search together with the description listing: the listing is still every class once
                probe = classify(names[0])[0]
                out = run_main(menucli, ["menu", path, "-hv", probe, "-d"])
                want = sorted({classify(f)[0] for f in names}, key=str.lower)
                got = [l.split(" : ")[0].rstrip() for l in out.split("\n") if " : " in l]
                if f"'{probe}' found" not in out:
                    rep.fail(f"--has_var {probe} with --description reports {out.strip()[:120]!r}", case)
                elif sorted(got) != sorted(want) and not listing_ok(got, names):
                    rep.fail(f"description listing (with --has_var) shows {got}, expected {want}", case)
            elif tool == "menu-every":
                # every entry of the database and every other field of the header, each with whether it is in the plotfile
                out = run_main(menucli, ["menu", path, "-e"])
                rows = re.findall(r"^(\S+)\s+(Yes|No) :", out, flags=re.M)
                present = {classify(f)[0] for f in names}
                if key_overwritten(names):
                    rep.count("every-skipped-key-named-field"); continue
                seen = [r for r, _ in rows]
                bad = [f"{r}: shown {flag}, is {'in' if r in present else 'not in'} the plotfile" for r, flag in rows
                       if (flag == "Yes") != (r in present)]
                bad += [f"{c}: not listed" for c in present if c not in seen]
                bad += [f"{r}: listed {seen.count(r)} times" for r in set(seen) if seen.count(r) > 1]
                if bad:
                    rep.fail(f"--every table: {bad[:4]}", case)
            elif tool == "menu-has":
                probe = [classify(names[0])[0], "no_such_class"]
                out = run_main(menucli, ["menu", path, "-hv", ",".join(probe)])
                if f"'{probe[0]}' found" not in out or f"'{probe[1]}' not found" not in out:
                    rep.fail(f"--has_var reports {out.strip()[:120]!r}", case)
                if not key_overwritten(names):
                    for cl in sorted({classify(f)[0] for f in names}):
                        reset_menu()
                        out = run_main(menucli, ["menu", path, "-hv", cl])
                        if f"'{cl}' found" not in out:
                            rep.fail(f"--has_var {cl}: reports {out.strip()[:120]!r} although the header holds a field of that class", case)
            elif tool == "marinate":
                if spec["ndims"] != 3:
                    # refused (the ghost map is three-dimensional): whatever the call leaves beside the plotfile can be loaded
                    rep.count("marinate-2d-refused")
                    try:
                        run_main(marinate, ["marinate", path])
                    except BaseException as e:
                        if isinstance(e, KeyboardInterrupt): raise
                    if os.path.exists(path + ".pkl"):
                        try:
                            with open(path + ".pkl", "rb") as f:
                                pickle.load(f)
                        except Exception as e:
                            rep.fail(f"a marinate call that failed left a pickle beside the plotfile that cannot be loaded ({type(e).__name__})", case)
                    continue
                bad = marinated_differs(marinate, path, truth)
                if bad:
                    rep.fail(bad, case); continue
                # a second call that fails (the level header of the finest level has gone) leaves the pickle of the first loadable
                lvh = os.path.join(path, f"Level_{len(spec['levels']) - 1}", "Cell_H")
                saved = open(lvh, "rb").read(); os.remove(lvh)
                try:
                    run_main(marinate, ["marinate", path])
                except BaseException as e:
                    if isinstance(e, KeyboardInterrupt): raise
                finally:
                    open(lvh, "wb").write(saved)
                try:
                    with open(path + ".pkl", "rb") as f:
                        pickle.load(f)
                except Exception as e:
                    rep.fail(f"after a second marinate call that failed, the pickle written by the first cannot be loaded ({type(e).__name__})", case); continue
                # the plotfile is rewritten in place (same file names, other values and time, as the writers of the
                # toolbox do when the output directory exists) and marinated again: the pickle describes what is there now
                spec2 = copy.deepcopy(spec)
                spec2["data"] = dict(spec["data"], seed=spec["data"].get("seed", 0) + 17, mode="smallint" if spec["data"]["mode"] != "smallint" else "positive")
                spec2["time"] = 7.25
                tmp = ctx.newdir("c18w_")
                truth2 = plotgen.materialize(spec2, tmp)
                for r, _, fs in os.walk(tmp):
                    for fn in fs:
                        with open(os.path.join(r, fn), "rb") as src, open(os.path.join(path, os.path.relpath(os.path.join(r, fn), tmp)), "wb") as dst:
                            dst.write(src.read())
                rep.count("marinate-after-rewrite")
                bad = marinated_differs(marinate, path, truth2)
                if bad:
                    rep.fail("after the plotfile was rewritten in place and marinated again: " + bad, dict(case, rewritten=True))
        except SystemExit as e:
            rep.fail(f"{tool} exited ({e.code}) on a valid invocation", case)
        except Exception as e:
            rep.fail(f"{tool} raised {type(e).__name__}: {e}", case)
    reset_menu()
    if model and reqs:
        for (case, order, _), m in zip(reqs, leanio.driver([r for _, _, r in reqs])):
            if [x for x in m["shown"]] == order:
                rep.agree()
            else:
                rep.tie("order of the fields in the min/max table differs from the Lean layout model", case, {"real": order, "model": m["shown"]})


FIELDSETS = [
    ["density"], ["a", "xa"], ["density", "temp", "Y(H2)"], ["x_velocity", "y_velocity", "temp", "Y(O2)", "Y(N2)"],
    ["temp", "density", "rhoh"], ["foo", "foobar", "bar", "Y(OH)"], ["avg_pressure", "gradpx", "I_R(H2)", "X(H2)", "volFrac", "mag_vort", "D_H2"],
    ["density", "temp"], ["zeta", "eta", "theta", "iota", "kappa"], ["Y(H2)", "Y(O2)", "Y(H2O)", "Y(N2)"],
    # fields literally named like keys of menu's database, ahead of the fields the keys classify
    ["X", "Y", "Z", "Y(H2)", "Y(O2)", "X(H2)"], ["Y", "density", "Y(OH)", "Y(N2)", "temp"],
    ["velocity", "x_velocity", "I_R", "I_R(H2)", "D", "D_H2", "gradp", "gradpx"],
    # species counts that fill the lines of eight exactly
    ["density"] + [f"Y(S{k})" for k in range(8)], [f"Y(SP{k})" for k in range(16)] + ["temp"],
    # several hundred species: the names alone are longer than an I/O buffer of 8 KiB
    ["x_velocity", "density"] + [f"Y(SPECIES_NUMBER_{k:04d})" for k in range(420)] + ["temp"],
    # the members of one family not next to each other in the file
    ["x_velocity", "density", "y_velocity", "Y(H2)", "temp", "Y(O2)"], ["Y(H2)", "I_R(H2)", "Y(O2)", "I_R(O2)", "X(H2)", "Y(N2)", "D_H2", "X(O2)"],
]


def run(ctx, rep, model=True):
    n = 20 if ctx.quick else 75
    for i in range(n):
        spec = plotgen.random_spec(ctx.rng, ndims=[3, 2, 3][i % 3], nlev=[1, 2, 3][i % 3], nf=1, B=2,
                                   data=["smallint", "bits", "tags"][i % 3], layout="scatter")
        spec["fields"] = list(FIELDSETS[i % len(FIELDSETS)])
        if i >= len(FIELDSETS):
            ctx.rng.shuffle(spec["fields"])
        spec["time"] = [0.0, -2.5, 3e-7, float("inf"), 1234.5678, float("nan")][i % 6]
        spec["dirname"] = ["plt00010", "plt00010.old.0000000", "run.2/plt00020", "plt.a", "plt00030.temp"][i % 5]
        run_spec(ctx, rep, spec, model)
        if len(rep.violations) >= 12:
            return
    # (both tiers since session 4: writing the plotfile takes a quarter of a minute, which the quick tier can afford)
    rep.count("level-of-36864-boxes")
    run_spec(ctx, rep, many_boxes_spec(), False, only="marinate")


def many_boxes_spec():
    """one level of 36 864 boxes of 2 x 2 x 2 cells (more boxes than a 16-bit box number can count)"""
    boxes = [[[2 * i, 2 * j, 2 * k], [2 * i + 1, 2 * j + 1, 2 * k + 1]] for i in range(32) for j in range(32) for k in range(36)]
    return {"ndims": 3, "fields": ["density", "temp"], "time": 0.5, "geo_low": [0.0, 0.0, 0.0], "dx0": [0.125, 0.125, 0.125],
            "grid0": [64, 64, 72], "block": 2, "levels": [boxes], "layout": [[[b % 8, b] for b in range(len(boxes))]],
            "data": {"mode": "smallint", "seed": 11}, "header_style": "amrex", "step": 1}


def replay(ctx, rep, obj, model=True):
    c = obj["case"]
    run_spec(ctx, rep, c["spec"], model, only=c["tool"])
