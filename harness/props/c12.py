"""C12 - results do not depend on worker count, task order or serial/parallel mode."""
import os, shutil, struct
import numpy as np
from .. import plotgen, chkgen, pools, audit, tools, oracle
from ..common import quiet, alarm, chdir

RULE = ("case = (tool scenario out of reader box collections / level iteration / on-demand iterator, taste on a good and a "
        "damaged plotfile, colander, combine, chef (pool and serial mode), mandoline 3D return / 2D return / plotfile output "
        "(pool and serial mode), pestle, whip, chk2plt; start order of the tasks of every pool call (every permutation for <= 4 "
        "tasks, rotations beyond) and, for imap_unordered, completion order); files produced compared byte for byte and returned "
        "values bit for bit with the submission-order run and the serial mode; the write and read sets of the tasks of each pool "
        "call are audited to be pairwise disjoint (the hypothesis of Sched.mergeAll_run); thorough adds real pools with 1, 2, 3 "
        "and 16 workers; non-trivial = order other than submission order or a real pool")


def fbits(x):
    return struct.pack("<d", float(x)).hex()


def arr_obs(a):
    a = np.asarray(a)
    return (str(a.dtype), tuple(a.shape), a.tobytes().hex())


def gap_position(spec):
    """(normal, position): a plane through level-0 cell centres with no level-1 box within half a level-1 cell of it"""
    for cn in range(3):
        g, d0 = spec["geo_low"][cn], spec["dx0"][cn]
        d1 = d0 / 2
        for i in range(spec["grid0"][cn]):
            pos = g + (i + 0.5) * d0
            if all(not (g + lo[cn] * d1 - d1 / 2 <= pos <= g + (hi[cn] + 1) * d1 + d1 / 2) for lo, hi in spec["levels"][1]):
                return cn, pos
    return None


def _cancel(spec, lv, bid, k):
    """payload mode "cancel": the first field is constant on every box, with values whose floating-point sum depends on the
    order of summation (1e16, 1, -1e16, 1, ...); the other fields as in mode "pestle" """
    lo, hi = spec["levels"][lv][bid]
    shape = [hi[d] - lo[d] + 1 for d in range(spec["ndims"])]
    if k == 0:
        return np.full(shape, [1e16, 1.0, -1e16, 1.0][bid % 4])
    if k == 1:
        return np.full(shape, 0.5)
    return np.ones(shape)


plotgen.EXTRA_MODES["cancel"] = _cancel


def build_inputs(ctx):
    root = ctx.newdir("c12in_"); os.makedirs(root)
    rng = ctx.rng
    for _ in range(40):
        p = plotgen.random_spec(rng, ndims=3, nlev=2, nf=3, data="smallint", B=2, nblk=[2, 1, 2], layout="scatter", refine_p=0.5)
        if gap_position(p) is not None:
            break
    p["fields"] = ["density", "temp", "volFrac"]
    p["data"] = {"mode": "pestle", "seed": 5}
    plotgen.materialize(p, os.path.join(root, "plt00010"))
    q = dict(p); q["fields"] = ["pressure", "mach"]; q["data"] = {"mode": "smallint", "seed": 77}
    q["layout"] = plotgen.random_layout(rng, q["levels"], "scatter")
    plotgen.materialize(q, os.path.join(root, "plt00020"))
    p2 = plotgen.random_spec(rng, ndims=2, nlev=2, nf=2, data="tags", B=2, nblk=[2, 2], layout="scatter")
    p2["fields"] = ["density", "temp"]
    plotgen.materialize(p2, os.path.join(root, "plt2d"))
    c = chkgen.random_chk_spec(rng, nlev=2, nspec=3, ng=2)
    for sub in ("state", "gradp", "I_R"):
        c["layouts"][sub] = plotgen.random_layout(rng, c["levels"], "scatter")
    chkgen.materialize(c, os.path.join(root, "chk00005"))
    # a damaged plotfile (last binary file of level 0 truncated)
    shutil.copytree(os.path.join(root, "plt00010"), os.path.join(root, "bad"))
    lv = os.path.join(root, "bad", "Level_0")
    f = os.path.join(lv, sorted(x for x in os.listdir(lv) if x.startswith("Cell_D"))[-1])
    open(f, "r+b").truncate(os.path.getsize(f) - 8)
    with open(os.path.join(root, "rec.py"), "w") as fh:
        fh.write(tools.USER_RECIPE)
    with open(os.path.join(root, "rec2.py"), "w") as fh:
        fh.write(tools.USER_RECIPE2)
    # many small boxes on level 0 (a count that is no multiple of small batch sizes): work split by worker count
    many = plotgen.random_spec(rng, ndims=3, nlev=2, nf=3, data="smallint", B=2, nblk=[3, 3, 1], layout="files", refine_p=0.3, single0=False)
    many["levels"][0] = [[[2 * i, 2 * j, 0], [2 * i + 1, 2 * j + 1, 1]] for i in range(3) for j in range(3)]
    many["layout"][0] = [[b % 3, (7 * b) % 9] for b in range(9)]
    many["fields"] = ["density", "temp", "volFrac"]
    many["data"] = {"mode": "pestle", "seed": 9}
    plotgen.materialize(many, os.path.join(root, "pltmany"))
    # the same mesh with box integrals that do not add up associatively in floating point
    cancel = dict(many); cancel["data"] = {"mode": "cancel", "seed": 9}
    plotgen.materialize(cancel, os.path.join(root, "pltcancel"))
    # thermochemical states with covered cells (no temperature / no composition) in every box, boxes spread over files
    from . import c11
    sp = c11.species_spec(rng, nlev=2)
    sp["layout"] = plotgen.random_layout(rng, sp["levels"], "files")
    plotgen.materialize(sp, os.path.join(root, "pltsp"))
    return root, p


def scenarios(root, spec):
    """name -> callable(workdir) -> observation (dict of hashable values)"""
    from amr_kitchen import PlotfileCooker
    I = lambda n: os.path.join(root, n)
    nlev = len(spec["levels"])

    def reader(w):
        pck = PlotfileCooker(I("plt00010"))
        obs = {}
        for lv in range(nlev):
            obs[f"map{lv}"] = [arr_obs(a) for a in pck[:][lv][:]]
            obs[f"iter{lv}"] = [arr_obs(a) for a in pck[1][lv]]
            nb = len(spec["levels"][lv])
            obs[f"ondemand{lv}"] = [arr_obs(a) for a in pck[[0, 2]][lv].iter(list(range(nb))[::-1])]
            # a strided field selection: the pool's per-file iteration against the box-by-box reads of the same selection
            it = sorted(map(repr, (arr_obs(a) for a in pck[0:2:2][lv])))
            bx = sorted(map(repr, (arr_obs(pck[0:2:2][lv][b]) for b in range(nb))))
            obs[f"stride{lv}"] = it
            if it != bx:
                obs.setdefault("_inconsistent", []).append(f"level {lv}: iteration over pck[0:2:2] yields {len(it)} boxes that are not the {len(bx)} boxes read one by one")
        return obs

    def taste(w):
        out = {}
        for name in ("plt00010", "bad"):
            try:
                out[name] = tools.taste(I(name), boxes_coordinates=True)
            except Exception as e:
                out[name] = "raised:" + type(e).__name__ + ":" + str(e)[:200].replace(root, "")
        return out

    def tree(fn):
        def run(w):
            r = fn(w)
            t = tools.read_tree(w)
            return {"tree": {k: v.hex() for k, v in t.items()}, "ret": r}
        return run

    def mand_ret(name, serial, **kw):
        def run(w):
            out = tools.mandoline(I(name), "return", None, serial=serial, **kw)
            return {k: arr_obs(v) if isinstance(v, np.ndarray) else repr(v) for k, v in out.items()}
        return run

    def mand_twice(name, serial, fields, kws):
        # one Mandoline object used for several slices (worker arguments are pickled in pool mode, shared in serial mode)
        def run(w):
            from amr_kitchen.mandoline.mandoline import Mandoline
            m = Mandoline(I(name), fields=fields, serial=serial, verbose=0)
            obs = {}
            for n, kw in enumerate(kws):
                out = m.slice(fformat="return", **kw)
                obs.update({f"{n}:{k}": arr_obs(v) if isinstance(v, np.ndarray) else repr(v) for k, v in out.items()})
            return obs
        return run

    def chef_thermo(serial):
        def run(w):
            from amr_kitchen.chef.chef import Chef
            from . import c11
            Chef(plotfile=I("pltsp"), recipe="HRR", outfile=os.path.join(w, "o"), kept_fields="temp", serial=serial,
                 mech=c11.MECH, pressure=1.0).cook()
        return run

    S = {
        "reader": reader,
        "taste": taste,
        "colander": tree(lambda w: tools.colander(I("plt00010"), os.path.join(w, "o"), ["temp", "density"], None)),
        "combine": tree(lambda w: tools.combine(I("plt00010"), I("plt00020"), os.path.join(w, "o"))),
        "chef-pool": tree(lambda w: tools.chef(I("plt00010"), I("rec.py"), os.path.join(w, "o"), kept="temp", serial=False)),
        "chef-serial": tree(lambda w: tools.chef(I("plt00010"), I("rec.py"), os.path.join(w, "o"), kept="temp", serial=True)),
        "mandoline3d-pool": mand_ret("plt00010", False, fields=["density", "grid_level"], normal=1, pos=None),
        "mandoline3d-serial": mand_ret("plt00010", True, fields=["density", "grid_level"], normal=1, pos=None),
        "mandoline2d-pool": mand_ret("plt2d", False, fields=["temp", "grid_level"]),
        "mandoline2d-serial": mand_ret("plt2d", True, fields=["temp", "grid_level"]),
        "mandoline2d-twice-pool": mand_twice("plt2d", False, ["temp", "grid_level"], [{}, {}, {}]),
        "mandoline2d-twice-serial": mand_twice("plt2d", True, ["temp", "grid_level"], [{}, {}, {}]),
        "mandoline3d-twice-pool": mand_twice("plt00010", False, ["density"], [{"normal": 0, "pos": None}, {"normal": 2, "pos": None}, {"normal": 0, "pos": None}]),
        "mandoline3d-twice-serial": mand_twice("plt00010", True, ["density"], [{"normal": 0, "pos": None}, {"normal": 2, "pos": None}, {"normal": 0, "pos": None}]),
        **({"mandoline3d-gap-pool": mand_ret("plt00010", False, fields=["density", "grid_level"], normal=gap_position(spec)[0], pos=gap_position(spec)[1]),
            "mandoline3d-gap-serial": mand_ret("plt00010", True, fields=["density", "grid_level"], normal=gap_position(spec)[0], pos=gap_position(spec)[1]),
            "mandoline-plotfile-gap": tree(lambda w: tools.mandoline(I("plt00010"), "plotfile", os.path.join(w, "o"), ["temp"], gap_position(spec)[0], gap_position(spec)[1]))}
           if gap_position(spec) is not None else {}),
        "mandoline-plotfile": tree(lambda w: tools.mandoline(I("plt00010"), "plotfile", os.path.join(w, "o"), ["temp"], 0, None)),
        "mandoline-plotfile-serial": tree(lambda w: tools.mandoline(I("plt00010"), "plotfile", os.path.join(w, "o"), ["temp"], 0, None, serial=True)),
        # a plane that meets nine boxes whose binary files alternate (0,1,2,0,1,2,...): the written order of the boxes
        "mandoline-plotfile-many": tree(lambda w: tools.mandoline(I("pltmany"), "plotfile", os.path.join(w, "o"), ["temp", "density"], 2, None)),
        "mandoline-plotfile-many-serial": tree(lambda w: tools.mandoline(I("pltmany"), "plotfile", os.path.join(w, "o"), ["temp", "density"], 2, None, serial=True)),
        # a user recipe of two components
        "chef2-pool": tree(lambda w: tools.chef(I("plt00010"), I("rec2.py"), os.path.join(w, "o"), kept="temp", serial=False)),
        "chef2-serial": tree(lambda w: tools.chef(I("plt00010"), I("rec2.py"), os.path.join(w, "o"), kept="temp", serial=True)),
        "pestle": lambda w: {"integral": fbits(tools.pestle(I("plt00010"), "density", None, True))},
        "pestle-many": lambda w: {"integral": fbits(tools.pestle(I("pltmany"), "density", None, False)),
                                  "integral0": fbits(tools.pestle(I("pltmany"), "temp", 0, False))},
        "pestle-cancel": lambda w: {"integral": fbits(tools.pestle(I("pltcancel"), "density", None, False)),
                                    "integral0": fbits(tools.pestle(I("pltcancel"), "density", 0, False))},
        "chef-thermo-pool": tree(chef_thermo(False)),
        "chef-thermo-serial": tree(chef_thermo(True)),
        "whip": tree(lambda w: tools.whip(I("plt00010"), "temp", os.path.join(w, "o"))),
        "chk2plt": tree(lambda w: tools.chk2plt(I("chk00005"), os.path.join(w, "o"), reactions=True)),
    }
    return S


SERIAL_OF = {"mandoline-plotfile": "mandoline-plotfile-serial", "mandoline-plotfile-many": "mandoline-plotfile-many-serial",
             "chef2-pool": "chef2-serial", "chef-pool": "chef-serial", "chef-thermo-pool": "chef-thermo-serial", "mandoline3d-gap-pool": "mandoline3d-gap-serial", "mandoline3d-pool": "mandoline3d-serial", "mandoline2d-pool": "mandoline2d-serial",
             "mandoline2d-twice-pool": "mandoline2d-twice-serial", "mandoline3d-twice-pool": "mandoline3d-twice-serial"}


def run_scn(ctx, fn, start, finish, pool_cls=None, audit_tasks=False):
    w = ctx.newdir("c12w_"); os.makedirs(w)
    try:
        with alarm(300), quiet():
            if pool_cls is None:
                pools.ControlledPool.touched = [] if audit_tasks else None
                with pools.controlled(start=start, finish=finish):
                    obs = fn(w)
                touched = pools.ControlledPool.touched
                pools.ControlledPool.touched = None
                return obs, touched
            pools.install(pool_cls)
            # a tool that sizes its work by the machine sees the same number of workers
            import multiprocessing as _mp
            real_cpu = (_mp.cpu_count, os.cpu_count)
            n_workers = getattr(pool_cls, "n", None)
            if n_workers:
                _mp.cpu_count = os.cpu_count = lambda: n_workers
            try:
                return fn(w), None
            finally:
                _mp.cpu_count, os.cpu_count = real_cpu
                pools.uninstall()
    finally:
        shutil.rmtree(w, ignore_errors=True)


def check_disjoint(rep, case, touched):
    for fname, per_task in touched or []:
        n = len(per_task)
        for i in range(n):
            for j in range(n):
                if i == j or per_task[i] is None or per_task[j] is None:
                    continue
                wi, ri = per_task[i]; wj, rj = per_task[j]
                common = set(wi) & set(wj) if i < j else set()
                rw = set(ri) & set(wj)
                if common or rw:
                    rep.tie(f"tasks {i} and {j} of a pool call ({fname}) touch the same path {sorted(common | rw)[:2]}: "
                            f"the disjointness hypothesis of Sched.mergeAll_run does not hold", case)
                    return


def diff_obs(a, b):
    if a == b:
        return None
    if isinstance(a, dict) and isinstance(b, dict):
        for k in sorted(set(a) | set(b)):
            if a.get(k) != b.get(k):
                d = diff_obs(a.get(k), b.get(k))
                return f"{k}" + (f".{d}" if d else "")
    return ""


def run(ctx, rep, model=True):
    root, spec = build_inputs(ctx)
    S = scenarios(root, spec)
    orders = pools.all_orders()
    nord = 12 if ctx.quick else 24
    refs = {}
    for name, fn in S.items():
        case = {"scenario": name, "start": "submission", "finish": "submission"}
        rep.case(case, nontrivial=False); rep.count("scenario:" + name)
        try:
            refs[name], touched = run_scn(ctx, fn, None, None, audit_tasks=True)
            check_disjoint(rep, case, touched)
            for msg in (refs[name] or {}).get("_inconsistent", []) if isinstance(refs[name], dict) else []:
                rep.fail(f"{name}: the pool result differs from the serial result: {msg}", case)
            rep.extra.setdefault("pool_calls", {})[name] = [(f, len(t)) for f, t in (touched or [])]
        except Exception as e:
            rep.fail(f"{name} raised {type(e).__name__}: {e}", case)
    for name, ser in SERIAL_OF.items():
        if name in refs and ser in refs:
            d = diff_obs(refs[name], refs[ser])
            if d is not None:
                rep.fail(f"{name}: pool mode and serial mode differ at {d}", {"scenario": name, "start": "submission", "finish": "submission", "serial_vs_pool": True})
    for name, fn in S.items():
        if name not in refs or name.endswith("-serial"):
            continue
        for oi in range(1, nord):
            for fi in ([oi] if name != "whip" else ([oi, (oi * 7 + 3) % 24] if ctx.quick else range(0, 24, 5))):
                case = {"scenario": name, "start": oi, "finish": fi}
                rep.case(case, nontrivial=True); rep.count("orders")
                try:
                    obs, _ = run_scn(ctx, fn, orders[oi], orders[fi])
                except Exception as e:
                    rep.fail(f"{name} raised {type(e).__name__} under start order {oi}: {e}", case); continue
                d = diff_obs(refs[name], obs)
                if d is not None:
                    rep.fail(f"{name}: result under start order {oi} / completion order {fi} differs from the submission-order run at {d}", case)
                else:
                    rep.agree()
        if len(rep.violations) >= 10:
            return
    # real process pools: worker counts
    counts = [1, 2] if ctx.quick else [1, 2, 3, 16]
    for n in counts:
        for name, fn in S.items():
            if name not in refs or name.endswith("-serial") or name.startswith("chef"):
                continue
            if ctx.quick and name not in ("colander", "whip", "reader", "pestle", "pestle-many", "pestle-cancel"):
                continue
            case = {"scenario": name, "workers": n}
            rep.case(case, nontrivial=True); rep.count(f"workers:{n}")
            try:
                obs, _ = run_scn(ctx, fn, None, None, pool_cls=pools.RealPoolN(n))
            except Exception as e:
                rep.fail(f"{name} raised {type(e).__name__} with a real pool of {n}: {e}", case); continue
            d = diff_obs(refs[name], obs)
            if d is not None:
                rep.fail(f"{name}: result with a real pool of {n} workers differs from the in-order run at {d}", case)
    # reader selections with the real pool from two working directories holding plotfiles of the same relative name
    from .. import sessions
    from amr_kitchen import PlotfileCooker
    seed = ctx.rng.randrange(1 << 30)
    case = {"scenario": "reader", "directories_session": seed}
    rep.case(case, nontrivial=True); rep.count("relative-names-from-two-working-directories-real-pool")
    dirs = sessions.two_directories(ctx, seed, "c12dirs_", ndims=3, nf=2, data="bits", B=2, layout="scatter")

    def action(k, name, spec_, truth):
        try:
            pck = PlotfileCooker(name)
            for lv in range(len(spec_["levels"])):
                nb = len(spec_["levels"][lv])
                # (a single read in this process first, then the pool, then single reads again)
                first = arr_obs(pck[:][lv][0])
                pooled = [arr_obs(a) for a in pck[:][lv][:]]
                one_by_one = [arr_obs(pck[:][lv][b]) for b in range(nb)]
                if pooled != one_by_one or first != one_by_one[0]:
                    return f"level {lv} of the plotfile opened as {name!r}: the boxes read through the pool differ from the boxes read one by one"
        except Exception as e:
            return f"reading the plotfile opened as {name!r} through the pool raised {type(e).__name__}: {e}"
        return None
    bad = sessions.visit(dirs, action)
    if bad:
        rep.fail("reader: " + bad, case)
    # workers that are started afresh instead of forked
    for name in (["combine", "whip", "colander", "mandoline2d-pool", "mandoline3d-pool"] if ctx.quick else [n for n in S if n in refs and not n.endswith("-serial") and not n.startswith("chef")]):
        if name not in refs:
            continue
        case = {"scenario": name, "workers": "spawn"}
        rep.case(case, nontrivial=True); rep.count("workers:spawned")
        try:
            obs, _ = run_scn(ctx, S[name], None, None, pool_cls=pools.SpawnPoolN(2))
        except Exception as e:
            rep.fail(f"{name} raised {type(e).__name__} with spawned (not forked) workers: {e}", case); continue
        d = diff_obs(refs[name], obs)
        if d is not None:
            rep.fail(f"{name}: result with spawned (not forked) workers differs from the in-order run at {d}", case)
    # two pool-mode cooks in a row with chef's own pool (whatever the first leaves behind - a closed or cached pool - the
    # second must give the same files)
    case = {"scenario": "chef2-pool", "workers": "pathos-twice"}
    rep.case(case, nontrivial=True); rep.count("chef-own-pool-twice")
    for k in range(2):
        w = ctx.newdir("c12w_"); os.makedirs(w)
        try:
            with alarm(600), quiet():
                obs = S["chef2-pool"](w)
            d = diff_obs(refs["chef2-serial"], obs) if "chef2-serial" in refs else None
            if d is not None:
                rep.fail(f"chef: pool-mode cook #{k + 1} of this process (own pool) differs from the serial result at {d}", case); break
        except Exception as e:
            rep.fail(f"chef: pool-mode cook #{k + 1} of this process (own pool) raised {type(e).__name__}: {e}", case); break
    if not ctx.quick:
        # chef with its own pathos pool
        case = {"scenario": "chef-pool", "workers": "pathos"}
        rep.case(case, nontrivial=True)
        w = ctx.newdir("c12w_"); os.makedirs(w)
        try:
            with alarm(600), quiet():
                obs = S["chef-pool"](w)
            d = diff_obs(refs["chef-pool"], obs)
            if d is not None:
                rep.fail(f"chef: result with the pathos pool differs from the in-order run at {d}", case)
        except Exception as e:
            rep.fail(f"chef raised {type(e).__name__} with the pathos pool: {e}", case)


def replay(ctx, rep, obj, model=True):
    c = obj["case"]
    root, spec = build_inputs(ctx)
    S = scenarios(root, spec)
    orders = pools.all_orders()
    name = c["scenario"]
    ref, _ = run_scn(ctx, S[name], None, None)
    if c.get("serial_vs_pool"):
        obs, _ = run_scn(ctx, S[SERIAL_OF[name]], None, None)
    elif "directories_session" in c:
        return run(ctx, rep, model)
    elif c.get("workers") == "spawn":
        obs, _ = run_scn(ctx, S[name], None, None, pool_cls=pools.SpawnPoolN(2))
    elif c.get("workers") == "pathos-twice":
        w = ctx.newdir("c12w_"); os.makedirs(w)
        with alarm(600), quiet():
            S[name](w)
        w = ctx.newdir("c12w_"); os.makedirs(w)
        with alarm(600), quiet():
            obs = S[name](w)
        ref, _ = run_scn(ctx, S["chef2-serial"], None, None)
    elif "workers" in c and c["workers"] != "pathos":
        obs, _ = run_scn(ctx, S[name], None, None, pool_cls=pools.RealPoolN(c["workers"]))
    else:
        obs, _ = run_scn(ctx, S[name], orders[c.get("start", 1)] if c.get("start") != "submission" else None,
                         orders[c.get("finish", 1)] if c.get("finish") != "submission" else None)
    d = diff_obs(ref, obs)
    if d is not None:
        rep.fail(f"{name}: results differ at {d}", c)
