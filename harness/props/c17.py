"""C17 - chk2plt carries the checkpoint's interior state into a valid plotfile."""
import os, copy
import numpy as np
from .. import plotgen, chkgen, oracle, leanio, pools, tastelib, writers
from ..common import quiet, alarm

RULE = ("case = (generated PeleLMeX-like checkpoint spec: 1-3 levels, anisotropic domains, boxes spread over several files "
        "with independently drawn layouts for each data subset (state, gradp, I_R, divU, p), 1-3 ghost cells, 1-3 species; "
        "options gradp / reactions / flooring; species from a reference plotfile (Y or I_R names) or a list); output parsed by "
        "the oracle, tasted with box coordinates, compared with the interior checkpoint values, the checkpoint tree hashed "
        "before and after, layout compared with the Lean record-level model; non-trivial = >=2 levels or anisotropic cells "
        "or reactions requested or non-monotone layouts")

SPNAMES = ["H2", "O2", "N2"]


def expected_box(spec, truth, lv, bid, gradp, reactions, floor):
    ng = spec["ng_state"]
    _, _, st = truth[("state", lv, bid)]
    data = st[ng:-ng, ng:-ng, ng:-ng, :].copy()
    n = spec["nspec"]
    if floor:
        ys = data[..., 4:4 + n]
        data[..., 4:4 + n] = ys / np.sum(ys, axis=-1)[..., None]
    parts = [data]
    if gradp:
        parts.append(truth[("gradp", lv, bid)][2])
    if reactions:
        parts.append(truth[("I_R", lv, bid)][2])
    return np.concatenate(parts, axis=-1)


def make_ref_plotfile(ctx, rng, nspec, kind):
    spec = plotgen.random_spec(rng, ndims=3, nlev=1, nf=1, data="smallint", B=2, nblk=[1, 1, 1])
    sp = SPNAMES[:nspec]
    spec["fields"] = ["density"] + ([f"Y({s})" for s in sp] if kind == "refY" else [f"I_R({s})" for s in sp]) + ["temp"]
    p = ctx.newdir("c17ref_")
    plotgen.materialize(spec, p)
    return p


FINISH = {None: None, "reversed": pools.order_reversed, "rot1": pools.order_rot(1)}    # delivery order of unordered results
LAST = []       # the previous conversion of this process (class-level tables of the reader survive between objects)


def header_tie(rep, case, chk, model):
    """the checkpoint Header as the real reader takes it against the Lean reading `ChkHeader.parse` (C17.time_read_partial,
    grid_size_is_largest_upper_index): both raise, or agree on levels, step, time, corners, boxes and grid sizes"""
    if not model:
        return
    from amr_kitchen.chk2plt.checkpoint_reader import CheckpointReader
    m = leanio.driver([{"op": "chk_header", "hex": open(os.path.join(chk, "Header"), "rb").read().hex()}])[0]
    try:
        with quiet():
            r = CheckpointReader(chk)
    except Exception as e:
        if m.get("status") == "raises":
            rep.agree(); rep.count("checkpoint-header:both-refuse")
        else:
            rep.tie(f"the checkpoint reader raises {type(e).__name__} on a Header the Lean reading ChkHeader.parse accepts", case, m)
        return
    if m.get("status") != "ok":
        rep.tie("the checkpoint reader accepts a Header the Lean reading ChkHeader.parse refuses", case, m); return
    same = (int(r.max_level) == m["max_level"] and int(r.step_number) == m["step"]
            and (float(r.time) == float(m["time"]) or (r.time != r.time and float(m["time"]) != float(m["time"])))
            and [float(x) for x in r.geo_lo] == [float(x) for x in m["geo_lo"]] and [float(x) for x in r.geo_hi] == [float(x) for x in m["geo_hi"]]
            and [np.asarray(b["indices"]).tolist() for b in r.boxes] == m["levels"]
            and [[int(x) for x in g] for g in r.grid_sizes] == m["grid_sizes"])
    if same:
        rep.agree(); rep.count("checkpoint-header:read-alike")
    else:
        rep.tie("the checkpoint reader and the Lean reading ChkHeader.parse differ on the Header's content", case,
                {"model": {k: m[k] for k in ("max_level", "step", "time", "grid_sizes")}, "real": [int(r.max_level), int(r.step_number), float(r.time), [[int(x) for x in g] for g in r.grid_sizes]]})


def run_case(ctx, rep, spec, gradp, reactions, floor, source, model, start=None, finish=None, check=True, cli=False):
    from amr_kitchen.chk2plt.chk2plt import chk2plt
    root = ctx.newdir("c17_"); os.makedirs(root)
    chk = os.path.join(root, "chk00005")
    truth = chkgen.materialize(spec, chk)
    before = tastelib.snapshot(chk)
    out = os.path.join(root, "out_plt")
    sp = SPNAMES[:spec["nspec"]]
    case = {"spec": spec, "gradp": gradp, "reactions": reactions, "floor": floor, "source": source, "finish": finish, "cli": cli}
    if cli: rep.count("console-script")
    case["previous"] = list(LAST)
    LAST[:] = [{k: v for k, v in case.items() if k != "previous"}]
    nonmono = any(k != "mono" for k in ["x"])  # layouts are random per subset; counted through features below
    rep.case({"s": spec, "g": gradp, "r": reactions, "f": floor, "src": source},
             nontrivial=(len(spec["levels"]) >= 2 or len(set(spec["dx0"])) > 1 or reactions))
    rep.count(f"levels:{len(spec['levels'])}"); rep.count(f"ghost:{spec['ng_state']}"); rep.count("source:" + source)
    rep.count("opts:" + ("G" if gradp else "-") + ("R" if reactions else "-") + ("F" if floor else "-"))
    kw = dict(species=list(sp)) if source == "list" else dict(target_plotfile=make_ref_plotfile(ctx, ctx.rng, spec["nspec"], source), species=[])
    if check:
        header_tie(rep, case, chk, model)
    try:
        with alarm(300), quiet(), pools.controlled(start=start, finish=FINISH[finish]):
            if cli:
                # the console script: -ip / -f switch the pressure gradient / the flooring off, -ir switches the rates on
                from .. import tools
                argv = ["chk2plt", "-c", chk, "-o", out] + ([] if gradp else ["-ip"]) + (["-ir"] if reactions else []) + \
                    ([] if floor else ["-f"])
                argv += (["-s"] + list(sp)) if source == "list" else ["-p", kw["target_plotfile"]]
                tools.run_main("amr_kitchen.chk2plt.cli", argv)
            else:
                chk2plt(chk, gradp=gradp, species_reactions=reactions, floor_massfracs=floor, pltdir=out, **kw)
    except SystemExit as e:
        rep.fail(f"the chk2plt console script exited ({e.code}) on a valid invocation", case)
        return
    except Exception as e:
        rep.fail(f"chk2plt raised {type(e).__name__}: {e}", case,
                 keys=["chk2plt-integral-time"] if (float(spec["time"]) % 1 == 0 and isinstance(e, ValueError)
                                                    and "could not convert string to float" in str(e)) else [])
        return
    if tastelib.snapshot(chk) != before:
        rep.fail("the conversion wrote into the checkpoint directory", case)
        return
    if not check:
        return
    integral_time = float(spec["time"]) % 1 == 0
    try:
        Q = oracle.parse(out)
    except (oracle.OracleError, OSError) as e:
        rep.fail(f"chk2plt's output is not a well-formed plotfile: {e}", case); return
    good, r = tastelib.real_taste(out, boxes_coordinates=True)
    if not good:
        rep.fail(f"validation (with box coordinates) rejects chk2plt's output (raised {r})", case); return
    want_fields = ["x_velocity", "y_velocity", "z_velocity", "density"] + [f"Y({s})" for s in sp] + ["rhoh", "temp", "RhoRT"] + \
        (["gradpx", "gradpy", "gradpz"] if gradp else []) + ([f"I_R({s})" for s in sp] if reactions else [])
    bad = []
    if Q["fields"] != want_fields:
        bad.append(f"fields {Q['fields']} != {want_fields}")
    nlev = len(spec["levels"])
    if Q["finest"] != nlev - 1:
        bad.append(f"levels 0..{Q['finest']} instead of 0..{nlev - 1}")
    if Q["time"] != spec["time"]:
        if integral_time and Q["time"] == 1e-6:
            rep.fail(f"time {Q['time']} is not the checkpoint time {spec['time']}", case, keys=["chk2plt-integral-time"])
        else:
            bad.append(f"time {Q['time']} is not the checkpoint time {spec['time']}")
    geo_hi = [spec["geo_lo"][d] + spec["dx0"][d] * spec["grid0"][d] for d in range(3)]
    if not np.allclose(Q["lo"], spec["geo_lo"], rtol=1e-13, atol=1e-13) or not np.allclose(Q["hi"], geo_hi, rtol=1e-13, atol=1e-13):
        bad.append("domain bounds differ from the checkpoint's")
    if not bad:
        for lv in range(nlev):
            dx = [spec["dx0"][d] / 2 ** lv for d in range(3)]
            if not np.allclose(Q["dx"][lv], dx, rtol=1e-13):
                bad.append(f"cell sizes at level {lv}"); break
            if [[lo, hi] for lo, hi in Q["levels"][lv]["idx"]] != spec["levels"][lv]:
                bad.append(f"boxes at level {lv} differ from the checkpoint's"); break
            for b, (lo, hi) in enumerate(spec["levels"][lv]):
                pb = [[spec["geo_lo"][d] + lo[d] * dx[d], spec["geo_lo"][d] + (hi[d] + 1) * dx[d]] for d in range(3)]
                if not np.allclose(Q["levels"][lv]["pboxes"][b], pb, rtol=1e-12, atol=1e-12):
                    bad.append(f"level {lv} box {b}: physical bounds {Q['levels'][lv]['pboxes'][b]} != {pb}"); break
                want = expected_box(spec, truth, lv, b, gradp, reactions, floor)
                got = Q["levels"][lv]["data"][b]
                if got.shape != want.shape or not (oracle.same_bits(got, want) if not floor else np.allclose(got, want, rtol=1e-14, atol=0)):
                    bad.append(f"level {lv} box {b}: values are not the checkpoint's interior values"); break
                if floor and not np.allclose(np.sum(got[..., 4:4 + spec["nspec"]], axis=-1), 1.0, rtol=1e-12):
                    bad.append(f"level {lv} box {b}: mass fractions do not sum to one"); break
                mn = np.min(got.reshape(-1, got.shape[-1]), axis=0); mx = np.max(got.reshape(-1, got.shape[-1]), axis=0)
                if not np.allclose(Q["levels"][lv]["mins"][b], mn, rtol=1e-15) or not np.allclose(Q["levels"][lv]["maxs"][b], mx, rtol=1e-15):
                    bad.append(f"level {lv} box {b}: min/max row is not the extrema of the written data"); break
            if bad:
                break
    for x in bad[:3]:
        rep.fail(x, case)
    if bad or not model:
        return
    nstate = chkgen.nfields(spec)["state"]
    lvrecs, gt, it = [], [], []
    for lv in range(nlev):
        recs = []
        for b, (lo, hi) in enumerate(spec["levels"][lv]):
            fno, _ = spec["layouts"]["state"][lv][b]
            # offsets of the state subset, as written by chkgen (recomputed from the level header)
            recs.append({"file": None, "offset": None, "ncells": int(np.prod([h - l + 1 for l, h in zip(lo, hi)])),
                         "hdr_len": 0, "canon_len": writers.canon_len(lo, hi), "comps": list(range(nstate))})
        lines = open(os.path.join(chk, f"Level_{lv}", "state_H")).read().split("\n")
        n = len(recs)
        for b in range(n):
            _, f, o = lines[7 + n + b].split()
            recs[b]["file"], recs[b]["offset"] = f, int(o)
        lvrecs.append(recs)
        gt.append([[100, 101, 102] for _ in recs]); it.append([[200 + j for j in range(spec["nspec"])] for _ in recs])
    if model:
        diff = writers.level_header_matches_model(out, Q, leanio)
        if diff:
            rep.tie(f"level header text of levels {diff} differs from the Lean renderer (whose parse-after-render law is proved)", case)
        else:
            rep.agree()
        cert = tastelib.wf_certificate(out, leanio)
        if cert is None:
            rep.agree(); rep.count("wf-certificate-passes")
        elif cert != "names":
            rep.tie(f"the converted plotfile does not pass the Lean well-formedness certificate ({cert})", case)
        rc = tastelib.rows_model_check(out, leanio)
        if rc is not None and not rc[1]:
            rep.agree(); rep.count("rows-are-the-model's-true-extrema", rc[0])
        elif rc is not None:
            rep.tie(f"min/max rows of the converted plotfile differ from the extrema the Lean model computes from the written bytes: {rc[1][0]} (C17.extrema_are_true)", case)
        why = writers.global_header_theorem_applies(out, leanio)
        if why:
            rep.tie(f"global header of the converted plotfile: {why} (whose parse-after-render law is proved)", case)
        else:
            rep.agree(); rep.count("header-theorem-applies")
    mn = leanio.driver([{"op": "names", "tool": "chk2plt", "names": list(sp), "gradp": bool(gradp), "reactions": bool(reactions)}])[0]
    if mn.get("fields") == Q["fields"]:
        rep.agree()
    else:
        rep.tie("the field list of the converted plotfile differs from the Lean field list (C17.field_names_align)", case,
                {"real": Q["fields"], "model": mn})
    m = leanio.driver([{"op": "chk2plt", "levels": lvrecs, "gradp": gradp, "reactions": reactions, "gradp_tags": gt, "ir_tags": it}])[0]
    ok = True
    for lv in range(nlev):
        for b, ob in enumerate(m["levels"][lv]):
            f, o = Q["levels"][lv]["fab"][b]
            if (ob["file"].replace("state", "Cell"), ob["offset"]) != (f, o) or ob["found"] is None or ob["found"]["box"] != b:
                ok = False
    if ok:
        rep.agree()
    else:
        rep.tie("chk2plt's output layout (file, offset per box) differs from the model's", case)


def run(ctx, rep, model=True):
    n = 24 if ctx.quick else 160
    for i in range(n):
        spec = chkgen.random_chk_spec(ctx.rng, nlev=[2, 1, 3, 2][i % 4], ng=[1, 2, 3][i % 3], aniso=(i % 2 == 0),
                                      integral_time=(i % 10 == 9))
        if i % 6 == 2:
            spec["near_one"] = True; rep.count("mass-fractions-summing-to-one-within-1e-5")
        if i % 6 in (0, 5):
            spec["undershoot"] = True; rep.count("negative-mass-fractions-in-some-cells")
        gradp, reactions, floor = [(True, False, True), (True, True, True), (False, False, False), (False, True, True),
                                   (True, True, False)][i % 5]
        source = ["list", "refY", "refIR"][i % 3]
        run_case(ctx, rep, spec, gradp, reactions, floor, source, model, start=[None, pools.order_reversed][i % 2],
                 finish=[None, "reversed", "rot1"][(i // 2) % 3], cli=(i % 4 == 1))
        if len(rep.violations) >= 10:
            return
    rep.count("state-FAB-larger-than-4-MiB")
    run_case(ctx, rep, big_box_spec(ctx.rng), True, False, True, "list", False)


def big_box_spec(rng):
    """one level, one box of 40 x 40 x 32 cells with three species (ten state components: a state FAB of more than 4 MiB with
    its ghost cells)"""
    levels = [[[[0, 0, 0], [39, 39, 31]]]]
    return {"nspec": 3, "ng_state": 1, "geo_lo": [0.0, -1.0, 0.5], "dx0": [0.125, 0.25, 0.125], "grid0": [40, 40, 32], "block": 8,
            "levels": levels, "time": 0.0123, "step": 5,
            "layouts": {sub: plotgen.random_layout(rng, levels, "mono") for sub in chkgen.SUBS}, "seed": rng.randrange(1 << 30),
            "pressure": 101325.0}


def replay(ctx, rep, obj, model=True):
    c = obj["case"]
    for h in c.get("previous") or []:
        # the conversion that preceded the failing one in the same process
        run_case(ctx, rep, h["spec"], h["gradp"], h["reactions"], h["floor"], h["source"], False, finish=h.get("finish"), check=False)
    run_case(ctx, rep, c["spec"], c["gradp"], c["reactions"], c["floor"], c["source"], model, finish=c.get("finish"),
             cli=c.get("cli", False))
