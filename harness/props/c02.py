"""C02 - opening a plotfile exposes exactly the metadata its headers state."""
import os, shutil
import numpy as np
from .. import plotgen, oracle, leanio, writers
from ..common import quiet
from .c01 import dedup_names

RULE = ("case = (generated plotfile spec, opening mode) with mode in {default, maxmins, limit_level=0..finest, "
        "limit_level=finest+1, header_only on a directory holding only the Header}; every exposed attribute compared with "
        "the independent oracle's parse of the same files and with the Lean header/level-header models; non-trivial = "
        "spec has >=2 of {multilevel, multifile, non-monotone, non-cubic, origin, anisotropic, repeated names, long ratio line}")


def feq(a, b):
    return np.array_equal(np.asarray(a, dtype=float), np.asarray(b, dtype=float), equal_nan=True)


def check_open(ctx, rep, spec, path, H, mode, model_replies=None):
    """mode: dict(limit=None|int, header_only=bool, maxmins=bool); returns list of problems"""
    from amr_kitchen import PlotfileCooker
    finest = H["finest"]
    limit = mode.get("limit")
    case = {"spec": spec, "mode": mode}
    # "np_limit": the limit as a numpy integer (what np.arange / np.min hand out)
    kw = dict(limit_level=(np.int64(limit) if mode.get("np_limit") and limit is not None else limit),
              header_only=mode.get("header_only", False), maxmins=mode.get("maxmins", False))
    p = path
    if mode.get("header_only"):
        p = ctx.newdir("c02h_")
        os.makedirs(p)
        shutil.copy(os.path.join(path, "Header"), os.path.join(p, "Header"))
    try:
        with quiet():
            pck = PlotfileCooker(p, **kw)
    except Exception as e:
        if limit is not None and limit > finest:
            return []          # refused, as required
        return [f"opening raised {type(e).__name__}: {e}"]
    if limit is not None and limit > finest:
        return [f"a level limit {limit} above the finest level {finest} was accepted"]
    L = finest if limit is None else limit
    bad = []

    def need(cond, what):
        if not cond:
            bad.append(what)

    names = dedup_names(spec["fields"])
    need(dict(pck.fields) == names and list(pck.fields) == list(names), f"fields {dict(pck.fields)} != {names}")
    need(pck.nvars == len(spec["fields"]), "nvars")
    need(pck.ndims == H["ndims"], "ndims")
    need(pck.time == H["time"], f"time {pck.time} != {H['time']}")
    need(pck.max_level == finest, "max_level")
    need(pck.limit_level == L, "limit_level")
    need(feq(pck.geo_low, H["lo"]) and feq(pck.geo_high, H["hi"]), "domain bounds")
    need(len(pck.dx) >= L + 1 and all(feq(pck.dx[l], H["dx"][l]) for l in range(L + 1)), "cell sizes")
    need(len(pck.grid_sizes) >= L + 1 and all(list(pck.grid_sizes[l]) == H["grid"][l] for l in range(L + 1)), "grid sizes")
    need(list(pck.factors) == H["factors"], "refinement ratios")
    need(list(pck.step_numbers) == H["steps"], "step numbers")
    need(len(pck.boxes) == L + 1, f"{len(pck.boxes)} levels of boxes exposed for limit {L}")
    for l in range(min(L + 1, len(pck.boxes))):
        need(feq(pck.boxes[l], H["levels"][l]["pboxes"]), f"physical box bounds at level {l}")
        need(pck.npoints[l] == len(H["levels"][l]["pboxes"]), f"box count at level {l}")
        need(pck.cell_paths[l] == H["levels"][l]["cdir"], f"level directory at level {l}")
        ctr = [[lo + (hi - lo) / 2 for lo, hi in b] for b in H["levels"][l]["pboxes"]]
        need(feq(pck.box_centers[l], ctr), f"box centres at level {l}")
    need(len(pck.grids) == L + 1, "grids: level count")
    for l in range(min(L + 1, len(pck.grids))):
        for d in range(H["ndims"]):
            n = H["grid"][l][d]
            want = H["lo"][d] + (np.arange(n) + 0.5) * H["dx"][l][d]
            g = np.asarray(pck.grids[l][d])
            need(g.shape == want.shape and np.allclose(g, want, rtol=1e-12, atol=1e-12 * max(1.0, abs(H["hi"][d]))),
                 f"grid of cell centres level {l} dim {d}")
    if mode.get("header_only"):
        need(not hasattr(pck, "cells"), "header_only still read level headers")
    else:
        need(len(pck.cells) == L + 1, f"{len(pck.cells)} level headers exposed for limit {L}")
        for l in range(min(L + 1, len(pck.cells))):
            lev = H["levels"][l]
            c = pck.cells[l]
            idx = [[list(map(int, a)), list(map(int, b))] for a, b in c["indexes"]]
            need(idx == [[lo, hi] for lo, hi in lev["idx"]], f"index ranges at level {l}")
            need([os.path.relpath(f, p) for f in c["files"]] == [os.path.join(lev["cdir"], f) for f, _ in lev["fab"]],
                 f"binary files at level {l}")
            need([int(o) for o in c["offsets"]] == [o for _, o in lev["fab"]], f"offsets at level {l}")
            if mode.get("maxmins"):
                for name, k in names.items():
                    need(name in c["mins"] and feq(c["mins"][name], [r[k] for r in lev["mins"]]), f"mins of {name} at level {l}")
                    need(name in c["maxs"] and feq(c["maxs"][name], [r[k] for r in lev["maxs"]]), f"maxs of {name} at level {l}")
            else:
                need("mins" not in c, "mins exposed without maxmins")
    return bad


def model_compare(rep, spec, path, H, limits):
    """Lean header model and level-header model against the oracle's view of the same bytes"""
    reqs = []
    hx = open(os.path.join(path, "Header"), "rb").read().hex()
    for lim in limits:
        r = {"op": "header", "hex": hx}
        if lim is not None:
            r["limit"] = lim
        reqs.append(r)
    nl = H["finest"] + 1
    for l in range(nl):
        reqs.append({"op": "cellh", "nfields": len(spec["fields"]),
                     "hex": open(os.path.join(path, H["levels"][l]["cdir"], "Cell_H"), "rb").read().hex()})
    rs = leanio.driver(reqs)
    names = dedup_names(spec["fields"])
    for lim, m in zip(limits, rs[:len(limits)]):
        case = {"spec": spec, "mode": {"limit": lim}, "model": "header"}
        if lim is not None and lim > H["finest"]:
            if m.get("status") != "refused":
                rep.tie("header model accepts a limit above the finest level", case, m)
            else:
                rep.agree()
            continue
        L = H["finest"] if lim is None else lim
        ok = (m.get("status") == "ok" and [tuple(x) for x in m["fields"]] == list(names.items())
              and m["ndims"] == H["ndims"] and float(m["time"]) == H["time"] and m["max_level"] == H["finest"]
              and m["limit_level"] == L and [float(x) for x in m["geo_low"]] == H["lo"]
              and [float(x) for x in m["geo_high"]] == H["hi"] and m["factors"] == H["factors"]
              and m["grid_sizes"] == H["grid"] and m["steps"] == H["steps"]
              and [[float(x) for x in r] for r in m["dx"]] == H["dx"]
              and m["npoints"] == [len(H["levels"][l]["pboxes"]) for l in range(L + 1)]
              and [[[[float(a), float(b)] for a, b in bx] for bx in lv] for lv in m["boxes"]] ==
                  [H["levels"][l]["pboxes"] for l in range(L + 1)]
              and m["cell_paths"] == [H["levels"][l]["cdir"] for l in range(L + 1)])
        if ok:
            rep.agree()
        else:
            rep.tie("header model disagrees with the metadata the files state", case, {"status": m.get("status"), "why": m.get("why")})
    # the min / max tables per field, as the Lean model of the maxmins branch reads them, against the oracle's rows
    mm = leanio.driver([{"op": "maxmins", "n": len(H["levels"][l]["idx"]), "names": list(names),
                         "hex": open(os.path.join(path, H["levels"][l]["cdir"], "Cell_H"), "rb").read().hex()} for l in range(nl)])
    for l, m in enumerate(mm):
        case = {"spec": spec, "mode": {"level": l, "maxmins": True}, "model": "maxmins"}
        lev = H["levels"][l]
        ok = m.get("status") == "ok"
        if ok:
            for which in ("mins", "maxs"):
                tab = m[which]
                ok = ok and [t[0] for t in tab] == list(names) and all(
                    feq([float(x) for x in t[1]], [r[names[t[0]]] for r in lev[which]]) for t in tab)
        if ok:
            rep.agree(); rep.count("maxmins-model-agrees")
        else:
            rep.tie("the min / max tables per field differ from the Lean model of the maxmins branch", case, {"status": m.get("status")})
    for l, m in enumerate(rs[len(limits):]):
        case = {"spec": spec, "mode": {"level": l}, "model": "cellh"}
        lev = H["levels"][l]
        ok = (m.get("status") == "ok" and [[e["lo"], e["hi"]] for e in m["entries"]] == [[lo, hi] for lo, hi in lev["idx"]]
              and [(e["file"], e["offset"]) for e in m["entries"]] == lev["fab"])
        if ok:
            rep.agree()
        else:
            rep.tie("level-header model disagrees with the level header", case, {"status": m.get("status"), "why": m.get("why")})


def float_tokens(text):
    """the decimal tokens of a global Header that the reader exposes as floats: time, domain bounds, cell sizes, the time of
    every level block and the physical bounds of every box"""
    L = text.split("\n")
    nf = int(L[1]); nd = int(L[2 + nf]); i = 3 + nf
    toks = [L[i].split()[0]]; finest = int(L[i + 1]); i += 2
    toks += L[i].split() + L[i + 1].split(); i += 4          # bounds; then ratio line and domain line
    i += 1                                                     # steps
    for _ in range(finest + 1):
        toks += L[i].split(); i += 1
    i += 2
    for _ in range(finest + 1):
        lv, n, t = L[i].split(); toks.append(t); i += 2
        for _ in range(int(n) * nd):
            toks += L[i].split(); i += 1
        i += 1
    return toks


def floats_are_nearest(rep, case, path):
    """every float token of the Header against the Lean test `F64.tokenOK` (C02.exposed_float_is_nearest_double): the bits
    Python reads the token as are the correctly rounded double of the decimal value the token states"""
    import struct
    try:
        toks = float_tokens(open(os.path.join(path, "Header")).read())
    except (ValueError, IndexError):
        return
    toks = sorted(set(toks))
    bits = []
    for t in toks:
        try:
            bits.append(struct.unpack("<Q", struct.pack("<d", float(t)))[0])
        except ValueError:
            bits.append(None)
    keep = [(t, b) for t, b in zip(toks, bits) if b is not None]
    if not keep:
        return
    m = leanio.driver([{"op": "float_tokens", "tokens": [t for t, _ in keep], "bits": [b for _, b in keep]}])[0]
    vs = m.get("verdicts", [])
    bad = [t for (t, _), v in zip(keep, vs) if v == "not-nearest"]
    if bad or len(vs) != len(keep):
        rep.tie(f"float tokens {bad[:4]} of the Header: the double Python reads is not the correctly rounded value by the Lean test F64.tokenOK", case, m)
    else:
        rep.agree(); rep.count("float-tokens-correctly-rounded", sum(v == "nearest" for v in vs))
        rep.count("float-tokens-outside-the-modelled-syntax", sum(v == "unsupported" for v in vs))


def run_spec(ctx, rep, spec, model, only=None, previous=None):
    path = ctx.newdir("c02_") if spec.get("path_form") != "long" else ctx.long_dir("c02_")
    if previous is not None:
        # another plotfile (same number of fields) lived at this very path and was opened in this process before
        from amr_kitchen import PlotfileCooker
        plotgen.materialize(previous, path)
        for kw in (dict(), dict(maxmins=True), dict(limit_level=0), dict(header_only=True)):
            try:
                with quiet():
                    PlotfileCooker(path, **kw)
            except Exception:
                pass
        shutil.rmtree(path)
        rep.count("path-reused-after-rewrite")
    plotgen.materialize(spec, path)
    H = oracle.parse(path, maxmins=True, data=False)
    if spec.get("path_form") == "symlink":
        path = ctx.via_symlink(path); rep.count("path-through-symlink-and-dotdot")
    if spec.get("path_form") == "long": rep.count("path-longer-than-160-characters")
    finest = H["finest"]
    feats = plotgen.describe(spec)
    if len(set(spec["fields"])) < len(spec["fields"]): feats.append("repeats")
    if spec.get("header_style") == "extra_ratio": feats.append("longratio")
    modes = [{"limit": None}, {"limit": None, "maxmins": True}, {"limit": None, "header_only": True},
             {"limit": finest + 1}, {"limit": finest + 1, "header_only": True}]
    for L in range(finest + 1):
        modes += [{"limit": L}, {"limit": L, "maxmins": True}, {"limit": L, "header_only": True}]
    modes += [{"limit": finest, "np_limit": True}, {"limit": 0, "np_limit": True, "header_only": True}, {"limit": finest + 1, "np_limit": True}]
    for mode in modes:
        if only is not None and mode != only:
            continue
        rep.case({"s": spec, "m": mode}, nontrivial=len(feats) >= 2)
        rep.count("mode:" + ",".join(k for k, v in sorted(mode.items()) if v not in (None, False)) or "mode:default")
        for b in check_open(ctx, rep, spec, path, H, mode):
            rep.fail(b, {"spec": spec, "mode": mode, "previous": previous})
    if model and only is None:
        model_compare(rep, spec, path, H, [None] + list(range(finest + 2)))
        # is this header exactly a text of the Lean renderer with the theorem's hypothesis satisfied?  Then
        # `C02.global_header_parse_render` / `_limit` / `_limit_above` speak about this very file
        floats_are_nearest(rep, {"spec": spec, "mode": {"limit": None}, "model": "header"}, path)
        why = writers.global_header_theorem_applies(path, leanio)
        if why:
            rep.tie(f"generated header: {why}", {"spec": spec, "mode": {"limit": None}, "model": "header"})
        else:
            rep.agree(); rep.count("header-theorem-applies")


def run(ctx, rep, model=True):
    n = 50 if ctx.quick else 400
    for i in range(n):
        spec = plotgen.random_spec(ctx.rng, nlev=[1, 2, 3, 4][i % 4] if i % 8 else 4, data=["smallint", "bits", "smallint"][i % 3], B=2,
                                   repeats=(i % 3 == 2), exact=(i % 5 != 4))
        # lines of the global header that are constant in plotfiles the package writes: coordinate system, per-level steps
        if i % 7 == 3: spec["path_form"] = "symlink"
        if i % 7 == 5: spec["path_form"] = "long"
        if i % 4 == 1:
            spec["coord_sys"] = [1, 2][(i // 4) % 2]; rep.count(f"coordinate-system:{spec['coord_sys']}")
        if i % 3 == 1 and len(spec["levels"]) >= 2:
            spec["subcycle"] = True; spec["step"] = [3, 7, 20][(i // 3) % 3]; rep.count("per-level-steps-differ")
        # names of the level directories as the Header records them (the prefix and the digits are the writer's choice), and
        # the ghost-cell line of the level headers in its per-direction form
        if i % 5 == 2:
            spec["level_dir"] = ["Lev_{lv}", "Level_{lv:02d}", "L{lv}"][(i // 5) % 3]; rep.count("level-directories-not-named-Level_n")
        if i % 4 == 2:
            spec["ghost_line"] = "(" + ",".join(["1", "1", "0"][: spec["ndims"]]) + ")"; rep.count("ghost-line-per-direction")
        elif i % 4 == 3:
            spec["ghost_line"] = "2"
        if i % 7 == 6:
            # the stated domain bound lies one unit in the last place below the upper face the writer computed for the last box
            got = [plotgen.ulp_above(spec["grid0"][d]) for d in range(spec["ndims"])]
            if any(g is not None for g in got):
                for d, g in enumerate(got):
                    if g is not None:
                        spec["geo_low"][d], spec["dx0"][d] = g
                spec["nominal_hi"] = "below"; rep.count("box-face-one-ulp-above-the-stated-domain-bound")
        run_spec(ctx, rep, spec, model)
        if i % 6 == 5:
            other = plotgen.random_spec(ctx.rng, ndims=spec["ndims"], nlev=[2, 3, 1][i % 3], nf=len(spec["fields"]), data="smallint", B=2)
            run_spec(ctx, rep, other, False, previous=spec)
        if len(rep.violations) >= 10:
            return
    # byte offsets at and above 2**31 (binary files larger than 2 GiB; written as sparse holes)
    for gap in (2 ** 31, 2 ** 32 + 5):
        for _ in range(50):
            spec = plotgen.random_spec(ctx.rng, ndims=3, nlev=2, nf=2, data="smallint", B=2, nblk=[2, 1, 1], layout="mono", single0=False)
            if any(len(b) >= 2 for b in spec["levels"]):
                break
        spec["gap"] = gap
        rep.count("offsets>=2^31")
        run_spec(ctx, rep, spec, model)


def replay(ctx, rep, obj, model=True):
    c = obj["case"]
    if c.get("model"):
        run_spec(ctx, rep, c["spec"], model)
    else:
        run_spec(ctx, rep, c["spec"], model, only=c["mode"], previous=c.get("previous"))
