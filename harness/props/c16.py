"""C16 - mandoline's plotfile-format slice is a valid 2D plotfile of the plane data."""
import os
from fractions import Fraction as Fr
import numpy as np
from .. import plotgen, oracle, leanio, pools, geom, tastelib, writers
from ..common import quiet, alarm
from .c01 import dedup_names
from . import c07

RULE = ("case = (generated 3D plotfile spec, normal, in-domain position incl. box faces / half-cell gaps / planes that miss the "
        "finer levels / domain faces, field list, level limit) saved with fformat='plotfile', plus slices whose written size "
        "exceeds the one-megabyte splitting threshold (11 boxes over 4 files); output parsed by the oracle and tasted (with box "
        "coordinates); per level the listed boxes compared with the footprints of the boxes the plane meets, every cell of every "
        "written box with the Python specification evaluated on the levels 0..l and with the Lean column model on the truncated "
        "configuration; non-trivial = >=2 levels or position not a level-0 cell centre")

TOL = 1e-9


def meets(spec, lv, box, cn, pos):
    lo, hi = box
    d = spec["dx0"][cn] / 2 ** lv
    g = spec["geo_low"][cn]
    blo, bhi = g + lo[cn] * d, g + (hi[cn] + 1) * d
    G = g + spec["grid0"][cn] * spec["dx0"][cn]
    return blo <= pos and (pos < bhi or bhi == G)


def run_case(ctx, rep, spec, cn, posname, pos, fields, limit, model, path=None, truth=None, batch=None, big=False, how="api"):
    """how: "api" | "cli" (the console script) | "str" (a single field given to the API as a bare string)"""
    from amr_kitchen.mandoline.mandoline import Mandoline
    if path is None:
        path = ctx.newdir("c16_")
        truth = plotgen.materialize(spec, path)
    names = dedup_names(spec["fields"])
    nlev = len(spec["levels"])
    L = nlev - 1 if limit is None else limit
    out = ctx.newdir("c16o_")
    case = {"spec": spec, "normal": cn, "posname": posname, "pos": pos, "fields": fields, "limit": limit, "big": big, "how": how}
    rep.count("how:" + how)
    # the pseudo field of the array formats may be named in the request: the written plotfile holds the real fields asked for
    req = list(fields)
    fields = [f for f in req if f != "grid_level"]
    if len(req) != len(fields): rep.count("grid_level-in-request")
    rep.case({"s": spec, "n": cn, "p": pos, "f": fields, "l": limit, "how": how}, nontrivial=(nlev >= 2 or not posname.startswith("L0:centre")))
    rep.count("pos:" + posname.split(":")[-1]); rep.count(f"normal:{cn}")
    try:
        with alarm(300), quiet(), geom.tainted_empty(), pools.controlled():
            if how == "bare":
                # started in the directory that holds the plotfile, input and output given as bare names
                from ..common import chdir
                with chdir(os.path.dirname(path)):
                    Mandoline(os.path.basename(path), fields=req, limit_level=limit, serial=True, verbose=0).slice(
                        normal=cn, pos=pos, outfile=os.path.basename(out), fformat="plotfile")
            elif how == "cli":
                from .. import tools
                tools.mandoline_cli(path, "plotfile", out, req, cn, pos, limit, serial=True)
            else:
                Mandoline(path, fields=(req[0] if how == "str" and len(req) == 1 else req), limit_level=limit, serial=True,
                          verbose=0).slice(normal=cn, pos=pos, outfile=out, fformat="plotfile")
    except SystemExit as e:
        rep.fail(f"the mandoline console script exited ({e.code}) on a valid invocation", case); return
    except Exception as e:
        rep.fail(f"plotfile-format slice raised {type(e).__name__}: {e}", case); return
    cx, cy = [i for i in range(3) if i != cn]
    try:
        Q = oracle.parse(out)
    except (oracle.OracleError, OSError) as e:
        rep.fail(f"the written slice is not a well-formed plotfile: {e}", case); return
    good, r = tastelib.real_taste(out, boxes_coordinates=True)
    if not good:
        rep.fail(f"validation (with box coordinates) rejects the written slice (raised {r})", case); return
    bad = []
    if Q["fields"] != fields: bad.append(f"fields {Q['fields']} != {fields}")
    if Q["ndims"] != 2: bad.append("not a 2D plotfile")
    if Q["time"] != spec["time"]: bad.append(f"time {Q['time']} != {spec['time']}")
    if Q["finest"] != L: bad.append(f"levels 0..{Q['finest']} instead of 0..{L}")
    G = [spec["geo_low"][d] + spec["grid0"][d] * spec["dx0"][d] for d in range(3)]
    if Q["lo"] != [spec["geo_low"][cx], spec["geo_low"][cy]] or Q["hi"] != [G[cx], G[cy]]: bad.append("in-plane domain bounds")
    nbadcells = 0
    if not bad:
        for lv in range(L + 1):
            if Q["dx"][lv] != [spec["dx0"][cx] / 2 ** lv, spec["dx0"][cy] / 2 ** lv]:
                bad.append(f"cell sizes at level {lv}"); break
            want = sorted([[b[0][cx], b[0][cy]], [b[1][cx], b[1][cy]]] for b in spec["levels"][lv] if meets(spec, lv, b, cn, pos))
            got = sorted([lo, hi] for lo, hi in Q["levels"][lv]["idx"])
            if got != want:
                bad.append(f"level {lv}: boxes {got} are not the footprints of the boxes the plane meets {want}"); break
            for b, (lo2, hi2) in enumerate(Q["levels"][lv]["idx"]):
                data = Q["levels"][lv]["data"][b]
                mn = np.min(data.reshape(-1, data.shape[-1]), axis=0); mx = np.max(data.reshape(-1, data.shape[-1]), axis=0)
                if not writers.rows_equal(Q["levels"][lv]["mins"][b], mn) or not writers.rows_equal(Q["levels"][lv]["maxs"][b], mx):
                    bad.append(f"level {lv} box {b}: min/max row is not the extrema of the written data"); break
                if big and b % 3:
                    continue
                for fi, fname in enumerate(fields):
                    k = names[fname]
                    for i in range(lo2[0], hi2[0] + 1):
                        for j in range(lo2[1], hi2[1] + 1):
                            if big and (i + j) % 7:
                                continue
                            # columns of levels 0..lv at this level-lv cell
                            levels = []
                            for l2 in range(lv + 1):
                                f = 2 ** (lv - l2); bs = []
                                for bid, (lo, hi) in enumerate(spec["levels"][l2]):
                                    if lo[cx] <= i // f <= hi[cx] and lo[cy] <= j // f <= hi[cy]:
                                        ix = [None] * 3; ix[cx] = i // f - lo[cx]; ix[cy] = j // f - lo[cy]; ix[cn] = slice(None)
                                        bs.append((lo[cn], truth[(l2, bid)][tuple(ix) + (k,)]))
                                levels.append(bs)
                            got_v = data[i - lo2[0], j - lo2[1], fi]
                            sv, cands = c07.spec_candidates(spec, levels, cn, pos)
                            knife = len(cands) > 1 and max(cands) - min(cands) > TOL * max(1.0, max(abs(c) for c in cands))
                            what = None
                            if np.isnan(got_v):
                                what = "cell written from never-initialised memory (NaN taint)"
                            elif not cands:
                                what = "specification has no sample for a written cell"
                            elif min(abs(got_v - c) / max(1.0, abs(c)) for c in cands) > TOL:
                                what = f"value {got_v} is not level {lv}'s interpolation onto the plane ({sorted(set(cands))})"
                            if what:
                                nbadcells += 1
                                if nbadcells <= 2:
                                    rep.fail(what, dict(case, level=lv, cell=[i, j], field=fname))
                            elif batch is not None and not big and not knife and sv is not None:
                                cfg = {"op": "column", "fixed": True, "N": spec["grid0"][cn], "g": c07.J(spec["geo_low"][cn]), "G": c07.J(G[cn]),
                                       "d0": c07.J(spec["dx0"][cn]), "pos": c07.J(pos),
                                       "levels": [[{"a": a, "vals": [c07.J(float(v)) for v in vals]} for a, vals in bs] for bs in levels]}
                                batch.append((case, (lv, i, j), float(got_v), None, cfg))
            if bad:
                break
    for x in bad[:3]:
        rep.fail(x, case)
    if model:
        diff = writers.level_header_matches_model(out, Q, leanio)
        if diff:
            rep.tie(f"level header text of levels {diff} differs from the Lean renderer (whose parse-after-render law is proved)", case)
        else:
            rep.agree()
        cert = tastelib.wf_certificate(out, leanio)
        if cert is None:
            rep.agree(); rep.count("wf-certificate-passes")
        elif cert != "names":
            rep.tie(f"the written slice does not pass the Lean well-formedness certificate ({cert})", case)
        rc = tastelib.rows_model_check(out, leanio)
        if rc is not None and not rc[1]:
            rep.agree(); rep.count("rows-are-the-model's-true-extrema", rc[0])
        elif rc is not None:
            rep.tie(f"min/max rows of the written slice differ from the extrema the Lean model computes from the written bytes: {rc[1][0]} (C16.extrema_are_true)", case)
        why = writers.global_header_theorem_applies(out, leanio)
        if why:
            rep.tie(f"global header of the written slice: {why} (whose parse-after-render law is proved)", case)
        else:
            rep.agree(); rep.count("header-theorem-applies")
    if model and not bad:
        # the 2D header, against the Lean writer model fed with the reader model's parse of the 3D input header
        text = open(os.path.join(path, "Header"), newline="").read()
        floats = []
        for t in set(text.split()):
            try:
                floats.append([t, str(float(t))])
            except ValueError:
                pass
        sel = [[b for b, box in enumerate(spec["levels"][lv]) if meets(spec, lv, box, cn, pos)] for lv in range(L + 1)]
        m = leanio.driver([{"op": "slice_header", "hex": text.encode().hex(), "limit": limit, "names": list(fields),
                            "coord": writers.header_request(text)["coord"], "cx": cx, "cy": cy, "selected": sel, "floats": floats}])[0]
        if m.get("status") == "ok" and bytes.fromhex(m["hex"]) == open(os.path.join(out, "Header"), "rb").read() and m.get("good"):
            rep.agree(); rep.count("slice-header-is-the-writer-model's")
        else:
            rep.tie("the 2D header of the slice differs from the Lean writer model's (C16.slice_header_content / slice_header_read_back)",
                    case, {"status": m.get("status"), "good": m.get("good")})
        # which boxes are listed, against the Lean model of the selection test (C16.each_box_once)
        reqs = []
        for lv in range(L + 1):
            d = spec["dx0"][cn] / 2 ** lv; g = spec["geo_low"][cn]
            reqs.append({"op": "meets", "G": c07.J(G[cn]), "pos": c07.J(pos),
                         "boxes": [[c07.J(g + b[0][cn] * d), c07.J(g + (b[1][cn] + 1) * d)] for b in spec["levels"][lv]]})
        for lv, m in enumerate(leanio.driver(reqs)):
            sel = sorted([[b[0][cx], b[0][cy]], [b[1][cx], b[1][cy]]] for b, f in zip(spec["levels"][lv], m.get("meets", [])) if f)
            if sel == sorted([lo, hi] for lo, hi in Q["levels"][lv]["idx"]):
                rep.agree()
            else:
                rep.tie("the boxes listed at a level are not those the Lean selection test picks", dict(case, level=lv), {"model": sel})
        # distribution of the boxes over binary files against the Lean chunking model
        reqs = []
        for lv in range(L + 1):
            idx = Q["levels"][lv]["idx"]
            total = sum((hi[0] - lo[0] + 1) * (hi[1] - lo[1] + 1) for lo, hi in idx) * len(fields) * 8
            reqs.append({"op": "chunks", "n": len(idx), "total_bytes": total, "threshold": 1000000})
        for lv, m in enumerate(leanio.driver(reqs)):
            groups = {}
            for b, (f, _) in enumerate(Q["levels"][lv]["fab"]):
                groups.setdefault(f, []).append(b)
            got = [groups[f] for f in sorted(groups)]
            if got == [c for c in m["chunks"] if c]:
                rep.agree()
            else:
                rep.tie("distribution of the boxes over binary files differs from the Lean chunking model",
                        dict(case, level=lv), {"real": got, "model": m["chunks"]})
    # files: every listed box in exactly one file is implied by the oracle's parse (each entry resolves to its own FAB)
    rep.count(f"files:{max(len({f for f, _ in lev['fab']}) for lev in Q['levels']) if Q['levels'] else 0}")


def big_spec(rng):
    """11 level-0 boxes of 64x64x2 cells and 9 fields: a z-slice writes 3.2 MB -> 4 files of the pinned arithmetic"""
    levels = [[[[64 * i, 0, 0], [64 * i + 63, 63, 1]] for i in range(11)]]
    return {"ndims": 3, "fields": [f"f{i}" for i in range(9)], "time": 0.5, "geo_low": [0.0, 0.0, 0.0], "dx0": [0.125, 0.125, 0.5],
            "grid0": [704, 64, 2], "block": 2, "levels": levels, "layout": plotgen.random_layout(rng, levels, "files"),
            "data": {"mode": "smallint", "seed": 11}, "header_style": "amrex", "step": 1}


def large_boxes_spec(rng):
    """six level-0 boxes of 256 x 256 x 2 cells: a z-slice of one field writes six boxes of half a megabyte each"""
    levels = [[[[256 * i, 0, 0], [256 * i + 255, 255, 1]] for i in range(6)]]
    return {"ndims": 3, "fields": ["rho", "temp"], "time": 0.25, "geo_low": [0.0, -1.0, 0.0], "dx0": [0.125, 0.125, 0.5],
            "grid0": [1536, 256, 2], "block": 2, "levels": levels, "layout": plotgen.random_layout(rng, levels, "files"),
            "data": {"mode": "smallint", "seed": 12}, "header_style": "amrex", "step": 1}


def run(ctx, rep, model=True):
    n = 6 if ctx.quick else 24
    for i in range(n):
        spec = plotgen.random_spec(ctx.rng, ndims=3, nlev=[2, 3, 1, 2][i % 4], nf=2, data=["smallint", "affine"][i % 2], B=2,
                                   nblk=[[2, 1, 2], [1, 2, 1], [2, 2, 1]][i % 3], origin=True, aniso=True, refine_p=0.4, layout="scatter",
                                   exact=(i % 3 != 2))     # every third mesh: cell sizes / origin that are no dyadic numbers
        if i % 2 == 1:
            spec["fields"][1] = ["wall_dist", "overall_hr"][i % 4 == 1]        # a field name containing the keyword "all"
        path = ctx.newdir("c16_")
        truth = plotgen.materialize(spec, path)
        names = list(dedup_names(spec["fields"]))
        nlev = len(spec["levels"])
        batch = [] if model else None
        for cn in range(3):
            g = spec["geo_low"][cn]; G = g + spec["grid0"][cn] * spec["dx0"][cn]
            plist = [(nm, p) for nm, p in c07.positions(spec, cn, ctx.rng, n_extra=2) if p is not None and g <= p <= G]
            if ctx.quick and len(plist) > 10:
                head, rest = plist[:4], plist[4:]
                # planes exactly on box faces decide which boxes are met: all of them on meshes whose numbers are not dyadic
                faces = [x for x in rest if x[0].endswith(":box-face")]
                others = [x for x in rest if not x[0].endswith(":box-face")]
                ctx.rng.shuffle(others); ctx.rng.shuffle(faces)
                faces = faces if not c07.dyadic(spec) else faces[:2]
                plist = head + faces + others[:max(3, 6 - len(faces))]
            for j, (nm, pos) in enumerate(plist):
                fields = [[names[0]], [names[1], names[0]], [names[1]], [names[0], "grid_level"], ["grid_level", names[1], names[0]]][j % 5]
                limit = [None, nlev - 1, 0, None][j % 4]
                how = ["api", "cli", "str", "api", "cli", "api"][j % 6] if len(fields) == 1 or j % 6 != 2 else "api"
                if limit == 0 and nlev >= 2 and (i + j) % 2 == 0:
                    how = "cli"          # the value 0 of an option through the console script
                if j % 7 == 4:
                    how = "bare"
                run_case(ctx, rep, spec, cn, nm, pos, fields, limit, model, path, truth, batch, how=how)
                if len(rep.violations) >= 12:
                    c07.flush_model(rep, batch)
                    return
        c07.flush_model(rep, batch)
    # coarse boxes that lie wholly under ONE finer box (eight boxes of 4^3 cells, a fine box of 16 x 16 x 8 cells over four of them):
    # the plane meets them, so the written level 0 lists them
    spec = plotgen.random_spec(ctx.rng, ndims=3, nlev=2, nf=2, data="affine", B=4, nblk=[2, 2, 2], origin=True, aniso=True, single0=False)
    spec["levels"] = [[[[4 * i, 4 * j, 4 * k], [4 * i + 3, 4 * j + 3, 4 * k + 3]] for i in range(2) for j in range(2) for k in range(2)],
                      [[[0, 0, 0], [15, 15, 7]]]]
    spec["layout"] = plotgen.random_layout(ctx.rng, spec["levels"], "scatter")
    rep.count("coarse-boxes-wholly-under-one-finer-box")
    path = ctx.newdir("c16_"); truth = plotgen.materialize(spec, path)
    names = list(dedup_names(spec["fields"]))
    batch = [] if model else None
    for cn in range(3):
        g = spec["geo_low"][cn]
        for k, cells in enumerate((1.25, 2.5)):
            run_case(ctx, rep, spec, cn, f"nested:{cells}", g + cells * spec["dx0"][cn], [names[0], names[1]], None, model, path, truth, batch,
                     how=["api", "cli"][k])
    c07.flush_model(rep, batch)
    # above the one-megabyte splitting threshold
    spec = big_spec(ctx.rng)
    run_case(ctx, rep, spec, 2, "L0:centre", 0.25, list(spec["fields"]), None, model, big=True)
    # few boxes, each a large share of a megabyte
    spec = large_boxes_spec(ctx.rng); rep.count("six-boxes-of-half-a-megabyte-in-the-slice")
    run_case(ctx, rep, spec, 2, "L0:centre", 0.25, ["rho"], None, False, big=True)


def replay(ctx, rep, obj, model=True):
    c = obj["case"]
    batch = [] if model else None
    run_case(ctx, rep, c["spec"], c["normal"], c.get("posname", "?"), c["pos"], c["fields"], c["limit"], model, batch=batch,
             big=c.get("big", False), how=c.get("how", "api"))
    c07.flush_model(rep, batch)
