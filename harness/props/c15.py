"""C15 - level iteration yields every box exactly once, whatever the schedule."""
import os, itertools
import numpy as np
from .. import plotgen, oracle, selectors, leanio, pools
from ..common import quiet, alarm, CaseTimeout
from .c01 import dedup_names

RULE = ("case = (generated plotfile spec, field selector of a promised form, level, start order of the per-file read "
        "tasks) for `for box in pck[sel][lv]`, and (spec, selector, level, box selector) for `.iter(boxes)`; multiset of "
        "(shape, bit pattern) compared with the stored boxes; non-trivial = >=2 binary files at the level or a "
        "non-monotone layout or a multi-field selector")


def sels_for(nf, names):
    out = [{"t": "int", "v": i} for i in range(nf)]
    out += [{"t": "int", "v": -1}, {"t": "name", "v": list(names)[-1]},
            {"t": "slice", "v": [None, None, None]}, {"t": "slice", "v": [1, None, None]},
            {"t": "slice", "v": [None, None, 2]}, {"t": "slice", "v": [1, nf, 2]},
            {"t": "list", "v": list(range(nf))}, {"t": "list", "v": [nf - 1]},
            # slice bounds beyond the field count are clamped, not wrapped
            {"t": "slice", "v": [-nf - 3, None, None]}, {"t": "slice", "v": [-nf - 1, nf + 4, None]}, {"t": "slice", "v": [None, nf + 2, None]},
            # strides whose last selected field is not the last field of the span
            {"t": "slice", "v": [None, None, 4]}, {"t": "slice", "v": [None, None, 3]}, {"t": "slice", "v": [1, nf, 3]},
            {"t": "slice", "v": [0, nf - 1, 4]}, {"t": "slice", "v": [0, 1, 2]}, {"t": "slice", "v": [1, nf - 1, 2]}]
    if nf >= 3:
        out += [{"t": "list", "v": [0, nf - 1]}, {"t": "slice", "v": [1, -1, None]}, {"t": "ndarray", "v": [1, 2]}]
    out = [dict(s, promised=True) for s in out if selectors.must_honour_field(s, nf, names)]
    # further selections numpy gives a meaning to: index lists out of file order, with repeats, with negative entries,
    # names out of file order.  A refusal (exception) is accepted for these; an answer must be the stored data of
    # exactly the listed components in the listed order
    nl = list(names)
    extra = []
    if nf >= 2:
        extra += [{"t": "list", "v": [nf - 1, 0]}, {"t": "list", "v": [0, 0]}, {"t": "list", "v": [-1, -2]},
                  {"t": "names", "v": nl[::-1]}, {"t": "list", "v": [-2, -1]}]
    if nf >= 3:
        extra += [{"t": "list", "v": [1, 1, nf - 1]}, {"t": "list", "v": [2, 0, 1]}, {"t": "ndarray", "v": [2, 0, 1]},
                  {"t": "list", "v": [-3, -2, -1]}, {"t": "names", "v": [nl[1], nl[0], nl[2]]}]
    if nf >= 4:
        extra += [{"t": "list", "v": [0, 2, 1, 3]}, {"t": "list", "v": [1, 3, 3, 3][: nf]}, {"t": "names", "v": [nl[0], nl[2], nl[1], nl[3]]}]
    # empty selections (numpy: no component): a refusal or boxes without components, never other components
    extra += [{"t": "slice", "v": [None, -nf - 2, None]}, {"t": "slice", "v": [nf + 1, None, None]}]
    # ... and the empty selections of reversed bounds (start after stop with a forward step)
    extra += [{"t": "slice", "v": [nf, 1, None]}, {"t": "slice", "v": [-1, 0, None]}, {"t": "slice", "v": [nf + 5, 1, None]},
              {"t": "slice", "v": [nf, 0, 2]}, {"t": "slice", "v": [1, 1, None]}]
    for s in extra:
        if selectors.meaning(s, nf, names) is not None and not selectors.must_honour_field(s, nf, names):
            out.append(dict(s, promised=False))
    return out


def key(a):
    a = np.asarray(a)
    return (tuple(a.shape), oracle.bits(a))


def run_spec(ctx, rep, spec, model, orders, real_pool=False, only=None):
    """`spec["one_cpu"]`: the whole case runs in a process restricted to one usable processor"""
    if spec.get("one_cpu") and hasattr(os, "sched_setaffinity"):
        old = os.sched_getaffinity(0)
        try:
            os.sched_setaffinity(0, {sorted(old)[0]})
            return _run_spec(ctx, rep, spec, model, orders, real_pool=real_pool, only=only)
        finally:
            os.sched_setaffinity(0, old)
    return _run_spec(ctx, rep, spec, model, orders, real_pool=real_pool, only=only)


def _run_spec(ctx, rep, spec, model, orders, real_pool=False, only=None):
    from amr_kitchen import PlotfileCooker
    path = ctx.newdir("c15_")
    truth = plotgen.materialize(spec, path)
    names = dedup_names(spec["fields"])
    nf = len(spec["fields"])
    with quiet():
        pck = PlotfileCooker(path)
    feats = plotgen.describe(spec)
    reqs, pend, sent = [], [], set()
    for lv in range(len(spec["levels"])):
        nb = len(spec["levels"][lv])
        nfiles = len({f for f, _ in spec["layout"][lv]})
        for fsel in sels_for(nf, names):
            promised = fsel.pop("promised", True)
            single, fidx = selectors.meaning(fsel, nf, names)
            want = sorted(key(truth[(lv, b)][..., fidx[0]] if single else truth[(lv, b)][..., fidx]) for b in range(nb))
            for oi, order in enumerate(orders):
                case = {"spec": spec, "fsel": fsel, "level": lv, "order": oi, "real_pool": real_pool}
                if only is not None and (only["fsel"], only["level"], only["order"]) != (fsel, lv, oi):
                    continue
                rep.case({"s": spec, "f": fsel, "l": lv, "o": oi, "rp": real_pool},
                         nontrivial=(nfiles >= 2 or "nonmonotone" in feats or not single))
                rep.count("fsel:" + fsel["t"]); rep.count(f"files:{min(nfiles, 4)}")
                try:
                    with alarm(120), quiet():
                        if real_pool:
                            got_list = list(pck[selectors.decode(fsel)][lv])
                        else:
                            with pools.controlled(start=order):
                                got_list = list(pck[selectors.decode(fsel)][lv])
                except CaseTimeout:
                    rep.fail("iteration over a level did not stop within 120 s", case)
                    continue
                except Exception as e:
                    if not promised:
                        rep.count("unpromised-form-refused")
                        continue
                    rep.fail(f"iteration over a level raised {type(e).__name__}: {e}", case)
                    continue
                if not promised:
                    rep.count("unpromised-form-answered")
                got = sorted(key(a) for a in got_list)
                if got != want:
                    rep.fail(f"iteration yielded {len(got)} boxes that are not the {len(want)} stored boxes, each once",
                             case, obs={"n": len(got)})
                    continue
                if model and single and oi == 0:
                    # model: concatenation over the files in sorted order of the sequential scan
                    files = sorted(set(pck.cells[lv]["files"]))
                    idxs = []
                    for fp in files:
                        k = os.path.relpath(fp, path)
                        if k not in sent:
                            sent.add(k)
                            reqs.append({"op": "file", "name": k, "hex": open(fp, "rb").read().hex()})
                        idxs.append(len(reqs))
                        reqs.append({"op": "scan", "name": k, "field": fidx[0]})
                    pend.append((case, [oracle.bits(a).hex() for a in got_list], idxs))
        # history on ONE stream object: a second iteration started (and run to its end) while a first one is in progress,
        # then the first one resumed - each of the two must yield every box exactly once
        if only is None and nb >= 2:
            case = {"spec": spec, "iter": True, "level": lv, "nested": True}
            rep.case({"s": spec, "nested": 1, "l": lv}, nontrivial=True); rep.count("two-iterations-of-one-stream-interleaved")
            want0 = sorted(key(truth[(lv, b)][..., 0]) for b in range(nb))
            try:
                with alarm(120), quiet(), pools.controlled():
                    st = pck[0][lv]
                    it1 = iter(st)
                    first = [next(it1)]
                    second = list(st)
                    first += list(it1)
                if sorted(key(a) for a in first) != want0 or sorted(key(a) for a in second) != want0:
                    rep.fail(f"two interleaved iterations of one stream object yielded {len(first)} and {len(second)} boxes, not the "
                             f"{nb} stored boxes each once", case)
                else:
                    rep.agree()
            except CaseTimeout:
                rep.fail("interleaved iterations of one stream object did not stop within 120 s", case)
            except Exception as e:
                rep.fail(f"interleaved iterations of one stream object raised {type(e).__name__}: {e}", case)
        # on-demand iterator keeps the requested order
        for bsel in selectors.box_selectors(ctx.rng, nb):
            if only is not None:
                break
            bm = selectors.meaning(bsel, nb)
            if bm is None:
                continue
            if bm[0]:
                # a single box number: the data of that box, directly or as the only item of an iterator
                case = {"spec": spec, "iter": True, "level": lv, "bsel": bsel}
                rep.case({"s": spec, "iter": 1, "l": lv, "b": bsel}, nontrivial=False)
                rep.count("iter:single")
                try:
                    with alarm(60), quiet(), pools.controlled(start=orders[-1]):
                        r = pck[0][lv].iter(selectors.decode(bsel))
                        got_list = [r] if isinstance(r, np.ndarray) else list(r)
                except Exception as e:
                    continue          # refusing the form is not a violation of C15
                if [key(a) for a in got_list] != [key(truth[(lv, bm[1][0])][..., 0])]:
                    rep.fail(f"on-demand iterator for box number {bsel['v']} delivers {len(got_list)} item(s), not the data of that box", case)
                continue
            case = {"spec": spec, "iter": True, "level": lv, "bsel": bsel}
            rep.case({"s": spec, "iter": 1, "l": lv, "b": bsel}, nontrivial=len(bm[1]) > 1)
            rep.count("iter:" + bsel["t"])
            try:
                with alarm(60), quiet(), pools.controlled(start=orders[-1]):
                    got_list = list(pck[0][lv].iter(selectors.decode(bsel)))
            except Exception as e:
                rep.fail(f"on-demand iterator raised {type(e).__name__}: {e}", case)
                continue
            want = [key(truth[(lv, b)][..., 0]) for b in bm[1]]
            if [key(a) for a in got_list] != want:
                rep.fail("on-demand iterator does not yield the selected boxes in the requested order", case)
            elif model:
                bd = selectors.box_to_driver(bsel)
                if bd is not None:
                    m = leanio.driver([{"op": "boxsel", "size": nb, "t": bd["t"], "v": bd["v"]}])[0]
                    if m.get("status") == "ok" and m.get("positions") == bm[1]:
                        rep.agree(); rep.count("iter-order-is-the-selection-model's")
                    else:
                        rep.tie("the boxes the on-demand iterator delivered differ from the Lean selection model (C15.on_demand_order)", case, m)
    # negative level keys on a reader opened with a level limit count from the last level READ
    nlev = len(spec["levels"])
    if only is None and nlev >= 2:
        for L in range(nlev - 1):
            with quiet():
                pl = PlotfileCooker(path, limit_level=L)
            for k in sorted({-1, -(L + 1)}):
                lv = L + 1 + k
                case = {"spec": spec, "limited": L, "levelkey": k}
                rep.case({"s": spec, "lim": L, "k": k}, nontrivial=True); rep.count("negative-level-key-under-limit")
                want = sorted(key(truth[(lv, b)][..., 0]) for b in range(len(spec["levels"][lv])))
                try:
                    with alarm(60), quiet(), pools.controlled():
                        got = sorted(key(a) for a in pl[0][k])
                except Exception as e:
                    rep.fail(f"level key {k} on a reader limited to level {L} raised {type(e).__name__}: {e}", case); continue
                if got != want:
                    rep.fail(f"level key {k} on a reader limited to level {L} does not yield the boxes of level {lv}", case)
            try:
                with alarm(60), quiet(), pools.controlled():
                    bad = list(pl[0][-(L + 2)])
                rep.fail(f"level key {-(L + 2)} on a reader limited to level {L} (levels 0..{L} read) was answered with {len(bad)} boxes",
                         {"spec": spec, "limited": L, "levelkey": -(L + 2)})
            except Exception:
                pass
    if model and reqs:
        replies = leanio.driver(reqs)
        for case, got_hex, idxs in pend:
            m = [b for i in idxs for b in replies[i].get("blocks", [])]
            if m != got_hex:
                rep.tie("level iteration differs from the model's sequential scan (files in sorted order)", case,
                        {"real": len(got_hex), "model": len(m)})
            else:
                rep.agree()


def orders_for(ctx):
    o = [None, pools.order_reversed, pools.order_rot(1)]
    if not ctx.quick:
        o += [pools.order_rot(2), pools.order_from_rng(ctx.rng)]
    return o


def far_apart_fields(ctx, rep):
    """two boxes of 64 x 64 x 32 cells with 34 fields in ONE binary file; the selection [0, 32] spans 33 MiB per box"""
    from amr_kitchen import PlotfileCooker
    levels = [[[[0, 0, 0], [63, 63, 31]], [[0, 0, 32], [63, 63, 63]]]]
    spec = {"ndims": 3, "fields": [f"f{k}" for k in range(34)], "time": 0.5, "geo_low": [0.0, 0.0, 0.0], "dx0": [0.25, 0.25, 0.25],
            "grid0": [64, 64, 64], "block": 32, "levels": levels, "layout": [[[0, 0], [0, 1]]],
            "data": {"mode": "smallint", "seed": 77}, "header_style": "amrex", "step": 1}
    path = ctx.newdir("c15big_")
    truth = plotgen.materialize(spec, path)
    rep.count("selection-spanning-33MiB-per-box")
    for fsel in ([0, 32], [1, 33]):
        case = {"far_apart_fields": fsel}
        rep.case({"far": fsel}, nontrivial=True)
        try:
            with alarm(300), quiet(), pools.controlled():
                got = sorted(key(a) for a in PlotfileCooker(path)[fsel][0])
        except Exception as e:
            rep.fail(f"iteration over a level with the field selection {fsel} of 34 raised {type(e).__name__}: {e}", case); continue
        want = sorted(key(truth[(0, b)][..., fsel]) for b in range(2))
        if got != want:
            rep.fail(f"iteration with the field selection {fsel} of 34 fields yielded {len(got)} boxes that are not the 2 stored boxes", case)
        else:
            rep.agree()
    import shutil
    shutil.rmtree(path, ignore_errors=True)


def directories_session(ctx, rep, seed):
    from amr_kitchen import PlotfileCooker
    from .. import sessions
    dirs = sessions.two_directories(ctx, seed, "c15dirs_", ndims=3, nf=2, data="bits", B=2, layout="scatter")
    case = {"directories_session": seed}
    rep.case({"dirsession": seed}, nontrivial=True); rep.count("relative-names-from-two-working-directories-real-pool")

    def action(k, name, spec, truth):
        pck = PlotfileCooker(name)
        for lv in range(len(spec["levels"])):
            nb = len(spec["levels"][lv])
            want = sorted(key(truth[(lv, b)][..., 1]) for b in range(nb))
            try:
                got = sorted(key(a) for a in pck[1][lv])
                sel = list(range(nb))[::-1]
                got2 = [key(a) for a in pck[1][lv].iter(sel)]
            except Exception as e:
                return f"iteration over level {lv} of the plotfile opened as {name!r} raised {type(e).__name__}: {e}"
            if got != want:
                return f"iteration over level {lv} of the plotfile opened as {name!r} does not yield the boxes stored in THIS directory"
            if got2 != [key(truth[(lv, b)][..., 1]) for b in sel]:
                return f"the on-demand iterator over level {lv} of {name!r} does not yield the boxes stored in THIS directory"
        return None
    bad = sessions.visit(dirs, action)
    if bad:
        rep.fail(bad, case)
    else:
        rep.agree()


def run(ctx, rep, model=True):
    directories_session(ctx, rep, ctx.rng.randrange(1 << 30))
    far_apart_fields(ctx, rep)
    n = 12 if ctx.quick else 50
    for i in range(n):
        thin = i % 4 == 2           # one-cell blocks: boxes one cell thick in some direction
        spec = plotgen.random_spec(ctx.rng, ndims=[3, 2][i % 2], nf=[3, 2, 4, 1, 7, 5][i % 6], data="bits", B=1 if thin else 2,
                                   nblk=[3, 2, 2][:[3, 2][i % 2]] if thin else None, layout=["scatter", "files", "perm"][i % 3])
        if thin: rep.count("boxes-one-cell-thick")
        # index space reaching below zero (the domain's first cell has a negative index; its last one stays >= 0, which is
        # all the reader's own grid bookkeeping - not under test here - can cope with)
        spec["idx_shift"] = -ctx.rng.randint(1, min(spec["grid0"]) - 1) if (i % 5 in (2, 4) and min(spec["grid0"]) >= 2) else 0
        if spec["idx_shift"]: rep.count("negative-indices")
        if i % 6 == 4:
            # seven-digit cell indices in every direction (a fine level of a very large domain): FAB header lines of more
            # than 120 bytes
            spec["idx_shift"] = 1234567; rep.count("seven-digit-indices")
        if i % 4 == 1:
            spec["stray_empty"] = True; rep.count("zero-length-unreferenced-binary-files")
        run_spec(ctx, rep, spec, model, orders_for(ctx))
        if len(rep.violations) >= 10:
            return
    # a process restricted to ONE usable processor (a one-core container, `taskset -c 0`): every pool call still gets a worker
    if hasattr(os, "sched_setaffinity"):
        rep.count("one-usable-processor")
        spec = plotgen.random_spec(ctx.rng, ndims=3, nf=2, data="bits", B=2, layout="scatter")
        spec["one_cpu"] = True
        run_spec(ctx, rep, spec, False, orders_for(ctx)[:2])
    # real process pools (completion order decided by the OS)
    for i in range(1 if ctx.quick else 4):
        spec = plotgen.random_spec(ctx.rng, ndims=3, nf=2, data="bits", B=2, layout="scatter")
        run_spec(ctx, rep, spec, False, [None], real_pool=True)
    ghost_cells(ctx, rep, model)


def ghost_cells(ctx, rep, model=True):
    """plotfiles written WITH ghost cells (every FAB on disk is its box grown by g cells, the FAB header names the grown box and
    the level header records g): "its exact stored data" is the grown block, for level iteration and the on-demand iterator alike.
    Own random stream (seeded from the run's seed), so that the cases above are the same with and without this part"""
    import random
    rng = random.Random(ctx.seed * 1000003 + 15)
    for i in range(2 if ctx.quick else 8):
        spec = plotgen.random_spec(rng, ndims=[3, 2][i % 2], nf=[2, 3][i % 2], data="bits", B=2, layout=["scatter", "files"][i % 2])
        spec["nghost"] = 1 + i % 2
        rep.count(f"ghost-cells-on-disk:{spec['nghost']}")
        run_spec(ctx, rep, spec, model, orders_for(ctx)[:2])


def replay(ctx, rep, obj, model=True):
    c = obj["case"]
    if "directories_session" in c:
        directories_session(ctx, rep, c["directories_session"]); return
    if "far_apart_fields" in c:
        far_apart_fields(ctx, rep); return
    if c.get("iter") or "limited" in c:
        run_spec(ctx, rep, c["spec"], model, orders_for(ctx))
    else:
        run_spec(ctx, rep, c["spec"], model, orders_for(ctx), real_pool=c.get("real_pool", False), only=c)
