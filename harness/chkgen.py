"""Independent writer of synthetic PeleLMeX-like checkpoints (shares no code with amr_kitchen)."""
import os
import numpy as np
from . import plotgen

SUBS = ["I_R", "divU", "gradp", "p", "state"]


def random_chk_spec(rng, nlev=None, nspec=None, ng=None, aniso=None, integral_time=False):
    nlev = nlev or rng.choice([1, 2, 2, 3])
    grid0, levels, B = plotgen.random_mesh(rng, 3, nlev, B=rng.choice([2, 4]), nblk=[rng.choice([1, 2]) for _ in range(3)],
                                           refine_p=0.4, single0=False)
    if aniso is None:
        aniso = rng.random() < 0.6
    d = rng.choice([0.125, 0.25, 0.5])
    dx0 = [rng.choice([0.125, 0.25, 0.5, 0.75]) if aniso else d for _ in range(3)]
    geo_lo = [rng.choice([0.0, 0.0, -1.0, 0.5]) for _ in range(3)]
    return {
        "nspec": nspec or rng.choice([1, 2, 3]),
        "ng_state": ng or rng.choice([1, 2, 3]),
        "geo_lo": geo_lo,
        "dx0": dx0,
        "grid0": grid0,
        "block": B,
        "levels": levels,
        "time": 2.0 if integral_time else rng.choice([1.5, 0.0123, 3e-7, 12.75, 1.6457727058794072e-11]),
        "step": rng.choice([0, 5, 1200]),
        "layouts": {sub: plotgen.random_layout(rng, levels, rng.choice(["mono", "perm", "files", "scatter"])) for sub in SUBS},
        "seed": rng.randrange(1 << 30),
        "pressure": 101325.0,
    }


def nfields(spec):
    n = spec["nspec"]
    return {"state": 4 + n + 3, "gradp": 3, "I_R": n, "divU": 1, "p": 1}


def nghost(spec):
    return {"state": spec["ng_state"], "gradp": 0, "I_R": 0, "divU": 1, "p": 1}


def sub_data(spec, sub, lv, bid, glo, ghi, k):
    shape = [ghi[d] - glo[d] + 1 for d in range(3)]
    n = int(np.prod(shape))
    subi = SUBS.index(sub)
    r = np.random.RandomState((spec["seed"] + 1000003 * lv + 10007 * bid + 101 * k + 13 * subi) % (1 << 31))
    if sub == "state" and 4 <= k < 4 + spec["nspec"]:
        raw = lambda kk: np.random.RandomState((spec["seed"] + 1000003 * lv + 10007 * bid + 101 * kk + 13 * subi) % (1 << 31)
                                               ).randint(1, 64, size=n).astype("float64") / 64.0
        if spec.get("near_one"):
            # normalised up to a drift of a few 1e-6 (what a time integrator leaves behind): flooring still has to rescale
            tot = sum(raw(kk) for kk in range(4, 4 + spec["nspec"]))
            drift = 1.0 + 5e-6 * (1 + (np.arange(n) % 3 - 1) * 0.5)
            return (raw(k) / tot * drift).reshape(shape, order="F")
        if spec.get("undershoot") and k == 4 + spec["nspec"] - 1:
            # the last species undershoots in some cells (small negative mass fractions, as an advection scheme leaves them):
            # they are rescaled like every other value (small enough for the sum over the species to stay positive)
            v = raw(k)
            v[::3] = -v[::3] / 1024.0
            return v.reshape(shape, order="F")
        # positive mass fractions, deliberately not normalised
        return raw(k).reshape(shape, order="F")
    return (r.randint(-512, 513, size=n).astype("float64") / 8.0 + subi).reshape(shape, order="F")


def materialize(spec, path):
    """writes the checkpoint; returns truth[(sub, lv, bid)] = (glo, ghi, array[..., nf])"""
    os.makedirs(path)
    levels = spec["levels"]
    nlev = len(levels)
    nf, ng = nfields(spec), nghost(spec)
    geo_hi = [spec["geo_lo"][d] + spec["dx0"][d] * spec["grid0"][d] for d in range(3)]
    with open(os.path.join(path, "Header"), "w") as h:
        h.write("Checkpoint version: 1\n")
        h.write(f"{nlev - 1}\n{spec['step']}\n{spec['time']!r}\n{1e-6!r}\n{2e-6!r}\n")
        h.write(" ".join(repr(float(x)) for x in spec["geo_lo"]) + " \n")
        h.write(" ".join(repr(float(x)) for x in geo_hi) + " \n")
        for lv in range(nlev):
            h.write(f"({len(levels[lv])} 0\n")
            for lo, hi in levels[lv]:
                h.write(f"(({','.join(map(str, lo))}) ({','.join(map(str, hi))}) (0,0,0))\n")
            h.write(")\n")
        h.write(f"{spec['pressure']!r}\n0\n0\n")
        for i in range(nf["state"]):
            h.write(f"{0.5 + i!r}\n")
    truth = {}
    for lv in range(nlev):
        ldir = os.path.join(path, f"Level_{lv}")
        os.makedirs(ldir)
        boxes = levels[lv]
        for sub in SUBS:
            lay = spec["layouts"][sub][lv]
            files = {}
            for bid, (fno, key) in enumerate(lay):
                files.setdefault(fno, []).append((key, bid))
            offs = [None] * len(boxes); fn = [None] * len(boxes); mins = [None] * len(boxes); maxs = [None] * len(boxes)
            for fno, lst in files.items():
                lst.sort()
                name = f"{sub}_D_{fno:05d}"
                with open(os.path.join(ldir, name), "wb") as bf:
                    for _, bid in lst:
                        lo, hi = boxes[bid]
                        glo = [x - ng[sub] for x in lo]
                        ghi = [x + ng[sub] + (1 if sub == "p" else 0) for x in hi]
                        offs[bid] = bf.tell(); fn[bid] = name
                        hdr = plotgen.fab_header(glo, ghi, nf[sub])
                        if sub == "p":
                            hdr = hdr.replace(b"(0,0,0)) ", b"(1,1,1)) ")
                        bf.write(hdr)
                        arrs = [np.asarray(sub_data(spec, sub, lv, bid, glo, ghi, k), dtype="float64") for k in range(nf[sub])]
                        for a in arrs:
                            bf.write(a.flatten(order="F").tobytes())
                        truth[(sub, lv, bid)] = (glo, ghi, np.stack(arrs, axis=-1))
                        mins[bid] = [a.min() for a in arrs]; maxs[bid] = [a.max() for a in arrs]
            with open(os.path.join(ldir, f"{sub}_H"), "w") as ch:
                ch.write(f"1\n1\n{nf[sub]}\n{ng[sub]}\n({len(boxes)} 0\n")
                for lo, hi in boxes:
                    if sub == "p":
                        ch.write(f"(({','.join(map(str, lo))}) ({','.join(str(x + 1) for x in hi)}) (1,1,1))\n")
                    else:
                        ch.write(f"(({','.join(map(str, lo))}) ({','.join(map(str, hi))}) (0,0,0))\n")
                ch.write(f")\n{len(boxes)}\n")
                for bid in range(len(boxes)):
                    ch.write(f"FabOnDisk: {fn[bid]} {offs[bid]}\n")
                ch.write(f"\n{len(boxes)},{nf[sub]}\n")
                for bid in range(len(boxes)):
                    ch.write(",".join(f"{m:.16e}" for m in mins[bid]) + ",\n")
                ch.write(f"\n{len(boxes)},{nf[sub]}\n")
                for bid in range(len(boxes)):
                    ch.write(",".join(f"{m:.16e}" for m in maxs[bid]) + ",\n")
                ch.write("\n")
    return truth
