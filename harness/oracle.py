"""Independent plotfile parser and specification functions (no amr_kitchen imports)."""
import os, re
import numpy as np

FAB_RE = re.compile(rb"FAB \(\(8, \(64 11 52 0 1 12 0 1023\)\),\(8, \(8 7 6 5 4 3 2 1\)\)\)"
                    rb"\(\(([-\d,]+)\) \(([-\d,]+)\) \(([-\d,]+)\)\) (\d+)\n$")
BOX_RE = re.compile(r"\(\(([-\d,]+)\) \(([-\d,]+)\) \(([-\d,]+)\)\)$")


class OracleError(Exception):
    pass


def _req(cond, msg):
    if not cond:
        raise OracleError(msg)


def parse_header(path):
    with open(os.path.join(path, "Header")) as h:
        L = h.read().split("\n")
    i = 0
    ver = L[i]; i += 1
    nf = int(L[i]); i += 1
    fields = L[i:i + nf]; i += nf
    nd = int(L[i]); i += 1
    time_tok = L[i]; time = float(L[i]); i += 1
    finest = int(L[i]); i += 1
    lo = [float(x) for x in L[i].split()]; i += 1
    hi = [float(x) for x in L[i].split()]; i += 1
    fac = [int(x) for x in L[i].split()]; i += 1
    doms = re.findall(r"\(\(([-\d,]+)\) \(([-\d,]+)\) \(([-\d,]+)\)\)", L[i]); i += 1
    _req(len(doms) == finest + 1, "domain count")
    grid = [[int(b) - int(a) + 1 for a, b in zip(d[0].split(','), d[1].split(','))] for d in doms]
    steps = [int(x) for x in L[i].split()]; i += 1
    dx = []
    for lv in range(finest + 1):
        dx.append([float(x) for x in L[i].split()]); i += 1
    coord = L[i].strip(); _req(int(L[i + 1]) == 0, "boundary width")
    i += 2
    levels = []
    level_steps = []
    for lv in range(finest + 1):
        a = L[i].split(); i += 1
        _req(int(a[0]) == lv, "level id")
        nb = int(a[1]); level_steps.append(int(L[i])); i += 1
        pb = []
        for b in range(nb):
            bb = []
            for d in range(nd):
                bb.append([float(x) for x in L[i].split()]); i += 1
            pb.append(bb)
        cdir = L[i].split('/')[0]; i += 1
        levels.append(dict(pboxes=pb, cdir=cdir, level_time=a[2]))
    return dict(version=ver, fields=fields, ndims=nd, time=time, time_tok=time_tok, finest=finest, lo=lo, hi=hi,
                factors=fac, grid=grid, steps=steps, dx=dx, levels=levels, coord=coord, level_steps=level_steps)


def parse(path, maxmins=True, data=True):
    """strict parse of a whole plotfile; raises OracleError / ValueError / OSError when it is not
    a well-formed plotfile in the sense the properties use"""
    try:
        return _parse(path, maxmins, data)
    except (AssertionError, IndexError, ValueError, AttributeError, KeyError) as e:
        raise OracleError(f"{type(e).__name__}: {e}")


def _parse(path, maxmins, data):
    H = parse_header(path)
    nf, nd = len(H["fields"]), H["ndims"]
    for lv, lev in enumerate(H["levels"]):
        nb = len(lev["pboxes"])
        with open(os.path.join(path, lev["cdir"], "Cell_H")) as ch:
            C = ch.read().split("\n")
        j = 2
        _req(int(C[j]) == nf, f"level {lv}: field count {C[j]} != {nf}"); j += 2
        n = int(C[j].split()[0][1:]); j += 1
        _req(n == nb, f"level {lv}: {n} index ranges for {nb} boxes")
        idx = []
        for b in range(n):
            m = BOX_RE.match(C[j]); j += 1
            _req(m, f"level {lv}: bad index line")
            idx.append(([int(x) for x in m.group(1).split(',')], [int(x) for x in m.group(2).split(',')]))
        _req(C[j] == ")", "closing paren"); j += 1
        _req(int(C[j]) == n, "second count"); j += 1
        fo = []
        for b in range(n):
            t = C[j].split(); j += 1
            _req(len(t) == 3 and t[0] == "FabOnDisk:", "FabOnDisk line")
            fo.append((t[1], int(t[2])))
        mins = maxs = None
        if maxmins:
            _req(C[j] == "", "blank before mins"); j += 1
            _req(C[j].replace(" ", "") == f"{n},{nf}", f"mins head {C[j]!r}"); j += 1
            mins = [[float(x) for x in _row(C[j + b], nf)] for b in range(n)]; j += n
            _req(C[j] == "", "blank before maxs"); j += 1
            _req(C[j].replace(" ", "") == f"{n},{nf}", "maxs head"); j += 1
            maxs = [[float(x) for x in _row(C[j + b], nf)] for b in range(n)]; j += n
        arrs = []
        if data:
            for b in range(n):
                with open(os.path.join(path, lev["cdir"], fo[b][0]), "rb") as bf:
                    bf.seek(fo[b][1])
                    hl = bf.readline()
                    m = FAB_RE.match(hl)
                    _req(m, f"level {lv} box {b}: FAB header {hl!r}")
                    flo = [int(x) for x in m.group(1).split(b',')]; fhi = [int(x) for x in m.group(2).split(b',')]
                    _req((flo, fhi) == idx[b], f"level {lv} box {b}: FAB header names {(flo, fhi)} not {idx[b]}")
                    _req(int(m.group(4)) == nf, f"level {lv} box {b}: FAB nfields {int(m.group(4))} != {nf}")
                    sh = [fhi[d] - flo[d] + 1 for d in range(nd)]
                    cnt = int(np.prod(sh)) * nf
                    raw = bf.read(cnt * 8)
                    _req(len(raw) == cnt * 8, f"level {lv} box {b}: short payload")
                    arrs.append(np.frombuffer(raw, dtype='<f8').reshape(sh + [nf], order='F'))
        lev.update(idx=idx, fab=fo, mins=mins, maxs=maxs, data=arrs)
    return H


def _row(line, nf):
    parts = line.split(',')
    _req(len(parts) == nf + 1 and parts[-1] == "", f"min/max row {line!r} for {nf} fields")
    return parts[:-1]


def bits(a):
    """bit pattern of a float64 array as bytes (Fortran order) - bit-for-bit comparisons"""
    return np.asarray(a, dtype="<f8").flatten(order="F").tobytes()


def same_bits(a, b):
    a = np.asarray(a); b = np.asarray(b)
    return a.shape == b.shape and bits(a) == bits(b)


def covering(spec_or_parsed_levels, nd, grid_fine, nlev, get_box, get_data):
    """finest covering grid: later (finer) levels overwrite; returns (values, level) arrays"""
    out = np.full(grid_fine, np.nan)
    lvl = np.full(grid_fine, -1, dtype=int)
    for lv in range(nlev):
        f = 2 ** (nlev - 1 - lv)
        for bid in range(len(spec_or_parsed_levels[lv])):
            lo, hi = get_box(lv, bid)
            arr = get_data(lv, bid)
            for d in range(nd):
                arr = np.repeat(arr, f, axis=d)
            sl = tuple(slice(lo[d] * f, (hi[d] + 1) * f) for d in range(nd))
            out[sl] = arr
            lvl[sl] = lv
    return out, lvl
