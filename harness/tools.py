"""In-process invocations of every tool (API or CLI main with argv), shared by C12 / C13 / C14."""
import os, sys, importlib
import numpy as np
from .common import quiet, alarm, chdir

USER_RECIPE = '''
def recipe(field_indexes, box_array):
    """cooked"""
    return box_array[:, :, :, 0] * 2 + 1
'''


USER_RECIPE2 = '''
import numpy as np
def recipe(field_indexes, box_array):
    """cooked_a cooked_b"""
    a = box_array[:, :, :, 0]
    b = box_array[:, :, :, 1]
    return np.stack([a + b, a * 2 - b], axis=-1)
'''


def run_main(modname, argv):
    mod = importlib.import_module(modname)
    old = sys.argv
    sys.argv = argv
    try:
        return mod.main()
    finally:
        sys.argv = old


def colander(inp, out, variables=("all",), limit=None):
    from amr_kitchen.colander.colander import Colander
    Colander(plotfile=inp, limit_level=limit, output=out, variables=list(variables)).strain()


def combine(p1, p2, out=None, vars1=None, vars2=None):
    from amr_kitchen import PlotfileCooker
    from amr_kitchen.combine.combine import combine as cb
    cb(PlotfileCooker(p1), PlotfileCooker(p2), pltout=out, vars1=vars1, vars2=vars2)


def chef(inp, recipe, out=None, kept=None, serial=False):
    from amr_kitchen.chef.chef import Chef
    Chef(plotfile=inp, recipe=recipe, outfile=out, kept_fields=kept, serial=serial).cook()


def mandoline(inp, fformat, out=None, fields=None, normal=0, pos=None, limit=None, serial=False):
    from amr_kitchen.mandoline.mandoline import Mandoline
    return Mandoline(inp, fields=fields, limit_level=limit, serial=serial, verbose=0).slice(
        normal=normal, pos=pos, outfile=out, fformat=fformat)


def colander_cli(inp, out, variables=("all",), limit=None, serial=False):
    """the console script `colander` (argument parsing and defaults included)"""
    argv = ["colander", inp, "-v"] + list(variables)
    if limit is not None:
        argv += ["-l", str(limit)]
    if out is not None:
        argv += ["-o", out]
    if serial:
        argv.append("-s")
    return run_main("amr_kitchen.colander.cli", argv)


def mandoline_cli(inp, fformat, out=None, fields=None, normal=None, pos=None, limit=None, serial=False):
    """the console script `mandoline`; for fformat="array" returns the saved arrays as the API's "return" format does"""
    argv = ["mandoline", inp, "-f", fformat, "-V", "0"]
    if normal is not None:
        argv += ["-n", str(normal)]
    if pos is not None:
        # one token: argparse takes a separate "-1e-05" (negative, exponent form) for an option name
        argv += [f"--position={float(pos)!r}"]
    if fields:
        argv += ["-v"] + ([fields] if isinstance(fields, str) else list(fields))
    if limit is not None:
        argv += ["-L", str(limit)]
    if out is not None:
        argv += ["-o", out]
    if serial:
        argv.append("-s")
    run_main("amr_kitchen.mandoline.cli", argv)
    if fformat == "array" and out is not None:
        with np.load(out + ".npz", allow_pickle=True) as z:
            return {k: z[k] for k in z.files}


def combine_cli(p1, p2, out=None, vars1=None, vars2=None):
    """the console script `combine`; returns the exit status the setuptools wrapper `sys.exit(main())` would give"""
    argv = ["combine", "-p1", p1, "-p2", p2]
    if out is not None:
        argv += ["-o", out]
    if vars1 is not None:
        argv += ["-v1", vars1 if isinstance(vars1, str) else " ".join(vars1)]
    if vars2 is not None:
        argv += ["-v2", vars2 if isinstance(vars2, str) else " ".join(vars2)]
    try:
        r = run_main("amr_kitchen.combine.cli", argv)
    except SystemExit as e:
        r = e.code
    return 0 if r is None else r        # sys.exit(None) is status 0, sys.exit(obj) prints obj and is status 1


def whip(inp, field, out=None, dtype="float64", limit=None):
    argv = ["whip", "-v", field, "-d", dtype, "-y"]
    if out is not None:
        argv += ["-o", out]
    if limit is not None:
        argv += ["-l", str(limit)]
    run_main("amr_kitchen.whip.cli", argv + [inp])


def chk2plt(chk, out=None, species=("H2", "O2", "N2"), gradp=True, reactions=False, floor=True, ref=None):
    mod = importlib.import_module("amr_kitchen.chk2plt.chk2plt")
    if ref is not None:
        mod.chk2plt(chk, target_plotfile=ref, species=[], gradp=gradp, species_reactions=reactions, floor_massfracs=floor, pltdir=out)
    else:
        mod.chk2plt(chk, species=list(species), gradp=gradp, species_reactions=reactions, floor_massfracs=floor, pltdir=out)


def marinate(inp):
    run_main("amr_kitchen.marinate", ["marinate", inp])


def taste(inp, **kw):
    from amr_kitchen.taste.taste import Taster
    return bool(Taster(inp, verbose=0, **kw))


def pestle(inp, field, limit=None, volfrac=False):
    from amr_kitchen import PlotfileCooker
    from amr_kitchen.pestle.pestle import volume_integral
    return volume_integral(PlotfileCooker(inp, ghost=True), field, limit_level=limit, use_volfrac=volfrac)


def menu(inp, *flags):
    run_main("amr_kitchen.menu.cli", ["menu", inp] + list(flags))


def minuterie(inp):
    run_main("amr_kitchen.minuterie", ["minuterie", inp])


def read_tree(root):
    out = {}
    for r, ds, fs in os.walk(root):
        for f in fs:
            p = os.path.join(r, f)
            out[os.path.relpath(p, root)] = open(p, "rb").read()
    return out
