"""Translator: regenerate lean/AmrK/Generated/Constants.lean from the Python sources of the
repository under test (AST-based).  Theorems in AmrK/ConstantsProps.lean are re-checked against
what the code says now by the next `lake build`."""
import ast, json, os
from .common import REPO, VERIF

TARGET = os.path.join(VERIF, "lean", "AmrK", "Generated", "Constants.lean")


class AnchorError(Exception):
    pass


def _tree(rel):
    return ast.parse(open(os.path.join(REPO, rel)).read())


def _func(t, name):
    for n in ast.walk(t):
        if isinstance(n, ast.FunctionDef) and n.name == name:
            return n
    raise AnchorError(f"function {name} not found")


def _class(t, name):
    for n in ast.walk(t):
        if isinstance(n, ast.ClassDef) and n.name == name:
            return n
    raise AnchorError(f"class {name} not found")


def _assigned(node, target):
    for n in ast.walk(node):
        if isinstance(n, ast.Assign) and any(isinstance(x, ast.Name) and x.id == target for x in n.targets):
            return n.value
    raise AnchorError(f"assignment to {target} not found")


def _const(v):
    if isinstance(v, ast.Constant) and isinstance(v.value, str):
        return v.value
    if isinstance(v, ast.BinOp) and isinstance(v.op, ast.Add):
        return _const(v.left) + _const(v.right)
    if isinstance(v, ast.JoinedStr):
        return "".join(_const(x) for x in v.values if isinstance(x, ast.Constant))
    raise AnchorError("not a constant string")


def _const_prefix(v):
    """(leading literal text of a string expression, whether the whole expression is literal): the text before the first
    formatted value of an f-string / concatenation, however the remainder is produced"""
    if isinstance(v, ast.Constant) and isinstance(v.value, str):
        return v.value, True
    if isinstance(v, ast.BinOp) and isinstance(v.op, ast.Add):
        l, full = _const_prefix(v.left)
        if not full:
            return l, False
        r, rfull = _const_prefix(v.right)
        return l + r, rfull
    if isinstance(v, ast.JoinedStr):
        out = ""
        for x in v.values:
            if isinstance(x, ast.Constant) and isinstance(x.value, str):
                out += x.value
            else:
                return out, False
        return out, True
    return "", False


def _fab_literals(tree):
    """leading literals of every string expression of a module that starts with the FAB header magic, in source order"""
    out = []
    for n in ast.walk(tree):
        if isinstance(n, (ast.Constant, ast.JoinedStr, ast.BinOp)):
            try:
                lit, _ = _const_prefix(n)
            except Exception:
                continue
            if lit.startswith("FAB (") and lit not in out:
                out.append(lit)
    # a literal that is a proper prefix of another one is a piece of it
    return [l for l in out if not any(o != l and o.startswith(l) for o in out)]


def _fab_literal(tree, primary):
    """the FAB header literal: at its pinned anchor when that still exists, otherwise the one string of the module that
    starts with the FAB magic (moved to a module constant, inlined in an f-string, ...)"""
    try:
        lit = primary()
        if lit.startswith("FAB ("):
            return lit
    except AnchorError:
        pass
    lits = _fab_literals(tree)
    if len(lits) != 1:
        raise AnchorError(f"{len(lits)} candidate FAB header literals")
    return lits[0]


def _s(s):
    return json.dumps(s)


def generate():
    out = ["/-! GENERATED from the Python sources by harness/translate.py on every run - do not edit. -/",
           "namespace Generated", ""]
    missing = []

    def item(name, fn, default):
        try:
            out.append(fn())
        except (AnchorError, OSError, SyntaxError, ValueError, TypeError, IndexError) as e:
            missing.append(f"{name}: {e}")
            out.append(default)

    def utils_hdr():
        u = _tree('amr_kitchen/utils.py')
        lit = _fab_literal(u, lambda: _const_prefix(_assigned(_func(u, 'header_from_indices'), 'header_const'))[0])
        return f"def utilsHeaderConst : String := {_s(lit)}"
    item("utils.header_from_indices.header_const", utils_hdr, 'def utilsHeaderConst : String := ""')

    def mand_hdr():
        m = _tree('amr_kitchen/mandoline/mandoline.py')
        lit = _fab_literal(m, lambda: _const_prefix(_assigned(_func(m, 'write_cell_data_at_level'), 'new_header'))[0])
        return f"def mandolineHeaderConst : String := {_s(lit)}"
    item("mandoline.write_cell_data_at_level.new_header", mand_hdr, 'def mandolineHeaderConst : String := ""')

    def mand_thr():
        m = _tree('amr_kitchen/mandoline/mandoline.py')
        thr = None
        for n in ast.walk(_func(m, 'write_cell_data_at_level')):
            if (isinstance(n, ast.Call) and isinstance(n.func, ast.Name) and n.func.id == 'int'
                    and n.args and isinstance(n.args[0], ast.Constant)):
                thr = int(n.args[0].value)
        if thr is None:
            raise AnchorError("int(<const>) threshold not found")
        return f"def mandolineChunkBytes : Nat := {thr}"
    item("mandoline chunk threshold", mand_thr, "def mandolineChunkBytes : Nat := 0")

    def chk_tables():
        c = _class(_tree('amr_kitchen/chk2plt/checkpoint_reader.py'), 'CheckpointReader')
        sfi = ast.literal_eval(_assigned(c, 'state_field_indices'))
        ghost = ast.literal_eval(_assigned(c, 'data_has_ghost'))
        a = "def stateFieldIndices : List (String × Int) := [" + ", ".join(f"({_s(k)}, {v})" for k, v in sfi.items()) + "]"
        b = "def dataHasGhost : List (String × Bool) := [" + ", ".join(f"({_s(k)}, {'true' if v else 'false'})" for k, v in ghost.items()) + "]"
        return a + "\n" + b
    item("CheckpointReader tables", chk_tables,
         "def stateFieldIndices : List (String × Int) := []\ndef dataHasGhost : List (String × Bool) := []")

    def chk_names():
        k = _func(_tree('amr_kitchen/chk2plt/chk2plt.py'), '__init__')
        lists = [ast.literal_eval(n) for n in ast.walk(k) if isinstance(n, ast.List) and n.elts and
                 all(isinstance(e, ast.Constant) and isinstance(e.value, str) for e in n.elts)]
        return "def chk2pltNameLists : List (List String) := [" + ", ".join(
            "[" + ", ".join(_s(x) for x in l) + "]" for l in lists) + "]"
    item("chk2plt name lists", chk_names, "def chk2pltNameLists : List (List String) := []")

    def chef_tables():
        ch = _class(_tree('amr_kitchen/chef/chef.py'), 'Chef')
        cb = _assigned(ch, 'cookbook')
        cook = {k.value: (v.value if isinstance(v, ast.Constant) else None) for k, v in zip(cb.keys, cb.values)}
        a = "def chefCookbook : List (String × Option String) := [" + ", ".join(
            f"({_s(k)}, {'some ' + _s(v) if v else 'none'})" for k, v in cook.items()) + "]"
        b = "def chefCookfields : List (String × String) := [" + ", ".join(
            f"({_s(k)}, {_s(v)})" for k, v in ast.literal_eval(_assigned(ch, 'cookfields')).items()) + "]"
        return a + "\n" + b
    item("Chef tables", chef_tables,
         "def chefCookbook : List (String × Option String) := []\ndef chefCookfields : List (String × String) := []")

    # ---- structural tables over every module of the package
    def structure():
        sw, unordered, nonF = static_tables()
        a = "def swallowedWriteSites : List (String × String × String) := [" + ", ".join(
            f"({_s(f)}, {_s(fn)}, {_s(w)})" for f, fn, w in sw) + "]"
        b = "def unorderedPoolCalls : List (String × String) := [" + ", ".join(f"({_s(f)}, {_s(fn)})" for f, fn in unordered) + "]"
        c = "def nonFortranReshapes : List (String × String × String) := [" + ", ".join(
            f"({_s(f)}, {_s(fn)}, {_s(k)})" for f, fn, k in nonF) + "]"
        return a + "\n" + b + "\n" + c
    item("structural tables", structure,
         "def swallowedWriteSites : List (String × String × String) := [(\"?\", \"?\", \"?\")]\n"
         "def unorderedPoolCalls : List (String × String) := []\ndef nonFortranReshapes : List (String × String × String) := []")

    out += ["", "end Generated", ""]
    return "\n".join(out), missing


WRITE_ATTRS = {"write", "writelines", "tofile", "dump", "save", "savez", "savez_compressed", "savefig", "makedirs", "mkdir",
               "rmtree", "remove", "rename", "copy", "copytree", "move"}


def _write_call(n):
    if not isinstance(n, ast.Call):
        return None
    f = n.func
    if isinstance(f, ast.Attribute) and f.attr in WRITE_ATTRS:
        return f.attr
    if isinstance(f, ast.Name) and f.id == "open":
        mode = None
        if len(n.args) > 1 and isinstance(n.args[1], ast.Constant):
            mode = n.args[1].value
        for k in n.keywords:
            if k.arg == "mode" and isinstance(k.value, ast.Constant):
                mode = k.value.value
        if mode and any(c in str(mode) for c in "wax+"):
            return "open-w"
    return None


def _swallows(handler):
    t = handler.type
    if t is None:
        names = ["<bare>"]
    elif isinstance(t, ast.Name):
        names = [t.id]
    elif isinstance(t, ast.Tuple):
        names = [e.id for e in t.elts if isinstance(e, ast.Name)]
    else:
        names = []
    broad = any(n in ("<bare>", "Exception", "BaseException", "OSError", "IOError", "EnvironmentError") for n in names)
    reraises = any(isinstance(x, ast.Raise) for x in ast.walk(handler))
    return broad and not reraises


def static_tables():
    """(write-side calls inside try blocks that swallow I/O errors, imap_unordered call sites,
    reshape/flatten calls without order='F') over every module of amr_kitchen"""
    sw, unordered, nonF = [], [], []
    pkg = os.path.join(REPO, "amr_kitchen")
    for root, _, files in sorted(os.walk(pkg)):
        for fn in sorted(files):
            if not fn.endswith(".py"):
                continue
            p = os.path.join(root, fn)
            rel = os.path.relpath(p, REPO)
            t = ast.parse(open(p).read())
            parents = {}
            for n in ast.walk(t):
                for c in ast.iter_child_nodes(n):
                    parents[c] = n

            def func_of(n):
                while n in parents:
                    n = parents[n]
                    if isinstance(n, (ast.FunctionDef, ast.AsyncFunctionDef)):
                        return n.name
                return "<module>"
            for n in ast.walk(t):
                if isinstance(n, ast.Try) and any(_swallows(h) for h in n.handlers):
                    for b in n.body:
                        for c in ast.walk(b):
                            w = _write_call(c)
                            if w:
                                sw.append((rel, func_of(n), w))
                if isinstance(n, ast.Call) and isinstance(n.func, ast.Attribute):
                    if n.func.attr == "imap_unordered":
                        unordered.append((rel, func_of(n)))
                    if n.func.attr in ("reshape", "flatten"):
                        # only an explicit order other than Fortran is recorded: a call without the keyword may be
                        # a harmless reshape of one-dimensional data (expand_array's C-order reshape is modelled)
                        o = [k.value.value for k in n.keywords if k.arg == "order" and isinstance(k.value, ast.Constant)]
                        if o and o[0] != "F":
                            nonF.append((rel, func_of(n), n.func.attr))
    return sorted(set(sw)), sorted(set(unordered)), sorted(set(nonF))


def regenerate():
    """rewrite the generated file when its content changed; returns the list of missing anchors"""
    text, missing = generate()
    old = None
    if os.path.exists(TARGET):
        old = open(TARGET).read()
    if old != text:
        os.makedirs(os.path.dirname(TARGET), exist_ok=True)
        with open(TARGET, "w") as f:
            f.write(text)
    return missing
