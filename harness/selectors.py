"""JSON-encodable field / box selectors, their Python meaning, and their driver encoding."""
import numpy as np


def decode(sel):
    t, v = sel["t"], sel["v"]
    if t in ("int", "name"):
        return v
    if t == "slice":
        return slice(*v)
    if t == "list":
        return list(v)
    if t == "ndarray":
        return np.array(v, dtype=int)
    if t == "mask":
        return np.array(v, dtype=bool)
    if t == "lmask":
        return [bool(x) for x in v]          # a boolean mask given as a plain Python list
    if t == "names":
        return list(v)
    raise ValueError(t)


def meaning(sel, n, names=None):
    """indices the selector denotes in Python/numpy semantics over range(n):
    (single: bool, list of indices) or None when Python itself refuses"""
    t, v = sel["t"], sel["v"]
    try:
        if t == "name":
            if names is None or v not in names:
                return None
            return True, [names[v]]
        if t == "names":
            if names is None or any(x not in names for x in v) or not v:
                return None
            return False, [names[x] for x in v]
        if t == "int":
            return True, [int(np.arange(n)[v])]
        if t == "slice":
            return False, [int(i) for i in np.arange(n)[slice(*v)]]
        if t in ("list", "ndarray"):
            if len(v) == 0:
                return None
            return False, [int(i) for i in np.arange(n)[np.array(v, dtype=int)]]
        if t in ("mask", "lmask"):
            if len(v) != n:
                return None
            return False, [int(i) for i in np.arange(n)[np.array(v, dtype=bool)]]
    except (IndexError, ValueError, TypeError):
        return None
    raise ValueError(t)


def must_honour_field(sel, n, names=None):
    """selector forms the property promises: name, index, ascending index list, forward slice"""
    m = meaning(sel, n, names)
    if m is None:
        return False
    t, v = sel["t"], sel["v"]
    if t in ("name", "int"):
        return True
    if t == "names":
        idx = m[1]
        return all(a < b for a, b in zip(idx, idx[1:]))
    if t == "slice":
        return (v[2] is None or v[2] > 0) and len(m[1]) > 0
    if t in ("list", "ndarray"):
        idx = m[1]
        return len(idx) > 0 and all(a < b for a, b in zip(idx, idx[1:]))
    return False


def to_driver(sel, names=None):
    """farg for the model driver: int | list | {start,stop,step}; None when the model has no form"""
    t, v = sel["t"], sel["v"]
    if t == "int":
        return int(v)
    if t == "name":
        return None if names is None or v not in names else int(names[v])
    if t == "names":
        if names is None or any(x not in names for x in v):
            return None
        return [int(names[x]) for x in v]
    if t == "slice":
        return {"start": v[0], "stop": v[1], "step": v[2]}
    if t in ("list", "ndarray"):
        return [int(x) for x in v]
    return None


def box_to_driver(sel):
    """the box selector for the model driver's `boxsel` operation (`BoxSel.positions`); None when the model has no form"""
    t, v = sel["t"], sel["v"]
    if t == "int":
        return {"t": "int", "v": int(v)}
    if t == "slice":
        return {"t": "slice", "v": [None if x is None else int(x) for x in v]}
    if t in ("list", "ndarray"):
        return {"t": "list", "v": [int(x) for x in v]}
    if t in ("mask", "lmask"):
        return {"t": "mask", "v": [bool(x) for x in v]}
    return None


def field_selectors(rng, nf, names, exhaustive=True, budget=200):
    """structured field selectors for nf fields"""
    out = []
    for i in range(-nf - 1, nf + 1):
        out.append({"t": "int", "v": i})
    for nm in names:
        out.append({"t": "name", "v": nm})
    out.append({"t": "name", "v": "no_such_field"})
    ab = [None] + list(range(-nf - 1, nf + 2))
    steps = [None, 1, 2, 3, -1, -2]
    sl = [{"t": "slice", "v": [a, b, c]} for a in ab for b in ab for c in steps]
    lists = []
    idx = list(range(nf))
    for k in range(1, min(nf, 3) + 1):
        import itertools
        for comb in itertools.permutations(idx, k):
            lists.append({"t": "list", "v": list(comb)})
    lists += [{"t": "list", "v": [0, 0]}, {"t": "list", "v": [-1]}, {"t": "list", "v": [0, -1]},
              {"t": "list", "v": [nf]}, {"t": "list", "v": []}, {"t": "list", "v": [-nf]},
              {"t": "ndarray", "v": list(range(0, nf, 2))}, {"t": "ndarray", "v": [nf - 1]},
              {"t": "mask", "v": [i % 2 == 0 for i in range(nf)]},
              {"t": "names", "v": list(names)[: max(1, nf - 1)]},
              {"t": "names", "v": list(names)[::-1]}]
    if nf >= 2:
        lists.append({"t": "names", "v": [list(names)[0], list(names)[-1]]})
    far = []
    if nf >= 10:
        # a few fields far apart in the record (the span is many times the number of fields asked for)
        far = [{"t": "list", "v": [0, nf - 1]}, {"t": "list", "v": [1, nf - 1]}, {"t": "ndarray", "v": [0, nf - 2, nf - 1]},
               {"t": "names", "v": [list(names)[0], list(names)[-1]]}, {"t": "list", "v": [nf - 1, 0]}]
    if exhaustive:
        return out + sl + lists + far
    rng.shuffle(sl); rng.shuffle(lists)
    return out + far + sl[:budget] + lists[: max(10, budget // 4)]


def box_selectors(rng, nb):
    out = [{"t": "int", "v": 0}, {"t": "int", "v": nb - 1}, {"t": "int", "v": -1}, {"t": "int", "v": nb},
           {"t": "slice", "v": [None, None, None]}, {"t": "slice", "v": [None, None, 2]},
           {"t": "slice", "v": [None, None, -1]}, {"t": "slice", "v": [1, None, None]},
           {"t": "slice", "v": [nb, None, None]},
           {"t": "list", "v": list(range(nb))[::-1]}, {"t": "list", "v": []},
           {"t": "list", "v": [0, 0]}, {"t": "list", "v": [-1, 0]},
           {"t": "ndarray", "v": list(range(0, nb, 2))},
           {"t": "mask", "v": [i % 2 == 1 for i in range(nb)]},
           {"t": "mask", "v": [True] * nb}, {"t": "mask", "v": [False] * nb},
           {"t": "lmask", "v": [i % 2 == 0 for i in range(nb)]}, {"t": "lmask", "v": [i % 3 != 1 for i in range(nb)]}]
    if nb > 2:
        # orders that are not their own inverse (a cyclic shift, a shift by two), with and without a box named twice
        out += [{"t": "list", "v": list(range(1, nb)) + [0]}, {"t": "ndarray", "v": list(range(2, nb)) + [0, 1]},
                {"t": "list", "v": [nb - 1, 0, 1][:nb]}, {"t": "list", "v": [1, 0, 1]}, {"t": "list", "v": [-1, 1, 0]}]
        p = list(range(nb)); rng.shuffle(p)
        out.append({"t": "list", "v": p[: max(1, nb // 2)]})
        out.append({"t": "int", "v": rng.randrange(nb)})
    return out
