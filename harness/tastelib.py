"""Shared machinery of C03 / C04 / C20: in-memory plotfile trees, corruption operators,
the real validator, the whole-plotfile model request, read-back after acceptance."""
import os, re, hashlib, json
import numpy as np
from . import pools
from .common import quiet, alarm, CaseTimeout


# --------------------------------------------------------------------------- trees

def snapshot(path):
    tree = {}
    for root, _, files in os.walk(path):
        for fn in files:
            p = os.path.join(root, fn)
            tree[os.path.relpath(p, path)] = open(p, "rb").read()
    return tree


def write_tree(tree, path, pristine=None, pristine_tree=None):
    """materialise a tree; files identical to the pristine directory are hard-linked"""
    os.makedirs(path)
    for rel, data in tree.items():
        dst = os.path.join(path, rel)
        os.makedirs(os.path.dirname(dst), exist_ok=True)
        if pristine is not None and pristine_tree is not None and pristine_tree.get(rel) is data:
            os.link(os.path.join(pristine, rel), dst)
        else:
            with open(dst, "wb") as f:
                f.write(data)
    # empty level directories of the pristine tree are kept as directories
    if pristine_tree is not None:
        for rel in pristine_tree:
            d = os.path.dirname(rel)
            if d:
                os.makedirs(os.path.join(path, d), exist_ok=True)


# --------------------------------------------------------------------------- views of a well-formed tree

def level_view(tree, lv):
    """parse the level header of a *pristine* tree: lines, index lines, FabOnDisk lines"""
    text = tree[f"Level_{lv}/Cell_H"].decode()
    lines = text.split("\n")
    n = int(lines[4].split()[0][1:])
    return {"lines": lines, "n": n, "box0": 5, "fab0": 7 + n, "min0": 9 + 2 * n, "max0": 11 + 3 * n}


def fab_sites(tree, lv):
    """(file rel path, offset, header length, payload length, box id) of every box of a pristine level"""
    v = level_view(tree, lv)
    out = []
    for b in range(v["n"]):
        _, fname, off = v["lines"][v["fab0"] + b].split()
        rel = f"Level_{lv}/{fname}"
        off = int(off)
        data = tree[rel]
        end = data.index(b"\n", off) + 1
        hdr = data[off:end]
        m = re.search(rb"\(\(([-\d,]+)\) \(([-\d,]+)\) \(([-\d,]+)\)\) (\d+)\n$", hdr)
        lo = [int(x) for x in m.group(1).split(b",")]; hi = [int(x) for x in m.group(2).split(b",")]
        nf = int(m.group(4))
        pay = int(np.prod([h - l + 1 for l, h in zip(lo, hi)])) * nf * 8
        out.append({"file": rel, "off": off, "hlen": end - off, "pay": pay, "box": b, "lo": lo, "hi": hi, "nf": nf})
    return out


# --------------------------------------------------------------------------- corruption operators
# each op: dict(op=..., params...) -> applied to a tree; `fault` = True when the result certainly
# exhibits a fault class listed in C04 within level `lv` (None = possibly benign)

def _edit(tree, rel, fn):
    t = dict(tree)
    t[rel] = fn(tree[rel])
    return t


def apply_op(tree, op):
    k = op["op"]
    if k == "remove_file":
        t = dict(tree); del t[op["file"]]; return t
    if k == "truncate":
        return _edit(tree, op["file"], lambda d: d[: len(d) - op["n"]])
    if k == "truncate_to":
        return _edit(tree, op["file"], lambda d: d[: op["n"]])
    if k == "extend":
        return _edit(tree, op["file"], lambda d: d + bytes(op["n"]))
    if k == "insert":
        return _edit(tree, op["file"], lambda d: d[: op["pos"]] + bytes.fromhex(op.get("hex", "00" * op.get("n", 8))) + d[op["pos"]:])
    if k == "delete_bytes":
        return _edit(tree, op["file"], lambda d: d[: op["pos"]] + d[op["pos"] + op["n"]:])
    if k == "replace_bytes":
        new = bytes.fromhex(op["hex"])
        return _edit(tree, op["file"], lambda d: d[: op["pos"]] + new + d[op["pos"] + op["n"]:])
    if k in ("line_delete", "line_dup", "line_set"):
        def f(d):
            lines = d.decode().split("\n")
            i = op["line"]
            if k == "line_delete":
                del lines[i]
            elif k == "line_dup":
                lines.insert(i, lines[i])
            else:
                lines[i] = op["text"]
            return "\n".join(lines).encode()
        return _edit(tree, op["file"], f)
    if k == "remove_dir":
        return {r: d for r, d in tree.items() if not r.startswith(op["dir"] + "/")}
    raise ValueError(k)


def apply_ops(tree, ops):
    for op in ops:
        tree = apply_op(tree, op)
    return tree


def enumerate_ops(tree, nlev, rng, ndims, nf, full=True):
    """corruption instances for a pristine tree: list of (op, level, fault, class)"""
    out = []
    z = ",".join("0" for _ in range(ndims))
    for lv in range(nlev):
        v = level_view(tree, lv)
        sites = fab_sites(tree, lv)
        ch = f"Level_{lv}/Cell_H"
        files = sorted({s["file"] for s in sites})
        for f in files:
            out.append(({"op": "remove_file", "file": f}, lv, True, "missing-file"))
            ln = len(tree[f])
            for n in (1, 7, 8, 64):
                if n < ln:
                    out.append(({"op": "truncate", "file": f, "n": n}, lv, True, "truncated"))
            out.append(({"op": "truncate_to", "file": f, "n": 0}, lv, True, "truncated"))
            for n in (1, 8, 40):
                out.append(({"op": "extend", "file": f, "n": n}, lv, True, "extended"))
        for s in sites:
            f = s["file"]
            p0 = s["off"] + s["hlen"]
            # payload insertions / deletions (start, middle, end of the payload)
            for pos in sorted({p0, p0 + (s["pay"] // 16) * 8, p0 + s["pay"]}):
                out.append(({"op": "insert", "file": f, "pos": pos, "n": 8}, lv, True, "inserted"))
                if pos + 8 <= p0 + s["pay"]:
                    out.append(({"op": "delete_bytes", "file": f, "pos": pos, "n": 8}, lv, True, "removed"))
            out.append(({"op": "insert", "file": f, "pos": p0 + 8, "n": 1}, lv, True, "inserted"))
            out.append(({"op": "delete_bytes", "file": f, "pos": p0, "n": 3}, lv, True, "removed"))
            # FAB header text edits
            hdr = tree[f][s["off"]: s["off"] + s["hlen"]]
            def newhdr(lo, hi, nfv):
                return (hdr[: hdr.rindex(b"((")] + f"(({','.join(map(str, lo))}) ({','.join(map(str, hi))}) ({z})) {nfv}\n".encode())
            def rep(h, fault, cls):
                out.append(({"op": "replace_bytes", "file": f, "pos": s["off"], "n": s["hlen"], "hex": h.hex()}, lv, fault, cls))
            rep(newhdr(s["lo"], s["hi"], s["nf"] + 1), True, "fab-nfields")
            if s["nf"] > 1:
                rep(newhdr(s["lo"], s["hi"], s["nf"] - 1), True, "fab-nfields")
            # a FAB that is consistent in itself (header and payload agree) but holds another number of components
            # than the plotfile: one component less / one more, payload resized with the header
            per = s["pay"] // s["nf"] if s["nf"] else 0
            body = tree[f][p0: p0 + s["pay"]]
            if s["nf"] > 1:
                out.append(({"op": "replace_bytes", "file": f, "pos": s["off"], "n": s["hlen"] + s["pay"],
                             "hex": (newhdr(s["lo"], s["hi"], s["nf"] - 1) + body[: per * (s["nf"] - 1)]).hex()}, lv, True, "fab-ncomp-consistent"))
            out.append(({"op": "replace_bytes", "file": f, "pos": s["off"], "n": s["hlen"] + s["pay"],
                         "hex": (newhdr(s["lo"], s["hi"], s["nf"] + 1) + body + body[:per]).hex()}, lv, True, "fab-ncomp-consistent"))
            rep(newhdr([x + 2 for x in s["lo"]], [x + 2 for x in s["hi"]], s["nf"]), True, "fab-index-shift")
            hi2 = list(s["hi"]); hi2[0] += 1
            rep(newhdr(s["lo"], hi2, s["nf"]), True, "fab-shape")
            hi3 = list(s["hi"]); hi3[-1] += 2
            rep(newhdr(s["lo"], hi3, s["nf"]), True, "fab-shape")
            rep(hdr.replace(b"FAB ", b"FAB  ", 1), None, "fab-whitespace")
            rep(hdr.replace(b"FAB ((8, (64 11", b"fab ((9, (12 34", 1), None, "fab-prefix-text")
            rep(b"garbage line\n", True, "fab-garbled")
            # level-header entry edits
            li = v["fab0"] + s["box"]
            fname = os.path.basename(f)
            out.append(({"op": "line_delete", "file": ch, "line": li}, lv, True, "cellh-entry-deleted"))
            out.append(({"op": "line_set", "file": ch, "line": li, "text": "garbled"}, lv, True, "cellh-entry-garbled"))
            out.append(({"op": "line_set", "file": ch, "line": li, "text": f"FabOnDisk: {fname} x{s['off']}"}, lv, True, "cellh-offset-unparsable"))
            # an entry that is not the three tokens `FabOnDisk: <file> <offset>` although its last two tokens are a file and an offset
            out.append(({"op": "line_set", "file": ch, "line": li, "text": f"{fname} {s['off']}"}, lv, True, "cellh-entry-tag-missing"))
            out.append(({"op": "line_set", "file": ch, "line": li, "text": f"FabOnDisk: junk {fname} {s['off']}"}, lv, True, "cellh-entry-extra-token"))
            out.append(({"op": "line_set", "file": ch, "line": li, "text": f"FabOnDisk: Cell_D_09999 {s['off']}"}, lv, True, "cellh-missing-file"))
            others = [g for g in files if g != f]
            if others:
                out.append(({"op": "line_set", "file": ch, "line": li, "text": f"FabOnDisk: {os.path.basename(others[0])} {s['off']}"}, lv, True, "cellh-other-file"))
            for d in (s["hlen"] + 8, s["hlen"] + s["pay"] // 2 - (s["pay"] // 2) % 8 + 8, -8, -s["hlen"], 10 ** 9):
                no = s["off"] + d
                if no < 0:
                    continue
                # a definite fault only when the new position is after this box's header line: a position
                # in the preceding payload can still reach the header (the line read from there ends with it)
                out.append(({"op": "line_set", "file": ch, "line": li, "text": f"FabOnDisk: {fname} {no}"}, lv,
                            True if d > 0 else None, "cellh-offset-off-header" if d > 0 else "cellh-offset-before-header"))
            # the position recorded for another box of the same file (the FAB there names another range)
            for t in sites:
                if t["file"] == f and t["box"] != s["box"]:
                    out.append(({"op": "line_set", "file": ch, "line": li, "text": f"FabOnDisk: {fname} {t['off']}"}, lv, True,
                                "cellh-offset-of-other-box"))
            for d in (1, 5, s["hlen"] - 20):
                if 0 < d < s["hlen"]:
                    out.append(({"op": "line_set", "file": ch, "line": li, "text": f"FabOnDisk: {fname} {s['off'] + d}"}, lv, None, "cellh-offset-inside-header"))
            out.append(({"op": "line_set", "file": ch, "line": li, "text": f"FabOnDisk:   {fname}    {s['off']}  "}, lv, None, "cellh-whitespace"))
            bi = v["box0"] + s["box"]
            out.append(({"op": "line_delete", "file": ch, "line": bi}, lv, True, "cellh-box-deleted"))
            out.append(({"op": "line_set", "file": ch, "line": bi, "text": "((a,b) (c,d))"}, lv, True, "cellh-box-garbled"))
            lo2 = [x + 2 for x in s["lo"]]; hi2 = [x + 2 for x in s["hi"]]
            out.append(({"op": "line_set", "file": ch, "line": bi,
                         "text": f"(({','.join(map(str, lo2))}) ({','.join(map(str, hi2))}) ({z}))"}, lv, True, "cellh-index-mismatch"))
            hi4 = list(s["hi"]); hi4[0] += 1
            out.append(({"op": "line_set", "file": ch, "line": bi,
                         "text": f"(({','.join(map(str, s['lo']))}) ({','.join(map(str, hi4))}) ({z}))"}, lv, True, "cellh-index-mismatch"))
            out.append(({"op": "line_set", "file": ch, "line": bi,
                         "text": f"(({','.join(map(str, s['lo']))})   ({','.join(map(str, s['hi']))})   ({z}))"}, lv, None, "cellh-whitespace"))
        # whole-header edits
        out.append(({"op": "remove_file", "file": ch}, lv, True, "cellh-missing"))
        out.append(({"op": "remove_dir", "dir": f"Level_{lv}"}, lv, True, "level-dir-missing"))
        out.append(({"op": "line_set", "file": ch, "line": 2, "text": str(nf + 1)}, lv, True, "cellh-nfields"))
        out.append(({"op": "line_set", "file": ch, "line": 4, "text": f"({v['n'] + 1} 0"}, lv, True, "cellh-count"))
        out.append(({"op": "line_set", "file": ch, "line": v["min0"], "text": "junk,"}, lv, None, "cellh-minmax"))
    if not full:
        rng.shuffle(out)
    return out


# --------------------------------------------------------------------------- real validator

def real_taste(path, limit=None, nofail=False, cli=False, **opts):
    """(good, raised exception name or None); cli: through the console script `taste` (its argument parsing and option
    defaults included; the verdict is the truth value of the validator object the script builds)"""
    from amr_kitchen.taste.taste import Taster
    try:
        with alarm(120), quiet(), pools.controlled():
            if cli:
                import amr_kitchen.taste.cli as tcli
                from . import tools
                argv = ["taste", path, "-v", "0"]
                if limit is not None: argv += ["-l", str(limit)]
                if not opts.get("binary_headers", True): argv.append("-nh")
                if not opts.get("binary_shape", True): argv.append("-ns")
                if opts.get("binary_data", False): argv.append("-bd")
                if opts.get("boxes_coordinates", False): argv.append("-bc")
                if nofail: argv.append("-nf")
                made = []
                orig = tcli.Taster

                def recording(*a, **k):
                    t = orig(*a, **k); made.append(t); return t
                tcli.Taster = recording
                try:
                    tools.run_main("amr_kitchen.taste.cli", argv)
                finally:
                    tcli.Taster = orig
                return (bool(made[-1]) if made else False), None
            t = Taster(path, limit_level=limit, nofail=nofail, verbose=0, **opts)
            return bool(t), None
    except CaseTimeout:
        return False, "TIMEOUT"
    except BaseException as e:      # SystemExit included: a validator must not exit
        if isinstance(e, KeyboardInterrupt):
            raise
        return False, type(e).__name__


# --------------------------------------------------------------------------- model request

class ModelBatch:
    """collects file contents (sent once, keyed by hash) and taste_plt requests"""
    def __init__(self):
        self.reqs = []
        self.sent = set()

    def key(self, data):
        h = hashlib.sha1(data).hexdigest()
        if h not in self.sent:
            self.sent.add(h)
            self.reqs.append({"op": "file", "name": h, "hex": data.hex()})
        return h

    def taste(self, tree, limit=None, headers=True, shape=True):
        dirs = {}
        for rel, data in tree.items():
            d, fn = os.path.split(rel)
            if not d:
                continue
            e = dirs.setdefault(d, {"cellh": None, "files": {}})
            if fn == "Cell_H":
                e["cellh"] = self.key(data)
            else:
                e["files"][fn] = self.key(data)
        r = {"op": "taste_plt", "header": self.key(tree.get("Header", b"")), "dirs": dirs,
             "headers": headers, "shape": shape}
        if limit is not None:
            r["limit"] = limit
        self.reqs.append(r)
        return len(self.reqs) - 1


    def wf(self, tree, n):
        """request for the driver's well-formedness certificate `Taste.pltWFB` of the plotfile `tree` with the levels
        0..n-1 looked at (hypothesis of the completeness theorem `C03.well_formed_accepted`); None when the tree does
        not have the line structure of the renderers at all"""
        from .writers import header_request
        content = header_request(tree.get("Header", b"").decode("latin1"))
        if content is None:
            return None
        content = dict(content); content.pop("op", None)
        level_content = []
        for l in content["levels"]:
            text = tree.get(l["dir"] + "/Cell_H")
            if text is None:
                return None
            L = text.decode("latin1").split("\n")
            try:
                N = int(L[4].split()[0].lstrip("("))
                rows = []
                for k in range(N):
                    a, b, _ = L[5 + k].split()
                    f = L[7 + N + k].split()
                    rows.append({"lo": [int(x) for x in a.strip("()").split(",")], "hi": [int(x) for x in b.strip("()").split(",")],
                                 "file": f[1], "offset": int(f[2])})
                level_content.append({"rows": rows, "extra": L[8 + 2 * N:]})
            except (ValueError, IndexError):
                return None
        dirs = {}
        for rel, data in tree.items():
            d, fn = os.path.split(rel)
            if not d:
                continue
            e = dirs.setdefault(d, {"cellh": None, "files": {}})
            if fn == "Cell_H":
                e["cellh"] = self.key(data)
            else:
                e["files"][fn] = self.key(data)
        self.reqs.append({"op": "wf_plt", "content": content, "n": n, "level_content": level_content,
                          "header": self.key(tree.get("Header", b"")), "dirs": dirs})
        return len(self.reqs) - 1


def wf_certificate(path, leanio, nlev=None):
    """Does the plotfile at `path` (as bytes on disk) pass the Lean well-formedness certificate `Taste.pltWFB` for all its
    levels?  Then `C03.certificate_sound` says the validator model reports it good for every admissible limit and both
    binary options.  Returns None when it passes, otherwise what does not (for a header with repeated names: 'names')."""
    tree = snapshot(path)
    b = ModelBatch()
    from .writers import header_request
    content = header_request(tree.get("Header", b"").decode("latin1"))
    if content is None:
        return "no line structure"
    if len(set(content["names"])) != len(content["names"]):
        return "names"
    n = len(content["levels"]) if nlev is None else nlev
    i = b.wf(tree, n)
    if i is None:
        return "no line structure"
    r = leanio.driver(b.reqs)[i]
    return None if r.get("wf") is True else f"certificate fails: {r}"


# --------------------------------------------------------------------------- reading after acceptance (C20)

def named_fab(data, lo, hi):
    """payload positions of the FABs of a binary file whose header names the range lo..hi: [(pos, nf)]"""
    pat = (rb"\(\(" + ",".join(map(str, lo)).encode() + rb"\)\s+\(" + ",".join(map(str, hi)).encode() +
           rb"\)\s+\([-\d,]+\)\)\s+(\d+)\s*\n")
    return [(m.end(), int(m.group(1))) for m in re.finditer(pat, data)]


def read_back(path, tree, limit=None):
    """reads every box of every validated level through the indexing interface (all fields) and
    compares with the FAB whose header names the box's range.  Returns list of problems."""
    from amr_kitchen import PlotfileCooker
    bad = []
    try:
        with quiet():
            pck = PlotfileCooker(path, limit_level=limit)
    except Exception as e:
        return [f"accepted plotfile cannot be opened: {type(e).__name__}: {e}"]
    nf = len(pck.fields)
    stray = 0
    for lv in range(pck.limit_level + 1):
        c = pck.cells[lv]
        nb = len(c["indexes"])
        if nb >= 3 and not bad:
            # several boxes through one list selection whose order is not its own inverse (a cyclic shift), against the
            # same boxes read one by one
            order = list(range(1, nb)) + [0]
            try:
                with quiet(), pools.controlled():
                    many = pck[:][lv][order]
                    single = [pck[:][lv][b] for b in order]
            except Exception as e:
                bad.append(f"level {lv}: read of the box list {order} raised {type(e).__name__}: {e}")
                many = single = []
            if len(many) != len(single) or any(np.asarray(a).shape != np.asarray(b_).shape or np.asarray(a).tobytes() != np.asarray(b_).tobytes()
                                                for a, b_ in zip(many, single)):
                bad.append(f"level {lv}: the box list {order} returns other data than the same boxes read one by one")
        for b in range(nb):
            lo = [int(x) for x in c["indexes"][b][0]]; hi = [int(x) for x in c["indexes"][b][1]]
            shape = [h - l + 1 for l, h in zip(lo, hi)]
            rel = os.path.relpath(c["files"][b], path)
            try:
                with quiet():
                    arr = pck[:][lv][b]
            except Exception as e:
                bad.append(f"level {lv} box {b}: read raised {type(e).__name__}: {e}")
                continue
            if list(arr.shape) != shape + [nf]:
                bad.append(f"level {lv} box {b}: shape {list(arr.shape)} != declared {shape + [nf]}")
                continue
            cands = named_fab(tree.get(rel, b""), lo, hi)
            if len(cands) != 1:
                stray += 1
                if len(cands) == 0:
                    bad.append(f"level {lv} box {b}: no FAB header in {rel} names {lo}..{hi}")
                continue
            pos, fnf = cands[0]
            n = int(np.prod(shape)) * nf * 8
            # the FAB's payload runs to the next FAB header of the file (or to its end)
            nxt = re.search(rb"FAB \(\(", tree[rel][pos:])
            extent = nxt.start() if nxt else len(tree[rel]) - pos
            if extent != n:
                bad.append(f"level {lv} box {b}: the FAB whose header names {lo}..{hi} holds {extent} payload bytes, "
                           f"the reader returns {n} bytes as its values")
                continue
            want = tree[rel][pos: pos + n]
            if len(want) != n or arr.flatten(order="F").tobytes() != want:
                bad.append(f"level {lv} box {b}: values differ from the FAB whose header names {lo}..{hi}")
                continue
            # the same box through a single-field selector (index or name, rotating over the fields) and a list selector
            k = (lv + b) % nf
            fsel = k if (lv + b) % 2 == 0 else list(pck.fields)[k]
            for sel, wshape, wdata in ((fsel, shape, arr[..., k]), ([k], shape + [1], arr[..., [k]])):
                try:
                    with quiet():
                        one = np.asarray(pck[sel][lv][b])
                except Exception as e:
                    bad.append(f"level {lv} box {b}: read of field selection {sel!r} raised {type(e).__name__}: {e}")
                    break
                if list(one.shape) != wshape:
                    bad.append(f"level {lv} box {b}: field selection {sel!r} has shape {list(one.shape)} != declared {wshape}")
                    break
                if one.tobytes() != np.ascontiguousarray(wdata).tobytes():
                    bad.append(f"level {lv} box {b}: field selection {sel!r} holds other values than the FAB")
                    break
            else:
                # the same validated level addressed from the end (Python's negative index over the levels read)
                if (lv + b) % 3 == 0:
                    neg = lv - (pck.limit_level + 1)
                    try:
                        with quiet():
                            again = np.asarray(pck[:][neg][b])
                    except Exception as e:
                        bad.append(f"level {lv} box {b}: read through the level key {neg} raised {type(e).__name__}: {e}")
                        continue
                    if again.shape != arr.shape or again.tobytes() != np.asarray(arr).tobytes():
                        bad.append(f"level {lv} box {b}: the level key {neg} returns other data than the key {lv}")
    return bad


def read_back_through_validator(path, limit=None):
    """the validator object is itself a reader: after it has accepted the directory, every box read through THAT object is
    the box a fresh reader returns under the same number (same index range, same values).  Returns a list of problems."""
    from amr_kitchen import PlotfileCooker
    from amr_kitchen.taste.taste import Taster
    bad = []
    try:
        with alarm(120), quiet(), pools.controlled():
            t = Taster(path, limit_level=limit, verbose=0)
            if not bool(t):
                return []
            fresh = PlotfileCooker(path, limit_level=limit)
            for lv in range(fresh.limit_level + 1):
                nb = len(fresh.cells[lv]["indexes"])
                if not np.array_equal(np.asarray(t.cells[lv]["indexes"]), np.asarray(fresh.cells[lv]["indexes"])):
                    bad.append(f"level {lv}: the validator object lists the boxes in another order than a fresh reader")
                for b in range(nb):
                    a1 = np.asarray(t[:][lv][b]); a2 = np.asarray(fresh[:][lv][b])
                    if a1.shape != a2.shape or a1.tobytes() != a2.tobytes():
                        bad.append(f"level {lv} box {b}: read through the validator object that accepted the directory, the box differs from a fresh reader's")
                        break
    except CaseTimeout:
        bad.append("reading through the validator object did not finish")
    except Exception as e:
        bad.append(f"reading through the validator object raised {type(e).__name__}: {e}")
    return bad


def coords_model_verdict(path, leanio, limit=None):
    """verdict ("good" | "bad" | "raises") of the Lean model of taste's box-coordinate validation (`TasteCoords.axisOK`, exact
    rationals of the header's floats) on the plotfile at `path`; None when the headers cannot be read by the oracle"""
    from fractions import Fraction as Fr
    from . import oracle
    J = lambda x: [Fr(x).numerator, Fr(x).denominator]
    try:
        P = oracle.parse(path, maxmins=False, data=False)
    except Exception:
        return None
    L = P["finest"] if limit is None else limit
    nd = P["ndims"]
    reqs = []
    for lv in range(L + 1):
        lev = P["levels"][lv]
        try:
            axes = [{"lo": J(P["lo"][d]), "hi": J(P["hi"][d]), "dx": J(P["dx"][lv][d]), "n": P["grid"][lv][d]} for d in range(nd)]
            boxes = [{"i0": lo, "i1": hi, "blo": [J(pb[d][0]) for d in range(nd)], "bhi": [J(pb[d][1]) for d in range(nd)]}
                     for (lo, hi), pb in zip(lev["idx"], lev["pboxes"])]
        except (ValueError, OverflowError, IndexError):
            return None            # nan / inf bounds have no rational value
        reqs.append({"op": "coords_ok", "axes": axes, "boxes": boxes})
    vs = [m.get("verdict") for m in leanio.driver(reqs)]
    if any(v is None for v in vs):
        return None
    return "raises" if "raises" in vs else ("bad" if "bad" in vs else "good")


# --------------------------------------------------------------------------- binary data / true extrema (Lean model TasteData)

def vjson(x):
    """a float as the driver's `Extrema.V`: "nan" | "inf" | "-inf" | exact [numerator, denominator]"""
    from fractions import Fraction as Fr
    x = float(x)
    if x != x:
        return "nan"
    if x in (float("inf"), float("-inf")):
        return "inf" if x > 0 else "-inf"
    f = Fr(x)
    return [f.numerator, f.denominator]


def _level_dirs(tree, batch):
    dirs = {}
    for rel, data in tree.items():
        d, fn = os.path.split(rel)
        if not d:
            continue
        e = dirs.setdefault(d, {"cellh": None, "files": {}})
        if fn == "Cell_H":
            e["cellh"] = batch.key(data)
        else:
            e["files"][fn] = batch.key(data)
    return dirs


def data_model_verdict(path, leanio, limit=None):
    """verdict ("good" | "bad" | "crash") of the Lean model of taste's binary-data validation (`TasteData.levelOK`: the
    sequential scan of every binary file against the min / max rows sorted by offset, `np.isclose(equal_nan=True)` over the
    exact values of the bit patterns) on the plotfile at `path`; None when the oracle cannot read the headers"""
    from . import oracle
    try:
        P = oracle.parse(path, maxmins=True, data=False)
    except Exception:
        return None
    tree = snapshot(path)
    b = ModelBatch()
    dirs = _level_dirs(tree, b)
    L = P["finest"] if limit is None else limit
    nf = len(P["fields"])
    idx = []
    for lv in range(L + 1):
        lev = P["levels"][lv]
        d = dirs.get(lev["cdir"])
        if d is None or d["cellh"] is None:
            return None
        b.reqs.append({"op": "taste_data", "cellh": d["cellh"], "nfields": nf, "fields": list(range(nf)), "files": d["files"],
                       "mins": [[vjson(x) for x in r] for r in lev["mins"]], "maxs": [[vjson(x) for x in r] for r in lev["maxs"]]})
        idx.append(len(b.reqs) - 1)
    rs = leanio.driver(b.reqs)
    vs = [rs[i].get("verdict") for i in idx]
    if any(v is None for v in vs):
        return None
    for v in vs:
        if v != "good":
            return v
    return "good"


def rows_model_check(path, leanio, limit=None):
    """Are the min / max rows of every level header of the plotfile at `path` the *true extrema* of the stored data, as the Lean
    model computes them from the bytes of every FAB (`TasteData.fabRows`: np.min / np.max over the exact values of the bit
    patterns, NaN absorbing)?  Returns (number of rows compared, list of differences); None when the oracle cannot read it"""
    from . import oracle
    try:
        P = oracle.parse(path, maxmins=True, data=False)
    except Exception:
        return None
    tree = snapshot(path)
    b = ModelBatch()
    L = P["finest"] if limit is None else limit
    want = []
    for lv in range(L + 1):
        lev = P["levels"][lv]
        for fn in sorted({f for f, _ in lev["fab"]}):
            data = tree.get(lev["cdir"] + "/" + fn)
            if data is None:
                return None
            k = b.key(data)
            b.reqs.append({"op": "fab_rows", "name": k})
            want.append((lv, fn, len(b.reqs) - 1))
    rs = leanio.driver(b.reqs)
    n, bad = 0, []
    for lv, fn, i in want:
        lev = P["levels"][lv]
        byidx = {(tuple(lo), tuple(hi)): bi for bi, (lo, hi) in enumerate(lev["idx"]) if lev["fab"][bi][0] == fn}
        seen = set()
        for fab in rs[i].get("fabs", []):
            bi = byidx.get((tuple(fab["lo"]), tuple(fab["hi"])))
            if bi is None:
                continue
            seen.add(bi)
            if fab["rows"] is None:
                bad.append(f"level {lv} box {bi}: the model has no extrema"); continue
            for f, (mn, mx) in enumerate(fab["rows"]):
                n += 1
                hm, hM = vjson(lev["mins"][bi][f]), vjson(lev["maxs"][bi][f])
                if hm != mn:
                    bad.append(f"level {lv} box {bi} field {f}: recorded minimum {lev['mins'][bi][f]!r} is not the minimum of the stored values")
                if hM != mx:
                    bad.append(f"level {lv} box {bi} field {f}: recorded maximum {lev['maxs'][bi][f]!r} is not the maximum of the stored values")
        for bi in set(byidx.values()) - seen:
            bad.append(f"level {lv} box {bi}: not met by the sequential scan of {fn}")
    return n, bad
