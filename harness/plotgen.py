"""Independent writer of synthetic AMReX plotfiles (shares no code with amr_kitchen).

A *spec* is a JSON-serialisable dict; `materialize(spec, path)` writes the directory and
returns the ground truth {(level, box): ndarray[nx, ny(, nz), nfields]}.  Every random choice
comes from the `random.Random` handed in, so a spec (and hence a case) replays exactly.
"""
import os, itertools, struct
import numpy as np

FABHDR = "FAB ((8, (64 11 52 0 1 12 0 1023)),(8, (8 7 6 5 4 3 2 1)))"


def fab_header(lo, hi, nf):
    z = ",".join("0" for _ in lo)
    return (FABHDR + "((" + ",".join(map(str, lo)) + ") (" + ",".join(map(str, hi)) + ") (" + z + ")) " + f"{nf}\n").encode()


# --------------------------------------------------------------------------- mesh

def _merge_blocks(rng, blocks, B, ndims, mode):
    """blocks: set of block coordinates (units of B cells).  Returns boxes [(lo, hi)] in cells."""
    blocks = set(blocks)
    boxes = []
    if mode == "block":
        for b in sorted(blocks):
            lo = tuple(b[d] * B for d in range(ndims))
            boxes.append((lo, tuple(lo[d] + B - 1 for d in range(ndims))))
        return boxes
    if mode == "rect":
        # large rectangles: maximal runs along axis 0, then equal runs of adjacent rows (axis 1) stacked; such boxes
        # lie across the faces of the boxes of the coarser level and overhang them by more than their own size
        rows = {}
        for b in blocks:
            rows.setdefault(tuple(b[1:]), []).append(b[0])
        runs = {}
        for key, xs in rows.items():
            xs = sorted(xs); i = 0
            while i < len(xs):
                j = i
                while j + 1 < len(xs) and xs[j + 1] == xs[j] + 1:
                    j += 1
                runs.setdefault((xs[i], xs[j]) + tuple(key[1:]), []).append(key[0] if key else 0)
                i = j + 1
        for rk in sorted(runs):
            ys = sorted(runs[rk]); i = 0
            while i < len(ys):
                j = i
                while j + 1 < len(ys) and ys[j + 1] == ys[j] + 1 and ndims >= 2:
                    j += 1
                lo = [rk[0] * B] + ([ys[i] * B] if ndims >= 2 else []) + [c * B for c in rk[2:]]
                hi = [(rk[1] + 1) * B - 1] + ([(ys[j] + 1) * B - 1] if ndims >= 2 else []) + [(c + 1) * B - 1 for c in rk[2:]]
                boxes.append((tuple(lo), tuple(hi)))
                i = j + 1
        return boxes
    ax = mode  # merge along this axis
    rows = {}
    for b in blocks:
        key = tuple(b[d] for d in range(ndims) if d != ax)
        rows.setdefault(key, []).append(b[ax])
    for key in sorted(rows):
        xs = sorted(rows[key])
        i = 0
        while i < len(xs):
            j = i
            while j + 1 < len(xs) and xs[j + 1] == xs[j] + 1:
                j += 1
            # run xs[i..j]; cut into pieces of 1..3 blocks
            k = i
            while k <= j:
                ln = min(rng.choice([1, 1, 2, 2, 3]), j - k + 1)
                lo, hi = [], []
                kk = iter(key)
                for d in range(ndims):
                    if d == ax:
                        lo.append(xs[k] * B); hi.append((xs[k] + ln) * B - 1)
                    else:
                        c = next(kk)
                        lo.append(c * B); hi.append((c + 1) * B - 1)
                boxes.append((tuple(lo), tuple(hi)))
                k += ln
            i = j + 1
    return boxes


def random_mesh(rng, ndims, nlev, B=None, nblk=None, refine_p=0.4, single0=None):
    """Properly nested random mesh.  Returns (grid0, levels) with levels[l] = [(lo, hi)] cells."""
    if B is None:
        B = rng.choice([2, 4])
    if nblk is None:
        nblk = [rng.choice([1, 2, 3]) for _ in range(ndims)]
        if nlev > 1 and max(nblk) == 1:
            nblk[rng.randrange(ndims)] = 2
    grid0 = [n * B for n in nblk]
    cov = [set(itertools.product(*[range(n) for n in nblk]))]
    for l in range(1, nlev):
        prev = sorted(cov[-1])
        chosen = [b for b in prev if rng.random() < refine_p] or [rng.choice(prev)]
        if len(chosen) == len(prev) and len(prev) > 1 and rng.random() < 0.7:
            chosen.remove(rng.choice(chosen))
        fine = set()
        for b in chosen:
            for off in itertools.product((0, 1), repeat=ndims):
                fine.add(tuple(2 * b[d] + off[d] for d in range(ndims)))
        cov.append(fine)
    levels = []
    for l in range(nlev):
        if l == 0 and (single0 if single0 is not None else rng.random() < 0.25):
            boxes = [(tuple(0 for _ in range(ndims)), tuple(g - 1 for g in grid0))]
        else:
            mode = rng.choice(["block", "rect"] + list(range(ndims)) * 2)
            boxes = _merge_blocks(rng, cov[l], B, ndims, mode)
        rng.shuffle(boxes)
        levels.append([[list(lo), list(hi)] for lo, hi in boxes])
    return grid0, levels, B


def random_layout(rng, levels, kind=None):
    """per level, per box: [file number, order key]"""
    out = []
    for boxes in levels:
        n = len(boxes)
        k = kind or rng.choice(["mono", "perm", "files", "scatter", "scatter"])
        if k == "mono":
            lay = [[0, i] for i in range(n)]
        elif k == "perm":
            keys = list(range(n)); rng.shuffle(keys)
            lay = [[0, keys[i]] for i in range(n)]
        elif k == "files":
            nf = rng.randint(min(n, 2), min(n, 4))
            lay = [[rng.randrange(nf), i] for i in range(n)]
            if n >= 2:
                lay[0][0], lay[-1][0] = 1, 0
        else:
            nf = rng.randint(min(n, 2), min(n, 4))
            keys = list(range(n)); rng.shuffle(keys)
            lay = [[rng.randrange(nf), keys[i]] for i in range(n)]
            if n >= 2:
                lay[0][0], lay[-1][0] = 1, 0
        # file numbers used must be dense enough to be distinct names only; any set is fine
        if k in ("files", "scatter") and rng.random() < 0.25:
            # file numbers with more digits than the usual five (Cell_D_100000 next to Cell_D_10000 and Cell_D_99999)
            big = [10000, 99999, 100000, 100001, 1234567]
            rng.shuffle(big)
            lay = [[big[f % len(big)], key] for f, key in lay]
        out.append(lay)
    return out


FIELD_PROFILES = {
    "plain": ["alpha", "beta", "gamma", "delta", "eps", "zeta", "eta"],
    "pele": ["x_velocity", "y_velocity", "z_velocity", "density", "temp", "Y(H2)", "Y(O2)", "Y(N2)",
             "rhoh", "volFrac", "HeatRelease", "mag_vort"],
    "odd": ["a", "xa", "density", "a_2", "b b", "temp", "Y(OH)"],
}


def random_fields(rng, nf=None, profile=None, repeats=False):
    profile = profile or rng.choice(list(FIELD_PROFILES))
    names = list(FIELD_PROFILES[profile])
    if nf is None:
        nf = rng.randint(1, 6)
    rng.shuffle(names)
    out = names[:nf]
    while len(out) < nf:
        out.append(f"f{len(out)}")
    if repeats and nf >= 2:
        out[rng.randrange(1, nf)] = out[0]
        if nf >= 3 and rng.random() < 0.6:
            # the numbered form of the repeated name written literally, before or after the repetition
            # (the first free `name_k` must be searched, a per-name counter collides)
            k = rng.choice([i for i in range(1, nf) if out[i] != out[0]] or [1])
            out[k] = out[0] + "_2"
            if nf >= 4 and rng.random() < 0.5:
                j = rng.choice([i for i in range(1, nf) if i != k])
                out[j] = out[0]
    return out


def random_spec(rng, ndims=None, nlev=None, nf=None, exact=True, data="tags", layout=None,
                profile=None, repeats=False, B=None, nblk=None, origin=None, aniso=None,
                refine_p=0.4, single0=None, header_style=None, scale=None):
    """scale: None | "tiny" (cells of 1e-4 .. 1e-6: domain volumes below numpy's default absolute tolerance) |
    "far" (domain thousands of units from the coordinate origin, cells of a few thousandths: |x|/dx > 1e5) |
    "centred" (the coordinate origin lies on a box face in the middle of the domain)"""
    ndims = ndims or rng.choice([2, 3])
    nlev = nlev or rng.choice([1, 2, 2, 3])
    grid0, levels, B = random_mesh(rng, ndims, nlev, B=B, nblk=nblk, refine_p=refine_p, single0=single0)
    if exact:
        dxs = [0.125, 0.25, 0.5, 1.0, 0.75, 1.5]
        los = [0.0, 0.0, -2.0, 1.0, 0.25, -0.5, 3.0]
    else:
        dxs = [0.1, 0.3, 0.01, 1e-3, 0.7]
        los = [0.0, 0.1, -0.3, 1.7, -2.2]
    if aniso is None:
        aniso = rng.random() < 0.5
    d = rng.choice(dxs)
    dx0 = [rng.choice(dxs) if aniso else d for _ in range(ndims)]
    if origin is None:
        origin = rng.random() < 0.6
    geo_low = [rng.choice(los) if origin else 0.0 for _ in range(ndims)]
    if scale == "tiny":
        tiny = [2.0 ** -14, 2.0 ** -17] if exact else [1e-4, 3e-6, 2.5e-5]
        d = rng.choice(tiny)
        dx0 = [rng.choice(tiny) if aniso else d for _ in range(ndims)]
        geo_low = [rng.choice([0.0, dx0[k] * 3, -dx0[k] * 5]) if origin else 0.0 for k in range(ndims)]
    elif scale == "far":
        small = [2.0 ** -8, 2.0 ** -9] if exact else [0.004, 0.0025, 0.003]
        d = rng.choice(small)
        dx0 = [rng.choice(small) if aniso else d for _ in range(ndims)]
        geo_low = [rng.choice([1250.0, -830.5, 2400.25, 65536.0] if exact else [1250.1, -830.3, 2400.7, 1e5 + 0.1]) for _ in range(ndims)]
    elif scale == "centred":
        geo_low = [-(grid0[k] // 2) * dx0[k] for k in range(ndims)]
    spec = {
        "ndims": ndims,
        "fields": random_fields(rng, nf, profile, repeats),
        "time": rng.choice([0.0, 1.5, -0.25, 3e-7, 12.0, 1234.5678, 2.0]),
        "geo_low": geo_low,
        "dx0": dx0,
        "grid0": grid0,
        "block": B,
        "levels": levels,
        "layout": layout if isinstance(layout, list) else random_layout(rng, levels, layout),
        "data": {"mode": data, "seed": rng.randrange(1 << 30)},
        "header_style": header_style or rng.choice(["amrex", "amrex", "tight", "extra_ratio"]),
        "step": rng.choice([0, 7, 120]),
    }
    return spec


# --------------------------------------------------------------------------- payload

SPECIAL_BITS = [0x7ff8000000000000, 0x7ff0000000000000, 0xfff0000000000000, 0x8000000000000000,
                0x0000000000000001, 0x000fffffffffffff, 0x7fefffffffffffff, 0x7ff0000000000001]


def centres(spec, lv, lo, hi):
    """cell-centre coordinates of a box, per dimension"""
    out = []
    for d in range(spec["ndims"]):
        dx = spec["dx0"][d] / int(spec.get("ratio", 2)) ** lv
        out.append(spec["geo_low"][d] + (np.arange(lo[d], hi[d] + 1) + 0.5) * dx)
    return out


def affine_coeffs(spec, k):
    r = np.random.RandomState((spec["data"]["seed"] + 7919 * k) % (1 << 31))
    c0 = float(r.randint(-8, 9)) / 4
    c = [float(r.randint(-8, 9)) / 4 for _ in range(spec["ndims"])]
    return c0, c


def box_data(spec, lv, bid, k):
    """payload of field k of box bid at level lv, shape (nx, ny[, nz]); with data.covered_fill in {"nan", "inf", "mix"} the
    cells lying under a box of the next level hold non-finite filler (their values must never be used when that level is selected)"""
    out = _box_data(spec, lv, bid, k)
    if spec["data"].get("zero_boxes") and lv >= 1 and (bid + k + lv) % 2 == 0:
        # a box on which the field vanishes identically (+0.0 or -0.0) lying over non-zero coarser data
        out = np.full(np.shape(out), [0.0, -0.0][(bid + lv) % 2])
    fs = spec["data"].get("field_scale")
    if fs:
        out = np.asarray(out, dtype="float64") * fs[k % len(fs)]      # fields of very different magnitudes side by side
    pl = spec["data"].get("plant")
    if pl == "nan-fine" and lv >= 1 and (bid + k) % 2 == 0:
        # a NaN stored in cells of a fine box (lying over finite coarse data): it is data like any other value
        out = np.array(out, dtype="float64"); n_ = out.size
        out.flat[0] = np.nan; out.flat[n_ // 2] = np.nan
    if pl == "huge":
        # finite values beyond the largest single-precision number, and infinities, in a few cells
        out = np.array(out, dtype="float64"); n_ = out.size
        out.flat[0] = [1e40, -1e40, np.inf, -np.inf, 3.5e38][(bid + k + lv) % 5]
        out.flat[n_ // 2] = [np.inf, 1e300, -3.4028236e38][(bid + k) % 3]
    if pl == "fab-bytes" and k >= 1:
        # a finite value whose eight bytes hold the characters "FAB (" (no FAB header starts there: a header is a whole line)
        out = np.array(out, dtype="float64")
        out.flat[1 % out.size] = FAB_VALUE
    fill = spec["data"].get("covered_fill")
    if fill and lv + 1 < len(spec["levels"]):
        lo, hi = spec["levels"][lv][bid]
        nd = spec["ndims"]
        out = np.array(out, dtype="float64")
        for j, (flo, fhi) in enumerate(spec["levels"][lv + 1]):
            clo = [max(lo[d], flo[d] // 2) for d in range(nd)]
            chi = [min(hi[d], fhi[d] // 2) for d in range(nd)]
            if all(clo[d] <= chi[d] for d in range(nd)):
                v = {"nan": np.nan, "inf": np.inf, "mix": [np.nan, np.inf, -np.inf][(j + k + bid) % 3]}[fill]
                out[tuple(slice(clo[d] - lo[d], chi[d] - lo[d] + 1) for d in range(nd))] = v
    return out


def _box_data(spec, lv, bid, k):
    lo, hi = spec["levels"][lv][bid]
    nd = spec["ndims"]
    shape = [hi[d] - lo[d] + 1 for d in range(nd)]
    n = int(np.prod(shape))
    mode = spec["data"]["mode"]
    if mode == "tags":
        # unique, exactly representable, identifies (level, box, field, cell)
        base = ((lv * 1000 + bid) * 64 + k) * 100000
        return (base + np.arange(n, dtype="float64")).reshape(shape, order="F")
    if mode == "bits":
        r = np.random.RandomState((spec["data"]["seed"] + 1000003 * lv + 10007 * bid + 101 * k) % (1 << 31))
        bits = r.randint(0, 1 << 62, size=n, dtype=np.int64).astype(np.uint64) * np.uint64(4) + r.randint(0, 4, size=n).astype(np.uint64)
        for i in range(0, n, 5):
            bits[i] = np.uint64(SPECIAL_BITS[(i // 5 + bid + k) % len(SPECIAL_BITS)])
        return bits.view("float64").reshape(shape, order="F")
    if mode == "affine":
        c0, c = affine_coeffs(spec, k)
        ctr = centres(spec, lv, lo, hi)
        grids = np.meshgrid(*ctr, indexing="ij")
        out = np.full(shape, c0)
        for d in range(nd):
            out = out + c[d] * grids[d]
        return out
    if mode == "levelconst":
        # piecewise constant on level-0 cells (level-consistent): value of the level-0 cell tag
        idx = np.meshgrid(*[np.arange(lo[d], hi[d] + 1) // 2 ** lv for d in range(nd)], indexing="ij")
        g0 = spec["grid0"]
        lin = idx[0].astype("float64")
        mul = g0[0]
        for d in range(1, nd):
            lin = lin + idx[d] * mul
            mul *= g0[d]
        return lin * (k + 1) + 0.5 * k
    if mode == "positive":
        r = np.random.RandomState((spec["data"]["seed"] + 1000003 * lv + 10007 * bid + 101 * k) % (1 << 31))
        return (r.randint(1, 1 << 20, size=n).astype("float64") / 1024.0).reshape(shape, order="F")
    if mode == "pestle":
        # field 0: small integers, field 1 (volFrac): dyadic fractions in [0, 1], field 2: one
        r = np.random.RandomState((spec["data"]["seed"] + 1000003 * lv + 10007 * bid + 101 * k) % (1 << 31))
        if k == 1:
            return (r.randint(0, 9, size=n).astype("float64") / 8.0).reshape(shape, order="F")
        if k == 2:
            return np.ones(shape)
        return r.randint(-64, 65, size=n).astype("float64").reshape(shape, order="F")
    if mode == "smallint":
        r = np.random.RandomState((spec["data"]["seed"] + 1000003 * lv + 10007 * bid + 101 * k) % (1 << 31))
        return r.randint(-64, 65, size=n).astype("float64").reshape(shape, order="F")
    if mode in EXTRA_MODES:
        return EXTRA_MODES[mode](spec, lv, bid, k)
    raise ValueError(mode)


FAB_VALUE = float(np.frombuffer(b"FAB (\x00\xf0?", dtype="<f8")[0])      # about 1.0

EXTRA_MODES = {}      # payload modes registered by checkers (e.g. thermochemical states for chef)


# --------------------------------------------------------------------------- writer

def _f(x):
    return repr(float(x))


def to_ratio4(spec):
    """a two-level plotfile with refinement ratio 4 out of a properly nested three-level one: its middle level is dropped"""
    import copy
    s = copy.deepcopy(spec)
    assert len(s["levels"]) == 3
    s["levels"] = [s["levels"][0], s["levels"][2]]
    s["layout"] = [s["layout"][0], s["layout"][2]]
    s["ratio"] = 4
    return s


def header_text(spec, nlev=None):
    nd = spec["ndims"]
    nlev_all = len(spec["levels"])
    nlev = nlev_all if nlev is None else nlev
    style = spec.get("header_style", "amrex")
    sp = " " if style in ("amrex", "extra_ratio") else ""
    fields = spec["fields"]
    z = ",".join("0" for _ in range(nd))
    R = int(spec.get("ratio", 2))
    grid = [[g * R ** lv for g in spec["grid0"]] for lv in range(nlev)]
    dx = [[x / R ** lv for x in spec["dx0"]] for lv in range(nlev)]
    geo_high = [spec["geo_low"][d] + spec["dx0"][d] * spec["grid0"][d] for d in range(nd)]
    if spec.get("nominal_hi") == "below":
        # ... or the other way round: the stated domain bound (0.23) lies one unit in the last place BELOW the face the
        # writer computes for the last box (0.0 + 12 * (0.23 / 12) = 0.23000000000000004)
        geo_high = [min(x, float(f"{x:.12g}")) for x in geo_high]
    elif spec.get("nominal_hi"):
        # a code that prints the domain bound it was given (0.9) next to box bounds it computes (0.2 + 10 * 0.07 =
        # 0.8999999999999999): the two differ in the last place
        geo_high = [max(x, float(f"{x:.12g}")) for x in geo_high]
    t = _f(spec["time"])
    L = ["HyperCLaw-V1.1", str(len(fields))] + list(fields) + [str(nd), t, str(nlev - 1)]
    L.append(" ".join(_f(x) for x in spec["geo_low"]) + sp)
    L.append(" ".join(_f(x) for x in geo_high) + sp)
    nfac = nlev - 1 + (1 if style == "extra_ratio" else 0)
    L.append(" ".join(str(R) for _ in range(nfac)) + sp)
    sh = int(spec.get("idx_shift", 0))          # index of the first cell of the domain at level 0 (negative: index space below zero)
    if sh:
        L.append(" ".join(f"(({','.join(str(sh * 2 ** lv) for _ in range(nd))}) ({','.join(str(g - 1 + sh * 2 ** lv) for g in grid[lv])}) ({z}))"
                          for lv in range(nlev)) + sp)
    else:
        L.append(" ".join(f"(({z}) ({','.join(str(g - 1) for g in grid[lv])}) ({z}))" for lv in range(nlev)) + sp)
    # "subcycle": a sub-cycling run has taken twice as many steps on each finer level; "coord_sys": 0 cartesian, 1 RZ, 2 spherical
    steps = [spec.get("step", 7) * (2 ** lv if spec.get("subcycle") else 1) for lv in range(nlev)]
    L.append(" ".join(str(s) for s in steps) + sp)
    # "dx_digits": cell sizes printed with that many significant digits (a writer of lower precision than AMReX's 17:
    # the sizes of consecutive levels are then no longer exactly halved)
    fdx = (lambda x: f"{x:.{int(spec['dx_digits'])}g}") if spec.get("dx_digits") else _f
    for lv in range(nlev):
        L.append(" ".join(fdx(x) for x in dx[lv]) + sp)
    L += [str(spec.get("coord_sys", 0)), "0"]
    for lv in range(nlev):
        L.append(f"{lv} {len(spec['levels'][lv])} {t}")
        L.append(str(steps[lv]))
        for lo, hi in spec["levels"][lv]:
            for d in range(nd):
                L.append(f"{_f(spec['geo_low'][d] + lo[d] * dx[lv][d])} {_f(spec['geo_low'][d] + (hi[d] + 1) * dx[lv][d])}")
        L.append(level_dir(spec, lv) + "/Cell")
    return "\n".join(L) + "\n"


def level_dir(spec, lv):
    """name of the directory of level `lv`: "level_dir" is a format of `lv` (AMReX lets the writer choose the prefix and the
    number of digits; the Header records the name of every level directory)"""
    return spec.get("level_dir", "Level_{lv}").format(lv=lv)


def materialize(spec, path, nlev=None):
    """write the plotfile; returns truth[(lv, bid)] = array[..., nf]"""
    nd = spec["ndims"]
    nf = len(spec["fields"])
    nlev = len(spec["levels"]) if nlev is None else nlev
    os.makedirs(path)
    with open(os.path.join(path, "Header"), "w") as h:
        h.write(header_text(spec, nlev))
    z = ",".join("0" for _ in range(nd))
    truth = {}
    sh0 = int(spec.get("idx_shift", 0))
    g = int(spec.get("nghost", 0))
    for lv in range(nlev):
        sh = sh0 * 2 ** lv
        ldir = os.path.join(path, level_dir(spec, lv))
        os.makedirs(ldir)
        boxes = spec["levels"][lv]
        lay = spec["layout"][lv]
        files = {}
        for bid, (fno, key) in enumerate(lay):
            files.setdefault(fno, []).append((key, bid))
        offsets = [None] * len(boxes); fnames = [None] * len(boxes)
        mins = [None] * len(boxes); maxs = [None] * len(boxes)
        for fno, lst in files.items():
            lst.sort()
            # "stray_empty": the numbering leaves room for zero-length files no level header mentions (a parallel run
            # leaves one per rank that owns no box of the level)
            fname = f"Cell_D_{(2 * fno + 1) if spec.get('stray_empty') else fno:05d}"
            with open(os.path.join(ldir, fname), "wb") as bf:
                for n_in_file, (_, bid) in enumerate(lst):
                    lo, hi = boxes[bid]
                    if n_in_file and spec.get("gap"):
                        bf.seek(int(spec["gap"]), 1)      # sparse hole: byte offsets beyond 2**31 at no cost on disk
                    offsets[bid] = bf.tell(); fnames[bid] = fname
                    # "nghost": g >= 1 = a plotfile written WITH ghost cells (AMReX's WriteMultiLevelPlotfile keeps the grown
                    # FABs when the MultiFabs carry ghost cells): every FAB on disk is the box grown by g cells in each
                    # direction, its header names the grown box, the level header records g; the box table keeps the valid boxes
                    bf.write(fab_header([x + sh - g for x in lo], [x + sh + g for x in hi], nf))
                    arrs = [np.asarray(box_data(spec, lv, bid, k), dtype="float64") for k in range(nf)]
                    if g:
                        rs = np.random.RandomState((int(spec["data"].get("seed", 0)) * 7919 + lv * 104729 + bid * 31 + 5) % (2 ** 31))
                        grown = []
                        for a in arrs:
                            b = rs.standard_normal([n + 2 * g for n in a.shape])       # ghost values: unrelated to the interior
                            b[tuple(slice(g, -g) for _ in a.shape)] = a
                            grown.append(b)
                        arrs = grown
                    for a in arrs:
                        bf.write(a.flatten(order="F").astype("<f8").tobytes())
                    truth[(lv, bid)] = np.stack(arrs, axis=-1) if nf else np.zeros([hi[d]-lo[d]+1+2*g for d in range(nd)] + [0])
                    with np.errstate(invalid="ignore"):
                        mins[bid] = [np.min(a) for a in arrs]; maxs[bid] = [np.max(a) for a in arrs]
        if spec.get("stray_empty"):
            for k in sorted({2 * f for f in files} | {2 * f + 2 for f in files}):
                open(os.path.join(ldir, f"Cell_D_{k:05d}"), "wb").close()
        with open(os.path.join(ldir, "Cell_H"), "w") as ch:
            ch.write(f"1\n1\n{nf}\n{spec.get('ghost_line', str(g))}\n({len(boxes)} 0\n")
            for lo, hi in boxes:
                ch.write(f"(({','.join(str(x + sh) for x in lo)}) ({','.join(str(x + sh) for x in hi)}) ({z}))\n")
            ch.write(f")\n{len(boxes)}\n")
            for bid in range(len(boxes)):
                ch.write(f"FabOnDisk: {fnames[bid]} {offsets[bid]}\n")
            ch.write(f"\n{len(boxes)},{nf}\n")
            rfmt = (lambda m: f"{m:.{int(spec['rows_digits']) - 1}e}") if spec.get("rows_digits") else (lambda m: f"{m:.16e}")
            for bid in range(len(boxes)):
                ch.write(",".join(rfmt(m) for m in mins[bid]) + ",\n")
            ch.write(f"\n{len(boxes)},{nf}\n")
            for bid in range(len(boxes)):
                last = spec.get("cellh_no_final_newline") and bid == len(boxes) - 1
                ch.write(",".join(rfmt(m) for m in maxs[bid]) + ("," if last else ",\n"))
            if not spec.get("cellh_no_final_newline"):
                ch.write("\n")
    return truth


def halving_breaks(digits=15, n=3, nlev=2):
    """cell sizes x such that, printed with `digits` significant digits per level (x, x/2, x/4 ...), the quotient of the
    parsed level-0 and finest sizes falls just BELOW the refinement factor (a writer of lower precision than AMReX's 17 digits:
    the levels' sizes are then no longer exact halves of each other)"""
    out = []
    for m in range(3, 6000):
        x = 1.0 / m          # a domain of unit length cut into m cells: the decimal expansion does not terminate
        a = float(f"{x:.{digits}g}"); b = float(f"{x / 2 ** (nlev - 1):.{digits}g}")
        if a / b < 2 ** (nlev - 1):
            out.append(x)
            if len(out) == n:
                break
    return out


def ulp_above(n):
    """(lo, dx) such that the computed upper bound lo + n*dx is a float just ABOVE its 12-digit decimal (None if none of the
    candidates does it for this n)"""
    for lo in (0.0, 0.2, 0.1, -0.3, 1.1, 0.7, -1.3):
        for L in (0.23, 0.07, 0.3, 0.011, 0.13, 0.0007, 0.9, 0.21, 1.7):
            dx = L / n
            x = lo + n * dx
            if x > float(f"{x:.12g}"):
                return lo, dx
    return None


def ulp_below(n):
    """(lo, dx) such that the computed upper bound lo + n*dx is a float just BELOW its 12-digit decimal (None if none of the
    candidates does it for this n)"""
    for lo in (0.2, 0.1, -0.3, 1.1, 0.7, -1.3):
        for dx in (0.07, 0.03, 0.011, 0.13, 0.0007, 0.9, 0.21):
            x = lo + n * dx
            if x < float(f"{x:.12g}"):
                return lo, dx
    return None


def describe(spec):
    """features used for the 'non-trivial' accounting (DESIGN appendix C)"""
    f = []
    if len(spec["levels"]) >= 2: f.append("multilevel")
    if any(len({fno for fno, _ in lay}) >= 2 for lay in spec["layout"]): f.append("multifile")
    for lay in spec["layout"]:
        per = {}
        for bid, (fno, key) in enumerate(lay):
            per.setdefault(fno, []).append(key)
        if any(v != sorted(v) for v in per.values()):
            f.append("nonmonotone"); break
    if any(len({hi[d] - lo[d] for d in range(spec["ndims"])}) > 1 for boxes in spec["levels"] for lo, hi in boxes):
        f.append("noncubic")
    if any(x != 0 for x in spec["geo_low"]): f.append("origin")
    if len(set(spec["dx0"])) > 1: f.append("aniso")
    return f


def nontrivial(spec, extra=0):
    return len(describe(spec)) + extra >= 2
