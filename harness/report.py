"""Verdict protocol (DESIGN section 6), replay files, known findings, evidence JSON."""
import os, json, re, time, shlex
from .common import VERIF, canon_hash

KNOWN = os.path.join(VERIF, "KNOWN_FINDINGS.txt")

TRUSTED_BASE = [
    "Lean 4.33 kernel; axioms of every property theorem audited to be within {propext, Classical.choice, Quot.sound}",
    "no sorry/admit/axiom/native_decide/bv_decide/implemented_by/unsafe in lean/ (grep on every run)",
    "hand-written model tied to the code by the correspondence check of this run (same inputs through real code and compiled driver) and by harness/translate.py (regenerated constants)",
    "harness: plotgen/chkgen writers, oracle parser, canonicalisation, driver JSON glue",
    "modelled, not verified: numpy, scipy, Cantera, pickle, multiprocessing/pathos ordering contracts, POSIX file semantics, str(float)/float(str)",
]


def load_known(pid):
    """entries of KNOWN_FINDINGS.txt for a property: key -> dict"""
    out = {}
    if not os.path.exists(KNOWN):
        return out
    for line in open(KNOWN):
        line = line.strip()
        if not line.startswith("finding:"):
            continue
        toks = shlex.split(line[len("finding:"):])
        d = {}
        for t in toks:
            if "=" in t:
                k, v = t.split("=", 1)
                d[k] = v
        if d.get("property") == pid and "key" in d:
            out[d["key"]] = d
    return out


class Report:
    def __init__(self, ctx, level="proof"):
        self.ctx = ctx
        self.pid = ctx.pid
        self.level = level
        self.known = load_known(ctx.pid)
        self.evaluations = 0
        self.validated = 0           # cases with I = M
        self.hashes_nontrivial = set()
        self.hashes = set()
        self.samples = []
        self.violations = []         # (what, replay path)
        self.ties = []               # correspondence disagreements with the property still holding
        self.known_hit = {}          # key -> count
        self.dist = {}               # input distribution counters
        self.notes = []
        self.extra = {}
        self._nrep = 0
        self.search_mode = False
        # replay files of an earlier run with the same seed and tier would be mistaken for this run's (a replay run
        # itself keeps them: it is given one of them)
        d = os.path.join(VERIF, "replays", self.pid)
        if not getattr(ctx, "replay", None) and os.path.isdir(d):
            pre = f"{ctx.seed}-{ctx.tier}-"
            for fn in os.listdir(d):
                if fn.startswith(pre) and fn.endswith(".json"):
                    try:
                        os.remove(os.path.join(d, fn))
                    except OSError:
                        pass

    # ---- accounting
    def case(self, case, nontrivial=True, sample=False):
        h = canon_hash(case)
        self.evaluations += 1
        self.hashes.add(h)
        if nontrivial:
            self.hashes_nontrivial.add(h)
        if sample or len(self.samples) < 2:
            if len(self.samples) < 4:
                self.samples.append(_abridge(case))
        return h

    def count(self, key, n=1):
        self.dist[key] = self.dist.get(key, 0) + n

    def agree(self, n=1):
        self.validated += n

    # ---- outcomes
    def write_replay(self, obj):
        d = os.path.join(VERIF, "replays", self.pid)
        os.makedirs(d, exist_ok=True)
        self._nrep += 1
        p = os.path.join(d, f"{self.ctx.seed}-{self.ctx.tier}-{self._nrep}.json")
        with open(p, "w") as f:
            json.dump(obj, f, indent=1, default=str)
        return p

    def fail(self, what, case, obs=None, keys=()):
        """the property predicate fails on the implementation for this case.
        keys: known-finding keys whose input-class predicate holds for this case AND for which
        the implementation behaved as the model of the defect predicts."""
        for k in keys:
            if k in self.known:
                self.known_hit[k] = self.known_hit.get(k, 0) + 1
                return "known"
        if len(self.violations) >= 25:
            self.violations.append((what, None))
            return "violation"
        path = self.write_replay({"property": self.pid, "what": what, "case": case, "observed": obs,
                                  "seed": self.ctx.seed, "tier": self.ctx.tier})
        self.violations.append((what, path))
        return "violation"

    def tie(self, what, case, obs=None):
        """implementation and model disagree although the property predicate holds"""
        if len(self.ties) < 50:
            self.ties.append((what, case, obs))

    # ---- closing
    def finish(self, lean, rule, assumptions=(), explanation=None):
        ctx = self.ctx
        lines = []
        for k, n in sorted(self.known_hit.items()):
            d = self.known[k]
            lines.append(f"KNOWN-FINDING: property={self.pid} {d.get('what', k)} [{k}; {n} case(s); site {d.get('site', '?')}]")
        broken = []
        if lean is not None and not lean.ok:
            broken += lean.problems
        for what, case, obs in self.ties[:5]:
            broken.append("correspondence: " + what)
        seen_paths = 0
        for what, path in self.violations:
            if path is not None:
                lines.append(f"VIOLATION property={self.pid} replay={path}")
                seen_paths += 1
        if broken and not self.violations:
            # proof obligation or correspondence broke and the search found no failing input
            path = self.write_replay({"property": self.pid, "no_failing_input_found": True,
                                      "no_longer_checks": broken,
                                      "ties": [{"what": w, "case": c, "observed": o} for w, c, o in self.ties[:5]],
                                      "seed": ctx.seed, "tier": ctx.tier})
            lines.append(f"VIOLATION property={self.pid} replay={path} no-failing-input-found")
        nviol = len(self.violations) + (1 if (broken and not self.violations) else 0)
        thms = list(lean.axioms.keys()) if lean is not None else []
        n_obl = len(thms) + (len(lean.problems) if lean is not None and not lean.ok else 0)
        cov = {
            "obligations": max(len(_theorem_list(self.pid)), 1),
            "discharged": len([t for t in thms if set(lean.axioms[t]) <= {"propext", "Classical.choice", "Quot.sound"}]) if lean is not None else 0,
            "checker_cmd": "cd lean && lake build && lake env lean <audit file with #print axioms for each listed theorem> (harness/leanio.py)",
            "trusted_base": TRUSTED_BASE,
            "theorems": {t: lean.axioms[t] for t in thms} if lean is not None else {},
            "evaluations": self.evaluations,
            "distinct_nontrivial": len(self.hashes_nontrivial),
            "distinct": len(self.hashes),
            "rule": rule,
            "samples": self.samples or [{"note": "no case generated"}],
            "traces_validated_against_impl": self.validated,
            "input_distribution": self.dist,
            "known_findings_printed": sorted(self.known_hit),
            "broken_obligations": broken,
            "lean_build_s": round(lean.build_s, 2) if lean is not None else None,
            "notes": self.notes,
        }
        if explanation:
            cov["explanation"] = explanation
        cov.update(self.extra)
        ev = {
            "property_id": self.pid,
            "tier": ctx.tier,
            "seed": ctx.seed,
            "level": self.level,
            "coverage": cov,
            "assumptions": list(assumptions),
            "wall_s": round(ctx.elapsed(), 2),
            "violations": nviol,
        }
        # (sweeps over seeded changes set AMRK_EVIDENCE_DIR so that they do not overwrite the evidence of the clean tree)
        edir = os.environ.get("AMRK_EVIDENCE_DIR") or os.path.join(VERIF, "evidence")
        os.makedirs(edir, exist_ok=True)
        with open(os.path.join(edir, f"{self.pid}.json"), "w") as f:
            json.dump(ev, f, indent=1, default=str)
        for l in lines:
            print(l, flush=True)
        return 1 if nviol else 0


def _theorem_list(pid):
    p = os.path.join(VERIF, "lean", "theorems.json")
    try:
        return json.load(open(p)).get(pid, [])
    except Exception:
        return []


def _abridge(obj, depth=0):
    if isinstance(obj, dict):
        return {k: _abridge(v, depth + 1) for k, v in list(obj.items())[:24]}
    if isinstance(obj, (list, tuple)):
        if len(obj) > 12 and depth > 1:
            return [_abridge(x, depth + 1) for x in obj[:6]] + [f"... {len(obj) - 6} more"]
        return [_abridge(x, depth + 1) for x in obj]
    if isinstance(obj, str) and len(obj) > 200:
        return obj[:200] + "..."
    return obj
