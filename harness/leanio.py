"""Lean side of a check: regenerate constants, build under a lock, forbid escape hatches,
audit the axioms of the property theorems, run the compiled driver on a batch of requests."""
import os, re, json, subprocess, fcntl, tempfile, time
from .common import VERIF
from . import translate

LEAN = os.path.join(VERIF, "lean")
DRIVER = os.path.join(LEAN, ".lake", "build", "bin", "amrk-driver")
ALLOWED_AXIOMS = {"propext", "Classical.choice", "Quot.sound"}
FORBIDDEN = re.compile(r"\bsorry\b|\badmit\b|^\s*axiom\s|native_decide|bv_decide|implemented_by|\bunsafe\s|maxHeartbeats\s+0")


class LeanResult:
    def __init__(self):
        self.ok = True
        self.problems = []      # strings naming what no longer checks
        self.build_log = ""
        self.axioms = {}        # theorem -> list of axioms
        self.missing_anchors = []
        self.build_s = 0.0
        self.leanchecker = None


def _lock():
    f = open(os.path.join(LEAN, ".build.lock"), "w")
    fcntl.flock(f, fcntl.LOCK_EX)
    return f


def strip_comments(text):
    # block comments (non-nested approximation handles nesting by repeated passes)
    prev = None
    while prev != text:
        prev = text
        text = re.sub(r"/-(?:(?!/-|-/).|\n)*?-/", "", text, flags=re.S)
    text = re.sub(r"--.*", "", text)
    return text


def grep_forbidden():
    hits = []
    for root, _, files in os.walk(LEAN):
        if ".lake" in root:
            continue
        for fn in files:
            if fn.endswith(".lean") and not fn.startswith(".audit"):
                p = os.path.join(root, fn)
                body = strip_comments(open(p).read())
                for i, line in enumerate(body.split("\n")):
                    if FORBIDDEN.search(line):
                        hits.append(f"{os.path.relpath(p, LEAN)}: {line.strip()[:80]}")
    return hits


def theorems_for(pid):
    table = json.load(open(os.path.join(LEAN, "theorems.json")))
    return table.get(pid, [])


def build_and_audit(pid, thorough=False):
    """returns LeanResult; never raises for a failing build (that is a broken obligation)"""
    res = LeanResult()
    t0 = time.time()
    lock = _lock()
    try:
        res.missing_anchors = translate.regenerate()
        for m in res.missing_anchors:
            res.ok = False
            res.problems.append(f"translator anchor missing: {m}")
        # only what this property depends on is built: its property module (with the helper modules and
        # regenerated obligations it imports) and the driver; an obligation of another property that no
        # longer checks does not contaminate this one
        target = f"AmrK.Properties.{pid}"
        p = subprocess.run(["lake", "build", target, "amrk-driver"], cwd=LEAN, capture_output=True, text=True)
        res.build_log = (p.stdout + p.stderr)[-6000:]
        if p.returncode != 0:
            res.ok = False
            errs = [l for l in (p.stdout + p.stderr).split("\n") if "error" in l.lower()][:8]
            res.problems.append("lake build failed: " + " | ".join(errs))
        hits = grep_forbidden()
        if hits:
            res.ok = False
            res.problems.append("forbidden construct in Lean sources: " + "; ".join(hits[:5]))
        thms = theorems_for(pid)
        if p.returncode == 0 and thms:
            src = f"import {target}\n" + "\n".join(f"#print axioms {t}" for t in thms) + "\n"
            fd, apath = tempfile.mkstemp(prefix=".audit_", suffix=".lean", dir=LEAN)
            with os.fdopen(fd, "w") as f:
                f.write(src)
            try:
                a = subprocess.run(["lake", "env", "lean", apath], cwd=LEAN, capture_output=True, text=True)
            finally:
                os.unlink(apath)
            out = a.stdout + a.stderr
            for t in thms:
                m = re.search(r"'" + re.escape(t) + r"' depends on axioms: \[([^\]]*)\]", out, flags=re.S)
                if m:
                    ax = [x.strip() for x in m.group(1).replace("\n", " ").split(",") if x.strip()]
                    res.axioms[t] = ax
                    bad = [x for x in ax if x not in ALLOWED_AXIOMS]
                    if bad:
                        res.ok = False
                        res.problems.append(f"theorem {t} depends on {bad}")
                elif re.search(r"'" + re.escape(t) + r"' does not depend on any axioms", out):
                    res.axioms[t] = []
                else:
                    res.ok = False
                    res.problems.append(f"theorem {t} not found / not checked")
        if thorough and p.returncode == 0 and os.environ.get("AMRK_SKIP_CLEAN") != "1":
            # from-clean rebuild of a copy of the sources and independent re-check of the .olean files
            tmp = tempfile.mkdtemp(prefix="amrk-clean-")
            try:
                subprocess.run(["rsync", "-a", "--exclude", ".lake", "--exclude", ".build.lock", LEAN + "/", tmp + "/"], check=True)
                c = subprocess.run(["lake", "build", target], cwd=tmp, capture_output=True, text=True)
                if c.returncode != 0:
                    res.ok = False
                    res.problems.append("clean rebuild failed: " + (c.stdout + c.stderr)[-400:])
                else:
                    mods = closure(target)
                    k = subprocess.run(["lake", "env", "leanchecker"] + mods, cwd=tmp, capture_output=True, text=True)
                    res.leanchecker = (k.returncode == 0)
                    if k.returncode != 0:
                        res.ok = False
                        res.problems.append("leanchecker: " + (k.stdout + k.stderr)[-400:])
            finally:
                subprocess.run(["rm", "-rf", tmp])
    finally:
        res.build_s = time.time() - t0
        fcntl.flock(lock, fcntl.LOCK_UN)
        lock.close()
    return res


def closure(mod):
    """the AmrK modules a module imports, transitively (itself included)"""
    seen, todo = [], [mod]
    while todo:
        m = todo.pop()
        if m in seen:
            continue
        seen.append(m)
        path = os.path.join(LEAN, *m.split(".")) + ".lean"
        if os.path.exists(path):
            for line in open(path):
                mm = re.match(r"^import (AmrK(\.\w+)+)\s*$", line)
                if mm:
                    todo.append(mm.group(1))
    return sorted(seen)


def module_list():
    out = []
    for root, _, files in os.walk(os.path.join(LEAN, "AmrK")):
        for fn in files:
            if fn.endswith(".lean"):
                rel = os.path.relpath(os.path.join(root, fn), LEAN)[:-5]
                out.append(rel.replace(os.sep, "."))
    return out + ["AmrK"]


def driver(requests, timeout=600):
    """run the compiled model driver on a list of request dicts; returns the list of replies.
    Requests and replies go through files (pipes dead-lock on large batches)."""
    if not os.path.exists(DRIVER):
        raise RuntimeError("driver not built")
    d = tempfile.mkdtemp(prefix="amrk-drv-")
    try:
        inp, outp = os.path.join(d, "in.jsonl"), os.path.join(d, "out.jsonl")
        with open(inp, "w") as f:
            for r in requests:
                f.write(json.dumps(r, separators=(",", ":")) + "\n")
        with open(inp) as fi, open(outp, "w") as fo:
            subprocess.run([DRIVER], stdin=fi, stdout=fo, stderr=subprocess.PIPE, timeout=timeout, check=True)
        with open(outp) as f:
            replies = [json.loads(l) for l in f if l.strip()]
        if len(replies) != len(requests):
            raise RuntimeError(f"driver answered {len(replies)} of {len(requests)} requests")
        return replies
    finally:
        subprocess.run(["rm", "-rf", d])
