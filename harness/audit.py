"""Write audit (sys.addaudithook) and fault injection at write-side calls (from the harness process;
no instrumentation in /repo)."""
import sys, os, io, builtins, contextlib, hashlib, errno

_state = {"on": False, "events": None}
_installed = False

WRITE_EVENTS = {"os.mkdir", "os.rename", "os.remove", "os.rmdir", "os.truncate", "os.link", "os.symlink", "os.chmod",
                "shutil.rmtree", "shutil.move", "shutil.copyfile", "os.replace"}


def _hook(event, args):
    ev = _state["events"]
    if not _state["on"] or ev is None:
        return
    try:
        if event == "open":
            path, mode, flags = args
            if isinstance(path, int):
                return
            write = (mode is not None and any(c in str(mode) for c in "wax+")) or \
                    (mode is None and isinstance(flags, int) and (flags & (os.O_WRONLY | os.O_RDWR | os.O_CREAT | os.O_TRUNC | os.O_APPEND)))
            ev.append(("open-w" if write else "open-r", os.path.abspath(os.fsdecode(path))))
        elif event in WRITE_EVENTS:
            p = args[0]
            if isinstance(p, (str, bytes, os.PathLike)):
                ev.append((event, os.path.abspath(os.fsdecode(p))))
            if event in ("os.rename", "os.replace", "shutil.move", "os.link", "os.symlink", "shutil.copyfile") and len(args) > 1 \
                    and isinstance(args[1], (str, bytes, os.PathLike)):
                ev.append((event, os.path.abspath(os.fsdecode(args[1]))))
    except Exception:
        pass


def install():
    global _installed
    if not _installed:
        sys.addaudithook(_hook)
        _installed = True


@contextlib.contextmanager
def record():
    """collects (kind, absolute path) for every open and every mutating os/shutil call"""
    install()
    prev = (_state["on"], _state["events"])
    ev = []
    _state["on"], _state["events"] = True, ev
    try:
        yield ev
    finally:
        _state["on"], _state["events"] = prev


def writes(events):
    return sorted({p for k, p in events if k != "open-r"})


def reads(events):
    return sorted({p for k, p in events if k == "open-r"})


def tree_hash(path):
    """{relative path: sha1} of a directory tree, plus the directory names (so created dirs are seen)"""
    out = {}
    for root, dirs, files in os.walk(path):
        for d in dirs:
            out[os.path.relpath(os.path.join(root, d), path) + "/"] = "dir"
        for f in files:
            p = os.path.join(root, f)
            with open(p, "rb") as fh:
                out[os.path.relpath(p, path)] = hashlib.sha1(fh.read()).hexdigest()
    return out


def inside(path, root):
    path, root = os.path.abspath(path), os.path.abspath(root)
    return path == root or path.startswith(root.rstrip(os.sep) + os.sep)


# --------------------------------------------------------------------------- fault injection

class InjectedFault(OSError):
    pass


class _Proxy:
    """file proxy counting write calls; not an io.* instance, so numpy falls back to .write()"""
    def __init__(self, f, inj):
        object.__setattr__(self, "_f", f)
        object.__setattr__(self, "_inj", inj)

    def write(self, data):
        self._inj.tick("write", getattr(self._f, "name", None))
        return self._f.write(data)

    def writelines(self, lines):
        for l in lines:
            self.write(l)

    def __enter__(self):
        self._f.__enter__()
        return self

    def __exit__(self, *a):
        return self._f.__exit__(*a)

    def __iter__(self):
        return iter(self._f)

    def __getattr__(self, name):
        return getattr(self._f, name)

    def __setattr__(self, name, value):
        setattr(self._f, name, value)


class Injector:
    """counts write-side calls (open for write, write, mkdir/makedirs); raises at call number `at`"""
    def __init__(self, at=None):
        self.at = at
        self.n = 0
        self.kinds = []
        self.sites = []         # (kind, path) of every write-side call, in order
        self.fired = None

    def tick(self, kind, path=None):
        i = self.n
        self.n += 1
        self.kinds.append(kind)
        self.sites.append((kind, str(path)))
        if self.at is not None and i == self.at:
            self.fired = kind
            raise InjectedFault(errno.ENOSPC, f"injected fault at write-side call {i} ({kind})")


def stratified(sites, budget, rng):
    """call numbers to inject at when not all can be afforded: first the first call of every (kind, file) - every
    directory creation, the opening of every file written and its first write -, then the last call of every (kind, file),
    then a random fill; a tier that does not fit is thinned evenly so that the spread over files is kept"""
    groups = {}
    for i, site in enumerate(sites):
        groups.setdefault(site, []).append(i)
    tier1 = sorted({idx[0] for idx in groups.values()})
    tier2 = sorted({idx[-1] for idx in groups.values()} - set(tier1))
    chosen = []
    for tier in (tier1, tier2):
        room = budget - len(chosen)
        if room <= 0:
            break
        if len(tier) > room:
            step = len(tier) / float(room)
            tier = sorted({tier[min(len(tier) - 1, int(j * step))] for j in range(room)})
        chosen += tier
    rest = [i for i in range(len(sites)) if i not in set(chosen)]
    rng.shuffle(rest)
    return sorted(chosen + rest[: max(0, budget - len(chosen))])


@contextlib.contextmanager
def inject(inj):
    real_open, real_mkdir, real_makedirs = builtins.open, os.mkdir, os.makedirs
    real_ioopen = io.open

    def fopen(file, mode="r", *a, **k):
        if isinstance(file, int) or not any(c in str(mode) for c in "wax+"):
            return real_open(file, mode, *a, **k)
        inj.tick("open", file)
        return _Proxy(real_open(file, mode, *a, **k), inj)

    def fmkdir(path, *a, **k):
        inj.tick("mkdir", path)
        return real_mkdir(path, *a, **k)

    def fmakedirs(path, *a, **k):
        inj.tick("makedirs", path)
        # os.makedirs calls the real mkdir of this module's namespace: do not count twice
        os.mkdir = real_mkdir
        try:
            return real_makedirs(path, *a, **k)
        finally:
            os.mkdir = fmkdir
    builtins.open, os.mkdir, os.makedirs = fopen, fmkdir, fmakedirs
    try:
        yield inj
    finally:
        builtins.open, os.mkdir, os.makedirs = real_open, real_mkdir, real_makedirs
