"""In-process stand-ins for the process pools, with chosen start and completion orders.

`ControlledPool` runs the tasks of one pool call in-process in the order `start(n)` and delivers
the results as the real pool's contract allows: `map`/`imap` in submission order,
`imap_unordered` in the order `finish(n)`.  Installed by assigning the names the modules look
up (`multiprocessing.Pool`, `amr_kitchen.chef.chef.Pool`, `amr_kitchen.chk2plt.chk2plt.Pool`).
"""
import contextlib, multiprocessing, itertools

_REAL_POOL = multiprocessing.Pool


class ControlledPool:
    start = None        # n -> permutation of range(n): execution order
    finish = None       # n -> permutation of range(n): delivery order of imap_unordered
    log = []            # (function name, n tasks) per pool call

    def __init__(self, processes=None, *a, **k):
        # what multiprocessing.Pool checks itself: a pool asked for with no worker at all is refused
        if processes is not None and processes < 1:
            raise ValueError("Number of processes must be at least 1")

    touched = None      # when a list: per pool call, per task (writes, reads) seen by the audit hook

    def _run(self, f, it):
        tasks = list(it)
        n = len(tasks)
        perm = ControlledPool.start(n) if ControlledPool.start else list(range(n))
        res = [None] * n
        per_task = [None] * n
        for i in perm:
            if ControlledPool.touched is not None:
                from . import audit
                with audit.record() as ev:
                    res[i] = f(tasks[i])
                per_task[i] = (audit.writes(ev), audit.reads(ev))
            else:
                res[i] = f(tasks[i])
        if ControlledPool.touched is not None:
            ControlledPool.touched.append((getattr(f, "__name__", str(f)), per_task))
        ControlledPool.log.append((getattr(f, "__name__", str(f)), n))
        return res

    def map(self, f, it, chunksize=None):
        return self._run(f, it)

    def imap(self, f, it, chunksize=None):
        return iter(self._run(f, it))

    def imap_unordered(self, f, it, chunksize=None):
        res = self._run(f, it)
        n = len(res)
        order = ControlledPool.finish(n) if ControlledPool.finish else list(range(n))
        return iter([res[i] for i in order])

    def close(self): pass
    def join(self): pass
    def terminate(self): pass
    def clear(self): pass          # pathos: forget the cached worker processes
    def restart(self, *a, **k): pass
    def __enter__(self): return self
    def __exit__(self, *a): return False


def _targets():
    import importlib
    c = importlib.import_module("amr_kitchen.chk2plt.chk2plt")
    ch = importlib.import_module("amr_kitchen.chef.chef")
    return [(multiprocessing, "Pool"), (c, "Pool"), (ch, "Pool")]


_saved = None


def install(pool_cls=ControlledPool):
    global _saved
    if _saved is None:
        _saved = [(m, n, getattr(m, n)) for m, n in _targets()]
    for m, n, _ in _saved:
        setattr(m, n, pool_cls)


def uninstall():
    global _saved
    if _saved is not None:
        for m, n, v in _saved:
            setattr(m, n, v)
        _saved = None


@contextlib.contextmanager
def controlled(start=None, finish=None):
    """run with ControlledPool and the given orders"""
    prev = (ControlledPool.start, ControlledPool.finish)
    ControlledPool.start, ControlledPool.finish = start, finish
    was = _saved is not None
    install(ControlledPool)
    try:
        yield ControlledPool
    finally:
        ControlledPool.start, ControlledPool.finish = prev
        if not was:
            uninstall()


def order_reversed(n):
    return list(range(n))[::-1]


def order_rot(k):
    return lambda n: [(i + k) % n for i in range(n)] if n else []


def order_from_rng(rng):
    def f(n):
        p = list(range(n)); rng.shuffle(p); return p
    return f


def all_orders(max_n=4):
    """every permutation function for calls of up to max_n tasks (index into permutations by a counter)"""
    out = []
    for idx in range(24):
        def f(n, idx=idx):
            perms = list(itertools.permutations(range(n))) if n <= max_n else None
            if perms is None:
                p = list(range(n))
                k = idx % n if n else 0
                return p[k:] + p[:k] if idx % 2 == 0 else (p[k:] + p[:k])[::-1]
            return list(perms[idx % len(perms)])
        out.append(f)
    return out


class SpawnPoolN:
    """factory of real pools whose workers are started afresh (start method `spawn`: they import the modules again and inherit
    nothing of the parent's memory - the default on macOS / Windows, and no longer `fork` on Linux from Python 3.14)"""
    def __init__(self, n):
        self.n = n

    def __call__(self, *a, **k):
        p = multiprocessing.get_context("spawn").Pool(self.n)
        p.clear = lambda: None          # (the pathos call chef makes on its own pools)
        return p


class RealPoolN:
    """factory of real pools with a fixed worker count"""
    def __init__(self, n):
        self.n = n

    def __call__(self, *a, **k):
        p = _REAL_POOL(self.n)
        p.clear = lambda: None          # (the pathos call chef makes on its own pools)
        return p
