"""Sessions of several calls in ONE process from different working directories with relative plotfile names and the REAL
process pools (no stand-in): whatever a tool keeps between calls - a pool forked earlier, a directory remembered at import
or construction time - must not leak into the next call."""
import os, random
from . import plotgen
from .common import chdir, quiet, alarm


def two_directories(ctx, seed, tag, names=("plt", "plt"), **spec_kw):
    """two fresh directories, each holding its own plotfile under names[k] (different data, different meshes);
    returns [(directory, relative name, spec, truth)]"""
    rng = random.Random(seed)
    base = ctx.newdir(tag)
    out = []
    for k in range(2):
        d = os.path.join(base, f"run{k}"); os.makedirs(d)
        spec = plotgen.random_spec(rng, **spec_kw)
        truth = plotgen.materialize(spec, os.path.join(d, names[k]))
        out.append((d, names[k], spec, truth))
    return out


def visit(dirs, action, rounds=2):
    """action(k, relative name, spec, truth) called with the working directory set to each directory in turn, `rounds` times;
    stops at the first action that returns a problem (a string) and returns it"""
    for r in range(rounds):
        for k, (d, name, spec, truth) in enumerate(dirs):
            with chdir(d), alarm(300), quiet():
                bad = action(k, name, spec, truth)
            if bad:
                return f"round {r}, working directory #{k}: {bad}"
    return None
