import Lean.Data.Json
import Lp.ReaderR
open Lean Reader Py

def hexVal (c : Char) : UInt8 :=
  if c.isDigit then (c.toNat - '0'.toNat).toUInt8 else (c.toNat - 'a'.toNat + 10).toUInt8
def unhex (s : String) : Bytes :=
  let rec go : List Char → Bytes
    | a :: b :: rest => (hexVal a * 16 + hexVal b) :: go rest
    | _ => []
  go s.toList
def hexDigit (n : UInt8) : Char := if n < 10 then Char.ofNat (48 + n.toNat) else Char.ofNat (87 + n.toNat)
def hex (b : Bytes) : String := String.ofList (b.flatMap fun x => [hexDigit (x / 16), hexDigit (x % 16)])

def optInt (j : Json) : Option Int := match j with | .null => none | _ => j.getInt?.toOption

partial def loop (h : IO.FS.Stream) (files : Std.HashMap String Bytes) : IO Unit := do
  let line ← h.getLine
  if line.isEmpty then return ()
  match Json.parse line with
  | .error e => IO.println s!"bad-op {e}"; loop h files
  | .ok j =>
    match j.getObjValAs? String "op" with
    | .ok "file" =>
      let name := (j.getObjValAs? String "name").toOption.getD ""
      let data := unhex ((j.getObjValAs? String "hex").toOption.getD "")
      IO.println "{\"status\":\"ok\"}"
      loop h (files.insert name data)
    | .ok "read" =>
      let name := (j.getObjValAs? String "name").toOption.getD ""
      let off := (j.getObjValAs? Int "off").toOption.getD 0
      let nf := (j.getObjValAs? Int "nf").toOption.getD 0
      let fa : Option FArg :=
        match j.getObjVal? "farg" with
        | .ok (.arr a) => some (.list (a.toList.filterMap fun x => x.getInt?.toOption))
        | .ok (.obj o) => some (.slice (o.get? "start" >>= optInt) (o.get? "stop" >>= optInt) (o.get? "step" >>= optInt))
        | .ok v => (v.getInt?.toOption).map FArg.idx
        | _ => none
      match fa with
      | none => IO.println "bad-op farg"
      | some fa =>
        let repaired := (j.getObjValAs? Bool "repaired").toOption.getD false
        let res := if repaired then (if off < 0 then none else ReaderR.readR (files.getD name []) off.toNat nf fa)
                   else (if !accepted nf fa then none else readBox (files.getD name []) off fa)
        match res with
        | none => IO.println "{\"status\":\"refused\"}"
        | some o => IO.println (Json.mkObj [("status", "ok"), ("shape", toJson o.shape), ("data", toJson (hex (o.comps.flatten)))]).compress
      loop h files
    | _ => IO.println "bad-op"; loop h files
def main : IO Unit := do loop (← IO.getStdin) {}
