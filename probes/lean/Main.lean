import Lean.Data.Json
import Lp.Basic
open Lean
partial def loop (h : IO.FS.Stream) : IO Unit := do
  let line ← h.getLine
  if line.isEmpty then return ()
  match Json.parse line with
  | .ok j =>
    let r := (j.getObjValAs? Nat "r").toOption.getD 1
    let lo := (j.getObjValAs? Nat "lo").toOption.getD 0
    let c := (j.getObjValAs? Nat "c").toOption.getD 0
    IO.println (Json.mkObj [("mask", toJson (Probe.maskEntry r lo c)), ("entry", toJson (Probe.entry r c))]).compress
  | .error e => IO.println s!"bad-op {e}"
  loop h
def main : IO Unit := do loop (← IO.getStdin)
