import Lean.Data.Json
import Lp.Pestle
open Lean Pestle

def ratOfJson (j : Json) : Except String Rat := do
  let a ← j.getArr?
  let n ← (a[0]!).getInt?
  let d ← (a[1]!).getNat?
  return (n : Rat) / (d : Rat)
def natList (j : Json) : Except String (List Nat) := do
  let a ← j.getArr?
  a.toList.mapM (·.getNat?)
def ratJ (r : Rat) : Json := Json.arr #[toJson r.num, toJson r.den]

partial def loop (h : IO.FS.Stream) : IO Unit := do
  let line ← h.getLine
  if line.isEmpty then return ()
  let r : Except String Json := do
    let j ← Json.parse line
    let repaired := (j.getObjValAs? Bool "repaired").toOption.getD false
    let lv ← (← j.getObjVal? "levels").getArr?
    let levels ← lv.toList.mapM fun l => do
      let grid ← natList (← l.getObjVal? "grid")
      let dx ← (← (← l.getObjVal? "dx").getArr?).toList.mapM ratOfJson
      let bs ← (← l.getObjVal? "boxes").getArr?
      let boxes ← bs.toList.mapM fun b => do
        let lo ← natList (← b.getObjVal? "lo")
        let hi ← natList (← b.getObjVal? "hi")
        let data ← (← (← b.getObjVal? "data").getArr?).toList.mapM ratOfJson
        return ({ lo, hi, data } : Box)
      return ({ grid, dx, boxes } : Level)
    let res := match integral repaired levels with | some x => ratJ x | none => Json.null
    return Json.mkObj [("integral", res), ("spec", ratJ (integralSpec levels)), ("rez", toJson (boxRez repaired levels))]
  match r with
  | .ok j => IO.println j.compress
  | .error e => IO.println (Json.mkObj [("status", toJson s!"bad-op {e}")]).compress
  loop h
def main : IO Unit := do loop (← IO.getStdin)
