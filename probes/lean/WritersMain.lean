import Lean.Data.Json
import Lp.WritersChef
open Lean Writers

def boxOfJson (j : Json) : Except String InBox := do
  return { file := ← (← j.getObjVal? "file").getStr?, offset := ← (← j.getObjVal? "offset").getNat?,
           ncells := ← (← j.getObjVal? "ncells").getNat?, hdrLen := ← (← j.getObjVal? "hdr_len").getNat?,
           canonLen := ← (← j.getObjVal? "canon_len").getNat?,
           comps := ← (← (← j.getObjVal? "comps").getArr?).toList.mapM (·.getInt?) }
def levelsOfJson (j : Json) : Except String (List (List InBox)) := do
  (← j.getArr?).toList.mapM fun l => do (← l.getArr?).toList.mapM boxOfJson
def natList (j : Json) : Except String (List Nat) := do (← j.getArr?).toList.mapM (·.getNat?)
def outJ (o : OutBox) : Json :=
  Json.mkObj [("file", toJson o.file), ("offset", toJson o.offset),
    ("found", match o.found with | none => Json.null | some (b, c) => Json.mkObj [("box", toJson b), ("comps", toJson c)])]

partial def loop (h : IO.FS.Stream) : IO Unit := do
  let line ← h.getLine
  if line.isEmpty then return ()
  let r : Except String Json := do
    let j ← Json.parse line
    let op ← (← j.getObjVal? "op").getStr?
    if op == "colander" then
      let lv ← levelsOfJson (← j.getObjVal? "levels")
      let kept ← natList (← j.getObjVal? "kept")
      let nvars ← (← j.getObjVal? "nvars").getNat?
      return toJson (lv.map fun b => (colander b nvars kept).map outJ)
    else if op == "combine" then
      let l1 ← levelsOfJson (← j.getObjVal? "levels1")
      let l2 ← levelsOfJson (← j.getObjVal? "levels2")
      let v1 ← natList (← j.getObjVal? "v1")
      let v2 ← natList (← j.getObjVal? "v2")
      let mode := byfileMode l1 l2
      return Json.mkObj [("byfile", toJson mode),
        ("levels", toJson ((List.zip l1 l2).map fun (a, b) => (combineLevel mode a b v1 v2).map outJ))]
    else if op == "chef" then
      let lv ← levelsOfJson (← j.getObjVal? "levels")
      let kept ← natList (← j.getObjVal? "kept")
      let nfIn ← (← j.getObjVal? "nf_in").getNat?
      let newc ← (← j.getObjVal? "new").getArr?          -- per level, per box: list of tags
      let newLv ← newc.toList.mapM fun l => do
        (← l.getArr?).toList.mapM fun b => do (← b.getArr?).toList.mapM (·.getInt?)
      return toJson ((List.zip lv newLv).map fun (b, nw) => (chef b nfIn kept (fun i => nw.getD i [])).map outJ)
    else throw "bad-op"
  match r with
  | .ok j => IO.println j.compress
  | .error e => IO.println (Json.mkObj [("status", toJson s!"bad-op {e}")]).compress
  loop h
def main : IO Unit := do loop (← IO.getStdin)
