import Lean.Data.Json
import Lp.Column
open Lean Column

def ratOfJson (j : Json) : Except String Rat := do
  let a ← j.getArr?
  let n ← (a[0]!).getInt?
  let d ← (a[1]!).getNat?
  return (n : Rat) / (d : Rat)

def cfgOfJson (j : Json) : Except String Cfg := do
  let g ← ratOfJson (← j.getObjVal? "g")
  let G ← ratOfJson (← j.getObjVal? "G")
  let d0 ← ratOfJson (← j.getObjVal? "d0")
  let pos ← ratOfJson (← j.getObjVal? "pos")
  let lv ← (← j.getObjVal? "levels").getArr?
  let levels ← lv.toList.mapM fun l => do
    let bs ← l.getArr?
    bs.toList.mapM fun b => do
      let a ← (← b.getObjVal? "a").getInt?
      let vs ← (← b.getObjVal? "vals").getArr?
      let vals ← vs.toList.mapM ratOfJson
      return ({ a := a, vals := vals } : CBox)
  let fixed := (j.getObjValAs? Bool "fixed").toOption.getD false
  return { g, G, d0, levels, pos, fixed }

def ratJ (r : Rat) : Json := Json.arr #[toJson r.num, toJson r.den]

partial def loop (h : IO.FS.Stream) : IO Unit := do
  let line ← h.getLine
  if line.isEmpty then return ()
  match Json.parse line >>= cfgOfJson with
  | .ok c =>
    let r := match result c with | some x => ratJ x | none => Json.null
    let gl := match gridLevel c with | some x => toJson x | none => Json.null
    IO.println (Json.mkObj [("result", r), ("grid_level", gl)]).compress
  | .error e => IO.println (Json.mkObj [("status", toJson s!"bad-op {e}")]).compress
  loop h
def main : IO Unit := do loop (← IO.getStdin)
