import Lean.Data.Json
import Lp.Header
open Lean Header Py

def hexVal (c : Char) : UInt8 :=
  if c.isDigit then (c.toNat - '0'.toNat).toUInt8 else (c.toNat - 'a'.toNat + 10).toUInt8
def unhex (s : String) : Bytes :=
  let rec go : List Char → Bytes
    | a :: b :: rest => (hexVal a * 16 + hexVal b) :: go rest
    | _ => []
  go s.toList
def str (b : Bytes) : String := String.fromUTF8! ⟨b.toArray⟩

partial def loop (h : IO.FS.Stream) : IO Unit := do
  let line ← h.getLine
  if line.isEmpty then return ()
  let r : Except String Json := do
    let j ← Json.parse line
    let text := unhex (← (← j.getObjVal? "hex").getStr?)
    let limit : Option Int := (j.getObjValAs? Int "limit").toOption
    match parse text limit with
    | .refused why => return Json.mkObj [("status", "refused"), ("why", toJson why)]
    | .ok m =>
      return Json.mkObj [("status", "ok"),
        ("fields", toJson (m.fields.map fun (n, i) => (str n, i))), ("ndims", toJson m.ndims), ("time", toJson (str m.time)),
        ("max_level", toJson m.maxLevel), ("limit_level", toJson m.limitLevel),
        ("geo_low", toJson (m.geoLo.map str)), ("geo_high", toJson (m.geoHi.map str)), ("factors", toJson m.factors),
        ("grid_sizes", toJson m.gridSizes), ("steps", toJson m.steps), ("dx", toJson (m.dx.map (·.map str))),
        ("npoints", toJson m.npoints),
        ("boxes", toJson (m.boxes.map (·.map (·.map fun (a, b) => [str a, str b])))),
        ("cell_paths", toJson (m.cellPaths.map str))]
  match r with
  | .ok j => IO.println j.compress
  | .error e => IO.println (Json.mkObj [("status", toJson s!"bad-op {e}")]).compress
  loop h
def main : IO Unit := do loop (← IO.getStdin)
