import Lp
#print axioms Probe.maskEntry_eq
#print axioms Sched.merge_run
#print axioms RatProbe.lerp_affine
#print axioms MenuProbe.covers_counterexample
