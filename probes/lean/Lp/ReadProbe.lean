namespace ReadProbe

abbrev Raw := List UInt8
def NL : UInt8 := 10

def lineOf : Raw → Raw
  | [] => []
  | b :: rest => if b = NL then [b] else b :: lineOf rest

/-- a header line: no newline except the last byte -/
def IsLine (h : Raw) : Prop := ∃ body, h = body ++ [NL] ∧ NL ∉ body

theorem lineOf_line (h rest : Raw) (hl : IsLine h) : lineOf (h ++ rest) = h := by
  obtain ⟨body, rfl, hb⟩ := hl
  induction body with
  | nil => simp [lineOf]
  | cons b body ih =>
    have hb' : b ≠ NL := fun e => hb (by simp [e])
    have : NL ∉ body := fun m => hb (by simp [m])
    simp only [List.cons_append, lineOf, hb', if_false]
    congr 1
    simpa using ih this

structure HdrInfo where
  shape : List Nat
  nf : Nat

def ncells (s : List Nat) : Nat := s.foldl (· * ·) 1

variable (parse : Raw → Option HdrInfo)

/-- `mp_read_box_single_field`: seek(off); readline; seek(n*f*8, 1); fromfile(n) -/
def readSingle (raw : Raw) (off : Nat) (f : Int) : Option (List Nat × Raw) :=
  let h := lineOf (raw.drop off)
  match parse h with
  | none => none
  | some hd =>
    let n := ncells hd.shape
    let start : Int := ((off + h.length : Nat) : Int) + (n : Int) * f * 8
    if start < 0 then none else
    let bytes := (raw.drop start.toNat).take (n * 8)
    if bytes.length = n * 8 then some (hd.shape, bytes) else none

theorem read_single_correct (pre h payload post : Raw) (hd : HdrInfo) (f : Nat)
    (hl : IsLine h) (hp : parse h = some hd)
    (hlen : payload.length = ncells hd.shape * hd.nf * 8) (hf : f < hd.nf) :
    readSingle parse (pre ++ h ++ payload ++ post) pre.length (f : Int) =
      some (hd.shape, (payload.drop (ncells hd.shape * f * 8)).take (ncells hd.shape * 8)) := by
  unfold readSingle
  have hdrop : (pre ++ h ++ payload ++ post).drop pre.length = h ++ (payload ++ post) := by
    simp [List.append_assoc]
  simp only [hdrop, lineOf_line h _ hl, hp]
  generalize hn : ncells hd.shape = n at *
  have hstart : ((pre.length + h.length : Nat) : Int) + (n : Int) * (f : Int) * 8
      = ((pre.length + h.length + n * f * 8 : Nat) : Int) := by
    simp only [Int.natCast_add, Int.natCast_mul]; rfl
  rw [hstart]
  have hnn : ¬ ((pre.length + h.length + n * f * 8 : Nat) : Int) < 0 := by omega
  simp only [hnn, if_false, Int.toNat_natCast]
  -- room: n*f*8 + n*8 ≤ n*nf*8
  have hroom : n * f * 8 + n * 8 ≤ payload.length := by
    rw [hlen]
    have : n * (f + 1) ≤ n * hd.nf := Nat.mul_le_mul_left n hf
    have e : n * f * 8 + n * 8 = n * (f + 1) * 8 := by rw [Nat.mul_add, Nat.mul_one, Nat.add_mul]
    rw [e]; exact Nat.mul_le_mul_right 8 this
  have hd1 : (pre ++ h ++ payload ++ post).drop (pre.length + h.length + n * f * 8)
      = payload.drop (n * f * 8) ++ post := by
    have e1 : pre ++ h ++ payload ++ post = (pre ++ h) ++ (payload ++ post) := by simp [List.append_assoc]
    rw [e1, show pre.length + h.length + n * f * 8 = (pre ++ h).length + n * f * 8 by simp,
        List.drop_append, List.drop_append_of_le_length (by omega)]
  rw [hd1, List.take_append_of_le_length (by simp; omega)]
  simp [List.length_take, List.length_drop]
  omega

end ReadProbe
