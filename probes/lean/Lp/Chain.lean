namespace Chain

abbrev Raw := List UInt8
def NL : UInt8 := 10

/-- python `f.readline()` on the bytes from the current position: up to and including the first newline -/
def lineOf : Raw → Raw
  | [] => []
  | b :: rest => if b = NL then [b] else b :: lineOf rest

theorem lineOf_prefix (r : Raw) : ∃ t, r = lineOf r ++ t := by
  induction r with
  | nil => exact ⟨[], rfl⟩
  | cons b rest ih =>
    unfold lineOf
    split
    · exact ⟨rest, rfl⟩
    · obtain ⟨t, ht⟩ := ih
      exact ⟨t, by simp only [List.cons_append]; rw [← ht]⟩

structure Hdr where
  ncells : Nat
  nf : Nat
  key : Nat       -- stands for the index range named by the header
deriving DecidableEq

variable (parse : Raw → Option Hdr)

def nbytes (h : Hdr) : Nat := 8 * h.ncells * h.nf

/-- mp_fun_shape: `rest` = bytes after the current header line `h`;
    `exp` = canonical header lines expected for the following boxes -/
def shapeGo (h : Raw) (rest : Raw) : List Raw → Bool
  | [] => match parse h with
          | none => false
          | some hd => decide (nbytes hd = rest.length)
  | e :: es => match parse h with
          | none => false
          | some hd =>
            let rest' := rest.drop (nbytes hd)
            let h' := lineOf rest'
            if h' = e then shapeGo h' (rest'.drop h'.length) es else false

def shapeCheck (raw : Raw) (exp : List Raw) : Bool :=
  let h := lineOf raw
  shapeGo parse h (raw.drop h.length) exp

/-- a file that is a chain of segments: header line, then payload of the size the header announces -/
inductive IsChain : Raw → List Raw → Raw → Prop where
  | last {h rest hd} : parse h = some hd → nbytes hd = rest.length → IsChain h [] rest
  | cons {h rest hd e es pay rest'} : parse h = some hd → pay.length = nbytes hd →
      rest = pay ++ e ++ rest' → IsChain e es rest' → IsChain h (e :: es) rest

theorem shapeGo_sound (exp : List Raw) : ∀ (h rest : Raw), shapeGo parse h rest exp = true → IsChain parse h exp rest := by
  induction exp with
  | nil =>
    intro h rest hs
    unfold shapeGo at hs
    split at hs
    · cases hs
    · rename_i hd hp
      exact .last hp (by simpa using hs)
  | cons e es ih =>
    intro h rest hs
    unfold shapeGo at hs
    split at hs
    · cases hs
    · rename_i hd hp
      simp only at hs
      split at hs
      · rename_i he
        have hlen : nbytes hd ≤ rest.length ∨ rest.length < nbytes hd := Nat.le_or_lt _ _
        rcases hlen with hle | hlt
        · obtain ⟨t, ht⟩ := lineOf_prefix (rest.drop (nbytes hd))
          refine .cons (pay := rest.take (nbytes hd)) (rest' := (rest.drop (nbytes hd)).drop (lineOf (rest.drop (nbytes hd))).length) hp ?_ ?_ (ih _ _ hs)
          · simp [List.length_take, Nat.min_eq_left hle]
          · rw [← he]
            have : lineOf (List.drop (nbytes hd) rest) ++ List.drop (lineOf (List.drop (nbytes hd) rest)).length (List.drop (nbytes hd) rest) = List.drop (nbytes hd) rest := by
              conv => rhs; rw [ht]
              conv => lhs; rw [ht]
              simp
            rw [List.append_assoc, this, List.take_append_drop]
        · -- seek past EOF: the next "header" is the empty line; canonical expected headers are never empty,
          -- here we keep it general: payload shorter than announced cannot be a chain, so e must be [] ...
          have hdrop : rest.drop (nbytes hd) = [] := List.drop_eq_nil_of_le (Nat.le_of_lt hlt)
          rw [hdrop] at he hs
          simp only [lineOf] at he hs
          sorry
      · cases hs

end Chain
