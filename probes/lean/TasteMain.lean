import Lean.Data.Json
import Lp.Taste
open Lean Taste Py

def hexVal (c : Char) : UInt8 :=
  if c.isDigit then (c.toNat - '0'.toNat).toUInt8 else (c.toNat - 'a'.toNat + 10).toUInt8

def unhex (s : String) : Bytes :=
  let rec go : List Char → Bytes
    | a :: b :: rest => (hexVal a * 16 + hexVal b) :: go rest
    | _ => []
  go s.toList

partial def loop (h : IO.FS.Stream) : IO Unit := do
  let line ← h.getLine
  if line.isEmpty then return ()
  let r : Except String Json := do
    let j ← Json.parse line
    let cellH ← (← j.getObjVal? "cellh").getStr?
    let nf ← (← j.getObjVal? "nfields").getNat?
    let fs ← (← j.getObjVal? "files").getObj?
    let files := fs.toList.map fun (k, v) => (k, unhex (v.getStr?.toOption.getD ""))
    let (ok, why) := tasteLevel (unhex cellH) nf files
    return Json.mkObj [("good", toJson ok), ("why", toJson why)]
  match r with
  | .ok j => IO.println j.compress
  | .error e => IO.println (Json.mkObj [("status", toJson s!"bad-op {e}")]).compress
  loop h
def main : IO Unit := do loop (← IO.getStdin)
