import sys, os, shutil, numpy as np, io, contextlib, pickle
sys.path.insert(0, '/tmp/scratch')
from gen import *; import oracle, fakepool
fakepool.install()
from exp1 import mk3
from amr_kitchen.menu import Menu
import amr_kitchen.minuterie as minu, amr_kitchen.marinate as mari
from amr_kitchen import PlotfileCooker
def cap(f):
    buf = io.StringIO()
    with contextlib.redirect_stdout(buf): f()
    return buf.getvalue()
shutil.rmtree('pm', ignore_errors=True)
mk3('pm', fields=["temp","x_velocity","y_velocity","Y(H2)","Y(O2)","foo"])
for kw in [dict(), dict(min_max=True), dict(finest_lv=True), dict(has_var=["temp","bar"]), dict(description=True), dict(every=True), dict(min_max=True, description=True)]:
    try:
        t = cap(lambda: Menu('pm', **kw)); print("C18 menu", kw, "ok", len(t.splitlines()), "lines")
        if kw == dict(min_max=True): print(t)
    except Exception as e: print("C18 menu", kw, "EXC", type(e).__name__, str(e)[:80])
sys.argv = ['minuterie', 'pm']; print("C18 minuterie:", cap(minu.main).strip())
sys.argv = ['marinate', 'pm']; mari.main()
p2 = pickle.load(open('pm.pkl','rb')); p1 = PlotfileCooker('pm', maxmins=True, ghost=True)
print("C18 marinate: fields eq", p1.fields==p2.fields, "time", p1.time==p2.time, "read eq", np.array_equal(p1['temp'][1][3], p2['temp'][1][3]))
os.remove('pm.pkl')
# second Menu instance after unknown field registered in class dict
shutil.rmtree('pm2', ignore_errors=True); mk3('pm2', fields=["a(b","temp"])
try: cap(lambda: Menu('pm2')); print("C18 weird name ok")
except Exception as e: print("C18 weird name EXC", type(e).__name__, str(e)[:80])
try: cap(lambda: Menu('pm')); print("C18 menu after weird ok")
except Exception as e: print("C18 menu after weird EXC", type(e).__name__, str(e)[:80])
