import sys, os, shutil, numpy as np, io, contextlib, builtins, hashlib
sys.path.insert(0, '/tmp/scratch')
from gen import *; import oracle, fakepool
fakepool.install()
from exp1 import mk3
from amr_kitchen.colander import Colander
from amr_kitchen.mandoline import Mandoline
def quiet(f):
    buf = io.StringIO()
    with contextlib.redirect_stdout(buf), contextlib.redirect_stderr(buf):
        return f()
def treehash(d):
    h = hashlib.sha256()
    for root, dirs, files in sorted(os.walk(d)):
        dirs.sort()
        for f in sorted(files):
            p = os.path.join(root, f); st = os.stat(p); h.update(os.path.relpath(p, d).encode()); h.update(open(p,'rb').read()); h.update(str(st.st_mtime_ns).encode())
    return h.hexdigest()[:16]
shutil.rmtree('p3', ignore_errors=True); mk3('p3')
_open = builtins.open
class Faulty:
    def __init__(self, f, ctl): self._f = f; self._c = ctl
    def write(self, b):
        self._c['n'] += 1
        if self._c['n'] == self._c['k']: raise OSError(28, "injected ENOSPC")
        return self._f.write(b)
    def __getattr__(self, a): return getattr(self._f, a)
    def __enter__(self): self._f.__enter__(); return self
    def __exit__(self, *a): return self._f.__exit__(*a)
ctl = {'n': 0, 'k': -1, 'paths': []}
def fopen(file, mode='r', *a, **k):
    if any(c in mode for c in 'wax+'):
        ctl['n'] += 1; ctl['paths'].append(os.path.abspath(file))
        if ctl['n'] == ctl['k']: raise OSError(13, "injected EACCES", file)
        return Faulty(_open(file, mode, *a, **k), ctl)
    return _open(file, mode, *a, **k)
builtins.open = fopen; io.open = fopen
h0 = treehash('p3')
shutil.rmtree('oc', ignore_errors=True)
quiet(lambda: Colander('p3', output='oc', variables=['a','b']).strain())
total = ctl['n']; print("write-side calls in a colander run:", total)
inp = os.path.abspath('p3')
outcomes = {}
for k in range(1, total+1):
    shutil.rmtree('oc', ignore_errors=True); ctl.update(n=0, k=k, paths=[])
    try:
        quiet(lambda: Colander('p3', output='oc', variables=['a','b']).strain()); r = "RETURNED NORMALLY"
    except Exception as e: r = type(e).__name__
    inside = [p for p in ctl['paths'] if p.startswith(inp + os.sep)]
    outcomes.setdefault((r, treehash('p3')==h0, len(inside)), 0); outcomes[(r, treehash('p3')==h0, len(inside))] += 1
print("C13 colander fault sweep:", outcomes)
