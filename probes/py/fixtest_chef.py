import sys, os, shutil, numpy as np, io, contextlib
sys.path.insert(0, '/root/amrk-scratch/fix/repo'); sys.path.insert(1, '/root/amrk-scratch')
from gen import *; import oracle, fakepool
from fixexp1 import mk3
fakepool.install()
from amr_kitchen.chef import Chef
from amr_kitchen.taste import Taster
def quiet(f):
    buf = io.StringIO()
    with contextlib.redirect_stdout(buf), contextlib.redirect_stderr(buf): return f()
shutil.rmtree('p3', ignore_errors=True)
mk3('p3', layout=[[(i%2, -i) for i in range(8)], [(i%3, (i*5)%8) for i in range(8)]])
src = oracle.parse('p3')
def rcall(fi, arr):
    "cA"
    return arr[..., fi["a"]] * 2
for recipe in ['rec1.py', rcall]:
  for kept in [None, "c e", "e zz a"]:
    shutil.rmtree('ck', ignore_errors=True)
    try:
        quiet(lambda: Chef('p3', recipe=recipe, outfile='ck', kept_fields=kept, serial=True).cook())
        out = oracle.parse('ck'); ok = quiet(lambda: bool(Taster('ck', nofail=True, verbose=0)))
        d = out['levels'][1]['data'][3]; s = src['levels'][1]['data'][3]
        res = {}
        for i, nm in enumerate(out['fields']):
            exp = {"newA": s[...,0]+s[...,1], "newB": s[...,0]-s[...,1], "cA": 2*s[...,0], "a": s[...,0], "c": s[...,2], "e": s[...,4]}[nm]
            res[nm] = bool(np.array_equal(d[...,i], exp))
        print("C11 fix", getattr(recipe,'__name__',recipe), kept, "taste", ok, res)
    except Exception as e:
        import traceback; traceback.print_exc(); print("C11 fix", recipe, kept, "EXC", type(e).__name__, str(e)[:100])
for rec, kw in [("HRR", {}), ("ENT", dict(kept_fields="temp density")), ("SRi", dict(species=["H2","O2"], kept_fields="temp"))]:
    shutil.rmtree('ckout', ignore_errors=True)
    quiet(lambda: Chef('/repo/test_assets/example_plt_3d', recipe=rec, outfile='ckout', mech='/repo/test_assets/drm19.yaml', pressure=1.0, serial=True, **kw).cook())
    ok = quiet(lambda: bool(Taster('ckout', nofail=True, verbose=0)))
    o = oracle.parse('ckout'); s0 = oracle.parse('/repo/test_assets/example_plt_3d', maxmins=False)
    keptok = all(np.array_equal(o['levels'][0]['data'][0][..., i], s0['levels'][0]['data'][0][..., s0['fields'].index(n)]) for i, n in enumerate(o['fields']) if n in s0['fields'])
    print("C11 fix builtin", rec, kw.get('kept_fields'), "taste", ok, o['fields'], "kept identical", keptok)
