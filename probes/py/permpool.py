import multiprocessing, itertools
class PermPool:
    """runs tasks in-process in a chosen start order; delivers results per Pool contract"""
    order = None      # function n -> permutation (list)
    log = []
    def __init__(self, *a, **k): pass
    def _run(self, f, it):
        tasks = list(it); n = len(tasks)
        perm = PermPool.order(n) if PermPool.order else list(range(n))
        res = [None]*n
        for i in perm: res[i] = f(tasks[i])
        PermPool.log.append((getattr(f, '__name__', str(f)), n))
        return res, perm
    def map(self, f, it): return self._run(f, it)[0]
    def imap(self, f, it): return iter(self._run(f, it)[0])
    def imap_unordered(self, f, it):
        res, perm = self._run(f, it); return iter([res[i] for i in perm])
    def close(self): pass
    def join(self): pass
    def terminate(self): pass
    def __enter__(self): return self
    def __exit__(self, *a): return False
def install():
    multiprocessing.Pool = PermPool
    import amr_kitchen.chk2plt.chk2plt as c; c.Pool = PermPool
    import amr_kitchen.chef.chef as ch; ch.Pool = PermPool
