import sys, os, shutil, numpy as np, itertools, warnings
sys.path.insert(0, '/root/amrk-scratch/fix/repo'); sys.path.insert(1, '/root/amrk-scratch')
import amr_kitchen; assert amr_kitchen.__file__.startswith('/root/amrk-scratch/fix/repo'), amr_kitchen.__file__
from gen import *; import oracle, fakepool
from amr_kitchen import PlotfileCooker
fakepool.install()
rng = np.random.default_rng(11)
nd, nf = 3, 5
grid0=(8,6,4); lv0 = tile((0,0,0),(7,5,3),(4,3,2)); lv1 = tile((4,0,2),(11,5,5),(4,3,2))
def data(lv,bid,lo,hi,k):
    sh = tuple(hi[d]-lo[d]+1 for d in range(nd)); return rng.integers(0, 2**63, sh, dtype=np.uint64).view('f8')
shutil.rmtree('r', ignore_errors=True)
with warnings.catch_warnings():
    warnings.simplefilter("ignore")
    write_plotfile('r', [f"f{i}" for i in range(nf)], nd, 0.5, (1.,-2.,.25), (.5,.25,.125), grid0, [lv0, lv1], data, layout=[[(i%2, -i) for i in range(len(lv0))], [(i%3, (i*5)%7) for i in range(len(lv1))]])
    src = oracle.parse('r')
p = PlotfileCooker('r')
vals = [None] + list(range(-nf-1, nf+2))
sels = list(range(-nf-1, nf+2)) + [np.int64(2), "f3", ["f1","f4"], [True,False,True,False,True]]
sels += [slice(a,b,c) for a in vals for b in vals for c in [None,1,2,3,-1,-2]]
sels += [list(c) for k in [1,2,3] for c in itertools.permutations(range(-nf, nf), k)][:600] + [[0,0],[nf-1,nf-1], [nf], [-nf-1], [0,nf]]
names = list(p.fields)
n=0; ok=0; refused=0; bad=0
for sel in sels:
    for lv, b in [(0,1),(1,3),(1,7)]:
        n+=1
        t = src['levels'][lv]['data'][b]
        try:
            a = p[sel][lv][b]
        except Exception as e:
            refused+=1; continue
        if isinstance(sel,str): exp = t[..., names.index(sel)]
        elif isinstance(sel,list) and isinstance(sel[0],str): exp = t[..., [names.index(x) for x in sel]]
        else:
            try: exp = t[..., sel]
            except Exception: exp = None
        if exp is not None and a.shape == exp.shape and np.array_equal(a.view('u8'), np.ascontiguousarray(exp).view('u8')): ok+=1
        else:
            bad+=1
            if bad < 10: print("BAD", sel, lv, b, a.shape, None if exp is None else exp.shape)
    # iteration
for sel in [2, -1, slice(1,4), slice(0,5,2), [3,1], [-1,0]]:
    for lv in [0,1]:
        got = sorted(x.tobytes() for x in p[sel][lv]); exp = sorted(np.ascontiguousarray(d[..., sel]).tobytes() for d in src['levels'][lv]['data'])
        print("iter", sel, lv, got == exp)
print("n", n, "ok", ok, "refused", refused, "bad", bad)
