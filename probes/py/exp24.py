import sys, os, shutil, numpy as np, json, subprocess, random, io, contextlib
sys.path.insert(1, '/root/amrk-scratch')
from amr_kitchen import PlotfileCooker
def quiet(f):
    buf = io.StringIO()
    with contextlib.redirect_stdout(buf), contextlib.redirect_stderr(buf): return f()
def gen_header(r):
    nd = r.choice([2,3]); nlev = r.randint(1,4); nf = r.randint(1,6)
    names = [r.choice(["temp","density","Y(H2)","x_velocity","a b", "f", "f_2"]) for _ in range(nf)]
    t = r.choice([0.0, -2.5e-3, 1e-30, 12345.678, 3.0, 1.3924182125972017e-08])
    glo = [r.choice([0.0, 1.0, -2.0, 0.25]) for _ in range(nd)]
    dx0 = [r.choice([0.5, 0.25, 0.125, 0.001]) for _ in range(nd)]
    g0 = [r.choice([4, 8, 12]) for _ in range(nd)]
    ghi = [glo[d] + dx0[d]*g0[d] for d in range(nd)]
    z = ",".join("0" for _ in range(nd))
    L = ["HyperCLaw-V1.1", str(nf)] + names + [str(nd), repr(t), str(nlev-1)]
    sp = r.choice([" ", ""])
    L.append(" ".join(repr(x) for x in glo) + sp)
    L.append(" ".join(repr(x) for x in ghi) + sp)
    L.append(" ".join("2" for _ in range(nlev - 1 + r.choice([0,0,1,2]))) + sp)
    L.append(" ".join(f"(({z}) ({','.join(str(g*2**lv-1) for g in g0)}) ({z}))" for lv in range(nlev)) + sp)
    L.append(" ".join(str(r.randint(0,99999)) for _ in range(nlev)) + sp)
    for lv in range(nlev): L.append(" ".join(repr(d/2**lv) for d in dx0) + sp)
    L += ["0", "0"]
    for lv in range(nlev):
        nb = r.randint(1,3)
        L.append(f"{lv} {nb} {t!r}"); L.append(str(r.randint(0,9)))
        for b in range(nb):
            for d in range(nd):
                a = glo[d] + r.randint(0,3)*dx0[d]; L.append(f"{a!r} {a+dx0[d]*2!r}")
        L.append(f"Level_{lv}/Cell")
    return "\n".join(L) + "\n", nlev
def mutate(r, text):
    lines = text.split("\n"); i = r.randrange(len(lines)-1)
    k = r.choice(["del","dup","garble","blank","extra","neg"])
    if k=="del": lines = lines[:i]+lines[i+1:]
    elif k=="dup": lines = lines[:i+1]+lines[i:]
    elif k=="garble":
        t = lines[i].split()
        if t: j = r.randrange(len(t)); t[j] = t[j]+"x"; lines[i] = " ".join(t)
    elif k=="blank": lines[i] = ""
    elif k=="extra": lines[i] = lines[i] + " 7"
    elif k=="neg": lines[i] = "-" + lines[i]
    return "\n".join(lines)
r = random.Random(5)
cases = []
for n in range(300):
    text, nlev = gen_header(r)
    if n % 3 == 2: text = mutate(r, text)
    for limit in [None] + list(range(0, nlev+1)) if n % 3 != 2 else [None, 0]:
        cases.append((text, limit))
reqs=[]; impl=[]
os.makedirs('hd', exist_ok=True)
for text, limit in cases:
    open('hd/Header','w').write(text)
    try:
        p = quiet(lambda: PlotfileCooker('hd', limit_level=limit, header_only=True))
        impl.append({"status":"ok","fields":[[k,v] for k,v in p.fields.items()],"ndims":p.ndims,"time":p.time,"max_level":p.max_level,"limit_level":p.limit_level,
            "geo_low":p.geo_low,"geo_high":p.geo_high,"factors":p.factors,"grid_sizes":[[int(x) for x in g] for g in p.grid_sizes],"steps":p.step_numbers,
            "dx":p.dx,"npoints":p.npoints,"boxes":p.boxes,"cell_paths":p.cell_paths})
    except Exception as e:
        impl.append({"status":"refused","exc":type(e).__name__})
    reqs.append({"hex": text.encode().hex(), **({"limit": limit} if limit is not None else {})})
with open('req.jsonl','w') as f:
    for q in reqs: f.write(json.dumps(q)+"\n")
with open('req.jsonl') as fi:
    out = subprocess.run(['/root/amrk-scratch/lp/.lake/build/bin/headerdriver'], stdin=fi, capture_output=True, text=True, timeout=600).stdout.splitlines()
def fl(x): return float(x)
mism=0; nok=0; shown=0
for (text, limit), i, o in zip(cases, impl, out):
    m = json.loads(o)
    same = m['status'] == i['status']
    if same and i['status']=="ok":
        nok+=1
        try:
            same = (m['fields']==i['fields'] and m['ndims']==i['ndims'] and fl(m['time'])==i['time'] and m['max_level']==i['max_level'] and m['limit_level']==i['limit_level']
                and [fl(x) for x in m['geo_low']]==i['geo_low'] and [fl(x) for x in m['geo_high']]==i['geo_high'] and m['factors']==i['factors'] and m['grid_sizes']==i['grid_sizes']
                and m['steps']==i['steps'] and [[fl(x) for x in d] for d in m['dx']]==i['dx'] and m['npoints']==i['npoints']
                and [[[[fl(a),fl(b)] for a,b in bx] for bx in lv] for lv in m['boxes']]==i['boxes'] and m['cell_paths']==i['cell_paths'])
        except Exception as e: same = False
    if not same:
        mism+=1
        if shown<8: shown+=1; print("MISMATCH limit", limit, "impl", i['status'], i.get('exc'), "model", m['status'], m.get('why')); 
print("headers compared", len(cases), "ok", nok, "mismatches", mism)
import difflib
shown=0
for (text, limit), i, o in zip(cases, impl, out):
    m = json.loads(o)
    if m['status']=="ok" and i['status']=="ok":
        for k in ['fields','ndims','max_level','limit_level','factors','grid_sizes','steps','npoints','cell_paths']:
            if m[k] != i[k] and shown < 6: shown+=1; print("DIFF", k, "impl", i[k], "model", m[k])
        if [[fl(x) for x in d] for d in m['dx']]!=i['dx'] and shown<6: shown+=1; print("DIFF dx", i['dx'], m['dx'])
        if fl(m['time'])!=i['time'] and shown<6: shown+=1; print("DIFF time", i['time'], m['time'])
    if m['status']=="ok" and i['status']!="ok" and shown < 9:
        shown+=1; print("IMPL REFUSED:", i.get('exc'), "nlines", len(text.split('\n')), "levels in model", m['max_level'], "grids", len(m['grid_sizes']), "dx", len(m['dx']), "ndims", m['ndims'], "geo", len(m['geo_low']), [len(g) for g in m['grid_sizes']])
import traceback
for (text, limit), i, o in zip(cases, impl, out):
    m = json.loads(o)
    if m['status']=="ok" and i['status']!="ok":
        open('hd/Header','w').write(text)
        try: PlotfileCooker('hd', limit_level=limit, header_only=True)
        except Exception: traceback.print_exc()
        print(text)
        break
