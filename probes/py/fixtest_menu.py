import sys, os, shutil, numpy as np, io, contextlib
sys.path.insert(0, '/root/amrk-scratch/fix/repo'); sys.path.insert(1, '/root/amrk-scratch')
from gen import *; import oracle, fakepool
from fixexp1 import mk3
fakepool.install()
from amr_kitchen.chef import Chef
from amr_kitchen.taste import Taster
from amr_kitchen.menu import Menu
def quiet(f):
    buf = io.StringIO()
    with contextlib.redirect_stdout(buf), contextlib.redirect_stderr(buf):
        return f()
shutil.rmtree('p3', ignore_errors=True); shutil.rmtree('ck', ignore_errors=True)
mk3('p3', layout=[[(i%2, -i) for i in range(8)], [(i%3, (i*5)%8) for i in range(8)]])
src = oracle.parse('p3')
for kept in [None, "c e"]:
    for serial in [True, False]:
        shutil.rmtree('ck', ignore_errors=True)
        try:
            quiet(lambda: Chef('p3', recipe='rec1.py', outfile='ck', kept_fields=kept, serial=serial).cook())
            out = oracle.parse('ck')
            ok = quiet(lambda: bool(Taster('ck', nofail=True, verbose=0)))
            d = out['levels'][1]['data'][3]; s = src['levels'][1]['data'][3]
            res = {}
            for i, nm in enumerate(out['fields']):
                exp = {"newA": s[...,0]+s[...,1], "newB": s[...,0]-s[...,1], "c": s[...,2], "e": s[...,4]}[nm]
                res[nm] = bool(np.array_equal(d[...,i], exp))
            mm = all(np.allclose(out['levels'][lv]['mins'][b], out['levels'][lv]['data'][b].min(axis=(0,1,2))) for lv in range(2) for b in range(8))
            print("C11 kept", kept, "serial", serial, "taste", ok, "fields", out['fields'], "name->data ok", res, "minmax true", mm)
        except Exception as e:
            import traceback; traceback.print_exc(); print("C11 kept", kept, "EXC", type(e).__name__, str(e)[:100])
# default out with trailing slash
shutil.rmtree('p3_ck', ignore_errors=True)
before = sorted(os.listdir('p3'))
quiet(lambda: Chef('p3/', recipe='rec1.py').cook())
print("C13 chef default with trailing slash: input listing before", before, "after", sorted(os.listdir('p3')))
shutil.rmtree('p3/_ck', ignore_errors=True)
# C18 menu
for fields in [["a","b","c","d","e"], ["a","b","c","d"], ["temp","Y(H2)","Y(O2)"], ["a"]]:
    shutil.rmtree('pm', ignore_errors=True); mk3('pm', fields=fields)
    for kw in [dict(min_max=True), dict()]:
        buf = io.StringIO()
        try:
            with contextlib.redirect_stdout(buf): Menu('pm', **kw)
            txt = buf.getvalue()
            print("C18", fields, kw, "each field shown:", {f: txt.count(f) for f in fields})
        except Exception as e:
            print("C18", fields, kw, "EXC", type(e).__name__, str(e)[:80])
