import sys, os, shutil, numpy as np, io, contextlib
sys.path.insert(0, '/tmp/scratch')
from gen import *; import oracle, fakepool
fakepool.install()
from exp1 import mk3
from amr_kitchen import PlotfileCooker
from amr_kitchen.colander import Colander
from amr_kitchen.combine import combine
from amr_kitchen.chef import Chef
from amr_kitchen.taste import Taster
def quiet(f):
    buf = io.StringIO()
    with contextlib.redirect_stdout(buf), contextlib.redirect_stderr(buf):
        return f()
def taste(d): return quiet(lambda: bool(Taster(d, nofail=True, boxes_coordinates=True, verbose=0)))
for d in ['p3','h1','h2','h3','h4','h5']: shutil.rmtree(d, ignore_errors=True)
mk3('p3', geo_low=(1.0,-2.0,0.25), dx0=(0.5,0.25,0.125), layout=[[(i//4, i) for i in range(8)], [(i//3, i) for i in range(8)]])
src = oracle.parse('p3')
# cook then combine back
quiet(lambda: Chef('p3', recipe='rec1.py', outfile='h1').cook())
quiet(lambda: combine(PlotfileCooker('p3'), PlotfileCooker('h1'), 'h2'))
o = oracle.parse('h2')
ok = o['fields'] == src['fields'] + ['newA','newB'] and all(np.array_equal(o['levels'][lv]['data'][b][..., :5].view('u8'), src['levels'][lv]['data'][b].view('u8')) for lv in range(2) for b in range(8))
print("C14 cook+combine-back: taste", taste('h1'), taste('h2'), "orig fields unchanged + new:", ok)
# strain all = identity
quiet(lambda: Colander('p3', output='h3', variables=['all']).strain())
o = oracle.parse('h3')
same = all(o[k] == src[k] for k in ['fields','ndims','time','finest','lo','hi','grid','dx']) and all(np.array_equal(o['levels'][lv]['data'][b].view('u8'), src['levels'][lv]['data'][b].view('u8')) and o['levels'][lv]['mins'][b]==src['levels'][lv]['mins'][b] for lv in range(2) for b in range(8))
print("C14 strain all identity on contents:", same, "taste", taste('h3'))
# 3 hops: colander(limit 0) -> chef -> colander
quiet(lambda: Colander('p3', output='h4', variables=['b','a'], limit_level=0).strain())
quiet(lambda: Chef('h4', recipe='rec1.py', outfile='h5').cook())
shutil.rmtree('h3'); quiet(lambda: Colander('h5', output='h3', variables=['newB']).strain())
o = oracle.parse('h3')
exp = [src['levels'][0]['data'][b][...,0]-src['levels'][0]['data'][b][...,1] for b in range(8)]
print("C14 3 hops:", taste('h4'), taste('h5'), taste('h3'), o['fields'], all(np.array_equal(o['levels'][0]['data'][b][...,0], exp[b]) for b in range(8)), "factors line", repr(open('h3/Header').read().split('\n')[8]))
