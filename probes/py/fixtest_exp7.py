import sys, os, shutil, numpy as np, itertools, io, contextlib
sys.path.insert(0, '/root/amrk-scratch/fix/repo'); sys.path.insert(1, '/root/amrk-scratch')
from gen import *; import oracle
from amr_kitchen import PlotfileCooker
from amr_kitchen.mandoline import Mandoline
from amr_kitchen.pestle import volume_integral
def quiet(f):
    buf = io.StringIO()
    with contextlib.redirect_stdout(buf), contextlib.redirect_stderr(buf):
        return f()
# ---- C08 2D
geo_low=(1.0,-2.0); dx0=(0.5,0.25)
grid0=(12,8)
lv0 = tile((0,0),(11,7),(6,4)); lv1 = tile((4,4),(15,11),(6,4))
def data2(lv,bid,lo,hi,k):
    sh = tuple(hi[d]-lo[d]+1 for d in range(2)); I = np.indices(sh)
    return 10000*k + 1000*lv + 10*(I[0]+lo[0]) + 0.1*(I[1]+lo[1])
shutil.rmtree('p2', ignore_errors=True)
write_plotfile('p2', ["u","v"], 2, 0.5, geo_low, dx0, grid0, [lv0, lv1], data2, layout=[[(i%2,-i) for i in range(len(lv0))],[(i%3,-i) for i in range(len(lv1))]])
src = oracle.parse('p2')
def cover2(src, k, lim):
    g = np.full(tuple(src['grid'][lim]), np.nan); glv = np.full(tuple(src['grid'][lim]), np.nan)
    for lv in range(lim+1):
        f = 2**(lim-lv)
        for (lo,hi), d in zip(src['levels'][lv]['idx'], src['levels'][lv]['data']):
            a = np.repeat(np.repeat(d[...,k], f, 0), f, 1)
            g[lo[0]*f:(hi[0]+1)*f, lo[1]*f:(hi[1]+1)*f] = a; glv[lo[0]*f:(hi[0]+1)*f, lo[1]*f:(hi[1]+1)*f] = lv
    return g, glv
for lim in [0,1]:
    for serial in [True, False]:
        m = quiet(lambda: Mandoline('p2', fields=["v","u","grid_level"], limit_level=lim, serial=serial, verbose=0))
        out = quiet(lambda: m.slice(fformat="return"))
        gv, glv = cover2(src, 1, lim); gu, _ = cover2(src, 0, lim)
        xs = geo_low[0] + (np.arange(src['grid'][lim][0])+0.5)*dx0[0]/2**lim
        print("C08 lim", lim, "serial", serial, "v", np.array_equal(out['v'], gv.T), "u", np.array_equal(out['u'], gu.T), "glv", np.array_equal(out['grid_level'], glv.T), "x", np.allclose(out['x'], xs), out['v'].shape)
# ---- C09 pestle mixed sizes
geo_low=(0.,0.,0.); dx0=(1.0,1.0,1.0)
def mkP(path, lv1boxes, grid0=(40,16,16)):
    lv0 = tile((0,0,0),tuple(g-1 for g in grid0),(8,8,8))
    def data(lv,bid,lo,hi,k):
        sh = tuple(hi[d]-lo[d]+1 for d in range(3)); I = np.indices(sh)
        return 1.0 + 0*I[0] if k==0 else (1+lv)*1.0 + 0.001*(I[0]+lo[0])
    shutil.rmtree(path, ignore_errors=True)
    write_plotfile(path, ["one","f"], 3, 0.5, geo_low, dx0, grid0, [lv0, lv1boxes], data)
def exact(path, k, lim=None):
    s = oracle.parse(path); L = s['finest'] if lim is None else lim; tot=0.
    for lv in range(L+1):
        dV = np.prod(s['dx'][lv])
        for (lo,hi), d in zip(s['levels'][lv]['idx'], s['levels'][lv]['data']):
            mask = np.ones(d.shape[:-1], bool)
            if lv < L:
                for (flo,fhi) in s['levels'][lv+1]['idx']:
                    clo = [x//2 for x in flo]; chi = [x//2 for x in fhi]
                    sl = tuple(slice(max(clo[a],lo[a])-lo[a], max(min(chi[a],hi[a])-lo[a]+1,0)) for a in range(3))
                    mask[sl] = False
            tot += dV*np.sum(d[...,k][mask])
    return tot
cases = {"uniform16": tile((16,0,0),(47,31,31),(16,16,16)),
         "mixed 16+24 (x)": [((16,0,0),(31,15,15)), ((32,0,0),(55,15,15))],
         "mixed 24+16 (x)": [((16,0,0),(39,15,15)), ((40,0,0),(55,15,15))],
         "8 and 16": [((16,0,0),(23,15,15)), ((24,0,0),(39,15,15))]}
for nm, b1 in cases.items():
    mkP('pp', b1)
    for fld,k in [("one",0),("f",1)]:
        try:
            pck = quiet(lambda: PlotfileCooker('pp', ghost=True))
            got = quiet(lambda: volume_integral(pck, fld))
            print("C09", nm, fld, "got", got, "exact", exact('pp',k))
        except Exception as e:
            print("C09", nm, fld, "EXC", type(e).__name__, str(e)[:100])
mkP('pp', cases["uniform16"])
pck = quiet(lambda: PlotfileCooker('pp', ghost=True))
for lim in [None, 0, 1]:
    got = quiet(lambda: volume_integral(pck, "f", limit_level=lim))
    print("C09 limit", lim, "got", got, "exact", exact('pp', 1, lim))
