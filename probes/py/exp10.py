import sys, os, shutil, numpy as np, itertools, io, contextlib, re
sys.path.insert(0, '/tmp/scratch')
from gen import *; import oracle, fakepool
from amr_kitchen import PlotfileCooker
from amr_kitchen.taste import Taster
fakepool.install()
def quiet(f):
    buf = io.StringIO()
    with contextlib.redirect_stdout(buf), contextlib.redirect_stderr(buf):
        return f()
def mk(path, nd=3):
    if nd == 3:
        grid0=(8,8,8); lv0 = tile((0,0,0),(7,7,7),(4,4,4)); lv1 = tile((4,4,4),(11,11,11),(4,4,4)); gl=(1.,-2.,.25); dx0=(.5,.25,.125)
    else:
        grid0=(8,8); lv0 = tile((0,0),(7,7),(4,4)); lv1 = tile((4,4),(11,11),(4,4)); gl=(1.,-2.); dx0=(.5,.25)
    def data(lv,bid,lo,hi,k):
        sh = tuple(hi[d]-lo[d]+1 for d in range(nd)); I = np.indices(sh)
        return 1000*k+100*lv+bid+0.001*I[0]
    lay = [[(i%2, -i) for i in range(len(lv0))], [(i%3, (i*5)%7) for i in range(len(lv1))]]
    write_plotfile(path, ["a","b","c"], nd, 0.5, gl, dx0, grid0, [lv0, lv1], data, layout=lay)
def verdict(path, **kw):
    r = []
    for nofail in [True, False]:
        try:
            r.append(bool(quiet(lambda: Taster(path, nofail=nofail, verbose=0, **kw))))
        except Exception as e:
            r.append("raise:"+type(e).__name__)
    return r
def readable(path):
    try:
        p = PlotfileCooker(path)
        for lv in range(p.limit_level+1):
            for b in range(len(p.cells[lv]['indexes'])):
                a = p[:][lv][b]
                idx = p.cells[lv]['indexes'][b]
                if tuple(a.shape) != tuple(idx[1]-idx[0]+1) + (len(p.fields),): return f"shape {a.shape}"
        return "ok"
    except Exception as e:
        return "EXC "+type(e).__name__
accepted = []
for nd in [3,2]:
    shutil.rmtree('g', ignore_errors=True); mk('g', nd)
    print("base", verdict('g'))
    n = 0
    for lv in [0,1]:
        chp = f'g/Level_{lv}/Cell_H'
        lines = open(chp).read().split('\n')
        muts = []
        for i in range(len(lines)-1):
            muts.append((f"del line {i}: {lines[i][:30]!r}", lines[:i]+lines[i+1:]))
            muts.append((f"dup line {i}", lines[:i+1]+lines[i:]))
            if lines[i].startswith("FabOnDisk"):
                t = lines[i].split()
                for d in [1,-1,8,5,-5, 40, 60, 64, 100000]:
                    muts.append((f"offset {t[2]}{d:+d} line {i}", lines[:i]+[f"{t[0]} {t[1]} {int(t[2])+d}"]+lines[i+1:]))
                muts.append((f"file-> other line {i}", lines[:i]+[f"{t[0]} Cell_D_00001 {t[2]}" if t[1]!="Cell_D_00001" else f"{t[0]} Cell_D_00000 {t[2]}"]+lines[i+1:]))
                muts.append((f"file-> missing line {i}", lines[:i]+[f"{t[0]} Cell_D_00009 {t[2]}"]+lines[i+1:]))
                muts.append((f"extra ws line {i}", lines[:i]+[f"{t[0]}   {t[1]}\t{t[2]}  "]+lines[i+1:]))
            if lines[i].startswith("(("):
                muts.append((f"idx hi+1 line {i}", lines[:i]+[re.sub(r"\((\d+),", lambda m: f"({int(m.group(1))+1},", lines[i], count=1)]+lines[i+1:]))
                muts.append((f"idx garbage line {i}", lines[:i]+[lines[i].replace(",", ";",1)]+lines[i+1:]))
        for nm, new in muts:
            shutil.copy(chp, chp+".bak"); open(chp,'w').write('\n'.join(new))
            v = verdict('g'); n+=1
            if v != [False, "raise:TastesBadError"] and not (v[0] is False and str(v[1]).startswith("raise")):
                accepted.append((nd, lv, "CellH", nm, v, readable('g')))
            shutil.move(chp+".bak", chp)
        # binary files
        for bf in sorted(f for f in os.listdir(f'g/Level_{lv}') if f.startswith("Cell_D")):
            p = f'g/Level_{lv}/{bf}'; raw = open(p,'rb').read()
            hdrpos = [m.start() for m in re.finditer(b"FAB", raw)]
            bm = [("trunc8", raw[:-8]), ("trunc1", raw[:-1]), ("ext8", raw+b"\0"*8), ("ext1", raw+b"\n"), ("empty", b""), ("missing", None), ("del8mid", raw[:len(raw)//2]+raw[len(raw)//2+8:]), ("ins8mid", raw[:len(raw)//2]+b"\0"*8+raw[len(raw)//2:]), ("prefix garbage", b"xx"+raw), ("prefix line", b"xx\n"+raw)]
            for hp in hdrpos:
                eol = raw.index(b"\n", hp)
                h = raw[hp:eol]
                bm.append((f"nf+1@{hp}", raw[:hp]+re.sub(rb" (\d+)$", lambda m: b" %d" % (int(m.group(1))+1), h)+raw[eol:]))
                bm.append((f"idxshift@{hp}", raw[:hp]+re.sub(rb"\)\(\((\d+),", lambda m: b")((%d," % (int(m.group(1))+1), h, count=1)+raw[eol:]))
                bm.append((f"hdr ws@{hp}", raw[:hp]+h.replace(b") (", b")  (",1)+raw[eol:]))
                bm.append((f"hdr prefix cut@{hp}", raw[:hp]+h[5:]+raw[eol:]))
                bm.append((f"hdr FAB->XXX@{hp}", raw[:hp]+b"XXX"+h[3:]+raw[eol:]))
            for nm, new in bm:
                shutil.copy(p, p+".bak")
                if new is None: os.remove(p)
                else: open(p,'wb').write(new)
                v = verdict('g'); n+=1
                if not (v[0] is False and str(v[1]).startswith("raise")):
                    accepted.append((nd, lv, bf, nm, v, readable('g')))
                shutil.move(p+".bak", p)
    print("nd", nd, "mutations", n)
for a in accepted: print("ACCEPTED/ODD", a)
