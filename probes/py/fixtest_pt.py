import sys, os, shutil, numpy as np, io, contextlib
sys.path.insert(0, '/root/amrk-scratch/fix/repo'); sys.path.insert(1, '/root/amrk-scratch')
from gen import *; import oracle, fakepool
fakepool.install()
from amr_kitchen import PlotfileCooker
def quiet(f):
    buf = io.StringIO()
    with contextlib.redirect_stdout(buf), contextlib.redirect_stderr(buf): return f()
for geo_low in [(0.,0.,0.), (1.0,-2.0,0.25), (-7.5, 3.0, 100.0)]:
    dx0=(0.5,0.25,0.125); grid0 = (8,12,8)
    lv0 = tile((0,0,0),(7,11,7),(4,6,4)); lv1 = tile((4,0,4),(11,11,11),(4,6,4))
    rng = np.random.default_rng(1)
    def data(lv, bid, lo, hi, k):
        sh = tuple(hi[d]-lo[d]+1 for d in range(3)); return rng.integers(-1000, 1000, sh).astype(float) + k
    shutil.rmtree('i3', ignore_errors=True)
    write_plotfile('i3', ["a","b","c"], 3, 0.1, geo_low, dx0, grid0, [lv0, lv1], data)
    src = oracle.parse('i3'); p = PlotfileCooker('i3')
    n=bad=exc=0
    for lv in [0,1]:
        for b,(lo,hi) in enumerate(src['levels'][lv]['idx']):
            d = src['levels'][lv]['data'][b]
            for c in [(1,1,1),(2,3,2),(1,4,1),(2,1,2)]:
                gc = [lo[a]+c[a] for a in range(3)]
                if lv==0 and all(4 <= 2*gc[a] <= 11 for a in [0,2]): continue
                pt = [geo_low[a] + (gc[a]+0.5)*dx0[a]/2**lv for a in range(3)]
                for sel in ["b", ["a","c"]]:
                    n+=1
                    try:
                        v = quiet(lambda: p[sel](*pt)); exp = d[c[0],c[1],c[2],1] if sel=="b" else d[c[0],c[1],c[2],[0,2]]
                        if not np.allclose(np.ravel(v), np.ravel(exp), rtol=1e-9, atol=1e-9): bad+=1
                    except Exception as e: exc+=1
    try: quiet(lambda: p["a"](geo_low[0]-1, geo_low[1], geo_low[2])); out="answered"
    except Exception as e: out="refused "+type(e).__name__
    print("C19 origin", geo_low, "n", n, "bad", bad, "exc", exc, "outside:", out)
