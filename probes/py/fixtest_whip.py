import sys, os, shutil, numpy as np, io, contextlib
sys.path.insert(0, '/root/amrk-scratch/fix/repo'); sys.path.insert(1, '/root/amrk-scratch')
from gen import *; import oracle, fakepool
fakepool.install()
from amr_kitchen.colander import Colander
from amr_kitchen.taste import Taster
from amr_kitchen import PlotfileCooker
import amr_kitchen.whip.cli as whip
def quiet(f):
    buf = io.StringIO()
    with contextlib.redirect_stdout(buf), contextlib.redirect_stderr(buf):
        return f()
geo_low=(1.0,-2.0,0.25); dx0=(0.5,0.25,0.125)
grid0 = (8,12,8)
lv0 = tile((0,0,0),(7,11,7),(4,6,4)); lv1 = tile((4,0,4),(11,11,11),(4,6,4))
def data(lv, bid, lo, hi, k):
    sh = tuple(hi[d]-lo[d]+1 for d in range(3)); I = np.indices(sh)
    return 100000*k + 10000*lv + 100*(I[0]+lo[0]) + (I[1]+lo[1]) + 0.01*(I[2]+lo[2])
shutil.rmtree('w3', ignore_errors=True)
lay = [[(i%2, -i) for i in range(len(lv0))], [(i%3, (i*5)%7) for i in range(len(lv1))]]
write_plotfile('w3', ["a","b","c"], 3, -2.5e-3, geo_low, dx0, grid0, [lv0, lv1], data, layout=lay)
src = oracle.parse('w3')
def cover3(src, k, lim):
    g = np.full(tuple(src['grid'][lim]), np.nan)
    for lv in range(lim+1):
        f = 2**(lim-lv)
        for (lo,hi), d in zip(src['levels'][lv]['idx'], src['levels'][lv]['data']):
            a = np.repeat(np.repeat(np.repeat(d[...,k], f, 0), f, 1), f, 2)
            g[lo[0]*f:(hi[0]+1)*f, lo[1]*f:(hi[1]+1)*f, lo[2]*f:(hi[2]+1)*f] = a
    return g
for lim, dt in [(None,'float64'), (None,'float32'), (0,'float64')]:
    argv = ['whip', '-v', 'b', '-o', 'wout', '-y', '-d', dt, 'w3'] + (['-l', str(lim)] if lim is not None else [])
    sys.argv = argv
    if os.path.exists('wout.npy'): os.remove('wout.npy')
    quiet(whip.main)
    out = np.load('wout.npy')
    L = 1 if lim is None else lim
    exp = cover3(src, 1, L).astype(dt)
    print("C10 lim", lim, dt, "shape", out.shape, "exp shape", exp.shape, "equal", out.shape==exp.shape and np.array_equal(out, exp), out.dtype)
# colander zero kept
shutil.rmtree('c0', ignore_errors=True)
try:
    quiet(lambda: Colander('w3', output='c0', variables=['zz']).strain())
    print("C05 zero kept: taste", quiet(lambda: bool(Taster('c0', nofail=True, verbose=0))))
    try: PlotfileCooker('c0', maxmins=True); print("   opens with maxmins")
    except Exception as e: print("   maxmins open EXC", type(e).__name__)
except Exception as e: print("C05 zero kept EXC", type(e).__name__, e)
sys.argv = ['whip', '-v', 'b', '-o', 'wout', '-y', 'w3']
quiet(whip.main)
out = np.load('wout.npy'); exp = cover3(src, 1, 1)
bad = np.argwhere(out != exp)
print("nbad", len(bad), "of", out.size, "first", bad[:5].tolist(), "out", out[tuple(bad[0])], "exp", exp[tuple(bad[0])])
print("bad extents", bad.min(axis=0), bad.max(axis=0))
sys.argv = ['whip', '-v', 'a', '-o', 'wout', '-y', 'w3']
quiet(whip.main); out = np.load('wout.npy'); exp = cover3(src, 0, 1); print("field a equal", np.array_equal(out, exp))
sys.argv = ['whip', '-v', 'c', '-o', 'wout', '-y', 'w3']
quiet(whip.main); out = np.load('wout.npy'); exp = cover3(src, 2, 1); print("field c equal", np.array_equal(out, exp), (out!=exp).sum())
