import sys, os, shutil, numpy as np, itertools, io, contextlib
sys.path.insert(0, '/root/amrk-scratch/fix/repo'); sys.path.insert(1, '/root/amrk-scratch')
from gen import *; import oracle, fakepool
fakepool.install()
from amr_kitchen.mandoline import Mandoline
from amr_kitchen.taste import Taster
def quiet(f):
    buf = io.StringIO()
    with contextlib.redirect_stdout(buf), contextlib.redirect_stderr(buf): return f()
geo_low=(1.0,-2.0,0.25); dx0=(0.5,0.25,0.125)
lv0 = tile((0,0,0),(7,7,7),(4,4,4)); lv1 = tile((4,4,4),(11,11,11),(4,4,4))
def mk(path, cn):
    def data(lv, bid, lo, hi, k):
        sh = tuple(hi[d]-lo[d]+1 for d in range(3)); I = np.indices(sh)
        xs = [geo_low[d] + (I[d]+lo[d]+0.5)*dx0[d]/2**lv for d in range(3)]
        if k==0: return 3.0 + 0.5*xs[cn]
        return 100.*lv + bid + 0*xs[0]
    return write_plotfile(path, ["aff", "lvbid"], 3, 1.5, geo_low, dx0, (8,8,8), [lv0, lv1], data)
tot=0; problems=0
for cn in [0,1,2]:
    shutil.rmtree('m3', ignore_errors=True); mk('m3', cn)
    src = oracle.parse('m3')
    L = geo_low[cn]; d0 = dx0[cn]; d1=d0/2
    poss = [L+4.6*d0, L+1.37*d0, L+2*d0+2.5*d1, L+4*d0, L+3.75*d0, L+4.25*d0, L+4*d0-0.25*d1, L+4*d0+0.25*d1, L, L+8*d0, L+0.1*d0, L+7.9*d0, L+2*d0, L+6*d0, L+2*d0+0.2*d1, L+6*d0-0.2*d1, None]
    for pos in poss:
        tot+=1
        shutil.rmtree('s2', ignore_errors=True)
        try:
            m = quiet(lambda: Mandoline('m3', fields=["aff","lvbid"], serial=True, verbose=0))
            quiet(lambda: m.slice(normal=cn, pos=pos, fformat="plotfile", outfile="s2"))
            p = m.pos
            ok = quiet(lambda: bool(Taster('s2', nofail=True, boxes_coordinates=True, verbose=0)))
            out = oracle.parse('s2')
            cx, cy = [i for i in range(3) if i != cn]
            msg = []
            if not ok: msg.append("taste False")
            for lv in range(out['finest']+1):
                # expected boxes: those meeting the plane, dedup at faces
                exp_boxes = []
                for (lo,hi) in src['levels'][lv]['idx']:
                    blo = geo_low[cn] + lo[cn]*dx0[cn]/2**lv; bhi = geo_low[cn] + (hi[cn]+1)*dx0[cn]/2**lv
                    if blo <= p and (p < bhi or np.isclose(bhi, geo_low[cn]+8*dx0[cn])): exp_boxes.append(((lo[cx],lo[cy]),(hi[cx],hi[cy])))
                got_boxes = [ (tuple(a), tuple(b)) for a,b in out['levels'][lv]['idx']]
                if sorted(got_boxes) != sorted(exp_boxes): msg.append(f"L{lv} boxes {len(got_boxes)} vs {len(exp_boxes)}")
                for b, d in enumerate(out['levels'][lv]['data']):
                    e = np.max(np.abs(d[...,0]-(3.0+0.5*p)))
                    # away from domain faces the affine field is exact
                    if L + d0/2**(lv+1) <= p <= L+8*d0 - d0/2**(lv+1) and e > 1e-12: msg.append(f"L{lv} b{b} aff err {e:.3g}")
                    u = np.unique(d[...,1])
                    if len(u) != 1 or int(u[0])//100 != lv: msg.append(f"L{lv} b{b} holds {u[:3]}")
                    if not np.allclose(out['levels'][lv]['mins'][b], d.min(axis=(0,1))) or not np.allclose(out['levels'][lv]['maxs'][b], d.max(axis=(0,1))): msg.append("minmax")
            if msg: problems+=1; print("C16", cn, pos, msg[:4])
        except Exception as e:
            problems+=1; print("C16", cn, pos, "EXC", type(e).__name__, str(e)[:100])
print("C16 slices", tot, "with problems", problems)
