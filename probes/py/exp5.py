import sys, os, shutil, numpy as np, itertools, io, contextlib
sys.path.insert(0, '/tmp/scratch')
from gen import *; import oracle
from amr_kitchen.mandoline import Mandoline
def quiet(f):
    buf = io.StringIO()
    with contextlib.redirect_stdout(buf), contextlib.redirect_stderr(buf):
        return f()
geo_low=(1.0,-2.0,0.25); dx0=(0.5,0.25,0.125)
def mk(path, aff=(3.0, 0.7, -1.3, 2.1)):
    grid0 = (8,8,8)
    lv0 = tile((0,0,0),(7,7,7),(4,4,4))
    lv1 = tile((4,4,4),(11,11,11),(4,4,4))
    def data(lv, bid, lo, hi, k):
        sh = tuple(hi[d]-lo[d]+1 for d in range(3))
        I = np.indices(sh)
        xs = [geo_low[d] + (I[d]+lo[d]+0.5)*dx0[d]/2**lv for d in range(3)]
        if k == 0:   # affine
            return aff[0] + aff[1]*xs[0] + aff[2]*xs[1] + aff[3]*xs[2]
        return 100*lv + bid + 0*xs[0]
    return write_plotfile(path, ["aff","lvbid"], 3, 1.5, geo_low, dx0, grid0, [lv0, lv1], data)
shutil.rmtree('m3', ignore_errors=True); mk('m3')
# poison np.empty
import numpy
_orig_empty = numpy.empty
POISON = [7.77e77]
def poisoned(shape, dtype=float, *a, **k):
    arr = _orig_empty(shape, dtype, *a, **k)
    try: arr[...] = POISON[0]
    except Exception: pass
    return arr
numpy.empty = poisoned
aff=(3.0, 0.7, -1.3, 2.1)
for cn in [0,1,2]:
    L = geo_low[cn]; H = geo_low[cn] + 8*dx0[cn]; d0 = dx0[cn]; d1 = d0/2
    poss = {"default": None, "center_cell_l0": L+2.5*d0, "face_l0box": L+4*d0, "gap_below_l0_boxface": L+3.75*d0, "gap_above_l0_boxface": L+4.25*d0,
            "fine_gap_below": L+4*d0 - 0.25*d1, "fine_gap_above_finebox_face": L+4*d0+0.25*d1,"in_fine_generic": L+5.3*d1*2, "domface_lo": L, "domface_hi": H, "near_lo": L+0.1*d0, "near_hi": H-0.1*d0, "fine_edge_lo": L+2*d0+0.2*d1, "fine_edge_hi": L+6*d0-0.2*d1}
    for nm, pos in poss.items():
        try:
            m = quiet(lambda: Mandoline('m3', fields=["aff","lvbid","grid_level"], serial=True, verbose=0))
            out = quiet(lambda: m.slice(normal=cn, pos=pos, fformat="return"))
            p = out['slice_pos']
            X, Y = np.meshgrid(out['x'], out['y'])
            cx, cy = [i for i in range(3) if i != cn]
            coords = [None]*3; coords[cx]=X; coords[cy]=Y; coords[cn]=p
            exp = aff[0] + aff[1]*coords[0] + aff[2]*coords[1] + aff[3]*coords[2]
            err = np.abs(out['aff']-exp)
            npois = int(np.sum(out['aff']==POISON[0]) + np.sum(np.abs(out['aff'])>1e50))
            gl = out['grid_level']
            print(cn, nm, "pos", p, "maxerr(aff)", float(np.nanmax(err)) if npois==0 else "POISON", "poison px", npois, "grid_level vals", np.unique(gl)[:5])
        except Exception as e:
            print(cn, nm, "EXC", type(e).__name__, str(e)[:120])
