import multiprocessing
class FakePool:
    def __init__(self, *a, **k): pass
    def map(self, f, it): return [f(x) for x in list(it)]
    def imap(self, f, it): return iter([f(x) for x in list(it)])
    def imap_unordered(self, f, it): return iter([f(x) for x in list(it)])
    def close(self): pass
    def join(self): pass
    def terminate(self): pass
    def __enter__(self): return self
    def __exit__(self, *a): return False
def install():
    multiprocessing.Pool = FakePool
    import amr_kitchen.chk2plt.chk2plt as c; c.Pool = FakePool
    import amr_kitchen.chef.chef as ch; ch.Pool = FakePool
