"""Independent plotfile parser (oracle), no amr_kitchen imports."""
import os, re, numpy as np
def parse(path, maxmins=True):
    with open(os.path.join(path, "Header")) as h:
        L = h.read().split("\n")
    i = 0
    ver = L[i]; i+=1
    nf = int(L[i]); i+=1
    fields = L[i:i+nf]; i+=nf
    nd = int(L[i]); i+=1
    time = float(L[i]); i+=1
    finest = int(L[i]); i+=1
    lo = [float(x) for x in L[i].split()]; i+=1
    hi = [float(x) for x in L[i].split()]; i+=1
    fac = L[i].split(); i+=1
    doms = re.findall(r"\(\(([-\d,]+)\) \(([-\d,]+)\) \(([-\d,]+)\)\)", L[i]); i+=1
    grid = [[int(b)-int(a)+1 for a,b in zip(d[0].split(','), d[1].split(','))] for d in doms]
    steps = L[i].split(); i+=1
    dx = []
    for lv in range(finest+1):
        dx.append([float(x) for x in L[i].split()]); i+=1
    i+=2
    levels = []
    for lv in range(finest+1):
        a = L[i].split(); i+=1
        assert int(a[0]) == lv
        nb = int(a[1]); i+=1
        pb = []
        for b in range(nb):
            bb = []
            for d in range(nd):
                bb.append([float(x) for x in L[i].split()]); i+=1
            pb.append(bb)
        cdir = L[i].split('/')[0]; i+=1
        with open(os.path.join(path, cdir, "Cell_H")) as ch:
            C = ch.read().split("\n")
        j = 2
        assert int(C[j]) == nf, (C[j], nf); j+=2
        n = int(C[j].split()[0][1:]); j+=1
        assert n == nb, (n, nb)
        idx = []
        for b in range(n):
            m = re.match(r"\(\(([-\d,]+)\) \(([-\d,]+)\) \(([-\d,]+)\)\)$", C[j]); j+=1
            idx.append(([int(x) for x in m.group(1).split(',')], [int(x) for x in m.group(2).split(',')]))
        assert C[j] == ")"; j+=1
        assert int(C[j]) == n; j+=1
        fo = []
        for b in range(n):
            t = C[j].split(); j+=1
            assert t[0] == "FabOnDisk:"
            fo.append((t[1], int(t[2])))
        mins = maxs = None
        if maxmins:
            assert C[j] == ""; j+=1
            assert C[j].replace(" ","") == f"{n},{nf}", C[j]; j+=1
            mins = [[float(x) for x in C[j+b].split(',')[:-1]] for b in range(n)]; j+=n
            assert C[j] == ""; j+=1
            assert C[j].replace(" ","") == f"{n},{nf}"; j+=1
            maxs = [[float(x) for x in C[j+b].split(',')[:-1]] for b in range(n)]; j+=n
        data = []
        for b in range(n):
            with open(os.path.join(path, cdir, fo[b][0]), "rb") as bf:
                bf.seek(fo[b][1])
                hl = bf.readline().decode()
                m = re.match(r"FAB \(\(8, \(64 11 52 0 1 12 0 1023\)\),\(8, \(8 7 6 5 4 3 2 1\)\)\)\(\(([-\d,]+)\) \(([-\d,]+)\) \(([-\d,]+)\)\) (\d+)\n$", hl)
                assert m, hl
                flo = [int(x) for x in m.group(1).split(',')]; fhi = [int(x) for x in m.group(2).split(',')]
                assert (flo, fhi) == idx[b], ((flo,fhi), idx[b])
                assert int(m.group(4)) == nf
                sh = [fhi[d]-flo[d]+1 for d in range(nd)]
                cnt = int(np.prod(sh))*nf
                raw = bf.read(cnt*8)
                assert len(raw) == cnt*8
                data.append(np.frombuffer(raw, dtype='<f8').reshape(sh+[nf], order='F'))
        levels.append(dict(pboxes=pb, idx=idx, fab=fo, mins=mins, maxs=maxs, data=data))
    return dict(version=ver, fields=fields, ndims=nd, time=time, finest=finest, lo=lo, hi=hi, factors=fac, grid=grid, steps=steps, dx=dx, levels=levels)
