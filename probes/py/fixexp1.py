import sys, os, shutil, numpy as np
sys.path.insert(0, '/root/amrk-scratch/fix/repo'); sys.path.insert(1, '/root/amrk-scratch')
from gen import *
from amr_kitchen import PlotfileCooker
from amr_kitchen.taste import Taster

def mk3(path, geo_low=(0.,0.,0.), dx0=(0.5,0.5,0.5), layout=None, fields=None):
    fields = fields or ["a","b","c","d","e"]
    grid0 = (8,8,8)
    lv0 = tile((0,0,0),(7,7,7),(4,4,4))
    lv1 = tile((4,4,4),(11,11,11),(4,4,4))
    def data(lv, bid, lo, hi, k):
        sh = tuple(hi[d]-lo[d]+1 for d in range(3))
        I = np.indices(sh)
        return 1000*k + 100*lv + (I[0]+lo[0]) + 0.01*(I[1]+lo[1]) + 0.0001*(I[2]+lo[2])
    return write_plotfile(path, fields, 3, 1.5, geo_low, dx0, grid0, [lv0, lv1], data, layout=layout)

shutil.rmtree('p3', ignore_errors=True)
truth = mk3('p3')
pck = PlotfileCooker('p3', maxmins=True)
print(pck.fields, pck.limit_level, pck.grid_sizes, pck.dx)
print("taste", bool(Taster('p3', nofail=True, verbose=0)))
# C01 checks
for sel in ["c", 2, [1,3], slice(0,3), slice(1,4), slice(2,5), slice(None), slice(0,5,2), [3,1], [-1], -1]:
    try:
        got = pck[sel][1][3]
        t = truth[(1,3)]
        names = list(pck.fields)
        if isinstance(sel, str): exp = t[..., names.index(sel)]
        else: exp = t[..., sel]
        print(repr(sel), got.shape, exp.shape, got.shape==exp.shape and np.array_equal(got, exp))
    except Exception as e:
        print(repr(sel), "EXC", type(e).__name__, e)
