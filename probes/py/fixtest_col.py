import sys, os, shutil, numpy as np, io, contextlib, json, subprocess
from fractions import Fraction as Fr
sys.path.insert(0, '/root/amrk-scratch/fix/repo'); sys.path.insert(1, '/root/amrk-scratch')
from gen import *; import oracle, fakepool
fakepool.install()
from amr_kitchen.mandoline import Mandoline
def quiet(f):
    buf = io.StringIO()
    with contextlib.redirect_stdout(buf), contextlib.redirect_stderr(buf):
        return f()
geo_low=(1.0,-2.0,0.25); dx0=(0.5,0.25,0.125); grid0=(8,8,8)
lv0 = tile((0,0,0),(7,7,7),(4,4,4)); lv1 = tile((4,4,4),(11,11,11),(4,4,4)); lv2 = tile((12,12,12),(19,19,19),(4,4,4))
rng = np.random.default_rng(5)
def data(lv, bid, lo, hi, k):
    sh = tuple(hi[d]-lo[d]+1 for d in range(3))
    return rng.integers(-50, 50, sh).astype(float)
shutil.rmtree('m3', ignore_errors=True)
write_plotfile('m3', ["f"], 3, 1.5, geo_low, dx0, grid0, [lv0, lv1, lv2], data)
src = oracle.parse('m3')
import numpy
_e = numpy.empty; POISON=[0.]
def pe(shape, dtype=float, *a, **k):
    arr = _e(shape, dtype, *a, **k)
    try: arr[...] = POISON[0]
    except Exception: pass
    return arr
numpy.empty = pe
def fr(x): return Fr(x)   # exact float -> fraction
def J(x): x = Fr(x); return [x.numerator, x.denominator]
L = 2
def columns(cn, pos):
    cx, cy = [i for i in range(3) if i != cn]
    nx, ny = src['grid'][L][cx], src['grid'][L][cy]
    cols = {}
    for px in range(nx):
        for py in range(ny):
            levels = []
            for lv in range(L+1):
                f = 2**(L-lv); bs = []
                for (lo,hi), d in zip(src['levels'][lv]['idx'], src['levels'][lv]['data']):
                    if lo[cx] <= px//f <= hi[cx] and lo[cy] <= py//f <= hi[cy]:
                        ix = [None]*3; ix[cx] = px//f - lo[cx]; ix[cy] = py//f - lo[cy]; ix[cn] = slice(None)
                        bs.append({"a": lo[cn], "vals": [J(v) for v in d[tuple(ix)+(0,)]]})
                levels.append(bs)
            cols[(px,py)] = {"fixed": True, "g": J(geo_low[cn]), "G": J(geo_low[cn]+8*dx0[cn]), "d0": J(dx0[cn]), "pos": J(pos), "levels": levels}
    return cols
def model(cfgs):
    uniq = {}; order = []
    for c in cfgs:
        k = json.dumps(c, sort_keys=True); order.append(k); uniq.setdefault(k, None)
    with open('/root/amrk-scratch/req.jsonl','w') as f:
        for k in uniq: f.write(k+"\n")
    with open('/root/amrk-scratch/req.jsonl') as fi:
        out = subprocess.run(['/root/amrk-scratch/lp/.lake/build/bin/coldriver'], stdin=fi, capture_output=True, text=True, timeout=120).stdout.splitlines()
    for k, l in zip(uniq, out): uniq[k] = json.loads(l)
    return [uniq[k] for k in order]
tot = 0; mism = 0; nnone = 0
for cn in [0,1,2]:
    Lo = geo_low[cn]; d0 = dx0[cn]; d1=d0/2; d2=d0/4
    poss = [Lo+2.5*d0, Lo+4*d0, Lo+3.75*d0, Lo+4.25*d0, Lo+4*d0-0.25*d1, Lo+4*d0+0.25*d1, Lo+5.3*d0, Lo, Lo+8*d0, Lo+0.1*d0, Lo+7.9*d0, Lo+2*d0+0.2*d1, Lo+6*d0-0.2*d1, Lo+1.5*d0, Lo+1.37*d0, Lo+3*d0+0.5*d2, Lo+3*d0+0.3*d2, Lo+5*d0-0.3*d2, Lo+5*d0+0.3*d2, Lo+3*d0-0.3*d2, Lo+2*d0-0.2*d1, Lo+6*d0+0.2*d1]
    for pos in poss:
        outs = []
        for poison in [float('nan'), float('nan')]:
            POISON[0] = poison
            m = quiet(lambda: Mandoline('m3', fields=["f","grid_level"], serial=True, verbose=0))
            outs.append(quiet(lambda: m.slice(normal=cn, pos=pos, fformat="return")))
        cols = columns(cn, pos); keys = list(cols)
        res = model([cols[k] for k in keys])
        for k, r in zip(keys, res):
            tot += 1
            a, b = outs[0]['f'][k[1], k[0]], outs[1]['f'][k[1], k[0]]      # output is transposed [y][x]
            ga, gb = outs[0]['grid_level'][k[1], k[0]], outs[1]['grid_level'][k[1], k[0]]
            impl_none = bool(np.isnan(a))
            if r['result'] is None:
                nnone += 1
                if not impl_none: mism += 1; print("MISMATCH model None, impl stable", cn, pos, k, a)
            else:
                mv = r['result'][0]/r['result'][1]
                if impl_none or abs(a - mv) > 1e-9*max(1,abs(mv)): mism += 1; print("MISMATCH", cn, pos, k, a, b, mv)
            gimpl_none = bool(np.isnan(ga))
            if (r['grid_level'] is None) != gimpl_none or (r['grid_level'] is not None and r['grid_level'] != ga):
                mism += 1; print("GL MISMATCH", cn, pos, k, ga, gb, r['grid_level'])
print("columns compared", tot, "mismatches", mism, "model-none (uninitialised)", nnone)
