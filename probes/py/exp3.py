import sys, os, shutil, numpy as np, itertools, io, contextlib
sys.path.insert(0, '/tmp/scratch')
from gen import *; from exp1 import mk3; import oracle
from amr_kitchen.colander import Colander
from amr_kitchen.taste import Taster
shutil.rmtree('p3', ignore_errors=True); shutil.rmtree('c3', ignore_errors=True)
truth = mk3('p3', geo_low=(1.0,-2.0,0.25), dx0=(0.5,0.25,0.125), layout=[[(i%2, -i) for i in range(8)], [(i%3, (i*5)%8) for i in range(8)]])
src = oracle.parse('p3')
def quiet(f):
    buf = io.StringIO()
    with contextlib.redirect_stdout(buf), contextlib.redirect_stderr(buf):
        return f()
for vars_, lim in [(["d","a","zz","c"], None), (["all"], 0), (["e"], 1), (["b","b"], None), (["zz"], None)]:
    shutil.rmtree('c3', ignore_errors=True)
    try:
        quiet(lambda: Colander('p3', limit_level=lim, output='c3', variables=vars_).strain())
        out = oracle.parse('c3')
        ok = quiet(lambda: bool(Taster('c3', nofail=True, verbose=0)))
        names = src['fields'] if vars_==['all'] else [v for v in vars_ if v in src['fields']]
        ids = [src['fields'].index(n) for n in names]
        good = out['fields']==names and out['finest']==(lim if lim is not None else 1) and out['time']==src['time'] and out['lo']==src['lo'] and out['hi']==src['hi']
        for lv in range(out['finest']+1):
            good &= out['dx'][lv]==src['dx'][lv] and out['levels'][lv]['pboxes']==src['levels'][lv]['pboxes'] and out['levels'][lv]['idx']==src['levels'][lv]['idx']
            for b in range(len(out['levels'][lv]['idx'])):
                good &= np.array_equal(out['levels'][lv]['data'][b].view('u8'), src['levels'][lv]['data'][b][..., ids].view('u8'))
                good &= out['levels'][lv]['mins'][b] == [src['levels'][lv]['mins'][b][k] for k in ids]
        print(vars_, lim, "taste", ok, "content", good, out['factors'])
    except Exception as e:
        import traceback; print(vars_, lim, "EXC", type(e).__name__, str(e)[:200])
