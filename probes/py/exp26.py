import sys, os, shutil, numpy as np, json, subprocess, random, io, contextlib, re
REPO = '/root/amrk-scratch/fix/repo'
sys.path.insert(0, REPO); sys.path.insert(1, '/root/amrk-scratch')
import amr_kitchen; assert amr_kitchen.__file__.startswith(REPO)
from gen import *; import fakepool
fakepool.install()
from exp25 import mesh, layout, write, inview, outview, quiet
from amr_kitchen.chef import Chef
open('rec2.py','w').write('''def recipe(fi, arr):
    """
    nA nB
    """
    import numpy as np
    return np.stack([arr[..., 0] * 2 + 1, arr[..., fi["f0"]] - 7], axis=-1)
''')
r = random.Random(21)
reqs = []; impl = []; meta = []
for n in range(40):
    levels = mesh(r); nf = r.randint(1,5); fields = [f"f{i}" for i in range(nf)]
    kind = r.choice(["mono","perm","scat"])
    write('w1', fields, levels, layout(r, levels, kind), 0)
    kept = r.sample(range(nf), r.randint(0, nf))
    shutil.rmtree('wo', ignore_errors=True)
    serial = r.choice([True, False])
    quiet(lambda: Chef('w1', recipe='rec2.py', outfile='wo', kept_fields=" ".join(fields[k] for k in kept) if kept else None, serial=serial).cook())
    iv = inview('w1', levels, nf)
    new = [[[b['comps'][0]*2+1, b['comps'][0]-7] for b in lv] for lv in iv]
    reqs.append({"op":"chef","levels": iv, "kept": kept, "nf_in": nf, "new": new}); impl.append(outview('wo', levels)); meta.append((kind, kept, serial))
with open('req.jsonl','w') as f:
    for q in reqs: f.write(json.dumps(q)+"\n")
with open('req.jsonl') as fi:
    out = subprocess.run(['/root/amrk-scratch/lp/.lake/build/bin/writersdriver'], stdin=fi, capture_output=True, text=True, timeout=600).stdout.splitlines()
mism = 0
for q, i, o, mt in zip(reqs, impl, out, meta):
    m = json.loads(o)
    if m != i:
        mism += 1
        if mism <= 3:
            print("MISMATCH", mt)
            for lv,(a,b) in enumerate(zip(m,i)):
                for k,(x,y) in enumerate(zip(a,b)):
                    if x != y: print("   lv", lv, "box", k, "model", x, "impl", y); break
print("chef cases", len(reqs), "mismatches", mism)
