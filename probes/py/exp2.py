import sys, os, shutil, numpy as np, itertools, io, contextlib
sys.path.insert(0, '/tmp/scratch')
from gen import *
from exp1 import mk3
from amr_kitchen import PlotfileCooker
from amr_kitchen.taste import Taster
shutil.rmtree('p3', ignore_errors=True)
truth = mk3('p3', layout=[[(i%2, -i) for i in range(8)], [(i%3, (i*5)%8) for i in range(8)]])
# C03: all 16 options
for bh, bs, bd, bc in itertools.product([True, False], repeat=4):
    for nofail in [True, False]:
        buf = io.StringIO()
        try:
            with contextlib.redirect_stdout(buf), contextlib.redirect_stderr(buf):
                t = Taster('p3', binary_headers=bh, binary_shape=bs, binary_data=bd, boxes_coordinates=bc, nofail=nofail, verbose=0)
            r = bool(t)
        except Exception as e:
            r = f"EXC {type(e).__name__}: {str(e)[:80]}"
        print(bh, bs, bd, bc, nofail, r)
