"""Scratch synthetic plotfile writer (independent of amr_kitchen)."""
import os, struct, itertools, random
import numpy as np

FABHDR = "FAB ((8, (64 11 52 0 1 12 0 1023)),(8, (8 7 6 5 4 3 2 1)))"

def fab_header(lo, hi, nf):
    z = ",".join("0" for _ in lo)
    return (FABHDR + "((" + ",".join(map(str, lo)) + ") (" + ",".join(map(str, hi)) + ") (" + z + ")) " + f"{nf}\n").encode()

def write_plotfile(path, fields, ndims, time, geo_low, dx0, grid0, levels, data_fn,
                   layout=None, factors_extra=False, rng=None):
    """
    levels: list (per level) of list of boxes [(lo tuple),(hi tuple)] in level index space
    data_fn(lv, box_id, lo, hi, field_idx) -> ndarray shape (nx,ny[,nz])
    layout: per level list of (file_no, order_key) per box ; default: all in file 0, in order
    """
    nlev = len(levels)
    nf = len(fields)
    os.makedirs(path)
    grid = [np.array(grid0) * 2**lv for lv in range(nlev)]
    dx = [np.array(dx0) / 2**lv for lv in range(nlev)]
    geo_high = [geo_low[d] + dx0[d] * grid0[d] for d in range(ndims)]
    z = ",".join("0" for _ in range(ndims))
    with open(os.path.join(path, "Header"), "w") as h:
        h.write("HyperCLaw-V1.1\n")
        h.write(f"{nf}\n")
        for f in fields: h.write(f + "\n")
        h.write(f"{ndims}\n{time!r}\n{nlev-1}\n")
        h.write(" ".join(repr(float(x)) for x in geo_low) + " \n")
        h.write(" ".join(repr(float(x)) for x in geo_high) + " \n")
        nfac = nlev - 1 + (1 if factors_extra else 0)
        h.write(" ".join("2" for _ in range(nfac)) + " \n")
        h.write(" ".join(f"(({z}) ({','.join(str(g-1) for g in grid[lv])}) ({z}))" for lv in range(nlev)) + " \n")
        h.write(" ".join("7" for _ in range(nlev)) + " \n")
        for lv in range(nlev):
            h.write(" ".join(repr(float(x)) for x in dx[lv]) + " \n")
        h.write("0\n0\n")
        for lv in range(nlev):
            h.write(f"{lv} {len(levels[lv])} {time!r}\n7\n")
            for lo, hi in levels[lv]:
                for d in range(ndims):
                    h.write(f"{float(geo_low[d] + lo[d]*dx[lv][d])!r} {float(geo_low[d] + (hi[d]+1)*dx[lv][d])!r}\n")
            h.write(f"Level_{lv}/Cell\n")
    truth = {}
    for lv in range(nlev):
        ldir = os.path.join(path, f"Level_{lv}")
        os.makedirs(ldir)
        boxes = levels[lv]
        lay = layout[lv] if layout else [(0, i) for i in range(len(boxes))]
        files = {}
        for bid, (fno, key) in enumerate(lay):
            files.setdefault(fno, []).append((key, bid))
        offsets = [None]*len(boxes); fnames = [None]*len(boxes)
        mins = [None]*len(boxes); maxs = [None]*len(boxes)
        for fno, lst in files.items():
            lst.sort()
            fname = f"Cell_D_{fno:05d}"
            with open(os.path.join(ldir, fname), "wb") as bf:
                for _, bid in lst:
                    lo, hi = boxes[bid]
                    offsets[bid] = bf.tell(); fnames[bid] = fname
                    bf.write(fab_header(lo, hi, nf))
                    arrs = [np.asarray(data_fn(lv, bid, lo, hi, k), dtype="float64") for k in range(nf)]
                    for a in arrs:
                        bf.write(a.flatten(order="F").tobytes())
                    truth[(lv, bid)] = np.stack(arrs, axis=-1)
                    mins[bid] = [np.min(a) for a in arrs]; maxs[bid] = [np.max(a) for a in arrs]
        with open(os.path.join(ldir, "Cell_H"), "w") as ch:
            ch.write(f"1\n1\n{nf}\n0\n({len(boxes)} 0\n")
            for lo, hi in boxes:
                ch.write(f"(({','.join(map(str,lo))}) ({','.join(map(str,hi))}) ({z}))\n")
            ch.write(f")\n{len(boxes)}\n")
            for bid in range(len(boxes)):
                ch.write(f"FabOnDisk: {fnames[bid]} {offsets[bid]}\n")
            ch.write(f"\n{len(boxes)},{nf}\n")
            for bid in range(len(boxes)):
                ch.write(",".join(f"{m:.16e}" for m in mins[bid]) + ",\n")
            ch.write(f"\n{len(boxes)},{nf}\n")
            for bid in range(len(boxes)):
                ch.write(",".join(f"{m:.16e}" for m in maxs[bid]) + ",\n")
            ch.write("\n")
    return truth

def tile(lo, hi, bs):
    """tile region [lo,hi] (inclusive) with boxes of size bs"""
    nd = len(lo)
    rng = [range(lo[d], hi[d]+1, bs[d]) for d in range(nd)]
    out = []
    for c in itertools.product(*reversed(rng)):
        c = tuple(reversed(c))
        out.append((c, tuple(min(c[d]+bs[d]-1, hi[d]) for d in range(nd))))
    return out
