import sys, os, shutil, io, contextlib
sys.path.insert(0, '/root/amrk-scratch/fix/repo'); sys.path.insert(1, '/root/amrk-scratch')
import fakepool; fakepool.install()
from fixexp1 import mk3
from amr_kitchen.menu import Menu
shutil.rmtree('pm', ignore_errors=True); mk3('pm', fields=["a","xa","temp","Y(H2)"])
buf = io.StringIO()
with contextlib.redirect_stdout(buf): Menu('pm')
print(buf.getvalue())
