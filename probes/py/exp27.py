import sys, os, shutil, numpy as np, io, contextlib, json, subprocess
from fractions import Fraction as Fr
sys.path.insert(0, '/root/amrk-scratch/fix/repo'); sys.path.insert(1, '/root/amrk-scratch')
from gen import *; import oracle, fakepool
fakepool.install()
from amr_kitchen.mandoline import Mandoline
def quiet(f):
    buf = io.StringIO()
    with contextlib.redirect_stdout(buf), contextlib.redirect_stderr(buf): return f()
geo_low=(1.0,-2.0,0.25); dx0=(0.5,0.25,0.125); grid0=(8,8,8)
lv0 = tile((0,0,0),(7,7,7),(4,4,4)); lv1 = tile((4,4,4),(11,11,11),(4,4,4)); lv2 = tile((12,12,12),(19,19,19),(4,4,4))
rng = np.random.default_rng(5)
def data(lv, bid, lo, hi, k):
    sh = tuple(hi[d]-lo[d]+1 for d in range(3)); return rng.integers(-50, 50, sh).astype(float)
shutil.rmtree('m3', ignore_errors=True)
write_plotfile('m3', ["f"], 3, 1.5, geo_low, dx0, grid0, [lv0, lv1, lv2], data)
src = oracle.parse('m3')
def J(x): x = Fr(x); return [x.numerator, x.denominator]
L = 2
def column(cn, pos, px, py, upto):
    cx, cy = [i for i in range(3) if i != cn]
    levels = []
    for lv in range(upto+1):
        f = 2**(L-lv); bs = []
        for (lo,hi), d in zip(src['levels'][lv]['idx'], src['levels'][lv]['data']):
            if lo[cx] <= px//f <= hi[cx] and lo[cy] <= py//f <= hi[cy]:
                ix = [None]*3; ix[cx] = px//f - lo[cx]; ix[cy] = py//f - lo[cy]; ix[cn] = slice(None)
                bs.append({"a": lo[cn], "vals": [J(v) for v in d[tuple(ix)+(0,)]]})
        levels.append(bs)
    return {"fixed": True, "g": J(geo_low[cn]), "G": J(geo_low[cn]+8*dx0[cn]), "d0": J(dx0[cn]), "pos": J(pos), "levels": levels}
def model(cfgs):
    uniq = {}; order = []
    for c in cfgs:
        k = json.dumps(c, sort_keys=True); order.append(k); uniq.setdefault(k, None)
    with open('req.jsonl','w') as f:
        for k in uniq: f.write(k+"\n")
    with open('req.jsonl') as fi:
        out = subprocess.run(['/root/amrk-scratch/lp/.lake/build/bin/coldriver'], stdin=fi, capture_output=True, text=True, timeout=300).stdout.splitlines()
    for k, l in zip(uniq, out): uniq[k] = json.loads(l)
    return [uniq[k] for k in order]
tot=0; mism=0
for cn in [0,1,2]:
    Lo = geo_low[cn]; d0 = dx0[cn]; d1=d0/2; d2=d0/4
    cx, cy = [i for i in range(3) if i != cn]
    for pos in [Lo+2.5*d0, Lo+4*d0, Lo+3.75*d0, Lo+4.25*d0, Lo+4*d0-0.25*d1, Lo+5.3*d0, Lo, Lo+8*d0, Lo+0.1*d0, Lo+7.9*d0, Lo+2*d0+0.2*d1, Lo+6*d0-0.2*d1, Lo+3*d0+0.3*d2, Lo+5*d0-0.3*d2, Lo+2*d0-0.2*d1]:
        shutil.rmtree('s2', ignore_errors=True)
        m = quiet(lambda: Mandoline('m3', fields=["f"], serial=True, verbose=0))
        quiet(lambda: m.slice(normal=cn, pos=pos, fformat="plotfile", outfile="s2"))
        out = oracle.parse('s2')
        cfgs=[]; vals=[]
        for lv in range(out['finest']+1):
            f = 2**(L-lv)
            for (lo,hi), d in zip(out['levels'][lv]['idx'], out['levels'][lv]['data']):
                for i in range(lo[0], hi[0]+1):
                    for j in range(lo[1], hi[1]+1):
                        cfgs.append(column(cn, pos, i*f, j*f, lv)); vals.append(d[i-lo[0], j-lo[1], 0])
        res = model(cfgs)
        for v, r in zip(vals, res):
            tot+=1
            if r['result'] is None or abs(v - r['result'][0]/r['result'][1]) > 1e-9*max(1,abs(v)): mism+=1
print("C16 cells compared with the truncated column model:", tot, "mismatches", mism)
