import sys, os, shutil, numpy as np, itertools, io, contextlib, subprocess
sys.path.insert(0, '/tmp/scratch')
from gen import *; import oracle
from amr_kitchen import PlotfileCooker
def quiet(f):
    buf = io.StringIO()
    with contextlib.redirect_stdout(buf), contextlib.redirect_stderr(buf):
        return f()
geo_low=(1.0,-2.0,0.25); dx0=(0.5,0.25,0.125)
grid0 = (8,12,8)
lv0 = tile((0,0,0),(7,11,7),(4,6,4)); lv1 = tile((4,0,4),(11,11,11),(4,6,4))
def data(lv, bid, lo, hi, k):
    sh = tuple(hi[d]-lo[d]+1 for d in range(3)); I = np.indices(sh)
    return 100000*k + 10000*lv + 100*(I[0]+lo[0]) + (I[1]+lo[1]) + 0.01*(I[2]+lo[2])
shutil.rmtree('w3', ignore_errors=True)
lay = [[(i%2, -i) for i in range(len(lv0))], [(i%3, (i*5)%7) for i in range(len(lv1))]]
write_plotfile('w3', ["a","b","b"], 3, -2.5e-3, geo_low, dx0, grid0, [lv0, lv1], data, layout=lay, factors_extra=True)
src = oracle.parse('w3')
# C02
p = PlotfileCooker('w3', maxmins=True)
print("C02 fields", p.fields, "time", p.time, "lim", p.limit_level, "low", p.geo_low, "high", p.geo_high, "dx", p.dx, "grid", [g.tolist() for g in p.grid_sizes])
print("C02 boxes ok", all(np.array_equal(p.boxes[lv], src['levels'][lv]['pboxes']) for lv in range(2)), "idx ok", all(np.array_equal(np.array(p.cells[lv]['indexes']), np.array(src['levels'][lv]['idx'])) for lv in range(2)))
print("C02 offsets ok", all([os.path.basename(f) for f in p.cells[lv]['files']] == [x[0] for x in src['levels'][lv]['fab']] and p.cells[lv]['offsets'] == [x[1] for x in src['levels'][lv]['fab']] for lv in range(2)))
print("C02 mins ok", all(np.array_equal(np.array([p.cells[lv]['mins'][f] for f in p.fields]).T, np.array(src['levels'][lv]['mins'])) for lv in range(2)))
print("C02 grids", np.allclose(p.grids[1][1], geo_low[1] + (np.arange(24)+0.5)*dx0[1]/2), np.array_equal(p.grids[1][1], geo_low[1] + (np.arange(24)+0.5)*dx0[1]/2))
try: PlotfileCooker('w3', limit_level=2); print("C02 limit 2 accepted")
except Exception as e: print("C02 limit 2 refused", type(e).__name__)
try: q = PlotfileCooker('w3', limit_level=-1); print("C02 limit -1 accepted: limit_level =", q.limit_level, len(q.boxes))
except Exception as e: print("C02 limit -1 refused", type(e).__name__)
# C15 iteration
for sel in ["a", [0,2], slice(0,2), slice(1,3)]:
    for lv in [0,1]:
        got = list(p[sel][lv])
        exp = [d[..., p.fields[sel]] if isinstance(sel,str) else d[..., sel] for d in src['levels'][lv]['data']]
        m = sorted(g.tobytes() for g in got) == sorted(np.ascontiguousarray(e).tobytes() for e in exp)
        print("C15 iter", sel, lv, len(got), len(exp), "multiset equal", m)
got = list(p["a"][1].iter([3,0,5])); print("C15 iter(sel) ordered", all(np.array_equal(g, src['levels'][1]['data'][i][...,0]) for g,i in zip(got,[3,0,5])))
# box selection forms C01
for bs in [2, -1, slice(1,6,2), [4,1], np.array([True,False]*3), slice(None)]:
    try:
        got = p["a"][1][bs]
        ids = np.arange(len(lv1))[bs]
        if isinstance(bs,int): got=[got]; ids=[ids]
        print("C01 boxsel", bs, all(np.array_equal(g, src['levels'][1]['data'][i][...,0]) for g,i in zip(got, ids)) and len(got)==len(ids))
    except Exception as e: print("C01 boxsel", bs, "EXC", type(e).__name__, e)
try: p["a"][-1]; print("C01 level -1 accepted -> level", "?")
except Exception as e: print("C01 level -1", type(e).__name__)
try: p["a"][2]; print("C01 level 2 accepted")
except Exception as e: print("C01 level 2 refused", type(e).__name__)
# C19 point query
lo, hi = src['levels'][1]['idx'][3]; d = src['levels'][1]['data'][3]
c = [lo[0]+1, lo[1]+2, lo[2]+1]
pt = [geo_low[a] + (c[a]+0.5)*dx0[a]/2 for a in range(3)]
try:
    v = quiet(lambda: p["a"](*pt)); print("C19 point", pt, "got", v, "exp", d[1,2,1,0])
except Exception as e: print("C19 EXC", type(e).__name__, str(e)[:100])
try:
    v = quiet(lambda: p["a"](100.,100.,100.)); print("C19 outside got", v)
except Exception as e: print("C19 outside EXC", type(e).__name__, str(e)[:100])
