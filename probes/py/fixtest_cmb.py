import sys, os, shutil, numpy as np, itertools, io, contextlib
sys.path.insert(0, '/root/amrk-scratch/fix/repo'); sys.path.insert(1, '/root/amrk-scratch')
from gen import *; import oracle
from amr_kitchen import PlotfileCooker
from amr_kitchen.combine import combine
from amr_kitchen.taste import Taster
def mk3(path, fields, base, layout=None, lv1=None):
    grid0 = (8,8,8)
    lv0 = tile((0,0,0),(7,7,7),(4,4,4))
    lv1 = lv1 or tile((4,4,4),(11,11,11),(4,4,4))
    def data(lv, bid, lo, hi, k):
        sh = tuple(hi[d]-lo[d]+1 for d in range(3))
        I = np.indices(sh)
        return base + 1000*k + 100*lv + (I[0]+lo[0]) + 0.01*(I[1]+lo[1]) + 0.0001*(I[2]+lo[2])
    return write_plotfile(path, fields, 3, 1.5, (0.,0.,0.), (0.5,0.5,0.5), grid0, [lv0, lv1], data, layout=layout)
def quiet(f):
    buf = io.StringIO()
    with contextlib.redirect_stdout(buf), contextlib.redirect_stderr(buf):
        return f()
mono = [[(i//4, i) for i in range(8)], [(i//4, i) for i in range(8)]]
perm = [[(i//4, -i) for i in range(8)], [(i//4, (i*3)%8) for i in range(8)]]   # same files, other on-disk order
scat = [[(i%2, i) for i in range(8)], [(i%3, i) for i in range(8)]]           # other files
cases = {"mono/mono": (mono, mono), "mono/perm": (mono, perm), "perm/perm": (perm, perm), "perm/mono": (perm, mono), "mono/scat": (mono, scat), "perm/scat": (perm, scat), "scat/mono":(scat, mono)}
for name, (l1, l2) in cases.items():
    for d in ['q1','q2','qo']: shutil.rmtree(d, ignore_errors=True)
    mk3('q1', ["a","b","c"], 0, l1); mk3('q2', ["x","b","y"], 50000, l2)
    s1 = oracle.parse('q1'); s2 = oracle.parse('q2')
    try:
        quiet(lambda: combine(PlotfileCooker('q1'), PlotfileCooker('q2'), 'qo'))
        ok = quiet(lambda: bool(Taster('qo', nofail=True, verbose=0)))
        try:
            out = oracle.parse('qo')
            good = out['fields'] == ["a","b","c","x","y"]
            bad = []
            for lv in range(2):
                for b in range(8):
                    exp = np.concatenate([s1['levels'][lv]['data'][b], s2['levels'][lv]['data'][b][..., [0,2]]], axis=-1)
                    if not np.array_equal(out['levels'][lv]['data'][b], exp): bad.append((lv,b))
            print(name, "taste", ok, "fields", good, "bad boxes", bad)
        except AssertionError as e:
            print(name, "taste", ok, "oracle parse failed:", str(e)[:100])
    except Exception as e:
        print(name, "EXC", type(e).__name__, str(e)[:200])
# field selection
for d in ['q1','q2','qo']: shutil.rmtree(d, ignore_errors=True)
mk3('q1', ["a","b","c"], 0, mono); mk3('q2', ["x","b","y"], 50000, mono)
for v1, v2 in [("c a", ["y"]), (["c","a"], ["y"]), ("c a", "y"), (None, ["b"])]:
    shutil.rmtree('qo', ignore_errors=True)
    try:
        quiet(lambda: combine(PlotfileCooker('q1'), PlotfileCooker('q2'), 'qo', vars1=v1, vars2=v2))
        print(v1, v2, oracle.parse('qo')['fields'])
    except Exception as e:
        print(v1, v2, "EXC", type(e).__name__, str(e)[:100], "out exists:", os.path.exists('qo'))
# different mesh
shutil.rmtree('q2', ignore_errors=True); shutil.rmtree('qo', ignore_errors=True)
mk3('q2', ["x"], 5, mono, lv1=tile((0,0,0),(7,7,7),(4,4,4)))
try:
    quiet(lambda: combine(PlotfileCooker('q1'), PlotfileCooker('q2'), 'qo'))
    print("diff mesh: no error")
except Exception as e:
    print("diff mesh EXC", type(e).__name__, "out exists:", os.path.exists('qo'))
