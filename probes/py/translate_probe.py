"""Probe: regenerate a Lean file of constants from the Python sources (DESIGN §5.2)."""
import ast, sys, json
REPO = sys.argv[1] if len(sys.argv) > 1 else '/repo'
def tree(rel): return ast.parse(open(f'{REPO}/{rel}').read())
def find_func(t, name, cls=None):
    for n in ast.walk(t):
        if isinstance(n, ast.FunctionDef) and n.name == name: return n
    raise KeyError(f"anchor function {name} not found")
def find_class(t, name):
    for n in ast.walk(t):
        if isinstance(n, ast.ClassDef) and n.name == name: return n
    raise KeyError(f"anchor class {name} not found")
def assigned(node, target):
    for n in ast.walk(node):
        if isinstance(n, ast.Assign) and any(isinstance(x, ast.Name) and x.id == target for x in n.targets): return n.value
    raise KeyError(f"anchor assignment {target} not found")
def joined_const(v):
    """string literal, or concatenation / implicit join / f-string prefix made of constants"""
    if isinstance(v, ast.Constant) and isinstance(v.value, str): return v.value
    if isinstance(v, ast.BinOp) and isinstance(v.op, ast.Add): return joined_const(v.left) + joined_const(v.right)
    if isinstance(v, ast.JoinedStr): return "".join(joined_const(x) for x in v.values if isinstance(x, ast.Constant))
    raise ValueError("not a constant string")
def lean_str(s): return json.dumps(s)
out = ["/-! GENERATED from the Python sources by translate_probe.py — do not edit. -/", "namespace Generated", ""]
# 1. FAB header literal in utils.header_from_indices
u = tree('amr_kitchen/utils.py')
out.append(f"def utilsHeaderConst : String := {lean_str(joined_const(assigned(find_func(u, 'header_from_indices'), 'header_const')))}")
# 2. the literal duplicated in mandoline.write_cell_data_at_level
m = tree('amr_kitchen/mandoline/mandoline.py')
out.append(f"def mandolineHeaderConst : String := {lean_str(joined_const(assigned(find_func(m, 'write_cell_data_at_level'), 'new_header')))}")
# 3. file splitting threshold: `total_size // int(1e6) + 1`
thr = None
for n in ast.walk(find_func(m, 'write_cell_data_at_level')):
    if isinstance(n, ast.Call) and isinstance(n.func, ast.Name) and n.func.id == 'int' and isinstance(n.args[0], ast.Constant): thr = int(n.args[0].value)
out.append(f"def mandolineChunkBytes : Nat := {thr}")
# 4. checkpoint tables
c = find_class(tree('amr_kitchen/chk2plt/checkpoint_reader.py'), 'CheckpointReader')
sfi = ast.literal_eval(assigned(c, 'state_field_indices')); ghost = ast.literal_eval(assigned(c, 'data_has_ghost'))
out.append("def stateFieldIndices : List (String × Int) := [" + ", ".join(f"({lean_str(k)}, {v})" for k, v in sfi.items()) + "]")
out.append("def dataHasGhost : List (String × Bool) := [" + ", ".join(f"({lean_str(k)}, {'true' if v else 'false'})" for k, v in ghost.items()) + "]")
# 5. chk2plt output names (the literal lists in __init__)
k = find_func(tree('amr_kitchen/chk2plt/chk2plt.py'), '__init__')
lists = [ast.literal_eval(n) for n in ast.walk(k) if isinstance(n, ast.List) and n.elts and all(isinstance(e, ast.Constant) and isinstance(e.value, str) for e in n.elts)]
out.append("def chk2pltNameLists : List (List String) := [" + ", ".join("[" + ", ".join(lean_str(x) for x in l) + "]" for l in lists) + "]")
# 6. chef tables
ch = find_class(tree('amr_kitchen/chef/chef.py'), 'Chef')
cook = {k.value: (v.value if isinstance(v, ast.Constant) else None) for k, v in zip(assigned(ch, 'cookbook').keys, assigned(ch, 'cookbook').values)}
out.append("def chefCookbook : List (String × Option String) := [" + ", ".join(f"({lean_str(k)}, {'some ' + lean_str(v) if v else 'none'})" for k, v in cook.items()) + "]")
out.append("def chefCookfields : List (String × String) := [" + ", ".join(f"({lean_str(k)}, {lean_str(v)})" for k, v in ast.literal_eval(assigned(ch, 'cookfields')).items()) + "]")
out += ["", "end Generated", ""]
print("\n".join(out))
