import sys, os, shutil, numpy as np, io, contextlib, json, subprocess, random
from fractions import Fraction as Fr
REPO = sys.argv[1] if len(sys.argv) > 1 else '/repo'
sys.path.insert(0, REPO); sys.path.insert(1, '/root/amrk-scratch')
import amr_kitchen; assert amr_kitchen.__file__.startswith(REPO)
from gen import *; import oracle, fakepool
fakepool.install()
from amr_kitchen import PlotfileCooker
from amr_kitchen.pestle import volume_integral
repaired = REPO != '/repo'
def quiet(f):
    buf = io.StringIO()
    with contextlib.redirect_stdout(buf), contextlib.redirect_stderr(buf): return f()
def J(x): x = Fr(x); return [x.numerator, x.denominator]
rnd = random.Random(3)
def gen_case(seed):
    r = random.Random(seed)
    bf = r.choice([2, 4])                       # blocking factor (even)
    sizes = [bf * k for k in r.sample([1,2,3,4], r.randint(1,3))]
    nb = [r.randint(1,3) for _ in range(3)]
    # level 0: per axis a random composition of box sizes
    def axis_split(total_boxes):
        cuts = [0]
        for _ in range(total_boxes): cuts.append(cuts[-1] + r.choice(sizes))
        return cuts
    ax = [axis_split(n) for n in nb]
    grid0 = tuple(a[-1] for a in ax)
    lv0 = [((ax[0][i], ax[1][j], ax[2][k]), (ax[0][i+1]-1, ax[1][j+1]-1, ax[2][k+1]-1)) for k in range(nb[2]) for j in range(nb[1]) for i in range(nb[0])]
    levels = [lv0]
    nlev = r.randint(1,3)
    region = [(0, g) for g in grid0]   # in coarse cells, aligned to bf/2? keep aligned to bf
    for lv in range(1, nlev):
        # refine a sub-block of the previous level's region, aligned to bf (in fine index space multiples of bf)
        prev = region
        new = []
        for (a, b) in prev:
            a2, b2 = 2*a, 2*b
            units = (b2 - a2)//bf
            if units < 1: new = None; break
            u0 = r.randint(0, units-1); u1 = r.randint(u0+1, units)
            new.append((a2 + u0*bf, a2 + u1*bf))
        if new is None: break
        # tile region with random sizes
        def tile_axis(a, b):
            cuts = [a]
            while cuts[-1] < b:
                s = r.choice([x for x in sizes if cuts[-1] + x <= b] or [b - cuts[-1]])
                cuts.append(cuts[-1] + s)
            return cuts
        tx = [tile_axis(a, b) for (a, b) in new]
        boxes = [((tx[0][i], tx[1][j], tx[2][k]), (tx[0][i+1]-1, tx[1][j+1]-1, tx[2][k+1]-1)) for k in range(len(tx[2])-1) for j in range(len(tx[1])-1) for i in range(len(tx[0])-1)]
        levels.append(boxes); region = new
    return grid0, levels
cases = []; impl = []
for seed in range(60):
    grid0, levels = gen_case(seed)
    vals = {}
    def data(lv, bid, lo, hi, k):
        sh = tuple(hi[d]-lo[d]+1 for d in range(3))
        a = np.random.default_rng(seed*100+lv*10+bid).integers(-8, 9, sh).astype(float)
        vals[(lv,bid)] = a; return a
    shutil.rmtree('pp', ignore_errors=True)
    dx0 = (0.5, 0.25, 1.0)
    write_plotfile('pp', ["f"], 3, 0.5, (0.,0.,0.), dx0, grid0, levels, data)
    for lim in [None] + list(range(len(levels))):
        L = len(levels)-1 if lim is None else lim
        try:
            pck = quiet(lambda: PlotfileCooker('pp', ghost=True))
            got = float(quiet(lambda: volume_integral(pck, "f", limit_level=lim)))
        except Exception as e:
            got = None
        # model input: pinned semantics of the limit: coarse levels only when limit falsy; always finest of file
        if repaired or lim is None:
            mlv = list(range(L+1))
        else:
            mlv = None   # handled below
        def lvjson(lv):
            return {"grid": [g*2**lv for g in grid0], "dx": [J(d/2**lv) for d in dx0],
                    "boxes": [{"lo": list(lo), "hi": list(hi), "data": [J(v) for v in vals[(lv,b)].flatten(order='F')]} for b,(lo,hi) in enumerate(levels[lv])]}
        cases.append({"repaired": repaired, "levels": [lvjson(lv) for lv in range((L if (repaired or lim is None) else len(levels)-1)+1)], "_lim": lim, "_seed": seed, "_nlev": len(levels)})
        impl.append(got)
with open('req.jsonl','w') as f:
    for c in cases: f.write(json.dumps(c)+"\n")
with open('req.jsonl') as fi:
    out = subprocess.run(['/root/amrk-scratch/lp/.lake/build/bin/pestledriver'], stdin=fi, capture_output=True, text=True, timeout=600).stdout.splitlines()
mism = 0; specbad = 0; n = 0
for c, i, o in zip(cases, impl, out):
    m = json.loads(o)
    if not repaired and c['_lim'] not in (None,):   # pinned limit semantics are modelled separately; skip here
        continue
    n += 1
    mi = None if m['integral'] is None else m['integral'][0]/m['integral'][1]
    sp = m['spec'][0]/m['spec'][1]
    if (mi is None) != (i is None) or (mi is not None and abs(mi - i) > 1e-9*max(1,abs(mi))):
        mism += 1; print("MISMATCH seed", c['_seed'], "lim", c['_lim'], "impl", i, "model", mi, "rez", m['rez'])
    if i is None or abs(sp - i) > 1e-9*max(1,abs(sp)): specbad += 1
print("repaired" if repaired else "pinned", "cases", n, "impl≠model", mism, "impl≠spec", specbad)
