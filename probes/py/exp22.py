import sys, os, shutil, io, contextlib
sys.path.insert(1, '/root/amrk-scratch')
import fakepool; fakepool.install()
from amr_kitchen.chef import Chef
from amr_kitchen.taste import Taster
def quiet(f):
    buf = io.StringIO()
    with contextlib.redirect_stdout(buf), contextlib.redirect_stderr(buf): return f()
for rec, kw in [("HRR", {}), ("ENT", {}), ("SRi", dict(species=["H2","O2"])), ("RRi", dict(reactions=[0,3])), ("SDi", dict(species=["H2"]))]:
    shutil.rmtree('ckout', ignore_errors=True)
    try:
        quiet(lambda: Chef('/repo/test_assets/example_plt_3d', recipe=rec, outfile='ckout', mech='/repo/test_assets/drm19.yaml', pressure=1.0, serial=True, **kw).cook())
        try: ok = quiet(lambda: bool(Taster('ckout', nofail=True, verbose=0)))
        except Exception as e: ok = type(e).__name__
        print("C11 builtin", rec, "taste:", ok, "FAB hdr:", open('ckout/Level_0/Cell_D_00000','rb').readline()[-20:])
    except Exception as e:
        print("C11 builtin", rec, "EXC", type(e).__name__, str(e)[:100])
