import sys, os, shutil, numpy as np, json, subprocess, random, io, contextlib, re
REPO = '/root/amrk-scratch/fix/repo'
sys.path.insert(0, REPO); sys.path.insert(1, '/root/amrk-scratch')
import amr_kitchen; assert amr_kitchen.__file__.startswith(REPO)
from gen import *; import fakepool
fakepool.install()
from amr_kitchen import PlotfileCooker
from amr_kitchen.colander import Colander
from amr_kitchen.combine import combine
def quiet(f):
    buf = io.StringIO()
    with contextlib.redirect_stdout(buf), contextlib.redirect_stderr(buf): return f()
def mesh(r):
    lv0 = tile((0,0,0),(7,5,3),(4,3,2)); lv1 = tile((4,0,2),(11,5,5),(r.choice([2,4]),3,2))
    return [lv0, lv1]
def layout(r, levels, kind):
    out = []
    for boxes in levels:
        n = len(boxes)
        if kind == "mono": out.append([(i*3//n, i) for i in range(n)])
        elif kind == "perm": out.append([(i*3//n, r.random()) for i in range(n)])
        else: out.append([(r.randrange(3), r.random()) for i in range(n)])
    return out
def write(path, fields, levels, lay, base):
    def data(lv, bid, lo, hi, k):
        sh = tuple(hi[d]-lo[d]+1 for d in range(3)); return np.full(sh, float(base + 10000*lv + 100*bid + k))
    shutil.rmtree(path, ignore_errors=True)
    write_plotfile(path, fields, 3, 0.5, (1.,-2.,.25), (.5,.25,.125), (8,6,4), levels, data, layout=lay)
def inview(path, levels, nf):
    p = PlotfileCooker(path); out = []
    for lv, boxes in enumerate(levels):
        L = []
        for b,(lo,hi) in enumerate(boxes):
            f = p.cells[lv]['files'][b]; off = p.cells[lv]['offsets'][b]
            with open(f,'rb') as bf:
                bf.seek(off); h = bf.readline(); 
                nc = int(np.prod([hi[d]-lo[d]+1 for d in range(3)]))
                comps = [int(x) for x in np.frombuffer(bf.read(nc*nf*8), '<f8')[::nc]]
            canon = ("FAB ((8, (64 11 52 0 1 12 0 1023)),(8, (8 7 6 5 4 3 2 1)))((" + ",".join(map(str,lo)) + ") (" + ",".join(map(str,hi)) + ") (0,0,0)) 0\n")
            L.append({"file": os.path.basename(f), "offset": off, "ncells": nc, "hdr_len": len(h), "canon_len": len(canon), "comps": comps})
        out.append(L)
    return out
def outview(path, levels):
    p = PlotfileCooker(path); out = []
    nf = len(p.fields)
    for lv in range(p.limit_level+1):
        L = []
        idxmap = {(tuple(lo),tuple(hi)): b for b,(lo,hi) in enumerate(levels[lv])}
        for b in range(len(p.cells[lv]['files'])):
            f = p.cells[lv]['files'][b]; off = p.cells[lv]['offsets'][b]
            found = None
            try:
                with open(f,'rb') as bf:
                    bf.seek(off); h = bf.readline().decode()
                    m = re.search(r"\(\(([-\d,]+)\) \(([-\d,]+)\) \([\d,]+\)\) (\d+)\n$", h)
                    lo = tuple(int(x) for x in m.group(1).split(',')); hi = tuple(int(x) for x in m.group(2).split(',')); n = int(m.group(3))
                    nc = int(np.prod([hi[d]-lo[d]+1 for d in range(3)]))
                    comps = [int(x) for x in np.frombuffer(bf.read(nc*n*8), '<f8')[::nc]] if n else []
                    found = {"box": idxmap.get((lo,hi), -1), "comps": comps}
            except Exception as e: found = None; print("OUTVIEW EXC", type(e).__name__, e)
            L.append({"file": os.path.basename(f), "offset": off, "found": found})
        out.append(L)
    return out
r = random.Random(9)
reqs = []; impl = []; meta = []
for n in range(60):
    levels = mesh(r); nf = r.randint(1,5); fields = [f"f{i}" for i in range(nf)]
    kind = r.choice(["mono","perm","scat"])
    write('w1', fields, levels, layout(r, levels, kind), 0)
    # colander
    kept = [r.randrange(nf) for _ in range(r.randint(1,4))]
    lim = r.choice([None, 0, 1])
    shutil.rmtree('wo', ignore_errors=True)
    quiet(lambda: Colander('w1', limit_level=lim, output='wo', variables=[fields[k] for k in kept]).strain())
    iv = inview('w1', levels, nf)
    reqs.append({"op":"colander","levels": iv[:(1 if lim==0 else 2)], "kept": kept, "nvars": nf}); impl.append(outview('wo', levels)); meta.append(("colander", kind, kept, lim))
    # combine
    nf2 = r.randint(1,4); fields2 = [f"g{i}" for i in range(nf2)]
    kind2 = r.choice(["mono","perm","scat","same"])
    lay2 = None
    write('w2', fields2, levels, layout(r, levels, kind2 if kind2!="same" else kind), 500000)
    v1 = sorted(r.sample(range(nf), r.randint(1,nf))); v2 = sorted(r.sample(range(nf2), r.randint(1,nf2)))
    shutil.rmtree('wc', ignore_errors=True)
    quiet(lambda: combine(PlotfileCooker('w1'), PlotfileCooker('w2'), 'wc', vars1=" ".join(fields[k] for k in v1), vars2=[fields2[k] for k in v2]))
    reqs.append({"op":"combine","levels1": iv, "levels2": inview('w2', levels, nf2), "v1": v1, "v2": v2}); impl.append(outview('wc', levels)); meta.append(("combine", kind, kind2, v1, v2))
with open('req.jsonl','w') as f:
    for q in reqs: f.write(json.dumps(q)+"\n")
with open('req.jsonl') as fi:
    out = subprocess.run(['/root/amrk-scratch/lp/.lake/build/bin/writersdriver'], stdin=fi, capture_output=True, text=True, timeout=600).stdout.splitlines()
mism = 0; modes = {True:0, False:0}
for q, i, o, mt in zip(reqs, impl, out, meta):
    m = json.loads(o)
    if q['op'] == "combine": modes[m['byfile']] += 1; m = m['levels']
    if m != i:
        mism += 1
        if mism <= 5:
            print("MISMATCH", mt)
            for lv,(a,b) in enumerate(zip(m,i)):
                for k,(x,y) in enumerate(zip(a,b)):
                    if x != y: print("   lv", lv, "box", k, "model", x, "impl", y); break
print("cases", len(reqs), "mismatches", mism, "combine modes byfile/bybox", modes)
