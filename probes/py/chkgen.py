"""Scratch synthetic PeleLMeX-like checkpoint writer."""
import os, numpy as np
from gen import fab_header, FABHDR
def write_chk(path, nspec, geo_lo, geo_hi, levels, time, step, data_fn, ng_state=2, layouts=None, pressure=101325.0):
    """levels: list of list of (lo,hi) 3D; data_fn(sub, lv, bid, lo, hi, k) -> array of shape hi-lo+1 (lo,hi incl. ghosts)
    layouts: dict sub -> per level list of (fileno, key)"""
    os.makedirs(path)
    nlev = len(levels)
    nf = {'state': 4 + nspec + 3, 'gradp': 3, 'I_R': nspec, 'divU': 1, 'p': 1}
    ng = {'state': ng_state, 'gradp': 0, 'I_R': 0, 'divU': 1, 'p': 1}
    with open(os.path.join(path, 'Header'), 'w') as h:
        h.write("Checkpoint version: 1\n")
        h.write(f"{nlev-1}\n{step}\n{time!r}\n{1e-6!r}\n{2e-6!r}\n")
        h.write(" ".join(repr(float(x)) for x in geo_lo) + " \n")
        h.write(" ".join(repr(float(x)) for x in geo_hi) + " \n")
        for lv in range(nlev):
            h.write(f"({len(levels[lv])} 0\n")
            for lo, hi in levels[lv]:
                h.write(f"(({','.join(map(str,lo))}) ({','.join(map(str,hi))}) (0,0,0))\n")
            h.write(")\n")
        h.write(f"{pressure!r}\n0\n0\n")
        for i in range(nf['state']): h.write(f"{0.5+i!r}\n")
    truth = {}
    for lv in range(nlev):
        ldir = os.path.join(path, f"Level_{lv}"); os.makedirs(ldir)
        boxes = levels[lv]
        for sub in ['I_R', 'divU', 'gradp', 'p', 'state']:
            lay = layouts[sub][lv] if layouts and sub in layouts else [(0, i) for i in range(len(boxes))]
            files = {}
            for bid, (fno, key) in enumerate(lay): files.setdefault(fno, []).append((key, bid))
            offs = [None]*len(boxes); fn = [None]*len(boxes); mins=[None]*len(boxes); maxs=[None]*len(boxes)
            for fno, lst in files.items():
                lst.sort(); name = f"{sub}_D_{fno:05d}"
                with open(os.path.join(ldir, name), 'wb') as bf:
                    for _, bid in lst:
                        lo, hi = boxes[bid]
                        glo = tuple(x-ng[sub] for x in lo); ghi = tuple(x+ng[sub]+(1 if sub=='p' else 0) for x in hi)
                        offs[bid] = bf.tell(); fn[bid] = name
                        hdr = fab_header(glo, ghi, nf[sub])
                        if sub == 'p': hdr = hdr.replace(b"(0,0,0)) ", b"(1,1,1)) ")
                        bf.write(hdr)
                        arrs = [np.asarray(data_fn(sub, lv, bid, glo, ghi, k), dtype='float64') for k in range(nf[sub])]
                        for a in arrs: bf.write(a.flatten(order='F').tobytes())
                        truth[(sub, lv, bid)] = (glo, ghi, np.stack(arrs, axis=-1))
                        mins[bid] = [a.min() for a in arrs]; maxs[bid] = [a.max() for a in arrs]
            with open(os.path.join(ldir, f"{sub}_H"), 'w') as ch:
                ch.write(f"1\n1\n{nf[sub]}\n{ng[sub]}\n({len(boxes)} 0\n")
                for lo, hi in boxes:
                    if sub == 'p': ch.write(f"(({','.join(map(str,lo))}) ({','.join(str(x+1) for x in hi)}) (1,1,1))\n")
                    else: ch.write(f"(({','.join(map(str,lo))}) ({','.join(map(str,hi))}) (0,0,0))\n")
                ch.write(f")\n{len(boxes)}\n")
                for bid in range(len(boxes)): ch.write(f"FabOnDisk: {fn[bid]} {offs[bid]}\n")
                ch.write(f"\n{len(boxes)},{nf[sub]}\n")
                for bid in range(len(boxes)): ch.write(",".join(f"{m:.16e}" for m in mins[bid]) + ",\n")
                ch.write(f"\n{len(boxes)},{nf[sub]}\n")
                for bid in range(len(boxes)): ch.write(",".join(f"{m:.16e}" for m in maxs[bid]) + ",\n")
                ch.write("\n")
    return truth
