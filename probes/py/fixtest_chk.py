import sys, os, shutil, numpy as np, io, contextlib
sys.path.insert(0, '/root/amrk-scratch/fix/repo'); sys.path.insert(1, '/root/amrk-scratch')
from gen import *; from chkgen import *; import oracle, fakepool
fakepool.install()
from amr_kitchen.chk2plt import chk2plt, CheckpointReader
from amr_kitchen.taste import Taster
def quiet(f):
    buf = io.StringIO()
    with contextlib.redirect_stdout(buf), contextlib.redirect_stderr(buf):
        return f()
lv0 = tile((0,0,0),(7,7,15),(4,4,8)); lv1 = tile((4,4,8),(11,11,23),(4,4,8))
nspec = 3
def data(sub, lv, bid, lo, hi, k):
    sh = tuple(hi[d]-lo[d]+1 for d in range(3)); I = np.indices(sh)
    base = {'state':1e6,'gradp':2e6,'I_R':3e6,'divU':4e6,'p':5e6}[sub]
    v = base + 10000*k + 1000*lv + 10*(I[0]+lo[0]) + 0.1*(I[1]+lo[1]) + 0.001*(I[2]+lo[2])
    if sub=='state' and 4 <= k < 4+nspec: v = 0.1*(k-3) + 0*v   # mass fractions sum 0.6
    return v
lay = {'state': [[(i%2, -i) for i in range(len(lv0))], [(i%3, (i*5)%7) for i in range(len(lv1))]],
       'gradp': [[(i%3, i) for i in range(len(lv0))], [(0, -i) for i in range(len(lv1))]],
       'I_R': [[(0, i) for i in range(len(lv0))], [(i%2, i) for i in range(len(lv1))]]}
for iso, geo_hi in [("cubic cells", (4.0,4.0,8.0)), ("anisotropic cells", (4.0,2.0,8.0))]:
    for kw in [dict(gradp=True, species_reactions=False, floor_massfracs=False), dict(gradp=False, species_reactions=False, floor_massfracs=True), dict(gradp=True, species_reactions=True, floor_massfracs=False)]:
        shutil.rmtree('chk00007', ignore_errors=True); shutil.rmtree('pout', ignore_errors=True)
        truth = write_chk('chk00007', nspec, (0.,0.,0.), geo_hi, [lv0, lv1], 1.25e-3, 7, data, ng_state=2, layouts=lay)
        try:
            quiet(lambda: chk2plt('chk00007', species=['A','B','C'], pltdir='pout', **kw))
            ok = [None, None]
            for i, bc in enumerate([False, True]):
                try: ok[i] = quiet(lambda: bool(Taster('pout', nofail=True, boxes_coordinates=bc, verbose=0)))
                except Exception as e: ok[i] = type(e).__name__
            out = oracle.parse('pout')
            bad = []
            for lv in range(2):
                for b, (lo,hi) in enumerate([lv0,lv1][lv]):
                    glo, ghi, st = truth[('state', lv, b)]
                    inner = st[2:-2,2:-2,2:-2,:].copy()
                    if kw['floor_massfracs']: inner[...,4:4+nspec] /= inner[...,4:4+nspec].sum(axis=-1, keepdims=True)
                    exp = inner
                    if kw['gradp']: exp = np.concatenate([exp, truth[('gradp',lv,b)][2]], axis=-1)
                    if kw['species_reactions']: exp = np.concatenate([exp, truth[('I_R',lv,b)][2]], axis=-1)
                    got = out['levels'][lv]['data'][b]
                    if got.shape != exp.shape or not np.allclose(got, exp, rtol=1e-15, atol=0): bad.append((lv,b))
            print("C17", iso, kw, "taste(default, +coords)", ok, "fields", out['fields'], "time", out['time'], "bad", bad)
        except Exception as e:
            print("C17", iso, kw, "EXC", type(e).__name__, str(e)[:120])
# integral-valued time
shutil.rmtree('chk00007', ignore_errors=True)
write_chk('chk00007', nspec, (0.,0.,0.), (4.,4.,8.), [lv0, lv1], 2.0, 7, data)
print("C17 time=2.0 read as", CheckpointReader('chk00007').time)
# default output
shutil.rmtree('plt00007', ignore_errors=True)
quiet(lambda: chk2plt('chk00007/', species=['A','B','C']))
print("C17/C13 default out with trailing slash; input listing:", sorted(os.listdir('chk00007')), "plt00007 exists", os.path.exists('plt00007'))
