import sys, os, shutil, numpy as np, itertools, io, contextlib, re, json, subprocess, random
sys.path.insert(0, '/root/amrk-scratch')
from gen import *; import oracle, fakepool
from amr_kitchen import PlotfileCooker
from amr_kitchen.taste import Taster
fakepool.install()
def quiet(f):
    buf = io.StringIO()
    with contextlib.redirect_stdout(buf), contextlib.redirect_stderr(buf):
        return f()
def mk(path, nd=3):
    if nd == 3:
        grid0=(8,8,8); lv0 = tile((0,0,0),(7,7,7),(4,4,4)); lv1 = tile((4,4,4),(11,11,11),(4,4,4)); gl=(1.,-2.,.25); dx0=(.5,.25,.125)
    else:
        grid0=(8,8); lv0 = tile((0,0),(7,7),(4,4)); lv1 = tile((4,4),(11,11),(4,4)); gl=(1.,-2.); dx0=(.5,.25)
    rng = np.random.default_rng(3)
    def data(lv,bid,lo,hi,k):
        sh = tuple(hi[d]-lo[d]+1 for d in range(nd))
        return rng.standard_normal(sh)
    lay = [[(i%2, -i) for i in range(len(lv0))], [(i%3, (i*5)%7) for i in range(len(lv1))]]
    write_plotfile(path, ["a","b","c"], nd, 0.5, gl, dx0, grid0, [lv0, lv1], data, layout=lay)
def real_verdict(path):
    r = []
    for nofail in [True, False]:
        try: r.append(bool(quiet(lambda: Taster(path, nofail=nofail, verbose=0))))
        except Exception as e: r.append("raise")
    return r
def model_requests(path):
    reqs = []
    for lv in [0,1]:
        d = f'{path}/Level_{lv}'
        files = {f: open(os.path.join(d,f),'rb').read().hex() for f in os.listdir(d) if f != 'Cell_H'} if os.path.isdir(d) else {}
        ch = open(os.path.join(d,'Cell_H'),'rb').read().hex() if os.path.exists(os.path.join(d,'Cell_H')) else None
        reqs.append(None if ch is None else {"cellh": ch, "nfields": 3, "files": files})
    return reqs
cases = []   # (name, requests, real verdict)
rnd = random.Random(7)
for nd in [3,2]:
    shutil.rmtree('g', ignore_errors=True); mk('g', nd)
    cases.append((f"{nd} base", model_requests('g'), real_verdict('g')))
    for lv in [0,1]:
        chp = f'g/Level_{lv}/Cell_H'
        lines = open(chp).read().split('\n')
        muts = []
        for i in range(min(len(lines)-1, 30)):
            muts.append((f"del line {i}", lines[:i]+lines[i+1:]))
            muts.append((f"dup line {i}", lines[:i+1]+lines[i:]))
            muts.append((f"blank line {i}", lines[:i]+[""]+lines[i+1:]))
            toks = lines[i].split()
            if toks:
                j = rnd.randrange(len(toks))
                muts.append((f"drop tok {i}.{j}", lines[:i]+[" ".join(toks[:j]+toks[j+1:])]+lines[i+1:]))
                muts.append((f"garble tok {i}.{j}", lines[:i]+[" ".join(toks[:j]+[toks[j]+"x"]+toks[j+1:])]+lines[i+1:]))
                muts.append((f"extra tok {i}", lines[:i]+[lines[i]+" 7"]+lines[i+1:]))
            if lines[i].startswith("FabOnDisk"):
                t = lines[i].split()
                for d in [1,-1,8,5,-5,40,60,64,100000,-100000]:
                    muts.append((f"offset{d:+d} line {i}", lines[:i]+[f"{t[0]} {t[1]} {int(t[2])+d}"]+lines[i+1:]))
                muts.append((f"file other {i}", lines[:i]+[f"{t[0]} {'Cell_D_00001' if t[1]!='Cell_D_00001' else 'Cell_D_00000'} {t[2]}"]+lines[i+1:]))
                muts.append((f"file missing {i}", lines[:i]+[f"{t[0]} Cell_D_00009 {t[2]}"]+lines[i+1:]))
                muts.append((f"ws {i}", lines[:i]+[f"{t[0]}   {t[1]}\t{t[2]}  "]+lines[i+1:]))
                muts.append((f"offset +sign {i}", lines[:i]+[f"{t[0]} {t[1]} +{t[2]}"]+lines[i+1:]))
                muts.append((f"offset float {i}", lines[:i]+[f"{t[0]} {t[1]} {t[2]}.0"]+lines[i+1:]))
            if lines[i].startswith("(("):
                muts.append((f"idx+1 {i}", lines[:i]+[re.sub(r"\((\d+),", lambda m: f"({int(m.group(1))+1},", lines[i], count=1)]+lines[i+1:]))
                muts.append((f"idx ; {i}", lines[:i]+[lines[i].replace(",", ";",1)]+lines[i+1:]))
                muts.append((f"idx drop dim {i}", lines[:i]+[re.sub(r",\d+\)", ")", lines[i], count=1)]+lines[i+1:]))
        for nm, new in muts:
            shutil.copy(chp, chp+".bak"); open(chp,'w').write('\n'.join(new))
            cases.append((f"{nd} L{lv} CellH {nm}", model_requests('g'), real_verdict('g')))
            shutil.move(chp+".bak", chp)
        for bf in sorted(f for f in os.listdir(f'g/Level_{lv}') if f.startswith("Cell_D")):
            p = f'g/Level_{lv}/{bf}'; raw = open(p,'rb').read()
            hdrpos = [m.start() for m in re.finditer(b"FAB", raw)]
            bm = [("trunc8", raw[:-8]), ("trunc1", raw[:-1]), ("ext8", raw+b"\0"*8), ("ext1", raw+b"\n"), ("empty", b""), ("missing", None), ("del8mid", raw[:len(raw)//2]+raw[len(raw)//2+8:]), ("ins8mid", raw[:len(raw)//2]+b"\0"*8+raw[len(raw)//2:]), ("prefix garbage", b"xx"+raw), ("prefix line", b"xx\n"+raw), ("prefix ws", b" "+raw)]
            for hp in hdrpos:
                eol = raw.index(b"\n", hp); h = raw[hp:eol]
                bm.append((f"nf+1@{hp}", raw[:hp]+re.sub(rb" (\d+)$", lambda m: b" %d" % (int(m.group(1))+1), h)+raw[eol:]))
                bm.append((f"idxshift@{hp}", raw[:hp]+re.sub(rb"\)\(\((\d+),", lambda m: b")((%d," % (int(m.group(1))+1), h, count=1)+raw[eol:]))
                bm.append((f"hdr ws@{hp}", raw[:hp]+h.replace(b") (", b")  (",1)+raw[eol:]))
                bm.append((f"hdr cut@{hp}", raw[:hp]+h[5:]+raw[eol:]))
                bm.append((f"hdr XXX@{hp}", raw[:hp]+b"XXX"+h[3:]+raw[eol:]))
                bm.append((f"hdr nonascii@{hp}", raw[:hp]+b"\xff"+h[1:]+raw[eol:]))
                bm.append((f"hdr type@{hp}", raw[:hp]+h.replace(b"(0,0", b"(1,1")+raw[eol:]))
            for nm, new in bm:
                shutil.copy(p, p+".bak")
                if new is None: os.remove(p)
                else: open(p,'wb').write(new)
                cases.append((f"{nd} L{lv} {bf} {nm}", model_requests('g'), real_verdict('g')))
                shutil.move(p+".bak", p)
print("cases", len(cases))
with open('req.jsonl','w') as f:
    for nm, reqs, rv in cases:
        for r in reqs: f.write(json.dumps(r if r is not None else {"cellh":"", "nfields":3, "files":{}})+"\n")
with open('req.jsonl') as fi:
    out = subprocess.run(['/root/amrk-scratch/lp/.lake/build/bin/tastedriver'], stdin=fi, capture_output=True, text=True, timeout=600).stdout.splitlines()
mism = 0; acc = 0
for i, (nm, reqs, rv) in enumerate(cases):
    m = [json.loads(out[2*i]), json.loads(out[2*i+1])]
    mgood = all(x.get('good') for x in m)
    rgood = (rv[0] is True)
    consistent = (rv == [True, True]) or (rv[0] is False and rv[1] == "raise")
    acc += mgood
    if mgood != rgood or not consistent:
        mism += 1; print("MISMATCH", nm, "real", rv, "model", [(x.get('good'), x.get('why')) for x in m])
print("compared", len(cases), "mismatches", mism, "accepted by model", acc)
