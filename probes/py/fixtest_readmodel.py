import sys, os, shutil, numpy as np, itertools, io, contextlib, json, subprocess, random
sys.path.insert(0, '/root/amrk-scratch/fix/repo'); sys.path.insert(1, '/root/amrk-scratch')
from gen import *; import oracle, fakepool
from amr_kitchen import PlotfileCooker
fakepool.install()
rng = np.random.default_rng(11)
def mk(path, nd, nf):
    if nd == 3:
        grid0=(8,6,4); lv0 = tile((0,0,0),(7,5,3),(4,3,2)); lv1 = tile((4,0,2),(11,5,5),(4,3,2)); gl=(1.,-2.,.25); dx0=(.5,.25,.125)
    else:
        grid0=(8,6); lv0 = tile((0,0),(7,5),(4,3)); lv1 = tile((4,0),(11,5),(4,3)); gl=(1.,-2.); dx0=(.5,.25)
    def data(lv,bid,lo,hi,k):
        sh = tuple(hi[d]-lo[d]+1 for d in range(nd))
        return rng.integers(0, 2**63, sh, dtype=np.uint64).view('f8')   # arbitrary bit patterns incl NaN
    lay = [[(i%2, -i) for i in range(len(lv0))], [(i%3, (i*5)%7) for i in range(len(lv1))]]
    import warnings
    with warnings.catch_warnings():
        warnings.simplefilter("ignore")
        write_plotfile(path, [f"f{i}" for i in range(nf)], nd, 0.5, gl, dx0, grid0, [lv0, lv1], data, layout=lay)
reqs = []; impl = []
for nd, nf in [(3,5),(2,4),(3,1),(3,3)]:
    shutil.rmtree('r', ignore_errors=True); mk('r', nd, nf)
    p = PlotfileCooker('r')
    for lv in [0,1]:
        for f in sorted(set(p.cells[lv]['files'])):
            reqs.append({"op":"file","name":f"{nd}{nf}:{f}","hex":open(f,'rb').read().hex()}); impl.append(None)
    vals = [None] + list(range(-nf-1, nf+2))
    sels = list(range(-nf-1, nf+2))
    sels += [slice(a,b,c) for a in vals for b in vals for c in [None,1,2,3,-1,-2]]
    sels += [list(c) for k in [1,2,3] for c in itertools.permutations(range(-nf, nf), k)][:400] + [[0,0],[nf-1,nf-1], [nf], [-nf-1], [0,nf]]
    for sel in sels:
        for lv, b in [(0,1),(1,3)]:
            try:
                a = p[sel][lv][b]
                r = {"status":"ok", "shape": list(a.shape), "data": np.asarray(a).flatten(order='F').tobytes().hex()}
            except Exception as e:
                r = {"status":"refused"}
            impl.append(r)
            fa = sel if isinstance(sel,(int,list)) else {"start":sel.start,"stop":sel.stop,"step":sel.step}
            reqs.append({"op":"read","name":f"{nd}{nf}:{p.cells[lv]['files'][b]}","off":p.cells[lv]['offsets'][b],"nf":nf,"farg":fa, "repaired": True, "_sel": repr(sel)})
print("requests", len(reqs))
with open('req.jsonl','w') as f:
    for r in reqs: f.write(json.dumps(r)+"\n")
with open('req.jsonl') as fi:
    out = subprocess.run(['/root/amrk-scratch/lp/.lake/build/bin/readdriver'], stdin=fi, capture_output=True, text=True, timeout=600).stdout.splitlines()
mism = 0; nok = 0; shown=0
for r, i, o in zip(reqs, impl, out):
    if i is None: continue
    m = json.loads(o)
    nok += (i['status']=="ok")
    if m != i:
        mism += 1
        if shown < 25:
            shown += 1; print("MISMATCH", r['_sel'], "nf", r['nf'], "impl", i['status'], i.get('shape'), "model", m.get('status'), m.get('shape'), "data eq" if i.get('data')==m.get('data') else "")
print("compared", len([i for i in impl if i is not None]), "impl ok", nok, "mismatches", mism)
