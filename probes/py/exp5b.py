import sys, os, shutil, numpy as np, itertools, io, contextlib
sys.path.insert(0, '/tmp/scratch')
from gen import *; import oracle
from amr_kitchen.mandoline import Mandoline
def quiet(f):
    buf = io.StringIO()
    with contextlib.redirect_stdout(buf), contextlib.redirect_stderr(buf):
        return f()
geo_low=(1.0,-2.0,0.25); dx0=(0.5,0.25,0.125)
def mk(path, cn):
    grid0 = (8,8,8)
    lv0 = tile((0,0,0),(7,7,7),(4,4,4))
    lv1 = tile((4,4,4),(11,11,11),(4,4,4))
    def data(lv, bid, lo, hi, k):
        sh = tuple(hi[d]-lo[d]+1 for d in range(3))
        I = np.indices(sh)
        xs = [geo_low[d] + (I[d]+lo[d]+0.5)*dx0[d]/2**lv for d in range(3)]
        return 3.0 + 0.5*xs[cn]
    return write_plotfile(path, ["aff"], 3, 1.5, geo_low, dx0, grid0, [lv0, lv1], data)
import numpy
_orig_empty = numpy.empty
POISON = [7.77e77]
def poisoned(shape, dtype=float, *a, **k):
    arr = _orig_empty(shape, dtype, *a, **k)
    try: arr[...] = POISON[0]
    except Exception: pass
    return arr
numpy.empty = poisoned
for cn in [0,1,2]:
    shutil.rmtree('m3', ignore_errors=True); mk('m3', cn)
    L = geo_low[cn]; H = geo_low[cn] + 8*dx0[cn]; d0 = dx0[cn]; d1 = d0/2
    poss = {"center_cell_l0": L+2.5*d0, "face_l0box": L+4*d0, "gap_below_l0_boxface": L+3.75*d0, "gap_above_l0_boxface": L+4.25*d0,
            "fine_gap_below": L+4*d0 - 0.25*d1, "fine_gap_above_finebox_face": L+4*d0+0.25*d1,"in_fine_generic": L+5.3*d1*2, "domface_lo": L, "domface_hi": H, "near_lo": L+0.1*d0, "near_hi": H-0.1*d0, "fine_edge_lo_in": L+2*d0+0.2*d1, "fine_edge_hi_in": L+6*d0-0.2*d1, "coarse_gap_at_fine_lo": L+2*d0-0.2*d0, "l0cellcentre": L+1.5*d0,
            "l0 random": L + 1.37*d0}
    for nm, pos in poss.items():
        res = []
        for poison in [7.77e77, -7.77e77]:
            POISON[0] = poison
            try:
                m = quiet(lambda: Mandoline('m3', fields=["aff","grid_level"], serial=True, verbose=0))
                out = quiet(lambda: m.slice(normal=cn, pos=pos, fformat="return"))
                res.append(out)
            except Exception as e:
                res.append(e)
        if isinstance(res[0], Exception):
            print(cn, nm, "EXC", res[0]); continue
        exp = 3.0 + 0.5*pos
        err = np.abs(res[0]['aff']-exp)
        same = np.array_equal(res[0]['aff'], res[1]['aff']) and np.array_equal(res[0]['grid_level'], res[1]['grid_level'])
        print(cn, f"{nm:28s} pos {pos:8.4f} maxerr {np.max(err):.3g}  n_bad_px {int(np.sum(err>1e-9))}/{err.size} poison-indep {same}")
