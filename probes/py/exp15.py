import sys, os, shutil, numpy as np, io, contextlib, hashlib, random
sys.path.insert(0, '/tmp/scratch')
from gen import *; from chkgen import *; import oracle, permpool
permpool.install()
from permpool import PermPool
from exp1 import mk3
from amr_kitchen import PlotfileCooker
from amr_kitchen.colander import Colander
from amr_kitchen.combine import combine
from amr_kitchen.chef import Chef
from amr_kitchen.taste import Taster
from amr_kitchen.mandoline import Mandoline
from amr_kitchen.pestle import volume_integral
from amr_kitchen.chk2plt import chk2plt
def quiet(f):
    buf = io.StringIO()
    with contextlib.redirect_stdout(buf), contextlib.redirect_stderr(buf):
        return f()
def treehash(d):
    h = hashlib.sha256()
    for root, dirs, files in sorted(os.walk(d)):
        dirs.sort()
        for f in sorted(files):
            p = os.path.join(root, f); h.update(os.path.relpath(p, d).encode()); h.update(open(p,'rb').read())
    return h.hexdigest()[:16]
shutil.rmtree('p3', ignore_errors=True)
lay = [[(i%3, i) for i in range(8)], [(i%4, i) for i in range(8)]]   # monotone but 3-4 files per level
mk3('p3', layout=lay)
shutil.rmtree('p3b', ignore_errors=True)
mk3('p3b', layout=lay, fields=["v","w","x","y","z"])
lv0 = tile((0,0,0),(7,7,15),(4,4,8)); lv1 = tile((4,4,8),(11,11,23),(4,4,8))
def cdata(sub, lv, bid, lo, hi, k):
    sh = tuple(hi[d]-lo[d]+1 for d in range(3)); I = np.indices(sh)
    return 1.0 + k + 10*lv + (I[0]+lo[0]) + 0.1*(I[1]+lo[1])
shutil.rmtree('chk00001', ignore_errors=True)
write_chk('chk00001', 3, (0.,0.,0.), (4.,4.,8.), [lv0, lv1], 1.25e-3, 7, cdata, layouts={'state': [[(i%3, -i) for i in range(len(lv0))], [(i%3, i) for i in range(len(lv1))]]})
orders = {"id": lambda n: list(range(n)), "rev": lambda n: list(range(n))[::-1], "rnd1": lambda n: random.Random(1).sample(range(n), n), "rnd2": lambda n: random.Random(2).sample(range(n), n)}
results = {}
for oname, of in orders.items():
    PermPool.order = of
    r = {}
    for d in ['o_col','o_cmb','o_chef','o_chk','o_slice']: shutil.rmtree(d, ignore_errors=True)
    quiet(lambda: Colander('p3', output='o_col', variables=['d','a']).strain()); r['colander'] = treehash('o_col')
    quiet(lambda: combine(PlotfileCooker('p3'), PlotfileCooker('p3b'), 'o_cmb')); r['combine'] = treehash('o_cmb')
    quiet(lambda: Chef('p3', recipe='rec1.py', outfile='o_chef').cook()); r['chef'] = treehash('o_chef')
    quiet(lambda: chk2plt('chk00001', species=['A','B','C'], pltdir='o_chk')); r['chk2plt'] = treehash('o_chk')
    m = quiet(lambda: Mandoline('p3', fields=['a','c'], verbose=0)); out = quiet(lambda: m.slice(normal=1, pos=1.3, fformat='return'))
    r['mandoline'] = hashlib.sha256(out['a'].tobytes()+out['c'].tobytes()).hexdigest()[:16]
    quiet(lambda: m.slice(normal=2, pos=1.3, fformat='plotfile', outfile='o_slice')); r['mandoline_plt'] = treehash('o_slice')
    pck = quiet(lambda: PlotfileCooker('p3', ghost=True)); r['pestle'] = repr(quiet(lambda: volume_integral(pck, 'b')))
    r['taste'] = quiet(lambda: bool(Taster('p3', nofail=True, verbose=0)))
    p = PlotfileCooker('p3')
    r['reader'] = hashlib.sha256(b''.join(a.tobytes() for a in p[[0,2]][1][::2])).hexdigest()[:16]
    r['iter'] = hashlib.sha256(b''.join(sorted(a.tobytes() for a in p['b'][1]))).hexdigest()[:16]
    results[oname] = r
for k in results['id']:
    print("C12", k, "all equal:", len({results[o][k] for o in results}) == 1, [results[o][k] for o in results][:2])
print(sorted(set(PermPool.log)))
