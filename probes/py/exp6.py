import sys, os, shutil, numpy as np, itertools, io, contextlib
sys.path.insert(0, '/tmp/scratch')
from gen import *; import oracle
from amr_kitchen.mandoline import Mandoline
from amr_kitchen.taste import Taster
def quiet(f):
    buf = io.StringIO()
    with contextlib.redirect_stdout(buf), contextlib.redirect_stderr(buf):
        return f()
geo_low=(1.0,-2.0,0.25); dx0=(0.5,0.25,0.125)
def mk(path, cn):
    grid0 = (8,8,8)
    lv0 = tile((0,0,0),(7,7,7),(4,4,4))
    lv1 = tile((4,4,4),(11,11,11),(4,4,4))
    def data(lv, bid, lo, hi, k):
        sh = tuple(hi[d]-lo[d]+1 for d in range(3))
        I = np.indices(sh)
        xs = [geo_low[d] + (I[d]+lo[d]+0.5)*dx0[d]/2**lv for d in range(3)]
        if k==0: return 3.0 + 0.5*xs[cn]
        return 100.*lv + bid + 0*xs[0]
    return write_plotfile(path, ["aff", "lvbid"], 3, 1.5, geo_low, dx0, grid0, [lv0, lv1], data)
for cn in [0, 2]:
    shutil.rmtree('m3', ignore_errors=True); mk('m3', cn)
    L = geo_low[cn]; d0 = dx0[cn]
    for nm, pos in {"l0 generic in fine region": L + 4.6*d0/1, "l0 generic outside fine": L+1.37*d0, "cellcentre fine": L + 2*d0 + 2.5*d0/2}.items():
        shutil.rmtree('s2', ignore_errors=True)
        try:
            m = quiet(lambda: Mandoline('m3', fields=["aff","lvbid"], serial=True, verbose=0))
            quiet(lambda: m.slice(normal=cn, pos=pos, fformat="plotfile", outfile="s2"))
            ok = quiet(lambda: bool(Taster('s2', nofail=True, verbose=0)))
            out = oracle.parse('s2')
            exp = 3.0 + 0.5*pos
            rep = []
            for lv in range(out['finest']+1):
                for b, d in enumerate(out['levels'][lv]['data']):
                    e = np.max(np.abs(d[...,0]-exp)); u = np.unique(d[...,1])
                    rep.append((lv, b, float(e), u.tolist()[:3], bool(np.isclose(out['levels'][lv]['mins'][b][0], d[...,0].min()))))
            print(cn, nm, pos, "taste", ok, "nboxes", [len(l['idx']) for l in out['levels']])
            for r in rep: print("    ", r)
        except Exception as e:
            import traceback; traceback.print_exc(); print(cn, nm, "EXC", type(e).__name__, str(e)[:150])
