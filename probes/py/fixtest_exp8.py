import sys; sys.path.insert(0, '/root/amrk-scratch/fix/repo'); sys.path.insert(1, '/root/amrk-scratch')
from fixtest_exp7 import *
def mkP2(path, lv1boxes, grid0=(48,16,16)):
    lv0 = tile((0,0,0),tuple(g-1 for g in grid0),(16,16,16))
    def data(lv,bid,lo,hi,k):
        sh = tuple(hi[d]-lo[d]+1 for d in range(3)); I = np.indices(sh)
        return 1.0 + 0*I[0] if k==0 else (1+lv)*1.0 + 0.001*(I[0]+lo[0])
    shutil.rmtree(path, ignore_errors=True)
    write_plotfile(path, ["one","f"], 3, 0.5, geo_low, dx0, grid0, [lv0, lv1boxes], data)
for nm, b1 in {"16+24": [((16,0,0),(31,15,15)), ((32,0,0),(55,15,15))], "24+16": [((16,0,0),(39,15,15)), ((40,0,0),(55,15,15))], "24 only": [((24,0,0),(47,15,15))]}.items():
    mkP2('pp', b1)
    for fld,k in [("one",0),("f",1)]:
        try:
            pck = quiet(lambda: PlotfileCooker('pp', ghost=True))
            got = quiet(lambda: volume_integral(pck, fld))
            print("C09b", nm, fld, "got", got, "exact", exact('pp',k))
        except Exception as e:
            print("C09b", nm, fld, "EXC", type(e).__name__, str(e)[:100])
