import Lean.Data.Json
import AmrK.ReaderR
import AmrK.Taste
import AmrK.Column
import AmrK.Pestle
import AmrK.Header
import AmrK.WritersChef
import AmrK.WritersChk
import AmrK.Scan
import AmrK.TasteAll
import AmrK.Grid
import AmrK.PointModel
import AmrK.MenuR
import AmrK.PathsDefaults
import AmrK.ChunksCover
import AmrK.CellHCodec
import AmrK.HypsModel
import AmrK.HeaderRender
import AmrK.TasteWFModel
import AmrK.Names
import AmrK.MaxMins
import AmrK.TasteData
import AmrK.BoxSel
import AmrK.MenuClass
import AmrK.MeshEq
import AmrK.F64Text
import AmrK.F32Cast
import AmrK.ChkHeader
import AmrK.Slicing
import AmrK.TasteCoords
import AmrK.CellHRewrite
import AmrK.HeaderRewrite
import AmrK.Meets
import AmrK.Coords
import AmrK.PestleVF
import AmrK.NamesMore
import AmrK.Extrema
/-! `amrk-driver`: one JSON object per line in, one JSON object per line out.
    Executable definitions of the model only (no Mathlib behind any import). -/
open Lean

namespace Drv
open Py

def hexVal (c : Char) : UInt8 :=
  if c.isDigit then (c.toNat - '0'.toNat).toUInt8 else (c.toNat - 'a'.toNat + 10).toUInt8
def unhex (s : String) : Bytes :=
  let rec go : List Char → Bytes
    | a :: b :: rest => (hexVal a * 16 + hexVal b) :: go rest
    | _ => []
  go s.toList
def hexDigit (n : UInt8) : Char := if n < 10 then Char.ofNat (48 + n.toNat) else Char.ofNat (87 + n.toNat)
def hex (b : Bytes) : String := String.ofList (b.flatMap fun x => [hexDigit (x / 16), hexDigit (x % 16)])
def str (b : Bytes) : String := String.fromUTF8! ⟨b.toArray⟩

def optInt (j : Json) : Option Int := match j with | .null => none | _ => j.getInt?.toOption

def ratOfJson (j : Json) : Except String Rat := do
  let a ← j.getArr?
  let n ← (a[0]!).getInt?
  let d ← (a[1]!).getNat?
  return (n : Rat) / (d : Rat)
def ratJ (r : Rat) : Json := Json.arr #[toJson r.num, toJson r.den]
def natList (j : Json) : Except String (List Nat) := do (← j.getArr?).toList.mapM (·.getNat?)

/-! ### reader -/
open Reader in
def fargOfJson (j : Json) : Except String FArg :=
  match j with
  | .arr a => return .list (a.toList.filterMap fun x => x.getInt?.toOption)
  | .obj o => return .slice (o.get? "start" >>= optInt) (o.get? "stop" >>= optInt) (o.get? "step" >>= optInt)
  | v => match v.getInt? with
    | .ok i => return .idx i
    | .error e => throw s!"farg {e}"

def opRead (files : Std.HashMap String Bytes) (j : Json) : Except String Json := do
  let name ← (← j.getObjVal? "name").getStr?
  let off ← (← j.getObjVal? "off").getInt?
  let nf ← (← j.getObjVal? "nf").getInt?
  let fa ← fargOfJson (← j.getObjVal? "farg")
  let pinned := (j.getObjValAs? Bool "pinned").toOption.getD false
  let raw := files.getD name []
  let res := if pinned then (if !Reader.accepted nf fa then none else Reader.readBox raw off fa)
             else (if off < 0 then none else ReaderR.readR raw off.toNat nf fa)
  match res with
  | none => return Json.mkObj [("status", "refused")]
  | some o => return Json.mkObj [("status", "ok"), ("shape", toJson o.shape), ("data", toJson (hex (o.comps.flatten)))]

/-! ### sequential scan of one binary file (level iteration, single field) -/
def opScan (files : Std.HashMap String Bytes) (j : Json) : Except String Json := do
  let name ← (← j.getObjVal? "name").getStr?
  let f ← (← j.getObjVal? "field").getNat?
  let raw := files.getD name []
  let blocks := Scan.scan raw f (raw.length + 1) 0
  return Json.mkObj [("status", "ok"), ("blocks", toJson (blocks.map hex))]

/-! ### taste, one level -/
def opTaste (j : Json) : Except String Json := do
  let cellH ← (← j.getObjVal? "cellh").getStr?
  let nf ← (← j.getObjVal? "nfields").getNat?
  let fs ← (← j.getObjVal? "files").getObj?
  let files := fs.toList.map fun (k, v) => (k, unhex (v.getStr?.toOption.getD ""))
  let (ok, why) := Taste.tasteLevel (unhex cellH) nf files
  return Json.mkObj [("good", toJson ok), ("why", toJson why)]

/-! ### taste, whole plotfile; contents are referred to by the keys of earlier `file` ops -/
def opTastePlt (files : Std.HashMap String Bytes) (j : Json) : Except String Json := do
  let hk ← (← j.getObjVal? "header").getStr?
  let limit : Option Int := (j.getObjValAs? Int "limit").toOption
  let chkH := (j.getObjValAs? Bool "headers").toOption.getD true
  let chkS := (j.getObjValAs? Bool "shape").toOption.getD true
  let ds ← (← j.getObjVal? "dirs").getObj?
  let dirs ← ds.toList.mapM fun (name, d) => do
    let cellH : Option Bytes := match d.getObjVal? "cellh" with
      | .ok (.str k) => some (files.getD k [])
      | _ => none
    let fs ← (← d.getObjVal? "files").getObj?
    let fl := fs.toList.map fun (n, k) => (n, files.getD (k.getStr?.toOption.getD "") [])
    return (name, ({ cellH := cellH, files := fl } : Taste.LevelDir))
  let (ok, why) := Taste.tastePlt (files.getD hk []) limit dirs chkH chkS
  return Json.mkObj [("good", toJson ok), ("why", toJson why)]

/-! ### level header (Cell_H) -/
def opCellH (j : Json) : Except String Json := do
  let text := unhex (← (← j.getObjVal? "hex").getStr?)
  let nf ← (← j.getObjVal? "nfields").getNat?
  match Taste.parseCellH text nf with
  | .bad why => return Json.mkObj [("status", "refused"), ("why", toJson why)]
  | .ok es => return Json.mkObj [("status", "ok"),
      ("entries", toJson (es.map fun e => Json.mkObj [("lo", toJson e.lo), ("hi", toJson e.hi), ("file", toJson e.file), ("offset", toJson e.offset)]))]

/-! ### covering grid (mandoline 2D, whip) -/
def optJ {α} [ToJson α] : Option α → Json
  | some x => toJson x
  | none => Json.null

def opCover (j : Json) : Except String Json := do
  let lv ← (← j.getObjVal? "levels").getArr?
  let levels ← lv.toList.mapM fun l => do
    (← l.getArr?).toList.mapM fun b => do
      let lo ← natList (← b.getObjVal? "lo")
      let hi ← natList (← b.getObjVal? "hi")
      let data ← (← (← b.getObjVal? "data").getArr?).toList.mapM (·.getInt?)
      return ({ lo, hi, data } : Grid.GBox)
  let L ← (← j.getObjVal? "L").getNat?
  let shape ← natList (← j.getObjVal? "shape")
  let res := (Grid.cells shape).map fun p => Grid.coverAt levels L p
  return Json.mkObj [("vals", toJson (res.map fun r => optJ (r.map (·.1)))), ("lvls", toJson (res.map fun r => optJ (r.map (·.2))))]

/-! ### point query -/
def ratList (j : Json) : Except String (List Rat) := do (← j.getArr?).toList.mapM ratOfJson

open Point in
def opPoint (j : Json) : Except String Json := do
  let g ← ratList (← j.getObjVal? "geo_low")
  let p ← ratList (← j.getObjVal? "point")
  let lv ← (← j.getObjVal? "levels").getArr?
  let levels ← lv.toList.mapM fun l => do
    let dx ← ratList (← l.getObjVal? "dx")
    let bs ← (← l.getObjVal? "boxes").getArr?
    let boxes ← bs.toList.mapM fun b => do
      (← b.getArr?).toList.mapM fun d => do
        let a ← d.getArr?
        return (← ratOfJson a[0]!, ← ratOfJson a[1]!)
    let lo ← (← (← l.getObjVal? "idx_lo").getArr?).toList.mapM fun b => do (← b.getArr?).toList.mapM (·.getInt?)
    return ({ dx, boxes, idxLo := lo } : PLevel)
  match query g levels p with
  | .refused why => return Json.mkObj [("status", "refused"), ("why", toJson why)]
  | .case2 => return Json.mkObj [("status", "case2")]
  | .case1 l b loc => return Json.mkObj [("status", "case1"), ("level", toJson l), ("box", toJson b), ("local", toJson (loc.map ratJ))]

/-! ### menu's two-column min/max table -/
def opMenuTable (j : Json) : Except String Json := do
  let n ← (← j.getObjVal? "n").getNat?
  return Json.mkObj [("shown", toJson ((MenuR.shown n).map optJ))]

/-! ### default output paths -/
open Paths in
def opPaths (j : Json) : Except String Json := do
  let p := Py.ofString (← (← j.getObjVal? "path").getStr?)
  let p2 := Py.ofString ((j.getObjValAs? String "path2").toOption.getD "")
  let slice := Py.ofString ((j.getObjValAs? String "slicename").toOption.getD "S")
  return Json.mkObj [("normpath", toJson (str (normpath p))), ("chef", toJson (str (chefDefault p))),
    ("marinate", toJson (str (marinateDefault p))), ("chk2plt", toJson (str (chk2pltDefault p))),
    ("combine", toJson (str (combineDefault p p2))), ("mandoline", toJson (str (mandolineDefault p slice)))]

/-! ### chunking of a sliced level over binary files -/
def opChunks (j : Json) : Except String Json := do
  let n ← (← j.getObjVal? "n").getNat?
  let total ← (← j.getObjVal? "total_bytes").getNat?
  let thr ← (← j.getObjVal? "threshold").getNat?
  let nfiles := total / thr + 1
  return Json.mkObj [("nfiles", toJson nfiles),
    ("chunks", toJson (Chunks.written n (max (Chunks.cdiv n nfiles) 1) (nfiles + 1)))]

/-! ### level header renderer -/
def opRenderCellH (j : Json) : Except String Json := do
  let nf ← (← j.getObjVal? "nfields").getNat?
  let rs ← (← j.getObjVal? "rows").getArr?
  let rows ← rs.toList.mapM fun r => do
    let lo ← (← (← r.getObjVal? "lo").getArr?).toList.mapM (·.getInt?)
    let hi ← (← (← r.getObjVal? "hi").getArr?).toList.mapM (·.getInt?)
    let file ← (← r.getObjVal? "file").getStr?
    let off ← (← r.getObjVal? "offset").getNat?
    return ({ lo, hi, file := Py.ofString file, offset := off } : Taste.BoxRow)
  return Json.mkObj [("text", toJson (str (Taste.renderCellH nf rows)))]

/-! ### global header renderer (with the executable hypothesis of `Header.parse_render`) -/
def strList (j : Json) : Except String (List Bytes) := do
  (← j.getArr?).toList.mapM fun x => do return Py.ofString (← x.getStr?)
def intListJ (j : Json) : Except String (List Int) := do
  (← j.getArr?).toList.mapM (·.getInt?)
open Header in
def hdataOfJson (j : Json) : Except String HData := do
  let s (k : String) : Except String Bytes := do return Py.ofString (← (← j.getObjVal? k).getStr?)
  let lvs ← (← j.getObjVal? "levels").getArr?
  let levels ← lvs.toList.mapM fun l => do
    let bs ← (← l.getObjVal? "boxes").getArr?
    let boxes ← bs.toList.mapM fun b => do
      (← b.getArr?).toList.mapM fun p => do
        let q ← strList p
        return (q.getD 0 [], q.getD 1 [])
    return ({ boxes, timeTok := Py.ofString (← (← l.getObjVal? "time").getStr?),
              stepLine := Py.ofString (← (← l.getObjVal? "step").getStr?),
              dir := Py.ofString (← (← l.getObjVal? "dir").getStr?),
              tail := Py.ofString (← (← l.getObjVal? "tail").getStr?) } : LevelData)
  return {
    version := ← s "version", names := ← strList (← j.getObjVal? "names"), ndims := ← (← j.getObjVal? "ndims").getNat?,
    time := ← s "time", geoLo := ← strList (← j.getObjVal? "geo_lo"), geoHi := ← strList (← j.getObjVal? "geo_hi"),
    factors := ← intListJ (← j.getObjVal? "factors"),
    gridHi := ← (← (← j.getObjVal? "grid_hi").getArr?).toList.mapM intListJ,
    steps := ← intListJ (← j.getObjVal? "steps"),
    dx := ← (← (← j.getObjVal? "dx").getArr?).toList.mapM strList,
    coordLine := ← s "coord", levels, trails := ← strList (← j.getObjVal? "trails"),
    dxTrails := ← strList (← j.getObjVal? "dx_trails") }

open Header in
def opRenderHeader (j : Json) : Except String Json := do
  let H ← hdataOfJson j
  let text := render H
  let back := match parse text none with | .ok _ => "ok" | .refused w => "refused:" ++ w
  return Json.mkObj [("hex", toJson (hex text)), ("good", toJson H.goodB), ("parse", toJson back)]

open Header in
/-- the header a writing tool derives from an input header: the input text is parsed by the reader model under the
    limit, then `write_global_header_new_fields` prints from that metadata (`floats`: Python's `str(float(tok))` per token) -/
def opRewriteHeader (j : Json) : Except String Json := do
  let text := unhex (← (← j.getObjVal? "hex").getStr?)
  let limit : Option Int := (j.getObjValAs? Int "limit").toOption
  let names ← strList (← j.getObjVal? "names")
  let coord := Py.ofString (← (← j.getObjVal? "coord").getStr?)
  let fls ← (← j.getObjVal? "floats").getArr?
  let table ← fls.toList.mapM fun p => do
    let a ← p.getArr?
    if h : a.size = 2 then return (Py.ofString (← a[0].getStr?), Py.ofString (← a[1].getStr?)) else throw "pair"
  let fl : Bytes → Bytes := fun t => (table.lookup t).getD t
  match parse text limit with
  | .refused why => return Json.mkObj [("status", "refused"), ("why", toJson why)]
  | .ok m =>
    let own := (← (← j.getObjVal? "tool").getStr?) != "combine"
    let H := rewriteOf fl own m coord names
    return Json.mkObj [("status", "ok"), ("hex", toJson (hex (render H))), ("good", toJson H.goodB)]

open Header in
/-- the 2D header of a plotfile-format slice, derived from the 3D input header -/
def opSliceHeader (j : Json) : Except String Json := do
  let text := unhex (← (← j.getObjVal? "hex").getStr?)
  let limit : Option Int := (j.getObjValAs? Int "limit").toOption
  let names ← strList (← j.getObjVal? "names")
  let coord := Py.ofString (← (← j.getObjVal? "coord").getStr?)
  let cx ← (← j.getObjVal? "cx").getNat?
  let cy ← (← j.getObjVal? "cy").getNat?
  let sel ← (← (← j.getObjVal? "selected").getArr?).toList.mapM natList
  let fls ← (← j.getObjVal? "floats").getArr?
  let table ← fls.toList.mapM fun p => do
    let a ← p.getArr?
    if h : a.size = 2 then return (Py.ofString (← a[0].getStr?), Py.ofString (← a[1].getStr?)) else throw "pair"
  let fl : Bytes → Bytes := fun t => (table.lookup t).getD t
  match parse text limit with
  | .refused why => return Json.mkObj [("status", "refused"), ("why", toJson why)]
  | .ok m =>
    let H := slice2D fl m coord names cx cy sel
    return Json.mkObj [("status", "ok"), ("hex", toJson (hex (render H))), ("good", toJson H.goodB)]

/-! ### well-formedness certificate of a whole plotfile (hypothesis of `Taste.tastePlt_of_wfB`) -/
def rowsOfJson (j : Json) : Except String (List Taste.BoxRow) := do
  (← j.getArr?).toList.mapM fun r => do
    let lo ← (← (← r.getObjVal? "lo").getArr?).toList.mapM (·.getInt?)
    let hi ← (← (← r.getObjVal? "hi").getArr?).toList.mapM (·.getInt?)
    let file ← (← r.getObjVal? "file").getStr?
    let off ← (← r.getObjVal? "offset").getNat?
    return ({ lo, hi, file := Py.ofString file, offset := off } : Taste.BoxRow)

def opWfPlt (files : Std.HashMap String Bytes) (j : Json) : Except String Json := do
  let H ← hdataOfJson (← j.getObjVal? "content")
  let n ← (← j.getObjVal? "n").getNat?
  let hk ← (← j.getObjVal? "header").getStr?
  let lvj ← (← j.getObjVal? "level_content").getArr?
  let lv ← lvj.toList.mapM fun l => do
    let rows ← rowsOfJson (← l.getObjVal? "rows")
    let extra ← strList (← l.getObjVal? "extra")
    return (rows, extra)
  let ds ← (← j.getObjVal? "dirs").getObj?
  let dirs ← ds.toList.mapM fun (name, d) => do
    let cellH : Option Bytes := match d.getObjVal? "cellh" with
      | .ok (.str k) => some (files.getD k [])
      | _ => none
    let fs ← (← d.getObjVal? "files").getObj?
    let fl := fs.toList.map fun (n, k) => (n, files.getD (k.getStr?.toOption.getD "") [])
    return (name, ({ cellH := cellH, files := fl } : Taste.LevelDir))
  let header := files.getD hk []
  let wf := Taste.pltWFB H n lv header dirs
  -- diagnostics (not part of the certificate)
  let lvDiag := ((H.levels.take n).zip lv).map fun (l, rows, extra) =>
    match dirs.lookup (str l.dir) with
    | none => "no-dir"
    | some d => match d.cellH with
      | none => "no-cellh"
      | some c => if c != Taste.renderCellHExt H.names.length rows extra then "cellh-text" else
          if !Taste.levelWFB H.names.length rows d.files then "binary-files" else "ok"
  return Json.mkObj [("wf", toJson wf), ("header_same", toJson (header == Header.render H)), ("good", toJson H.goodB),
    ("levels", toJson lvDiag)]

/-! ### which fields a tool writes (colander / combine / chef) -/
def strs (j : Json) : Except String (List String) := do (← j.getArr?).toList.mapM (·.getStr?)
def optStrs (j : Json) (k : String) : Except String (Option (List String)) :=
  match j.getObjVal? k with
  | .ok .null => pure none
  | .ok v => do return some (← strs v)
  | .error _ => pure none
def opNames (j : Json) : Except String Json := do
  let tool ← (← j.getObjVal? "tool").getStr?
  let n1 ← strs (← j.getObjVal? "names")
  match tool with
  | "colander" =>
    let sel := Names.select n1 (← optStrs j "vars")
    return Json.mkObj [("fields", toJson sel), ("indices", toJson (Names.indices n1 sel))]
  | "combine" =>
    let n2 ← strs (← j.getObjVal? "names2")
    let v1 ← optStrs j "v1"
    let v2 ← optStrs j "v2"
    let s1 := Names.select n1 v1
    let out := Names.combine n1 n2 v1 v2
    return Json.mkObj [("fields", toJson out), ("i1", toJson (Names.indices n1 s1)),
      ("i2", toJson (Names.indices n2 (out.drop s1.length)))]
  | "chef" =>
    let kept ← strs (← j.getObjVal? "kept")
    let new ← strs (← j.getObjVal? "new")
    let out := Names.chef n1 kept new
    return Json.mkObj [("fields", toJson out), ("kept_indices", toJson (Names.indices n1 (kept.filter (n1.contains ·))))]
  | "mandoline" =>
    match Names.mandolineIdx n1 (← optStrs j "vars") with
    | none => return Json.mkObj [("refused", toJson true)]
    | some idx =>
      return Json.mkObj [("refused", toJson false), ("fields", toJson (Names.mandolineNames n1 idx)),
        ("idx", toJson (idx.map fun o => match o with | some i => toJson i | none => Json.null)),
        ("grid", toJson (Names.mandolineGrid idx))]
  | "chk2plt" =>
    let g ← (← j.getObjVal? "gradp").getBool?
    let r ← (← j.getObjVal? "reactions").getBool?
    return Json.mkObj [("fields", toJson (Names.chkFields n1 g r))]
  | _ => throw "unknown tool"

/-! ### menu's min/max entries -/
def vOfJson (j : Json) : Except String Extrema.V :=
  match j with
  | .str "nan" => pure .nan
  | .str "inf" => pure .pinf
  | .str "-inf" => pure .ninf
  | _ => do return .fin (← ratOfJson j)
def vToJson : Extrema.V → Json
  | .nan => "nan"
  | .pinf => "inf"
  | .ninf => "-inf"
  | .fin q => toJson [q.num, (q.den : Int)]
def opExtrema (j : Json) : Except String Json := do
  let lv ← (← j.getObjVal? "levels").getArr?
  let levels ← lv.toList.mapM fun l => do (← l.getArr?).toList.mapM vOfJson
  let finest := (j.getObjValAs? Bool "finest").toOption.getD false
  let r (f : Extrema.V → Extrema.V → Extrema.V) : Json :=
    match (if finest then Extrema.finest f levels else Extrema.overLevels f levels) with
    | none => Json.null
    | some v => vToJson v
  return Json.mkObj [("min", r Extrema.vmin), ("max", r Extrema.vmax)]

/-! ### mandoline column -/
open Column in
def cfgOfJson (j : Json) : Except String Cfg := do
  let g ← ratOfJson (← j.getObjVal? "g")
  let G ← ratOfJson (← j.getObjVal? "G")
  let d0 ← ratOfJson (← j.getObjVal? "d0")
  let pos ← ratOfJson (← j.getObjVal? "pos")
  let lv ← (← j.getObjVal? "levels").getArr?
  let levels ← lv.toList.mapM fun l => do
    let bs ← l.getArr?
    bs.toList.mapM fun b => do
      let a ← (← b.getObjVal? "a").getInt?
      let vs ← (← b.getObjVal? "vals").getArr?
      let vals ← vs.toList.mapM ratOfJson
      return ({ a := a, vals := vals } : CBox)
  let fixed := (j.getObjValAs? Bool "fixed").toOption.getD true
  return { g, G, d0, levels, pos, fixed }

def opColumn (j : Json) : Except String Json := do
  let c ← cfgOfJson j
  let r := match Column.result c with | some x => ratJ x | none => Json.null
  let gl := match Column.gridLevel c with | some x => toJson x | none => Json.null
  let n := (j.getObjValAs? Nat "N").toOption.getD 0
  return Json.mkObj [("result", r), ("grid_level", gl), ("wf0", toJson (Column.wf0B c n))]

/-! ### pestle -/
open Pestle in
def opPestle (j : Json) : Except String Json := do
  let repaired := (j.getObjValAs? Bool "repaired").toOption.getD true
  let lv ← (← j.getObjVal? "levels").getArr?
  let levels ← lv.toList.mapM fun l => do
    let grid ← natList (← l.getObjVal? "grid")
    let dx ← (← (← l.getObjVal? "dx").getArr?).toList.mapM ratOfJson
    let bs ← (← l.getObjVal? "boxes").getArr?
    let boxes ← bs.toList.mapM fun b => do
      let lo ← natList (← b.getObjVal? "lo")
      let hi ← natList (← b.getObjVal? "hi")
      let data ← (← (← b.getObjVal? "data").getArr?).toList.mapM ratOfJson
      return ({ lo, hi, data } : Box)
    return ({ grid, dx, boxes } : Level)
  let res := match integral repaired levels with | some x => ratJ x | none => Json.null
  return Json.mkObj [("integral", res), ("spec", ratJ (integralSpec levels)), ("rez", toJson (boxRez repaired levels)),
    ("aligned", toJson (alignedAllB (boxRez repaired levels) levels))]

open Pestle in
/-- `volume_integral` as called: all components, the field name, the volume-fraction flag and the limit -/
def opPestleCall (j : Json) : Except String Json := do
  let names ← (← (← j.getObjVal? "names").getArr?).toList.mapM (·.getStr?)
  let field ← (← j.getObjVal? "field").getStr?
  let useVF ← (← j.getObjVal? "volfrac").getBool?
  let limit : Option Nat := (j.getObjValAs? Nat "limit").toOption
  let lv ← (← j.getObjVal? "levels").getArr?
  let levels ← lv.toList.mapM fun l => do
    let grid ← natList (← l.getObjVal? "grid")
    let dx ← (← (← l.getObjVal? "dx").getArr?).toList.mapM ratOfJson
    let bs ← (← l.getObjVal? "boxes").getArr?
    let boxes ← bs.toList.mapM fun b => do
      let lo ← natList (← b.getObjVal? "lo")
      let hi ← natList (← b.getObjVal? "hi")
      let comps ← (← (← b.getObjVal? "comps").getArr?).toList.mapM fun c => do (← c.getArr?).toList.mapM ratOfJson
      return ({ lo, hi, comps } : MBox)
    return ({ grid, dx, boxes } : MLevel)
  let sel := selected names field useVF limit levels
  let res := match volumeIntegral names field useVF limit levels with | some x => ratJ x | none => Json.null
  return Json.mkObj [("integral", res), ("spec", ratJ (integralSpec sel)), ("nlevels", toJson sel.length),
    ("known", toJson (names.contains field)), ("aligned", toJson (alignedAllB (boxRez true sel) sel))]

/-- the min / max tables of a level header as the reader exposes them per field -/
def opMaxMins (j : Json) : Except String Json := do
  let text := unhex (← (← j.getObjVal? "hex").getStr?)
  let n ← (← j.getObjVal? "n").getNat?
  let names ← strList (← j.getObjVal? "names")
  let lines := Py.splitOn 10 text
  match MaxMins.readTables n (lines.drop (5 + n + 2 + n)) with
  | none => return Json.mkObj [("status", "raises")]
  | some (mins, maxs) =>
    let enc := fun (t : List (Bytes × List Bytes)) => toJson (t.map fun p => (str p.1, p.2.map str))
    return Json.mkObj [("status", "ok"), ("mins", enc (MaxMins.byField names mins)), ("maxs", enc (MaxMins.byField names maxs))]

/-- decimal float tokens against the bits Python reads them as -/
def opFloatTokens (j : Json) : Except String Json := do
  let toks ← (← j.getObjVal? "tokens").getArr?
  let bits ← (← j.getObjVal? "bits").getArr?
  let res ← (List.zip toks.toList bits.toList).mapM fun (t, b) => do
    let tok := (← t.getStr?).toUTF8.toList
    let w ← b.getNat?
    return match F64.tokenOK tok w with
      | none => "unsupported"
      | some true => "nearest"
      | some false => "not-nearest"
  return Json.mkObj [("status", "ok"), ("verdicts", toJson res)]

/-- mandoline's slicing coordinates -/
def opSlicing (j : Json) : Except String Json := do
  let normal : Option Nat := (j.getObjValAs? Nat "normal").toOption
  let pos : Option Rat ← match j.getObjVal? "pos" with
    | .ok .null => pure none
    | .ok p => do pure (some (← ratOfJson p))
    | .error _ => pure none
  let lo ← ratList (← j.getObjVal? "lo")
  let hi ← ratList (← j.getObjVal? "hi")
  match Slicing.coords normal pos lo hi with
  | none => return Json.mkObj [("status", "refused")]
  | some c => return Json.mkObj [("status", "ok"), ("cn", toJson c.cn), ("cx", toJson c.cx), ("cy", toJson c.cy), ("pos", ratJ c.pos)]

/-- the checkpoint Header as chk2plt's reader takes it -/
def opChkHeader (j : Json) : Except String Json := do
  let text := unhex (← (← j.getObjVal? "hex").getStr?)
  match ChkHeader.parse (Py.splitOn 10 text) with
  | none => return Json.mkObj [("status", "raises")]
  | some P =>
    return Json.mkObj [("status", "ok"), ("max_level", toJson P.maxLevel), ("step", toJson P.step), ("time", str P.time),
      ("geo_lo", toJson (P.geoLo.map str)), ("geo_hi", toJson (P.geoHi.map str)),
      ("levels", toJson (P.levels.map fun lv => lv.map fun b => [b.1, b.2])), ("grid_sizes", toJson P.gridSizes)]

/-- doubles against the singles they were converted to -/
def opCast32 (j : Json) : Except String Json := do
  let ps ← (← j.getObjVal? "pairs").getArr?
  let bad ← ps.toList.zipIdx.filterMapM fun (p, i) => do
    let a ← p.getArr?
    let w ← a[0]!.getNat?
    let v ← a[1]!.getNat?
    return if F32.castOK w v then none else some i
  return Json.mkObj [("status", "ok"), ("n", toJson ps.size), ("bad", toJson bad)]

/-- `PlotfileCooker.__eq__` -/
def meshLvOfJson (j : Json) : Except String MeshEq.Lv := do
  let bs ← (← j.getObjVal? "bounds").getArr?
  let bounds ← bs.toList.mapM fun b => do
    (← b.getArr?).toList.mapM fun d => do
      let a ← d.getArr?
      return (← ratOfJson a[0]!, ← ratOfJson a[1]!)
  let is ← (← j.getObjVal? "idx").getArr?
  let idx ← is.toList.mapM fun b => do
    let a ← b.getArr?
    return (← intListJ a[0]!, ← intListJ a[1]!)
  return { bounds := bounds, idx := idx }
def opMeshEq (j : Json) : Except String Json := do
  let la ← (← j.getObjVal? "limA").getNat?
  let lb ← (← j.getObjVal? "limB").getNat?
  let A ← (← (← j.getObjVal? "A").getArr?).toList.mapM meshLvOfJson
  let B ← (← (← j.getObjVal? "B").getArr?).toList.mapM meshLvOfJson
  return Json.mkObj [("status", "ok"), ("equal", toJson (MeshEq.eq la lb A B))]

/-- menu's classification of the header's fields against the database sent along -/
def opMenuVars (j : Json) : Except String Json := do
  let tb ← (← j.getObjVal? "table").getArr?
  let table : List MenuClass.Entry ← tb.toList.mapM fun e => do
    let a ← e.getArr?
    return (← a[0]!.getStr?, ← a[1]!.getStr?, ← a[2]!.getStr?)
  let fields ← (← (← j.getObjVal? "fields").getArr?).toList.mapM (·.getStr?)
  let spat ← (← j.getObjVal? "species_pattern").getStr?
  match MenuClass.variables table fields with
  | none => return Json.mkObj [("status", "unsupported")]
  | some (vars, t') =>
    let units := fields.map fun f =>
      match MenuClass.classify t' f with
      | some (some e) => e.2.2
      | _ => "[...]"
    return Json.mkObj [("status", "ok"), ("vars", toJson vars), ("units", toJson units),
      ("species", optJ (MenuClass.species spat fields))]

/-- box and level selection of the indexing interface -/
def opBoxSel (j : Json) : Except String Json := do
  let size ← (← j.getObjVal? "size").getNat?
  let t ← (← j.getObjVal? "t").getStr?
  let v ← j.getObjVal? "v"
  let optInt (x : Json) : Except String (Option Int) := match x with
    | .null => pure none
    | _ => do return some (← x.getInt?)
  let sel : BoxSel.Sel ← match t with
    | "int" => do pure (BoxSel.Sel.idx (← v.getInt?))
    | "slice" => do
      let a ← v.getArr?
      pure (BoxSel.Sel.slice (← optInt a[0]!) (← optInt a[1]!) (← optInt a[2]!))
    | "list" => do pure (BoxSel.Sel.list (← (← v.getArr?).toList.mapM (·.getInt?)))
    | "mask" => do pure (BoxSel.Sel.mask (← (← v.getArr?).toList.mapM (·.getBool?)))
    | _ => throw "selector form"
  let lvl : Json := match j.getObjVal? "nlev", j.getObjVal? "level" with
    | .ok n, .ok k => match n.getNat?, k.getInt? with
      | .ok n, .ok k => optJ (BoxSel.level n k)
      | _, _ => Json.null
    | _, _ => Json.null
  match BoxSel.positions size sel with
  | none => return Json.mkObj [("status", "refused"), ("level", lvl)]
  | some ps => return Json.mkObj [("status", "ok"), ("positions", toJson ps), ("level", lvl)]

/-- taste's binary-data validation of one level; extrema of every FAB of a file from its bytes -/
def vPairs (j : Json) : Except String (List (List Extrema.V)) := do
  (← j.getArr?).toList.mapM fun r => do (← r.getArr?).toList.mapM vOfJson
def verdictJ : TasteData.Verdict → Json
  | .good => "good"
  | .bad => "bad"
  | .crash => "crash"
def opTasteData (files : Std.HashMap String Bytes) (j : Json) : Except String Json := do
  let ck ← (← j.getObjVal? "cellh").getStr?
  let nf ← (← j.getObjVal? "nfields").getNat?
  let fields ← natList (← j.getObjVal? "fields")
  let mins ← vPairs (← j.getObjVal? "mins")
  let maxs ← vPairs (← j.getObjVal? "maxs")
  let fs ← (← j.getObjVal? "files").getObj?
  let fl := fs.toList.filterMap fun (n, k) =>
    match k with
    | .str key => some (n, files.getD key [])
    | _ => none
  match Taste.parseCellH (files.getD ck []) nf with
  | .bad why => return Json.mkObj [("status", "refused"), ("why", toJson why)]
  | .ok entries =>
    let rows := (List.zip mins maxs).map fun (a, b) => List.zip a b
    return Json.mkObj [("status", "ok"), ("verdict", verdictJ (TasteData.levelOK fields entries rows fl))]
def opFabRows (files : Std.HashMap String Bytes) (j : Json) : Except String Json := do
  let k ← (← j.getObjVal? "name").getStr?
  let raw := files.getD k []
  let fabs := TasteData.scanAll raw (raw.length + 1) 0
  let out := fabs.map fun (h, p) =>
    let rows := TasteData.fabRows p (Reader.ncells h).toNat h.nf.toNat
    Json.mkObj [("lo", toJson h.lo), ("hi", toJson h.hi), ("nf", toJson h.nf),
      ("rows", match rows with
        | none => Json.null
        | some rs => toJson (rs.map fun (a, b) => [vToJson a, vToJson b]))]
  return Json.mkObj [("status", "ok"), ("fabs", toJson out)]

/-- colander's level header, derived from the input's -/
def opRewriteCellH (j : Json) : Except String Json := do
  let text := unhex (← (← j.getObjVal? "hex").getStr?)
  let kept ← natList (← j.getObjVal? "kept")
  let offs ← natList (← j.getObjVal? "offsets")
  match CellHRewrite.rewrite kept offs text with
  | some out => return Json.mkObj [("status", "ok"), ("hex", toJson (hex out))]
  | none => return Json.mkObj [("status", "raises")]

/-- combine's level header, derived from the two inputs' -/
def opCombineCellH (j : Json) : Except String Json := do
  let t1 := unhex (← (← j.getObjVal? "hex1").getStr?)
  let t2 := unhex (← (← j.getObjVal? "hex2").getStr?)
  let k1 ← natList (← j.getObjVal? "k1")
  let k2 ← natList (← j.getObjVal? "k2")
  let offs ← natList (← j.getObjVal? "offsets")
  match CellHRewrite.combine (k1.length + k2.length) k1 k2 offs t1 t2 with
  | some out => return Json.mkObj [("status", "ok"), ("hex", toJson (hex out))]
  | none => return Json.mkObj [("status", "raises")]

/-- which boxes a plotfile-format slice lists: per box its extent along the normal -/
def opMeets (j : Json) : Except String Json := do
  let G ← ratOfJson (← j.getObjVal? "G")
  let pos ← ratOfJson (← j.getObjVal? "pos")
  let bs ← (← j.getObjVal? "boxes").getArr?
  let flags ← bs.toList.mapM fun b => do
    let a ← b.getArr?
    if h : a.size = 2 then
      return Meets.meets G pos (← ratOfJson a[0]) (← ratOfJson a[1])
    else throw "box"
  return Json.mkObj [("meets", toJson flags)]

/-- taste's box-coordinate validation: per request the directions of one level, per box its index range and bounds -/
def opCoordsOK (j : Json) : Except String Json := do
  let axes ← (← j.getObjVal? "axes").getArr?
  let ax ← axes.toList.mapM fun a => do
    return (← ratOfJson (← a.getObjVal? "lo"), ← ratOfJson (← a.getObjVal? "hi"), ← ratOfJson (← a.getObjVal? "dx"),
      ← (← a.getObjVal? "n").getNat?)
  let boxes ← (← j.getObjVal? "boxes").getArr?
  let res ← boxes.toList.mapM fun b => do
    let i0 ← intListJ (← b.getObjVal? "i0")
    let i1 ← intListJ (← b.getObjVal? "i1")
    let blo ← (← (← b.getObjVal? "blo").getArr?).toList.mapM ratOfJson
    let bhi ← (← (← b.getObjVal? "bhi").getArr?).toList.mapM ratOfJson
    let per := (List.range ax.length).map fun d =>
      match ax[d]? with
      | some (lo, hi, dx, n) => TasteCoords.axisOK lo hi dx n (i0.getD d 0) (i1.getD d 0) (blo.getD d 0) (bhi.getD d 0)
      | none => none
    return per
  let flat := res.flatten
  let verdict : String := if flat.any (· == none) then "raises" else if flat.all (· == some true) then "good" else "bad"
  return Json.mkObj [("verdict", toJson verdict)]

/-- the coordinate array of one axis of a slice / flattened grid -/
def opCoords (j : Json) : Except String Json := do
  let lo ← ratOfJson (← j.getObjVal? "lo")
  let hi ← ratOfJson (← j.getObjVal? "hi")
  let dx ← ratOfJson (← j.getObjVal? "dx")
  let n ← (← j.getObjVal? "n").getNat?
  return Json.mkObj [("axis", toJson ((Coords.axis lo hi dx n).map ratJ)), ("exact", toJson (decide (hi = lo + (n : Rat) * dx))),
    ("centres", toJson (decide (Coords.axis lo hi dx n = Coords.centres lo dx n)))]

/-! ### global Header -/
open Header in
def opHeader (j : Json) : Except String Json := do
  let text := unhex (← (← j.getObjVal? "hex").getStr?)
  let limit : Option Int := (j.getObjValAs? Int "limit").toOption
  match parse text limit with
  | .refused why => return Json.mkObj [("status", "refused"), ("why", toJson why)]
  | .ok m =>
    return Json.mkObj [("status", "ok"),
      ("fields", toJson (m.fields.map fun (n, i) => (str n, i))), ("ndims", toJson m.ndims), ("time", toJson (str m.time)),
      ("max_level", toJson m.maxLevel), ("limit_level", toJson m.limitLevel),
      ("geo_low", toJson (m.geoLo.map str)), ("geo_high", toJson (m.geoHi.map str)), ("factors", toJson m.factors),
      ("grid_sizes", toJson m.gridSizes), ("steps", toJson m.steps), ("dx", toJson (m.dx.map (·.map str))),
      ("npoints", toJson m.npoints),
      ("boxes", toJson (m.boxes.map (·.map (·.map fun (a, b) => [str a, str b])))),
      ("cell_paths", toJson (m.cellPaths.map str))]

/-! ### record-level writers -/
open Writers in
def boxOfJson (j : Json) : Except String InBox := do
  return { file := ← (← j.getObjVal? "file").getStr?, offset := ← (← j.getObjVal? "offset").getNat?,
           ncells := ← (← j.getObjVal? "ncells").getNat?, hdrLen := ← (← j.getObjVal? "hdr_len").getNat?,
           canonLen := ← (← j.getObjVal? "canon_len").getNat?,
           comps := ← (← (← j.getObjVal? "comps").getArr?).toList.mapM (·.getInt?) }
def levelsOfJson (j : Json) : Except String (List (List Writers.InBox)) := do
  (← j.getArr?).toList.mapM fun l => do (← l.getArr?).toList.mapM boxOfJson
def outJ (o : Writers.OutBox) : Json :=
  Json.mkObj [("file", toJson o.file), ("offset", toJson o.offset),
    ("found", match o.found with | none => Json.null | some (b, c) => Json.mkObj [("box", toJson b), ("comps", toJson c)])]

open Writers in
def opColander (j : Json) : Except String Json := do
  let lv ← levelsOfJson (← j.getObjVal? "levels")
  let kept ← natList (← j.getObjVal? "kept")
  let nvars ← (← j.getObjVal? "nvars").getNat?
  return Json.mkObj [("levels", toJson (lv.map fun b => (colander b nvars kept).map outJ))]

open Writers in
def opCombine (j : Json) : Except String Json := do
  let l1 ← levelsOfJson (← j.getObjVal? "levels1")
  let l2 ← levelsOfJson (← j.getObjVal? "levels2")
  let v1 ← natList (← j.getObjVal? "v1")
  let v2 ← natList (← j.getObjVal? "v2")
  let mode := byfileMode l1 l2
  return Json.mkObj [("byfile", toJson mode),
    ("levels", toJson ((List.zip l1 l2).map fun (a, b) => (combineLevel mode a b v1 v2).map outJ))]

open Writers in
def opChef (j : Json) : Except String Json := do
  let lv ← levelsOfJson (← j.getObjVal? "levels")
  let kept ← natList (← j.getObjVal? "kept")
  let nfIn ← (← j.getObjVal? "nf_in").getNat?
  let newc ← (← j.getObjVal? "new").getArr?          -- per level, per box: list of tags
  let newLv ← newc.toList.mapM fun l => do
    (← l.getArr?).toList.mapM fun b => do (← b.getArr?).toList.mapM (·.getInt?)
  return Json.mkObj [("levels", toJson ((List.zip lv newLv).map fun (b, nw) => (chef b nfIn kept (fun i => nw.getD i [])).map outJ))]

open Writers in
def opChk2plt (j : Json) : Except String Json := do
  let lv ← levelsOfJson (← j.getObjVal? "levels")
  let doG ← (← j.getObjVal? "gradp").getBool?
  let doR ← (← j.getObjVal? "reactions").getBool?
  let tags (key : String) : Except String (List (List (List Int))) := do
    (← (← j.getObjVal? key).getArr?).toList.mapM fun l => do
      (← l.getArr?).toList.mapM fun b => do (← b.getArr?).toList.mapM (·.getInt?)
  let g ← tags "gradp_tags"
  let r ← tags "ir_tags"
  return Json.mkObj [("levels", toJson ((List.zip lv (List.zip g r)).map fun (b, (gl, rl)) =>
    (chk2plt b (fun i => gl.getD i []) (fun i => rl.getD i []) doG doR).map outJ))]

def withId (j : Json) (r : Json) : Json :=
  match j.getObjVal? "id" with
  | .ok i => r.setObjVal! "id" i
  | .error _ => r

partial def loop (h : IO.FS.Stream) (out : IO.FS.Stream) (files : Std.HashMap String Bytes) : IO Unit := do
  let line ← h.getLine
  if line.isEmpty then return ()
  match Json.parse line with
  | .error e => out.putStrLn (Json.mkObj [("status", toJson s!"bad-op {e}")]).compress; loop h out files
  | .ok j =>
    match j.getObjValAs? String "op" with
    | .ok "file" =>
      let name := (j.getObjValAs? String "name").toOption.getD ""
      let data := unhex ((j.getObjValAs? String "hex").toOption.getD "")
      out.putStrLn (withId j (Json.mkObj [("status", "ok")])).compress
      loop h out (files.insert name data)
    | .ok "dropfiles" =>
      out.putStrLn (withId j (Json.mkObj [("status", "ok")])).compress
      loop h out {}
    | .ok op =>
      let r : Except String Json :=
        match op with
        | "read" => opRead files j
        | "scan" => opScan files j
        | "taste" => opTaste j
        | "cellh" => opCellH j
        | "cover" => opCover j
        | "point" => opPoint j
        | "menu_table" => opMenuTable j
        | "paths" => opPaths j
        | "render_cellh" => opRenderCellH j
        | "render_header" => opRenderHeader j
        | "wf_plt" => opWfPlt files j
        | "names" => opNames j
        | "extrema" => opExtrema j
        | "chunks" => opChunks j
        | "taste_plt" => opTastePlt files j
        | "column" => opColumn j
        | "pestle" => opPestle j
        | "pestle_call" => opPestleCall j
        | "coords" => opCoords j
        | "coords_ok" => opCoordsOK j
        | "meets" => opMeets j
        | "rewrite_cellh" => opRewriteCellH j
        | "maxmins" => opMaxMins j
        | "taste_data" => opTasteData files j
        | "boxsel" => opBoxSel j
        | "menu_vars" => opMenuVars j
        | "mesh_eq" => opMeshEq j
        | "float_tokens" => opFloatTokens j
        | "cast32" => opCast32 j
        | "chk_header" => opChkHeader j
        | "slicing" => opSlicing j
        | "fab_rows" => opFabRows files j
        | "combine_cellh" => opCombineCellH j
        | "rewrite_header" => opRewriteHeader j
        | "slice_header" => opSliceHeader j
        | "header" => opHeader j
        | "colander" => opColander j
        | "combine" => opCombine j
        | "chef" => opChef j
        | "chk2plt" => opChk2plt j
        | _ => throw s!"unknown op {op}"
      match r with
      | .ok v => out.putStrLn (withId j v).compress
      | .error e => out.putStrLn (withId j (Json.mkObj [("status", toJson s!"bad-op {e}")])).compress
      loop h out files
    | .error _ => out.putStrLn (Json.mkObj [("status", "bad-op no op")]).compress; loop h out files

end Drv

def main : IO Unit := do Drv.loop (← IO.getStdin) (← IO.getStdout) {}
