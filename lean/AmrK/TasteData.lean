import AmrK.Extrema
import AmrK.TasteCoords
import AmrK.Scan
/-! IEEE-754 binary64 values as far as ordering is concerned (`F64.ofBits`: the exact rational a bit pattern denotes,
    or ±inf / NaN), the extrema of a FAB's components computed **from its bytes**, and taste's optional validation of the
    binary data (`taste_binary_data`): per binary file the FABs met by a sequential scan are matched, in scan order, with
    the rows of the level header sorted by offset, and every field's `np.min` / `np.max` must be `np.isclose(..., equal_nan
    =True)` to the recorded minimum / maximum.  Core-only (run by the driver). -/
namespace F64
open Extrema

/-- little-endian word -/
def wordOf (b : List UInt8) : Nat := b.foldr (fun x acc => x.toNat + 256 * acc) 0

/-- biased exponent and mantissa fields of the magnitude bits -/
def expField (w : Nat) : Nat := w / 2 ^ 52 % 2048
def manField (w : Nat) : Nat := w % 2 ^ 52

/-- numerator of the magnitude over the common denominator `2^1074` (the smallest denormal is `1 / 2^1074`): the
    significand (with the hidden bit of normal numbers) shifted by the exponent -/
def num (w : Nat) : Nat :=
  if expField w = 0 then manField w else (2 ^ 52 + manField w) * 2 ^ (expField w - 1)

/-- the value a 64-bit pattern denotes -/
def ofBits (w : Nat) : V :=
  let sign : Nat := w / 2 ^ 63 % 2
  if expField w = 2047 then
    (if manField w = 0 then (if sign = 1 then .ninf else .pinf) else .nan)
  else
    let mag : Rat := (num w : Rat) / ((2 ^ 1074 : Nat) : Rat)
    .fin (if sign = 1 then -mag else mag)

/-- the values of a block of `n` consecutive float64 -/
def values (b : List UInt8) : Nat → List V
  | 0 => []
  | n + 1 => ofBits (wordOf (b.take 8)) :: values (b.drop 8) n

end F64

namespace TasteData
open Extrema Py Taste Reader ReaderR

/-- `np.isclose(a, b, equal_nan=True)` -/
def vclose : V → V → Bool
  | .nan, .nan => true
  | .pinf, .pinf => true
  | .ninf, .ninf => true
  | .fin a, .fin b => TasteCoords.isclose a b
  | _, _ => false

/-- `(np.min, np.max)` of component `f` of a FAB with `n` cells, from the payload bytes -/
def fabExtrema (payload : Bytes) (n f : Nat) : Option (V × V) :=
  let vs := F64.values (block payload n f) n
  match reduce vmin vs, reduce vmax vs with
  | some a, some b => some (a, b)
  | _, _ => none

/-- extrema of every component -/
def fabRows (payload : Bytes) (n nf : Nat) : Option (List (V × V)) :=
  (List.range nf).mapM (fabExtrema payload n)

/-- `mp_read_binary_data`: header line, `prod(shape)` values (all components), until anything fails -/
def scanAll (raw : Bytes) : Nat → Nat → List (Hdr × Bytes)
  | 0, _ => []
  | fuel + 1, pos =>
    let line := lineOf (raw.drop pos)
    match parseFabHeader line with
    | none => []
    | some h =>
      let n := ncells h
      if n ≤ 0 ∨ h.nf ≤ 0 then [] else
      let size := n.toNat * h.nf.toNat * 8
      let data := (raw.drop (pos + line.length)).take size
      if data.length < size then [] else
      (h, data) :: scanAll raw fuel (pos + line.length + size)

inductive Verdict where
  | good
  | bad          -- TastesBadError
  | crash        -- any other exception (a row or component that does not exist)
deriving DecidableEq, Repr

/-- one scanned FAB against its row: `fields` are the component numbers the reader's field table maps the names to -/
def fabOK (fields : List Nat) (row : List (V × V)) (h : Hdr) (payload : Bytes) : Verdict :=
  let n := (ncells h).toNat
  let rec go : List Nat → Verdict
    | [] => .good
    | f :: fs =>
      if (h.nf.toNat ≤ f) then .crash else
      match fabExtrema payload n f, row[f]? with
      | some (mn, mx), some (hmn, hmx) =>
        if vclose hmn mn && vclose hmx mx then go fs else .bad
      | _, _ => .crash
  go fields

/-- the FABs of one file against the rows of that file sorted by offset -/
def fileOK (fields : List Nat) : List (List (V × V)) → List (Hdr × Bytes) → Verdict
  | _, [] => .good
  | [], _ :: _ => .crash
  | row :: rows, (h, p) :: rest =>
    match fabOK fields row h p with
    | .good => fileOK fields rows rest
    | v => v

/-- insertion sort by key (the order `np.argsort` gives distinct offsets) -/
def insertKey {α} (e : Int × α) : List (Int × α) → List (Int × α)
  | [] => [e]
  | x :: xs => if e.1 < x.1 then e :: x :: xs else x :: insertKey e xs
def sortKey {α} (l : List (Int × α)) : List (Int × α) := l.foldl (fun acc e => insertKey e acc) []

/-- first verdict that is not `good` -/
def firstBad : List Verdict → Verdict
  | [] => .good
  | .good :: r => firstBad r
  | v :: _ => v

/-- one level of `taste_binary_data`: per binary file named by the level header, the rows of its boxes sorted by offset
    against the FABs a sequential scan of the file meets; a file that cannot be opened is a crash -/
def levelOK (fields : List Nat) (entries : List Entry) (rows : List (List (V × V))) (files : List (String × Bytes)) : Verdict :=
  let names := dedup (entries.map (·.file))
  firstBad (names.map fun n =>
    match files.lookup n with
    | none => .crash
    | some raw =>
      let rs := (sortKey (((entries.zip rows).filter (·.1.file == n)).map fun p => (p.1.offset, p.2))).map (·.2)
      fileOK fields rs (scanAll raw (raw.length + 1) 0))

end TasteData
