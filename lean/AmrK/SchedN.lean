import AmrK.Sched
/-! Probe: any interleaving of any number of tasks writing disjoint path sets = sequential run. -/
namespace Sched

theorem run_append (fs : FS) (a b : List Step) : run fs (a ++ b) = run (run fs a) b := by
  unfold run; rw [List.foldl_append]

theorem merge_mem {a b tr : List Step} (m : Merge a b tr) : ∀ s ∈ tr, s ∈ a ∨ s ∈ b := by
  induction m with
  | nil => intro s h; cases h
  | left _ ih =>
    intro s h
    rcases List.mem_cons.mp h with rfl | h
    · exact Or.inl (by simp)
    · rcases ih s h with h | h
      · exact Or.inl (by simp [h])
      · exact Or.inr h
  | right _ ih =>
    intro s h
    rcases List.mem_cons.mp h with rfl | h
    · exact Or.inr (by simp)
    · rcases ih s h with h | h
      · exact Or.inl h
      · exact Or.inr (by simp [h])

/-- `MergeAll ts tr`: `tr` interleaves all the step lists `ts`, each keeping its own order -/
inductive MergeAll : List (List Step) → List Step → Prop where
  | nil : MergeAll [] []
  | cons {t ts tr' tr} : MergeAll ts tr' → Merge t tr' tr → MergeAll (t :: ts) tr

theorem mergeAll_mem {ts : List (List Step)} {tr : List Step} (m : MergeAll ts tr) :
    ∀ s ∈ tr, ∃ t ∈ ts, s ∈ t := by
  induction m with
  | nil => intro s h; cases h
  | cons _ mg ih =>
    intro s h
    rcases merge_mem mg s h with h | h
    · exact ⟨_, by simp, h⟩
    · obtain ⟨t, ht, hs⟩ := ih s h
      exact ⟨t, by simp [ht], hs⟩

/-- tasks touch pairwise disjoint sets of paths -/
def Disjoint : List (List Step) → Prop
  | [] => True
  | t :: ts => (∀ s ∈ t, ∀ t' ∈ ts, ∀ s' ∈ t', s.path ≠ s'.path) ∧ Disjoint ts

/-- **C12 core.**  Whatever the interleaving of the workers' filesystem steps, the final
    filesystem is the one obtained by running the tasks one after the other. -/
theorem mergeAll_run {ts : List (List Step)} {tr : List Step} (m : MergeAll ts tr)
    (hd : Disjoint ts) (fs : FS) : run fs tr = run fs ts.flatten := by
  induction m generalizing fs with
  | nil => rfl
  | cons mAll mg ih =>
    rename_i t ts tr' tr
    obtain ⟨hd1, hd2⟩ := hd
    have hdisj : ∀ s ∈ t, ∀ s' ∈ tr', s.path ≠ s'.path := by
      intro s hs s' hs'
      obtain ⟨t', ht', hs't'⟩ := mergeAll_mem mAll s' hs'
      exact hd1 s hs t' ht' s' hs't'
    rw [merge_run mg hdisj fs, run_append, ih hd2, List.flatten_cons, run_append]

end Sched
