namespace MenuProbe

/-- indices of the fields printed by `Menu.show_min_max` for a table of `n` fields
    (`none` = the padding entry), row by row, left column then right column -/
def shown (n : Nat) : List (Option Nat) :=
  let len := if n / 2 = 0 then n + 1 else n          -- `if not len(data)//2: data[""] = …`
  let middle := len / 2
  let entry (i : Nat) : Option Nat := if i < n then some i else none
  (List.range middle).flatMap fun i => [entry i, entry (i + middle)]

/-- full-strength statement: every field is printed exactly once -/
def Covers (n : Nat) : Prop := ∀ i, i < n → (shown n).count (some i) = 1

theorem covers_counterexample : ¬ Covers 3 := by
  intro h; have := h 2 (by decide); revert this; decide




end MenuProbe
