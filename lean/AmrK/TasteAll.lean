import AmrK.Taste
import AmrK.Header
/-! Whole-plotfile model of `Taster(...)`: global Header, then per validated level the level
    header, the structure check and the two binary checks (each behind its option flag). -/
namespace Taste
open Py

/-- validation of one level with the option flags `binary_headers`, `binary_shape` -/
def tasteLevelOpts (cellH : Bytes) (nfields : Nat) (files : List (String × Bytes))
    (chkHeaders chkShape : Bool) : Bool × String :=
  match parseCellH cellH nfields with
  | .bad why => (false, "cellh:" ++ why)
  | .ok entries =>
    let names := dedup (entries.map (·.file))
    if names.any (fun n => (files.lookup n).isNone) then (false, "missing-file") else
    let perFile := names.map fun n => (n, sortByOffset (entries.filter (·.file == n)), (files.lookup n).getD [])
    if chkHeaders && !(perFile.all fun (_, es, raw) => headersOK raw nfields es) then (false, "headers") else
    if chkShape && !(perFile.all fun (_, es, raw) => shapeOK raw nfields es) then (false, "shape") else
    (true, "good")

/-- with both binary checks on this is the default validation of `Taste.lean` -/
theorem tasteLevelOpts_default (cellH : Bytes) (nfields : Nat) (files : List (String × Bytes)) :
    tasteLevelOpts cellH nfields files true true = tasteLevel cellH nfields files := by
  unfold tasteLevelOpts tasteLevel
  cases parseCellH cellH nfields with
  | bad why => rfl
  | ok entries => simp only [Bool.true_and]

/-- one level directory as the validator sees it -/
structure LevelDir where
  cellH : Option Bytes                  -- `none`: no level header in the directory
  files : List (String × Bytes)

/-- `Taster(dir, limit_level, binary_headers, binary_shape)`: verdict and first reason -/
def tastePlt (header : Bytes) (limit : Option Int) (dirs : List (String × LevelDir))
    (chkHeaders chkShape : Bool) : Bool × String :=
  match Header.parse header limit with
  | .refused why => (false, "header:" ++ why)
  | .ok m =>
    let nf := m.fields.length
    let rec go : List Bytes → Bool × String
      | [] => (true, "good")
      | p :: rest =>
        match dirs.lookup (String.fromUTF8! ⟨p.toArray⟩) with
        | none => (false, "missing-level-dir")
        | some d =>
          match d.cellH with
          | none => (false, "missing-level-header")
          | some c =>
            let r := tasteLevelOpts c nf d.files chkHeaders chkShape
            if r.1 then go rest else r
    go m.cellPaths

end Taste
