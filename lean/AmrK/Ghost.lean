import AmrK.Scan
import AmrK.IterLevel
/-! # Plotfiles written with ghost cells

AMReX keeps the ghost cells of a MultiFab when a plotfile is written from one that carries them: every FAB on disk is then
its box *grown* by `g` cells in each direction (the FAB header names the grown box; the level header keeps the valid boxes and
records `g`).  The scan model is driven by the FAB headers alone, so "its exact stored data" is the grown block.  This file
shows that the hypotheses of `scan_fileOf` are met by every such file: growing a valid box gives a good FAB. -/
namespace Ghost
open Py Taste Reader ReaderR Scan

/-- the box of `e` grown by `g` cells on both sides of every direction -/
def grow (g : Nat) (e : Entry) : Entry :=
  { e with lo := e.lo.map (fun x => x - (g : Int)), hi := e.hi.map (fun x => x + (g : Int)) }

/-- a valid box: at least one direction, both corners of the same rank, `lo ≤ hi` in every direction -/
def ValidBox (e : Entry) : Prop :=
  e.lo ≠ [] ∧ e.lo.length = e.hi.length ∧ ∀ p ∈ e.lo.zip e.hi, p.1 ≤ p.2

theorem foldl_cells_pos (l : List (Int × Int)) (acc : Int) (ha : 0 < acc) (h : ∀ p ∈ l, p.1 ≤ p.2) :
    0 < l.foldl (fun acc p => acc * (p.2 - p.1 + 1)) acc := by
  induction l generalizing acc with
  | nil => simpa using ha
  | cons x xs ih =>
    simp only [List.foldl_cons]
    apply ih
    · apply Int.mul_pos ha
      have := h x (by simp)
      omega
    · intro p hp
      exact h p (by simp [hp])

theorem zip_grow (g : Nat) (lo hi : List Int) :
    (lo.map (fun x => x - (g : Int))).zip (hi.map (fun x => x + (g : Int)))
      = (lo.zip hi).map (fun p => (p.1 - (g : Int), p.2 + (g : Int))) := by
  induction lo generalizing hi with
  | nil => simp
  | cons a as ih =>
    cases hi with
    | nil => simp
    | cons b bs => simp [ih]

theorem ncells_grow_pos (g : Nat) (e : Entry) (hv : ValidBox e) :
    0 < ncells (⟨(grow g e).lo, (grow g e).hi, 0⟩ : Hdr) := by
  obtain ⟨_, hlen, hle⟩ := hv
  unfold ncells bcast
  simp only [grow, List.length_map, hlen, if_true]
  rw [zip_grow]
  apply foldl_cells_pos _ _ (by decide)
  intro p hp
  simp only [List.mem_map] at hp
  obtain ⟨q, hq, rfl⟩ := hp
  have := hle q hq
  simp only
  omega

/-- **growing a valid box gives a good FAB** (for a payload of the grown size) -/
theorem goodFab_grow (nf g : Nat) (e : Entry) (b : Bytes) (hv : ValidBox e)
    (hsize : b.length = cellsOf (grow g e) * nf * 8) : GoodFab nf (grow g e, b) where
  lo_ne := by
    have := hv.1
    cases h : e.lo with
    | nil => exact absurd h this
    | cons a as => simp [grow, h]
  hi_ne := by
    have h1 := hv.1
    have h2 := hv.2.1
    cases h : e.hi with
    | nil => rw [h] at h2; cases hl : e.lo with
      | nil => exact absurd hl h1
      | cons a as => rw [hl] at h2; simp at h2
    | cons a as => simp [grow, h]
  len := by simp [grow, hv.2.1]
  cells_pos := ncells_grow_pos g e hv
  size := hsize

/-- **Scanning a binary file of a plotfile written with `g` ghost cells yields, in disk order, the grown block of every box —
    each exactly once — and stops at end of file.** -/
theorem scan_grown (nf f g : Nat) (hf : f < nf) (eps : List (Entry × Bytes)) (pre : Bytes) (fuel : Nat)
    (hfuel : eps.length < fuel) (hv : ∀ p ∈ eps, ValidBox p.1)
    (hs : ∀ p ∈ eps, p.2.length = cellsOf (grow g p.1) * nf * 8) :
    scan (pre ++ fileOf nf (eps.map fun p => (grow g p.1, p.2))) f fuel pre.length
      = eps.map fun p => block p.2 (cellsOf (grow g p.1)) f := by
  have h := scan_fileOf nf f hf (eps.map fun p => (grow g p.1, p.2)) pre fuel (by simpa using hfuel) (by
    intro p hp
    simp only [List.mem_map] at hp
    obtain ⟨q, hq, rfl⟩ := hp
    exact goodFab_grow nf g q.1 q.2 (hv q hq) (hs q hq))
  rw [h, List.map_map]
  rfl

/-- **Iterating over a level of a plotfile written with `g` ghost cells** yields a permutation of the grown blocks of the level's
    boxes, however the boxes are spread over the binary files - and the iteration is finite. -/
theorem iterLevel_grown_perm (nf f g : Nat) (hf : f < nf) (parts : List (List (Entry × Bytes)))
    (boxes : List (Entry × Bytes)) (hp : boxes.Perm parts.flatten)
    (hv : ∀ eps ∈ parts, ∀ p ∈ eps, ValidBox p.1)
    (hs : ∀ eps ∈ parts, ∀ p ∈ eps, p.2.length = cellsOf (grow g p.1) * nf * 8) :
    (iterLevel ((parts.map fun eps => eps.map fun p => (grow g p.1, p.2)).map (fileOf nf)) f).Perm
      (boxes.map fun p => block p.2 (cellsOf (grow g p.1)) f) := by
  have h := iterLevel_perm nf f hf (parts.map fun eps => eps.map fun p => (grow g p.1, p.2))
    (boxes.map fun p => (grow g p.1, p.2))
    (by
      have := hp.map (fun p : Entry × Bytes => (grow g p.1, p.2))
      rwa [List.map_flatten] at this)
    (by
      intro eps heps p hp'
      simp only [List.mem_map] at heps
      obtain ⟨eps0, h0, rfl⟩ := heps
      simp only [List.mem_map] at hp'
      obtain ⟨q, hq, rfl⟩ := hp'
      exact goodFab_grow nf g q.1 q.2 (hv eps0 h0 q hq) (hs eps0 h0 q hq))
  have e : (boxes.map fun p => (grow g p.1, p.2)).map (fun p : Entry × Bytes => block p.2 (cellsOf p.1) f)
      = boxes.map fun p => block p.2 (cellsOf (grow g p.1)) f := by
    rw [List.map_map]; rfl
  rw [e] at h
  exact h

/-- non-vacuity: the 2 x 3 box (0,0)-(1,2) is valid; grown by one cell it has 4 x 5 = 20 cells -/
example : ValidBox ⟨[0, 0], [1, 2], "Cell_D_00000", 0⟩ ∧ cellsOf (grow 1 ⟨[0, 0], [1, 2], "Cell_D_00000", 0⟩) = 20 := by
  refine ⟨⟨by decide, by decide, ?_⟩, by decide⟩
  intro p hp
  simp at hp
  rcases hp with rfl | rfl <;> decide

end Ghost
