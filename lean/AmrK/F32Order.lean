import AmrK.F32Cast
import AmrK.F64Order
/-! Order of binary32 values on their bit patterns (infinity standing for `2^128`) and soundness of the neighbour test
    behind `F32.castOK`. -/
namespace F32
open TasteCoords

theorem fields (v : Nat) (h : v < 256 * 2 ^ 23) : expField v = v / 2 ^ 23 ∧ manField v < 2 ^ 23 ∧
    v = expField v * 2 ^ 23 + manField v := by
  have h1 : v / 2 ^ 23 < 256 := Nat.div_lt_of_lt_mul (by omega)
  have he : expField v = v / 2 ^ 23 := by unfold expField; exact Nat.mod_eq_of_lt h1
  refine ⟨he, Nat.mod_lt _ (by positivity), ?_⟩
  rw [he]; unfold manField
  have := Nat.div_add_mod v (2 ^ 23)
  rw [Nat.mul_comm] at this
  omega

theorem num_strictMono (a b : Nat) (hab : a < b) (hb : b < 256 * 2 ^ 23) : num a < num b := by
  obtain ⟨_, hma, ha⟩ := fields a (by omega)
  obtain ⟨_, hmb, hb'⟩ := fields b hb
  generalize hea : expField a = ea at *
  generalize heb : expField b = eb at *
  generalize hmaa : manField a = ma at *
  generalize hmbb : manField b = mb at *
  have hcase : ea < eb ∨ (ea = eb ∧ ma < mb) := by
    rcases Nat.lt_trichotomy ea eb with h | h | h
    · exact Or.inl h
    · right; subst h; exact ⟨rfl, by omega⟩
    · exfalso
      have : (eb + 1) * 2 ^ 23 ≤ ea * 2 ^ 23 := Nat.mul_le_mul_right _ h
      have e1 : (eb + 1) * 2 ^ 23 = eb * 2 ^ 23 + 2 ^ 23 := by ring
      omega
  unfold num
  rw [hea, heb, hmaa, hmbb]
  rcases hcase with h | ⟨h, hm⟩
  · have hb0 : eb ≠ 0 := by omega
    rw [if_neg hb0]
    have hpow : 2 ^ 23 * 2 ^ (eb - 1) ≤ (2 ^ 23 + mb) * 2 ^ (eb - 1) := Nat.mul_le_mul_right _ (by omega)
    by_cases ha0 : ea = 0
    · rw [if_pos ha0]
      have : 1 ≤ 2 ^ (eb - 1) := Nat.one_le_two_pow
      calc ma < 2 ^ 23 := hma
        _ = 2 ^ 23 * 1 := by ring
        _ ≤ 2 ^ 23 * 2 ^ (eb - 1) := Nat.mul_le_mul_left _ this
        _ ≤ _ := hpow
    · rw [if_neg ha0]
      have hle : 2 ^ (ea - 1 + 1) ≤ 2 ^ (eb - 1) := Nat.pow_le_pow_right (by omega) (by omega)
      calc (2 ^ 23 + ma) * 2 ^ (ea - 1) < (2 ^ 23 + 2 ^ 23) * 2 ^ (ea - 1) :=
            Nat.mul_lt_mul_of_pos_right (by omega) (by positivity)
        _ = 2 ^ 23 * 2 ^ (ea - 1 + 1) := by ring
        _ ≤ 2 ^ 23 * 2 ^ (eb - 1) := Nat.mul_le_mul_left _ hle
        _ ≤ _ := hpow
  · subst h
    by_cases ha0 : ea = 0
    · rw [if_pos ha0, if_pos ha0]; exact hm
    · rw [if_neg ha0, if_neg ha0]
      exact Nat.mul_lt_mul_of_pos_right (by omega) (by positivity)

theorem mag_strictMono (a b : Nat) (hab : a < b) (hb : b ≤ infBits) : magC a < magC b := by
  unfold magC
  have h := num_strictMono a b hab (by unfold infBits at hb; omega)
  have hd : (0 : Rat) < ((2 ^ 149 : Nat) : Rat) := by positivity
  exact div_lt_div_of_pos_right (by exact_mod_cast h) hd

theorem mag_mono (a b : Nat) (hab : a ≤ b) (hb : b ≤ infBits) : magC a ≤ magC b := by
  rcases Nat.lt_or_ge a b with h | h
  · exact le_of_lt (mag_strictMono a b h hb)
  · have : a = b := by omega
    rw [this]

theorem beats_le (q : Rat) (v u : Nat) (h : beats q v u = true) : |magC v - q| ≤ |magC u - q| := by
  unfold beats at h
  simp only [Bool.or_eq_true, Bool.and_eq_true, decide_eq_true_eq, TasteCoords.rabs_eq] at h
  rcases h with h | ⟨h, _⟩
  · exact le_of_lt h
  · exact le_of_eq h

/-- **soundness of the neighbour test**: a pattern the driver accepts is at least as close to `q` as every single-precision
    magnitude (the pattern of infinity standing for `2^128`) -/
theorem nearestC_sound (q : Rat) (v : Nat) (h : nearestC q v = true) :
    v ≤ infBits ∧ ∀ u, u ≤ infBits → |magC v - q| ≤ |magC u - q| := by
  unfold nearestC at h
  simp only [Bool.and_eq_true, Bool.or_eq_true, decide_eq_true_eq, beq_iff_eq] at h
  obtain ⟨⟨hv, hlo⟩, hhi⟩ := h
  refine ⟨hv, ?_⟩
  intro u hu
  rcases Nat.lt_trichotomy u v with huv | huv | huv
  · have hv0 : v ≠ 0 := by omega
    have hlo' : |magC v - q| ≤ |magC (v - 1) - q| := by
      rcases hlo with h0 | h0
      · exact absurd h0 hv0
      · exact beats_le q v (v - 1) h0
    have h1 : magC u ≤ magC (v - 1) := mag_mono u (v - 1) (by omega) (by omega)
    have h2 : magC (v - 1) < magC v := mag_strictMono (v - 1) v (by omega) hv
    by_cases hc : q ≤ magC (v - 1)
    · have : |magC v - q| = magC v - q := abs_of_nonneg (by linarith)
      have : |magC (v - 1) - q| = magC (v - 1) - q := abs_of_nonneg (by linarith)
      linarith
    · have hc' : magC (v - 1) < q := lt_of_not_ge hc
      have hu' : |magC u - q| = q - magC u := by rw [abs_sub_comm]; exact abs_of_nonneg (by linarith)
      have hw1 : |magC (v - 1) - q| = q - magC (v - 1) := by rw [abs_sub_comm]; exact abs_of_nonneg (by linarith)
      rw [hu']; rw [hw1] at hlo'; linarith
  · rw [huv]
  · have hvi : v ≠ infBits := by omega
    have hhi' : |magC v - q| ≤ |magC (v + 1) - q| := by
      rcases hhi with h0 | h0
      · exact absurd h0 hvi
      · exact beats_le q v (v + 1) h0
    have h1 : magC (v + 1) ≤ magC u := mag_mono (v + 1) u (by omega) hu
    have h2 : magC v < magC (v + 1) := mag_strictMono v (v + 1) (by omega) (by omega)
    by_cases hc : magC (v + 1) ≤ q
    · have : |magC v - q| = q - magC v := by rw [abs_sub_comm]; exact abs_of_nonneg (by linarith)
      have : |magC (v + 1) - q| = q - magC (v + 1) := by rw [abs_sub_comm]; exact abs_of_nonneg (by linarith)
      linarith
    · have hc' : q < magC (v + 1) := lt_of_not_ge hc
      have hu' : |magC u - q| = magC u - q := abs_of_nonneg (by linarith)
      have hw1 : |magC (v + 1) - q| = magC (v + 1) - q := abs_of_nonneg (by linarith)
      rw [hu']; rw [hw1] at hhi'; linarith

end F32
