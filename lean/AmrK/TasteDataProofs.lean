import AmrK.TasteData
import AmrK.TasteCoordsProofs
import AmrK.ExtremaProofs
/-! What taste's binary-data validation accepts (C03) and what its acceptance means (C04), and what "the true
    extrema of a FAB" are (C11 / C16 / C17). -/
namespace TasteData
open Extrema Py Taste Reader ReaderR Scan

/-! ### the true extrema of a list of values -/

/-- NaN-free -/
def NoNan (l : List V) : Prop := V.nan ∉ l

theorem le_refl' (a : V) (h : a ≠ .nan) : le a a = true := by
  cases a <;> simp_all [le]

theorem le_total' (a b : V) (ha : a ≠ .nan) (hb : b ≠ .nan) : le a b = true ∨ le b a = true := by
  cases a <;> cases b <;> simp_all [le]
  exact Rat.le_total

theorem le_trans' (a b c : V) (h1 : le a b = true) (h2 : le b c = true) (hb : b ≠ .nan) : le a c = true := by
  cases a <;> cases b <;> cases c <;> simp_all [le]
  exact Rat.le_trans h1 h2

/-- the running minimum of a NaN-free list is one of its elements (or the start) and a lower bound -/
theorem foldl_vmin_spec (l : List V) (a : V) (ha : a ≠ .nan) (hl : NoNan l) :
    let m := l.foldl vmin a
    (m = a ∨ m ∈ l) ∧ m ≠ .nan ∧ le m a = true ∧ ∀ x ∈ l, le m x = true := by
  induction l generalizing a with
  | nil => simp [le_refl' a ha, ha]
  | cons x xs ih =>
    have hx : x ≠ .nan := fun h => hl (by simp [h])
    have hxs : NoNan xs := fun h => hl (by simp [h])
    simp only [List.foldl_cons]
    have hv : vmin a x = (if le a x then a else x) := by
      cases a <;> cases x <;> simp_all [vmin]
    have hvn : vmin a x ≠ .nan := by rw [hv]; split <;> assumption
    obtain ⟨h1, h2, h3, h4⟩ := ih (vmin a x) hvn hxs
    have hva : le (vmin a x) a = true := by
      rw [hv]; split
      · exact le_refl' a ha
      · rcases le_total' a x ha hx with h | h
        · simp_all
        · exact h
    have hvx : le (vmin a x) x = true := by
      rw [hv]; split
      · assumption
      · exact le_refl' x hx
    refine ⟨?_, h2, le_trans' _ _ _ h3 hva hvn, ?_⟩
    · rcases h1 with h | h
      · rw [h, hv]; split
        · exact Or.inl rfl
        · exact Or.inr List.mem_cons_self
      · exact Or.inr (List.mem_cons_of_mem _ h)
    · intro y hy
      rcases List.mem_cons.mp hy with h | h
      · rw [h]; exact le_trans' _ _ _ h3 hvx hvn
      · exact h4 y h

theorem foldl_vmax_spec (l : List V) (a : V) (ha : a ≠ .nan) (hl : NoNan l) :
    let m := l.foldl vmax a
    (m = a ∨ m ∈ l) ∧ m ≠ .nan ∧ le a m = true ∧ ∀ x ∈ l, le x m = true := by
  induction l generalizing a with
  | nil => simp [le_refl' a ha, ha]
  | cons x xs ih =>
    have hx : x ≠ .nan := fun h => hl (by simp [h])
    have hxs : NoNan xs := fun h => hl (by simp [h])
    simp only [List.foldl_cons]
    have hv : vmax a x = (if le a x then x else a) := by
      cases a <;> cases x <;> simp_all [vmax]
    have hvn : vmax a x ≠ .nan := by rw [hv]; split <;> assumption
    obtain ⟨h1, h2, h3, h4⟩ := ih (vmax a x) hvn hxs
    have hva : le a (vmax a x) = true := by
      rw [hv]; split
      · assumption
      · exact le_refl' a ha
    have hvx : le x (vmax a x) = true := by
      rw [hv]; split
      · exact le_refl' x hx
      · rcases le_total' a x ha hx with h | h
        · simp_all
        · exact h
    refine ⟨?_, h2, le_trans' _ _ _ hva h3 hvn, ?_⟩
    · rcases h1 with h | h
      · rw [h, hv]; split
        · exact Or.inr List.mem_cons_self
        · exact Or.inl rfl
      · exact Or.inr (List.mem_cons_of_mem _ h)
    · intro y hy
      rcases List.mem_cons.mp hy with h | h
      · rw [h]; exact le_trans' _ _ _ hvx h3 hvn
      · exact h4 y h

theorem reduce_cons (f : V → V → V) (x : V) (xs : List V) : reduce f (x :: xs) = some (xs.foldl f x) := by
  unfold reduce
  simp only [List.foldl_cons, red]
  generalize x = a
  induction xs generalizing a with
  | nil => rfl
  | cons y ys ih => simp only [List.foldl_cons, red]; exact ih (f a y)

/-- **the true minimum**: for a non-empty NaN-free list `np.min` is an element below every element -/
theorem reduce_vmin_spec (l : List V) (hne : l ≠ []) (hl : NoNan l) :
    ∃ m, reduce vmin l = some m ∧ m ∈ l ∧ ∀ x ∈ l, le m x = true := by
  cases l with
  | nil => exact absurd rfl hne
  | cons x xs =>
    have hx : x ≠ .nan := fun h => hl (by simp [h])
    have hxs : NoNan xs := fun h => hl (by simp [h])
    obtain ⟨h1, _, h3, h4⟩ := foldl_vmin_spec xs x hx hxs
    refine ⟨xs.foldl vmin x, reduce_cons _ _ _, ?_, ?_⟩
    · rcases h1 with h | h
      · rw [h]; exact List.mem_cons_self
      · exact List.mem_cons_of_mem _ h
    · intro y hy
      rcases List.mem_cons.mp hy with h | h
      · rw [h]; exact h3
      · exact h4 y h

theorem reduce_vmax_spec (l : List V) (hne : l ≠ []) (hl : NoNan l) :
    ∃ m, reduce vmax l = some m ∧ m ∈ l ∧ ∀ x ∈ l, le x m = true := by
  cases l with
  | nil => exact absurd rfl hne
  | cons x xs =>
    have hx : x ≠ .nan := fun h => hl (by simp [h])
    have hxs : NoNan xs := fun h => hl (by simp [h])
    obtain ⟨h1, _, h3, h4⟩ := foldl_vmax_spec xs x hx hxs
    refine ⟨xs.foldl vmax x, reduce_cons _ _ _, ?_, ?_⟩
    · rcases h1 with h | h
      · rw [h]; exact List.mem_cons_self
      · exact List.mem_cons_of_mem _ h
    · intro y hy
      rcases List.mem_cons.mp hy with h | h
      · rw [h]; exact h3
      · exact h4 y h

/-! ### `np.isclose(..., equal_nan=True)` -/

theorem isclose_refl (a : Rat) : TasteCoords.isclose a a = true := by
  rw [TasteCoords.isclose_iff]
  unfold TasteCoords.tol
  have : |a - a| = 0 := by simp
  rw [this]
  positivity

theorem vclose_refl (v : V) : vclose v v = true := by
  cases v <;> simp [vclose, isclose_refl]

/-- closeness means: both NaN, the same infinity, or two finite numbers within numpy's band -/
theorem vclose_iff (a b : V) :
    vclose a b = true ↔
      (a = .nan ∧ b = .nan) ∨ (a = .pinf ∧ b = .pinf) ∨ (a = .ninf ∧ b = .ninf) ∨
      ∃ x y, a = .fin x ∧ b = .fin y ∧ |x - y| ≤ TasteCoords.tol y := by
  cases a <;> cases b <;> simp [vclose, TasteCoords.isclose_iff]

/-! ### one FAB, one file -/

/-- a row that records, for every checked component, exactly the extrema of the payload -/
def RowExact (fields : List Nat) (row : List (V × V)) (h : Hdr) (payload : Bytes) : Prop :=
  ∀ f ∈ fields, f < h.nf.toNat ∧ ∃ e, fabExtrema payload (ncells h).toNat f = some e ∧ row[f]? = some e

theorem fabOK_go_exact (fields : List Nat) (row : List (V × V)) (h : Hdr) (payload : Bytes)
    (hx : RowExact fields row h payload) : fabOK.go row h payload (ncells h).toNat fields = .good := by
  induction fields with
  | nil => rfl
  | cons f fs ih =>
    obtain ⟨hlt, e, he, hr⟩ := hx f List.mem_cons_self
    unfold fabOK.go
    rw [if_neg (by omega), he, hr]
    obtain ⟨mn, mx⟩ := e
    simp only [vclose_refl, Bool.and_self, if_true]
    exact ih (fun g hg => hx g (List.mem_cons_of_mem _ hg))

/-- **C03, binary data, one FAB**: exact rows are accepted -/
theorem fabOK_exact (fields : List Nat) (row : List (V × V)) (h : Hdr) (payload : Bytes)
    (hx : RowExact fields row h payload) : fabOK fields row h payload = .good := by
  unfold fabOK; exact fabOK_go_exact fields row h payload hx

/-- **C03, binary data, one file**: when the scan meets the FABs the sorted rows describe, the file is accepted -/
theorem fileOK_exact (fields : List Nat) (rows : List (List (V × V))) (fabs : List (Hdr × Bytes))
    (hlen : fabs.length ≤ rows.length)
    (hx : ∀ (i : Nat) (r : List (V × V)) (p : Hdr × Bytes), rows[i]? = some r → fabs[i]? = some p → RowExact fields r p.1 p.2) : fileOK fields rows fabs = .good := by
  induction fabs generalizing rows with
  | nil => cases rows <;> rfl
  | cons p rest ih =>
    cases rows with
    | nil => simp at hlen
    | cons r rows =>
      obtain ⟨h, P⟩ := p
      unfold fileOK
      have h0 := hx 0 r (h, P) (by simp) (by simp)
      rw [fabOK_exact fields r h P h0]
      apply ih rows (by simpa using hlen)
      intro i r' p' hr' hp'
      exact hx (i + 1) r' p' (by simpa using hr') (by simpa using hp')

/-- what acceptance of one FAB means: every checked component exists, has a recorded row, and the recorded
    minimum and maximum are `isclose` to the extrema of the stored values -/
theorem fabOK_go_sound (fields : List Nat) (row : List (V × V)) (h : Hdr) (payload : Bytes)
    (hg : fabOK.go row h payload (ncells h).toNat fields = .good) :
    ∀ f ∈ fields, f < h.nf.toNat ∧ ∃ mn mx hmn hmx, fabExtrema payload (ncells h).toNat f = some (mn, mx) ∧
      row[f]? = some (hmn, hmx) ∧ vclose hmn mn = true ∧ vclose hmx mx = true := by
  induction fields with
  | nil => intro f hf; cases hf
  | cons g gs ih =>
    unfold fabOK.go at hg
    split at hg
    · cases hg
    · rename_i hlt
      split at hg
      · rename_i mn mx hmn hmx he hr
        split at hg
        · rename_i hc
          intro f hf
          rcases List.mem_cons.mp hf with e | e
          · subst e
            simp only [Bool.and_eq_true] at hc
            exact ⟨by omega, mn, mx, hmn, hmx, he, hr, hc.1, hc.2⟩
          · exact ih hg f e
        · cases hg
      · cases hg

theorem fabOK_sound (fields : List Nat) (row : List (V × V)) (h : Hdr) (payload : Bytes)
    (hg : fabOK fields row h payload = .good) :
    ∀ f ∈ fields, f < h.nf.toNat ∧ ∃ mn mx hmn hmx, fabExtrema payload (ncells h).toNat f = some (mn, mx) ∧
      row[f]? = some (hmn, hmx) ∧ vclose hmn mn = true ∧ vclose hmx mx = true :=
  fabOK_go_sound fields row h payload (by unfold fabOK at hg; exact hg)

/-- **C04, binary data, one file**: an accepted file has a row for every scanned FAB, and each passes -/
theorem fileOK_sound (fields : List Nat) (rows : List (List (V × V))) (fabs : List (Hdr × Bytes))
    (hg : fileOK fields rows fabs = .good) :
    fabs.length ≤ rows.length ∧
    ∀ (i : Nat) (r : List (V × V)) (p : Hdr × Bytes), rows[i]? = some r → fabs[i]? = some p →
      fabOK fields r p.1 p.2 = .good := by
  induction fabs generalizing rows with
  | nil => exact ⟨by simp, by intro i r p _ hp; simp at hp⟩
  | cons p rest ih =>
    cases rows with
    | nil => obtain ⟨h, P⟩ := p; simp [fileOK] at hg
    | cons r rows =>
      obtain ⟨h, P⟩ := p
      unfold fileOK at hg
      split at hg
      · rename_i hfab
        obtain ⟨h1, h2⟩ := ih rows hg
        refine ⟨by simpa using h1, ?_⟩
        intro i r' p' hr' hp'
        cases i with
        | zero =>
          simp at hr' hp'
          subst hr' hp'
          exact hfab
        | succ i => exact h2 i r' p' (by simpa using hr') (by simpa using hp')
      · rename_i v hv
        cases v <;> simp_all

/-! ### the sequential scan of a well-formed file meets every FAB once, in disk order -/

theorem scanAll_fileOf (nf : Nat) (hnf : 0 < nf) :
    ∀ (eps : List (Entry × Bytes)) (pre : Bytes) (fuel : Nat), eps.length < fuel →
      (∀ p ∈ eps, GoodFab nf p) →
      scanAll (pre ++ fileOf nf eps) fuel pre.length
        = eps.map fun p => ((⟨p.1.lo, p.1.hi, (nf : Int)⟩ : Hdr), p.2) := by
  intro eps
  induction eps with
  | nil =>
    intro pre fuel hfuel _
    cases fuel with
    | zero => omega
    | succ fuel =>
      unfold scanAll
      have : (pre ++ fileOf nf []).drop pre.length = [] := by simp [fileOf]
      simp only [this]
      have hp : parseFabHeader (lineOf []) = none := by
        unfold lineOf parseFabHeader
        simp [isAscii, splitWs, splitWs.go]
      simp [hp]
  | cons q eps ih =>
    intro pre fuel hfuel hg
    obtain ⟨e, P⟩ := q
    have g := hg (e, P) List.mem_cons_self
    cases fuel with
    | zero => omega
    | succ fuel =>
      have hcan : canonHeader e.lo e.hi nf = canonB e.lo e.hi nf := rfl
      have hdrop : (pre ++ fileOf nf ((e, P) :: eps)).drop pre.length
          = canonB e.lo e.hi nf ++ (P ++ fileOf nf eps) := by
        simp [fileOf, hcan, List.append_assoc]
      have hline : lineOf (canonB e.lo e.hi nf ++ (P ++ fileOf nf eps)) = canonB e.lo e.hi nf :=
        lineOf_line _ _ (isLine_canonB e.lo e.hi nf)
      unfold scanAll
      simp only [hdrop, hline, parse_canonB e.lo e.hi nf g.lo_ne g.hi_ne g.len]
      have hcp : 0 < ncells (⟨e.lo, e.hi, 0⟩ : Hdr) := g.cells_pos
      have hcells : ncells (⟨e.lo, e.hi, (nf : Int)⟩ : Hdr) = ((cellsOf e : Nat) : Int) := by
        unfold cellsOf
        rw [ncells_nf e.lo e.hi (nf : Int) 0]
        omega
      have hcond : ¬ (ncells (⟨e.lo, e.hi, (nf : Int)⟩ : Hdr) ≤ 0 ∨ ((nf : Int)) ≤ 0) := by
        rw [hcells]; unfold cellsOf; omega
      rw [if_neg hcond]
      simp only [hcells, Int.toNat_natCast]
      have hsz : P.length = cellsOf e * nf * 8 := g.size
      have hd2 : (pre ++ fileOf nf ((e, P) :: eps)).drop (pre.length + (canonB e.lo e.hi nf).length)
          = P ++ fileOf nf eps := by
        have := Reader.drop_prefix (pre ++ canonB e.lo e.hi nf) P (fileOf nf eps) 0 (by omega)
        simpa [fileOf, hcan, List.append_assoc, Nat.add_assoc] using this
      rw [hd2]
      have htake : (P ++ fileOf nf eps).take (cellsOf e * nf * 8) = P := by
        rw [← hsz]; simp
      rw [htake]
      simp only [hsz, Nat.lt_irrefl, if_false, List.map_cons]
      congr 1
      have hnext : pre.length + (canonB e.lo e.hi nf).length + cellsOf e * nf * 8
          = (pre ++ canonB e.lo e.hi nf ++ P).length := by
        simp only [List.length_append]; omega
      rw [hnext]
      have hraw : pre ++ fileOf nf ((e, P) :: eps) = (pre ++ canonB e.lo e.hi nf ++ P) ++ fileOf nf eps := by
        simp [fileOf, hcan, List.append_assoc]
      rw [hraw]
      exact ih (pre ++ canonB e.lo e.hi nf ++ P) fuel (by simp at hfuel; omega)
        (fun p hp => hg p (List.mem_cons_of_mem _ hp))

/-- **C03, binary data, a whole well-formed file**: when the rows sorted by offset record the extrema of the FABs in
    disk order, validation of the binary data accepts the file -/
theorem file_accepted (nf : Nat) (hnf : 0 < nf) (fields : List Nat) (eps : List (Entry × Bytes))
    (rows : List (List (V × V))) (fuel : Nat) (hfuel : eps.length < fuel)
    (hg : ∀ p ∈ eps, GoodFab nf p) (hlen : eps.length ≤ rows.length)
    (hx : ∀ (i : Nat) (r : List (V × V)) (p : Entry × Bytes), rows[i]? = some r → eps[i]? = some p →
      RowExact fields r (⟨p.1.lo, p.1.hi, (nf : Int)⟩ : Hdr) p.2) :
    fileOK fields rows (scanAll (fileOf nf eps) fuel 0) = .good := by
  have h := scanAll_fileOf nf hnf eps [] fuel hfuel hg
  simp only [List.nil_append, List.length_nil] at h
  rw [h]
  apply fileOK_exact
  · simpa using hlen
  · intro i r p hr hp
    rw [List.getElem?_map] at hp
    cases he : eps[i]? with
    | none => simp [he] at hp
    | some q =>
      simp [he] at hp
      subst hp
      exact hx i r q hr he

/-! ### a whole level -/

theorem firstBad_all_good (l : List Verdict) (h : ∀ v ∈ l, v = .good) : firstBad l = .good := by
  induction l with
  | nil => rfl
  | cons v vs ih =>
    have hv := h v List.mem_cons_self
    subst hv
    simp only [firstBad]
    exact ih (fun w hw => h w (List.mem_cons_of_mem _ hw))

/-- the rows of the boxes of file `n`, sorted by offset (what `levelOK` hands to `fileOK`) -/
def rowsOf (entries : List Entry) (rows : List (List (V × V))) (n : String) : List (List (V × V)) :=
  (sortKey (((entries.zip rows).filter (·.1.file == n)).map fun p => (p.1.offset, p.2))).map (·.2)

/-- **C03, binary data, a whole level**: when every binary file the level header names is there and passes against the rows
    of its boxes sorted by offset, the level passes -/
theorem levelOK_accepted (fields : List Nat) (entries : List Entry) (rows : List (List (V × V))) (files : List (String × Bytes))
    (h : ∀ n ∈ dedup (entries.map (·.file)), ∃ raw, files.lookup n = some raw ∧
      fileOK fields (rowsOf entries rows n) (scanAll raw (raw.length + 1) 0) = .good) :
    levelOK fields entries rows files = .good := by
  unfold levelOK
  apply firstBad_all_good
  intro v hv
  obtain ⟨n, hn, rfl⟩ := List.mem_map.mp hv
  obtain ⟨raw, hl, hg⟩ := h n hn
  simp only [hl]
  exact hg

end TasteData
