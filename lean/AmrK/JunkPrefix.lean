import AmrK.Codec
import AmrK.TasteComplete
/-! Bytes glued in front of a FAB header line.  The header parse shared by validator and reader looks at the last four
    tokens of the line only, so bytes without white space (and without a line end) put directly ahead of the magic `FAB`
    become part of the line's first token and change nothing: the line is still read as the header of the same box.
    This is why "junk ahead of the only FAB of a file, offset moved along" is an edit of the header text (accepted *and*
    read consistently, C20), while junk that ends in a line end is a layout fault (C04). -/
namespace JunkPrefix
open Py Taste

/-- the parse depends on the tokens after the first only (when there are at least four of them) -/
theorem parse_depends_on_tail (h h' : Bytes) (t t' : Bytes) (rest : List Bytes)
    (ha : isAscii h = true) (ha' : isAscii h' = true)
    (hs : splitWs h = t :: rest) (hs' : splitWs h' = t' :: rest) (hlen : 4 ≤ rest.length) :
    parseFabHeader h' = parseFabHeader h := by
  unfold parseFabHeader
  simp only [ha, ha', Bool.not_true, Bool.false_eq_true, if_false, hs, hs', List.length_cons]
  have hd : ∀ x : Bytes, (x :: rest).drop (rest.length + 1 - 4) = rest.drop (rest.length - 4) := by
    intro x
    have : rest.length + 1 - 4 = (rest.length - 4) + 1 := by omega
    rw [this, List.drop_succ_cons]
  rw [hd t, hd t']

theorem isAscii_append (a b : Bytes) (ha : isAscii a = true) (hb : isAscii b = true) : isAscii (a ++ b) = true := by
  unfold isAscii at *
  rw [List.all_append, ha, hb]; rfl

/-- **junk glued to a header line is ignored**: for bytes `junk` without white space (hence without a line end) and
    within ASCII, the line `junk ++ header` is read as the header of the same box -/
theorem junk_glued_ignored (junk : Bytes) (hj : NoSpace junk) (hja : isAscii junk = true)
    (lo hi : List Int) (nf : Nat) (hlo : lo ≠ []) (hhi : hi ≠ []) (hlen : lo.length = hi.length) :
    parseFabHeader (junk ++ canonB lo hi nf) = some ⟨lo, hi, (nf : Int)⟩ := by
  have hok := canon_tokens_ok lo hi nf
  -- the canonical line and its tokens
  have hascii : isAscii (canonB lo hi nf) = true := isAscii_sepJoin _ (fun p hp => (hok p hp).2)
  have hsplit : splitWs (canonB lo hi nf) = (prefixToks.map (·, (32 : UInt8)) ++ lastFour lo hi nf).map (·.1) := by
    unfold canonB
    exact splitWs_sepJoin _ (fun p hp => (hok p hp).1)
  -- the glued line as a separated join whose first token is `junk ++ FAB`
  have hpre : prefixToks = [70, 65, 66] :: prefixToks.tail := by unfold prefixToks; rfl
  have hglue : junk ++ canonB lo hi nf
      = sepJoin ((junk ++ [70, 65, 66], (32 : UInt8)) :: (prefixToks.tail.map (·, (32 : UInt8)) ++ lastFour lo hi nf)) := by
    unfold canonB
    rw [show (prefixToks.map (·, (32 : UInt8)) ++ [(tokStart lo, 32), (tokStop hi, 32), (tokType hi.length, 32), (natBytes nf, 10)])
        = ([70, 65, 66], (32 : UInt8)) :: (prefixToks.tail.map (·, (32 : UInt8)) ++ lastFour lo hi nf) from by
      conv => lhs; rw [hpre]
      simp [lastFour]]
    simp [sepJoin, List.append_assoc]
  have hmem : ∀ p ∈ prefixToks.tail.map (·, (32 : UInt8)) ++ lastFour lo hi nf,
      p ∈ prefixToks.map (·, (32 : UInt8)) ++ lastFour lo hi nf := by
    intro p hp
    rcases List.mem_append.mp hp with hp | hp
    · apply List.mem_append_left
      obtain ⟨x, hx, rfl⟩ := List.mem_map.mp hp
      exact List.mem_map.mpr ⟨x, List.mem_of_mem_tail hx, rfl⟩
    · exact List.mem_append_right _ hp
  have hsplit' : splitWs (junk ++ canonB lo hi nf)
      = (junk ++ [70, 65, 66]) :: (prefixToks.tail.map (·, (32 : UInt8)) ++ lastFour lo hi nf).map (·.1) := by
    rw [hglue, splitWs_sepJoin]
    · rfl
    · intro p hp
      rcases List.mem_cons.mp hp with e | e
      · subst e
        refine ⟨by simp, ?_, (by show isSpace 32 = true; decide)⟩
        intro b hb
        rcases List.mem_append.mp hb with hb | hb
        · exact hj b hb
        · simp at hb; rcases hb with rfl | rfl | rfl <;> decide
      · exact (hok p (hmem p e)).1
  have hsplit0 : splitWs (canonB lo hi nf)
      = [70, 65, 66] :: (prefixToks.tail.map (·, (32 : UInt8)) ++ lastFour lo hi nf).map (·.1) := by
    rw [hsplit]
    conv => lhs; rw [hpre]
    simp
  have hrest : 4 ≤ ((prefixToks.tail.map (·, (32 : UInt8)) ++ lastFour lo hi nf).map (·.1)).length := by
    simp [lastFour]
  rw [parse_depends_on_tail (canonB lo hi nf) (junk ++ canonB lo hi nf) _ _ _ hascii
        (isAscii_append _ _ hja hascii) hsplit0 hsplit' hrest]
  exact parse_canonB lo hi nf hlo hhi hlen

/-- ... and `readline` takes the glued bytes and the header as one line -/
theorem junk_glued_line (junk : Bytes) (hj : NoSpace junk) (lo hi : List Int) (nf : Nat) (rest : Bytes) :
    lineOf (junk ++ canonB lo hi nf ++ rest) = junk ++ canonB lo hi nf := by
  obtain ⟨body, hb, hnl⟩ := isLine_canonB lo hi nf
  have : Reader.IsLine (junk ++ canonB lo hi nf) := by
    refine ⟨junk ++ body, by rw [hb, List.append_assoc], ?_⟩
    intro hm
    rcases List.mem_append.mp hm with h | h
    · have := hj _ h; revert this; decide
    · exact hnl h
  exact Reader.lineOf_line _ rest this

end JunkPrefix
