import AmrK.WritersChk
/-! Every record the writers produce has a positive byte size (its header line is never empty),
    which discharges the `hsize` side condition of the data theorems unconditionally. -/
namespace Writers

theorem digits_pos (n : Nat) : 0 < digits n := by
  unfold digits
  have : toString n = Nat.repr n := rfl
  rw [this]
  exact Nat.length_repr_pos

theorem colRec_size_pos (boxes : List InBox) (nvars : Nat) (kept : List Nat) (k : Nat) (r : OutRec)
    (h : colRec boxes nvars kept k = some r) : 0 < r.size := by
  unfold colRec at h
  cases hb : boxes[k]? with
  | none => rw [hb] at h; cases h
  | some b =>
    rw [hb] at h
    simp only [Option.map_some, Option.some.injEq] at h
    subst h
    have := digits_pos kept.length
    show 0 < b.hdrLen - digits nvars + digits kept.length + b.ncells * 8 * kept.length
    omega

theorem cmbRec_size_pos (b1 b2 : List InBox) (v1 v2 : List Nat) (k : Nat) (r : OutRec)
    (h : cmbRec b1 b2 v1 v2 k = some r) : 0 < r.size := by
  unfold cmbRec at h
  cases hx : b1[k]? with
  | none => rw [hx] at h; cases h
  | some x =>
    cases hy : b2[k]? with
    | none => rw [hx, hy] at h; cases h
    | some y =>
      rw [hx, hy] at h
      simp only [Option.bind_eq_bind, Option.bind_some, Option.pure_def, Option.some.injEq] at h
      subst h
      have := digits_pos (v1.length + v2.length)
      show 0 < x.canonLen - 1 + digits (v1.length + v2.length) + x.ncells * 8 * (v1.length + v2.length)
      omega

theorem chefRec_size_pos (boxes : List InBox) (nfIn : Nat) (kept : List Nat) (newComps : Nat → List Int)
    (k : Nat) (r : OutRec) (h : chefRec boxes nfIn kept newComps k = some r) : 0 < r.size := by
  unfold chefRec at h
  cases hb : boxes[k]? with
  | none => rw [hb] at h; cases h
  | some b =>
    rw [hb] at h
    simp only [Option.map_some, Option.some.injEq] at h
    subst h
    have := digits_pos (kept.length + (newComps k).length)
    show 0 < b.hdrLen - digits nfIn + digits (kept.length + (newComps k).length)
      + b.ncells * 8 * (kept.length + (newComps k).length)
    omega

theorem chkRec_size_pos (boxes : List InBox) (gradp ir : Nat → List Int) (doG doR : Bool)
    (k : Nat) (r : OutRec) (h : chkRec boxes gradp ir doG doR k = some r) : 0 < r.size := by
  unfold chkRec at h
  cases hb : boxes[k]? with
  | none => rw [hb] at h; cases h
  | some b =>
    rw [hb] at h
    simp only [Option.map_some, Option.some.injEq] at h
    subst h
    have := digits_pos (b.comps ++ (if doG then gradp k else []) ++ (if doR then ir k else [])).length
    show 0 < b.canonLen - 1 + digits (b.comps ++ (if doG then gradp k else []) ++ (if doR then ir k else [])).length
      + b.ncells * 8 * (b.comps ++ (if doG then gradp k else []) ++ (if doR then ir k else [])).length
    omega

end Writers
