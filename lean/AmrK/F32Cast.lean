import AmrK.F64Text
/-! Conversion of a binary64 value to binary32 (`arr.astype(np.float32)`: whip's `--dtype float32`): `castOK w v` decides
    that the 32-bit pattern `v` is the correctly rounded (nearest, ties to even; beyond the largest finite value: infinity)
    single-precision value of the double with pattern `w`.  Core-only (run by the driver). -/
namespace F32
open TasteCoords

def expField (v : Nat) : Nat := v / 2 ^ 23 % 256
def manField (v : Nat) : Nat := v % 2 ^ 23

/-- numerator of the magnitude over the common denominator `2^149`; the pattern of infinity (`255 · 2^23`) gets the value
    `2^128` it stands for when rounding -/
def num (v : Nat) : Nat :=
  if expField v = 0 then manField v else (2 ^ 23 + manField v) * 2 ^ (expField v - 1)

def magC (v : Nat) : Rat := (num v : Rat) / ((2 ^ 149 : Nat) : Rat)

/-- the pattern of +infinity; the finite magnitudes are the patterns below it -/
def infBits : Nat := 255 * 2 ^ 23

def beats (q : Rat) (v u : Nat) : Bool :=
  decide (rabs (magC v - q) < rabs (magC u - q)) || (decide (rabs (magC v - q) = rabs (magC u - q)) && v % 2 == 0)

/-- `v ≤ infBits` is the correctly rounded magnitude pattern for `q ≥ 0`, with the pattern of infinity standing for `2^128` -/
def nearestC (q : Rat) (v : Nat) : Bool :=
  decide (v ≤ infBits) && (v == 0 || beats q v (v - 1)) && (v == infBits || beats q v (v + 1))

/-- a double (64-bit pattern `w`) against the single (32-bit pattern `v`) it was converted to -/
def castOK (w v : Nat) : Bool :=
  let s64 := w / 2 ^ 63 % 2
  let s32 := v / 2 ^ 31 % 2
  let m64 := w % 2 ^ 63
  let m32 := v % 2 ^ 31
  if F64.expField w = 2047 then
    if F64.manField w = 0 then s64 == s32 && m32 == infBits        -- infinity stays the infinity of its sign
    else expField v == 255 && manField v != 0                       -- NaN stays NaN
  else
    s64 == s32 && nearestC (F64.magC m64) m32

end F32
