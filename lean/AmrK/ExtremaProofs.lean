import Mathlib.Tactic.Linarith
import Mathlib.Algebra.Order.Field.Rat
import AmrK.Extrema
/-! The all-level entry of menu's table is the extremum over every box of every level. -/
namespace Extrema

theorem vmin_fin (a b : Rat) : vmin (.fin a) (.fin b) = .fin (min a b) := by
  simp only [vmin, le, min_def]
  by_cases h : a ≤ b <;> simp [h]

theorem vmax_fin (a b : Rat) : vmax (.fin a) (.fin b) = .fin (max a b) := by
  simp only [vmax, le, max_def]
  by_cases h : a ≤ b <;> simp [h]

theorem vmin_assoc (a b c : V) : vmin (vmin a b) c = vmin a (vmin b c) := by
  cases a <;> cases b <;> cases c <;> (try simp only [vmin_fin]) <;>
    first
    | rfl
    | (rw [min_assoc])
    | (simp [vmin, le]; done)
    | (simp only [vmin, le, min_def]; split_ifs <;> simp_all)

theorem vmax_assoc (a b c : V) : vmax (vmax a b) c = vmax a (vmax b c) := by
  cases a <;> cases b <;> cases c <;> (try simp only [vmax_fin]) <;>
    first
    | rfl
    | (rw [max_assoc])
    | (simp [vmax, le]; done)
    | (simp only [vmax, le, max_def]; split_ifs <;> simp_all)

/-! ### reduction of the per-level reductions = reduction over all boxes -/

theorem join_assoc (f : V → V → V) (hf : ∀ a b c, f (f a b) c = f a (f b c)) (a b c : Option V) :
    join f (join f a b) c = join f a (join f b c) := by
  cases a <;> cases b <;> cases c <;> simp [join, hf]

theorem red_eq_join (f : V → V → V) (acc : Option V) (x : V) : red f acc x = join f acc (some x) := by
  cases acc <;> rfl

theorem foldl_red (f : V → V → V) (hf : ∀ a b c, f (f a b) c = f a (f b c)) (l : List V) (acc : Option V) :
    l.foldl (red f) acc = join f acc (reduce f l) := by
  induction l generalizing acc with
  | nil => cases acc <;> rfl
  | cons x l ih =>
    unfold reduce
    simp only [List.foldl_cons]
    rw [ih (red f acc x), ih (red f none x), red_eq_join, red_eq_join, join_assoc f hf]
    rfl

/-- **min of the per-level mins = min over every box of every level** (any associative reduction;
    NaN absorbing, ±inf ordinary) -/
theorem overLevels_eq_flatten (f : V → V → V) (hf : ∀ a b c, f (f a b) c = f a (f b c)) (levels : List (List V)) :
    overLevels f levels = reduce f levels.flatten := by
  unfold overLevels
  suffices h : ∀ (acc : Option V), (levels.map (reduce f)).foldl (join f) acc = join f acc (reduce f levels.flatten) by
    have := h none
    simpa [join] using this
  induction levels with
  | nil => intro acc; cases acc <;> rfl
  | cons l ls ih =>
    intro acc
    simp only [List.map_cons, List.foldl_cons, List.flatten_cons]
    rw [ih]
    unfold reduce
    rw [List.foldl_append, foldl_red f hf ls.flatten (List.foldl (red f) none l), join_assoc f hf]
    rfl

theorem min_over_levels (levels : List (List V)) : overLevels vmin levels = reduce vmin levels.flatten :=
  overLevels_eq_flatten vmin vmin_assoc levels

theorem max_over_levels (levels : List (List V)) : overLevels vmax levels = reduce vmax levels.flatten :=
  overLevels_eq_flatten vmax vmax_assoc levels

/-- NaN anywhere makes the entry NaN -/
theorem reduce_nan (f : V → V → V) (hl : ∀ x, f .nan x = .nan) (hr : ∀ x, f x .nan = .nan) (l : List V) (h : V.nan ∈ l) :
    reduce f l = some .nan := by
  unfold reduce
  suffices key : ∀ (l : List V) (acc : Option V), (acc = some .nan ∨ V.nan ∈ l) → l.foldl (red f) acc = some .nan from
    key l none (Or.inr h)
  intro l
  induction l with
  | nil => intro acc h; rcases h with h | h
           · simpa using h
           · cases h
  | cons x l ih =>
    intro acc h
    simp only [List.foldl_cons]
    apply ih
    rcases h with h | h
    · left; subst h; simp [red, hl]
    · rcases List.mem_cons.mp h with rfl | h
      · left; cases acc <;> simp [red, hr]
      · right; exact h

end Extrema
