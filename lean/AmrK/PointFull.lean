import AmrK.PointCase1
/-! C19, the whole query: at the centre of a cell of the finest box covering it, at least one cell away
    from the box's faces, `Point.query` (the model of `LevelDataSelector.__call__` up to the
    interpolation call) takes the single-box branch at the right level, for the right box, with the
    cell's own local index - for any number of levels and boxes, any placement of the domain and any
    cell sizes. -/
namespace Point

/-! ### the finest level with a match -/

theorem find_last (q : Nat → Bool) (L : Nat) (hq : q L = true) :
    ∀ n, L < n → (∀ l, L < l → l < n → q l = false) → ((List.range n).reverse).find? q = some L := by
  intro n
  induction n with
  | zero => intro h; omega
  | succ n ih =>
    intro hL hlater
    rw [List.range_succ, List.reverse_append]
    simp only [List.reverse_cons, List.reverse_nil, List.nil_append, List.singleton_append]
    rw [List.find?_cons]
    by_cases hn : n = L
    · subst hn; rw [hq]
    · have hlt : L < n := by omega
      rw [hlater n hlt (by omega)]
      exact ih hlt (fun l h1 h2 => hlater l h1 (by omega))

theorem lastLevel_eq (ms : List (List Nat)) (L : Nat) (hL : L < ms.length) (hne : (ms.getD L []).isEmpty = false)
    (hlater : ∀ l, L < l → l < ms.length → (ms.getD l []).isEmpty = true) : lastLevel ms = some L := by
  unfold lastLevel
  exact find_last (fun l => !(ms.getD l []).isEmpty) L (by simp only [hne]; rfl) ms.length hL
    (fun l h1 h2 => by simp only [hlater l h1 h2]; rfl)

theorem getD_map_matchList (levels : List PLevel) (pad : Rat → Rat) (p : List Rat) (l : Nat) (hl : l < levels.length) :
    (levels.map fun lv => matchList pad lv p).getD l [] = matchList pad (levels.getD l ⟨[], [], []⟩) p := by
  simp [List.getD, hl]

/-- **the decision part of the query**: if all three match lists of level `L` are `[b]` and no box of
    a finer level matches, the query is the single-box case for `(L, b)` -/
theorem query_case1_of_matches (g : List Rat) (levels : List PLevel) (p : List Rat) (L b : Nat) (hL : L < levels.length)
    (hE : matchList (fun _ => 0) (levels.getD L ⟨[], [], []⟩) p = [b])
    (hI : matchList (fun d => d / 2) (levels.getD L ⟨[], [], []⟩) p = [b])
    (hO : matchList (fun d => -(d / 2)) (levels.getD L ⟨[], [], []⟩) p = [b])
    (hfE : ∀ l, L < l → l < levels.length → matchList (fun _ => 0) (levels.getD l ⟨[], [], []⟩) p = [])
    (hfI : ∀ l, L < l → l < levels.length → matchList (fun d => d / 2) (levels.getD l ⟨[], [], []⟩) p = [])
    (hfO : ∀ l, L < l → l < levels.length → matchList (fun d => -(d / 2)) (levels.getD l ⟨[], [], []⟩) p = []) :
    query g levels p = .case1 L b
      (List.zipWith (fun i (l : Int) => i - (l : Rat))
        (List.zipWith (fun (gd : Rat × Rat) x => pointIdxR gd.1 gd.2 x) (List.zip g (levels.getD L ⟨[], [], []⟩).dx) p)
        ((levels.getD L ⟨[], [], []⟩).idxLo.getD b [])) := by
  have last : ∀ (pad : Rat → Rat), matchList pad (levels.getD L ⟨[], [], []⟩) p = [b] →
      (∀ l, L < l → l < levels.length → matchList pad (levels.getD l ⟨[], [], []⟩) p = []) →
      lastLevel (levels.map fun lv => matchList pad lv p) = some L := by
    intro pad h1 h2
    apply lastLevel_eq _ L (by simpa using hL)
    · rw [getD_map_matchList levels pad p L hL, h1]; rfl
    · intro l hl1 hl2
      have hl2' : l < levels.length := by simpa using hl2
      rw [getD_map_matchList levels pad p l hl2', h2 l hl1 hl2']; rfl
  unfold query
  simp only [last _ hE hfE, last _ hO hfO, last _ hI hfI, if_true,
    getD_map_matchList levels _ p L hL, hE, hI, hO, List.length_singleton, ne_eq, not_true_eq_false, if_false,
    List.headD_cons]

/-! ### match lists as filters -/

theorem filter_range_singleton (q : Nat → Bool) (n b : Nat) (hb : b < n) (hq : q b = true)
    (hother : ∀ i, i < n → i ≠ b → q i = false) : (List.range n).filter q = [b] := by
  induction n with
  | zero => omega
  | succ n ih =>
    rw [List.range_succ, List.filter_append]
    by_cases hn : b = n
    · subst hn
      have : (List.range b).filter q = [] := by
        rw [List.filter_eq_nil_iff]
        intro i hi
        have := hother i (by have := List.mem_range.mp hi; omega) (by have := List.mem_range.mp hi; omega)
        simp [this]
      simp [this, hq]
    · have hlt : b < n := by omega
      rw [ih hlt (fun i hi hne => hother i (by omega) hne)]
      have : q n = false := hother n (by omega) (by omega)
      simp [this]

theorem filter_range_nil (q : Nat → Bool) (n : Nat) (h : ∀ i, i < n → q i = false) : (List.range n).filter q = [] := by
  rw [List.filter_eq_nil_iff]
  intro i hi
  simp [h i (List.mem_range.mp hi)]

/-! ### three-dimensional geometry from index ranges -/

abbrev I3 := Int × Int × Int
abbrev R3 := Rat × Rat × Rat

/-- physical bounds of the index box `lo … hi` -/
def pbox (g d : R3) (lo hi : I3) : List (Rat × Rat) :=
  [(pLo g.1 d.1 lo.1, pHi g.1 d.1 hi.1), (pLo g.2.1 d.2.1 lo.2.1, pHi g.2.1 d.2.1 hi.2.1),
   (pLo g.2.2 d.2.2 lo.2.2, pHi g.2.2 d.2.2 hi.2.2)]

/-- a level given by its cell sizes and the index ranges of its boxes -/
structure ILevel where
  d : R3
  boxes : List (I3 × I3)

def ILevel.toP (g : R3) (l : ILevel) : PLevel :=
  { dx := [l.d.1, l.d.2.1, l.d.2.2], boxes := l.boxes.map fun b => pbox g l.d b.1 b.2,
    idxLo := l.boxes.map fun b => [b.1.1, b.1.2.1, b.1.2.2] }

def centre3 (g d : R3) (c : I3) : List Rat := [centre g.1 d.1 c.1, centre g.2.1 d.2.1 c.2.1, centre g.2.2 d.2.2 c.2.2]

/-- one axis of the box test with padding `pad` -/
def Ax (pad a b x : Rat) : Prop := a + pad ≤ x ∧ x ≤ b - pad

theorem matchBox3 (pad : Rat → Rat) (g d : R3) (lo hi : I3) (x : R3) :
    matchBox pad [d.1, d.2.1, d.2.2] (pbox g d lo hi) [x.1, x.2.1, x.2.2] = true ↔
      Ax (pad d.1) (pLo g.1 d.1 lo.1) (pHi g.1 d.1 hi.1) x.1 ∧
      Ax (pad d.2.1) (pLo g.2.1 d.2.1 lo.2.1) (pHi g.2.1 d.2.1 hi.2.1) x.2.1 ∧
      Ax (pad d.2.2) (pLo g.2.2 d.2.2 lo.2.2) (pHi g.2.2 d.2.2 hi.2.2) x.2.2 := by
  simp only [matchBox, pbox, Ax, List.zip_cons_cons, List.zip_nil_right, List.all_cons, List.all_nil, Bool.and_true,
    Bool.and_eq_true, decide_eq_true_eq]

/-- a match with a padding of at least `-(d/2)` is in particular an outer match -/
theorem Ax_outer (pad d a b x : Rat) (hp : -(d / 2) ≤ pad) (h : Ax pad a b x) : Ax (-(d / 2)) a b x := by
  unfold Ax at *
  constructor <;> linarith [h.1, h.2]

/-! ### per-axis facts -/

theorem ax_own (g d pad : Rat) (lo hi c : Int) (hd : 0 < d) (h1 : lo ≤ c) (h2 : c ≤ hi) (hp : pad ≤ d / 2) :
    Ax pad (pLo g d lo) (pHi g d hi) (centre g d c) := by
  obtain ⟨a, b⟩ := inner_match g d lo hi c hd h1 h2
  unfold Ax
  constructor <;> linarith

theorem ax_miss_same (g d : Rat) (lo hi lo' hi' c : Int) (hd : 0 < d) (h1 : lo + 1 ≤ c) (h2 : c + 1 ≤ hi)
    (hdis : hi' < lo ∨ hi < lo') : ¬ Ax (-(d / 2)) (pLo g d lo') (pHi g d hi') (centre g d c) := by
  intro h
  unfold Ax at h
  rcases hdis with hdis | hdis
  · exact outer_miss_below g d lo c hi' hd hdis h1 (by linarith [h.2])
  · exact outer_miss_above g d hi c lo' hd hdis h2 (by linarith [h.1])

theorem ax_miss_finer (g d : Rat) (r : Nat) (lo' hi' c : Int) (hd : 0 < d) (hr : 2 ≤ r)
    (hdis : hi' < c * r ∨ (c + 1) * r ≤ lo') :
    ¬ Ax (-(d / r / 2)) (pLo g (d / r) lo') (pHi g (d / r) hi') (centre g d c) := by
  intro h
  unfold Ax pLo pHi centre at h
  have hr0 : (0 : Rat) < r := by exact_mod_cast (by omega : 0 < r)
  have hr2 : (2 : Rat) ≤ r := by exact_mod_cast hr
  have hdr : 0 < d / r := div_pos hd hr0
  have hmul : d / r * r = d := by field_simp
  rcases hdis with hdis | hdis
  · have a : (hi' : Rat) + 1 ≤ (c : Rat) * r := by exact_mod_cast hdis
    have key : ((hi' : Rat) + 1) * (d / r) ≤ (c : Rat) * d := by
      calc ((hi' : Rat) + 1) * (d / r) ≤ ((c : Rat) * r) * (d / r) := by
            exact mul_le_mul_of_nonneg_right a (le_of_lt hdr)
        _ = (c : Rat) * (d / r * r) := by ring
        _ = (c : Rat) * d := by rw [hmul]
    have hhalf : d / r / 2 ≤ d / 4 := by
      rw [div_div, div_le_div_iff_of_pos_left hd (by positivity) (by norm_num)]
      linarith
    linarith [h.2]
  · have a : ((c : Rat) + 1) * r ≤ (lo' : Rat) := by exact_mod_cast hdis
    have key : ((c : Rat) + 1) * d ≤ (lo' : Rat) * (d / r) := by
      calc ((c : Rat) + 1) * d = (((c : Rat) + 1) * r) * (d / r) := by rw [mul_assoc, mul_comm (r : Rat), hmul]
        _ ≤ (lo' : Rat) * (d / r) := mul_le_mul_of_nonneg_right a (le_of_lt hdr)
    have hhalf : d / r / 2 ≤ d / 4 := by
      rw [div_div, div_le_div_iff_of_pos_left hd (by positivity) (by norm_num)]
      linarith
    linarith [h.1]

/-! ### the whole query -/

/-- two index boxes are separated along some axis -/
def Disj (B B' : I3 × I3) : Prop :=
  (B'.2.1 < B.1.1 ∨ B.2.1 < B'.1.1) ∨ (B'.2.2.1 < B.1.2.1 ∨ B.2.2.1 < B'.1.2.1) ∨ (B'.2.2.2 < B.1.2.2 ∨ B.2.2.2 < B'.1.2.2)

/-- the box `B'` of a level refined `r` times does not touch the fine cells covering cell `c` along some axis -/
def Away (r : Nat) (c : I3) (B' : I3 × I3) : Prop :=
  (B'.2.1 < c.1 * r ∨ (c.1 + 1) * r ≤ B'.1.1) ∨ (B'.2.2.1 < c.2.1 * r ∨ (c.2.1 + 1) * r ≤ B'.1.2.1) ∨
    (B'.2.2.2 < c.2.2 * r ∨ (c.2.2 + 1) * r ≤ B'.1.2.2)

theorem getD_toP (g : R3) (levels : List ILevel) (l : Nat) (lv : ILevel) (h : levels[l]? = some lv) :
    (levels.map (ILevel.toP g)).getD l ⟨[], [], []⟩ = lv.toP g := by
  simp [List.getD, h]

theorem matchList_toP (pad : Rat → Rat) (g : R3) (lv : ILevel) (x : R3) :
    matchList pad (lv.toP g) [x.1, x.2.1, x.2.2] =
      (List.range lv.boxes.length).filter fun i =>
        matchBox pad [lv.d.1, lv.d.2.1, lv.d.2.2] ((lv.boxes.map fun b => pbox g lv.d b.1 b.2).getD i []) [x.1, x.2.1, x.2.2] := by
  simp [matchList, ILevel.toP]

theorem boxD (g : R3) (lv : ILevel) (i : Nat) (B : I3 × I3) (h : lv.boxes[i]? = some B) :
    (lv.boxes.map fun b => pbox g lv.d b.1 b.2).getD i [] = pbox g lv.d B.1 B.2 := by
  simp [List.getD, h]

def cen (g d : R3) (c : I3) : R3 := (centre g.1 d.1 c.1, centre g.2.1 d.2.1 c.2.1, centre g.2.2 d.2.2 c.2.2)

theorem centre3_eq (g d : R3) (c : I3) : centre3 g d c = [(cen g d c).1, (cen g d c).2.1, (cen g d c).2.2] := rfl

/-- paddings between `-(d/2)` and `d/2` (the three the query uses) -/
def PadOK (pad : Rat → Rat) : Prop := ∀ d, 0 < d → -(d / 2) ≤ pad d ∧ pad d ≤ d / 2

/-- level `L`: every match list is `[b]` -/
theorem own_level (pad : Rat → Rat) (hpad : PadOK pad) (g : R3) (lv : ILevel) (b : Nat) (B : I3 × I3) (c : I3)
    (hb : lv.boxes[b]? = some B) (hd1 : 0 < lv.d.1) (hd2 : 0 < lv.d.2.1) (hd3 : 0 < lv.d.2.2)
    (x1 : B.1.1 + 1 ≤ c.1) (x2 : c.1 + 1 ≤ B.2.1) (y1 : B.1.2.1 + 1 ≤ c.2.1) (y2 : c.2.1 + 1 ≤ B.2.2.1)
    (z1 : B.1.2.2 + 1 ≤ c.2.2) (z2 : c.2.2 + 1 ≤ B.2.2.2)
    (hsame : ∀ i B', lv.boxes[i]? = some B' → i ≠ b → Disj B B') :
    matchList pad (lv.toP g) (centre3 g lv.d c) = [b] := by
  have hblt : b < lv.boxes.length := by
    rcases Nat.lt_or_ge b lv.boxes.length with h | h
    · exact h
    · rw [List.getElem?_eq_none h] at hb; cases hb
  rw [centre3_eq, matchList_toP pad g lv (cen g lv.d c)]
  apply filter_range_singleton _ _ b hblt
  · rw [boxD g lv b B hb]
    exact (matchBox3 pad g lv.d B.1 B.2 (cen g lv.d c)).mpr
      ⟨ax_own _ _ _ _ _ _ hd1 (by omega) (by omega) (hpad _ hd1).2, ax_own _ _ _ _ _ _ hd2 (by omega) (by omega) (hpad _ hd2).2,
       ax_own _ _ _ _ _ _ hd3 (by omega) (by omega) (hpad _ hd3).2⟩
  · intro i hi hne
    obtain ⟨B', hB'⟩ : ∃ B', lv.boxes[i]? = some B' := ⟨lv.boxes[i], by simp [hi]⟩
    rw [boxD g lv i B' hB']
    cases hm : matchBox pad [lv.d.1, lv.d.2.1, lv.d.2.2] (pbox g lv.d B'.1 B'.2)
        [(cen g lv.d c).1, (cen g lv.d c).2.1, (cen g lv.d c).2.2] with
    | false => rfl
    | true =>
      exfalso
      obtain ⟨m1, m2, m3⟩ := (matchBox3 pad g lv.d B'.1 B'.2 (cen g lv.d c)).mp hm
      rcases hsame i B' hB' hne with h | h | h
      · exact ax_miss_same g.1 lv.d.1 B.1.1 B.2.1 B'.1.1 B'.2.1 c.1 hd1 x1 x2 h (Ax_outer _ _ _ _ _ (hpad _ hd1).1 m1)
      · exact ax_miss_same g.2.1 lv.d.2.1 B.1.2.1 B.2.2.1 B'.1.2.1 B'.2.2.1 c.2.1 hd2 y1 y2 h (Ax_outer _ _ _ _ _ (hpad _ hd2).1 m2)
      · exact ax_miss_same g.2.2 lv.d.2.2 B.1.2.2 B.2.2.2 B'.1.2.2 B'.2.2.2 c.2.2 hd3 z1 z2 h (Ax_outer _ _ _ _ _ (hpad _ hd3).1 m3)

/-- a finer level none of whose boxes touches the cell: every match list is empty -/
theorem finer_level (pad : Rat → Rat) (hpad : PadOK pad) (g d : R3) (lv' : ILevel) (c : I3) (r : Nat) (hr : 2 ≤ r)
    (hd1 : 0 < d.1) (hd2 : 0 < d.2.1) (hd3 : 0 < d.2.2) (hdr : lv'.d = (d.1 / r, d.2.1 / r, d.2.2 / r))
    (haway : ∀ B' ∈ lv'.boxes, Away r c B') :
    matchList pad (lv'.toP g) (centre3 g d c) = [] := by
  have hr0 : (0 : Rat) < r := by exact_mod_cast (by omega : 0 < r)
  rw [centre3_eq, matchList_toP pad g lv' (cen g d c)]
  apply filter_range_nil
  intro i hi
  obtain ⟨B', hB'⟩ : ∃ B', lv'.boxes[i]? = some B' := ⟨lv'.boxes[i], by simp [hi]⟩
  rw [boxD g lv' i B' hB']
  cases hm : matchBox pad [lv'.d.1, lv'.d.2.1, lv'.d.2.2] (pbox g lv'.d B'.1 B'.2)
      [(cen g d c).1, (cen g d c).2.1, (cen g d c).2.2] with
  | false => rfl
  | true =>
    exfalso
    obtain ⟨m1, m2, m3⟩ := (matchBox3 pad g lv'.d B'.1 B'.2 (cen g d c)).mp hm
    have hmem : B' ∈ lv'.boxes := List.mem_of_getElem? hB'
    rw [hdr] at m1 m2 m3
    rcases haway B' hmem with h | h | h
    · exact ax_miss_finer g.1 d.1 r B'.1.1 B'.2.1 c.1 hd1 hr h (Ax_outer _ _ _ _ _ (hpad _ (div_pos hd1 hr0)).1 m1)
    · exact ax_miss_finer g.2.1 d.2.1 r B'.1.2.1 B'.2.2.1 c.2.1 hd2 hr h (Ax_outer _ _ _ _ _ (hpad _ (div_pos hd2 hr0)).1 m2)
    · exact ax_miss_finer g.2.2 d.2.2 r B'.1.2.2 B'.2.2.2 c.2.2 hd3 hr h (Ax_outer _ _ _ _ _ (hpad _ (div_pos hd3 hr0)).1 m3)

theorem pad0 : PadOK (fun _ => 0) := fun d hd => ⟨by linarith, by linarith⟩
theorem pad1 : PadOK (fun d => d / 2) := fun d hd => ⟨by linarith, by linarith⟩
theorem pad2 : PadOK (fun d => -(d / 2)) := fun d hd => ⟨by linarith, by linarith⟩

/-- **C19, model level, full strength**: the centre of a cell `c` of box `B = boxes[b]` of level `L`,
    at least one cell away from `B`'s faces, where the other boxes of the level are separated from `B`
    along some axis and no box of a finer level (cells `r ≥ 2` times smaller) touches the cell, is
    answered by the single-box branch for `(L, b)` with local index `c - lo(B)` - for any number of
    levels and boxes, any placement `g` of the domain and any positive cell sizes -/
theorem query_interior_centre (g : R3) (levels : List ILevel) (L b : Nat) (lv : ILevel) (B : I3 × I3) (c : I3)
    (hL : levels[L]? = some lv) (hb : lv.boxes[b]? = some B)
    (hd : 0 < lv.d.1 ∧ 0 < lv.d.2.1 ∧ 0 < lv.d.2.2)
    (hin : (B.1.1 + 1 ≤ c.1 ∧ c.1 + 1 ≤ B.2.1) ∧ (B.1.2.1 + 1 ≤ c.2.1 ∧ c.2.1 + 1 ≤ B.2.2.1) ∧
      (B.1.2.2 + 1 ≤ c.2.2 ∧ c.2.2 + 1 ≤ B.2.2.2))
    (hsame : ∀ i B', lv.boxes[i]? = some B' → i ≠ b → Disj B B')
    (hfiner : ∀ l lv', L < l → levels[l]? = some lv' → ∃ r : Nat, 2 ≤ r ∧
      lv'.d = (lv.d.1 / r, lv.d.2.1 / r, lv.d.2.2 / r) ∧ ∀ B' ∈ lv'.boxes, Away r c B') :
    query [g.1, g.2.1, g.2.2] (levels.map (ILevel.toP g)) (centre3 g lv.d c) =
      .case1 L b [((c.1 - B.1.1 : Int) : Rat), ((c.2.1 - B.1.2.1 : Int) : Rat), ((c.2.2 - B.1.2.2 : Int) : Rat)] := by
  have hLlt : L < levels.length := by
    rcases Nat.lt_or_ge L levels.length with h | h
    · exact h
    · rw [List.getElem?_eq_none h] at hL; cases hL
  obtain ⟨hd1, hd2, hd3⟩ := hd
  obtain ⟨⟨x1, x2⟩, ⟨y1, y2⟩, ⟨z1, z2⟩⟩ := hin
  have own : ∀ pad, PadOK pad → matchList pad ((levels.map (ILevel.toP g)).getD L ⟨[], [], []⟩) (centre3 g lv.d c) = [b] := by
    intro pad hp
    rw [getD_toP g levels L lv hL]
    exact own_level pad hp g lv b B c hb hd1 hd2 hd3 x1 x2 y1 y2 z1 z2 hsame
  have finer : ∀ pad, PadOK pad → ∀ l, L < l → l < (levels.map (ILevel.toP g)).length →
      matchList pad ((levels.map (ILevel.toP g)).getD l ⟨[], [], []⟩) (centre3 g lv.d c) = [] := by
    intro pad hp l hl hlen
    have hlen' : l < levels.length := by simpa using hlen
    obtain ⟨lv', hlv'⟩ : ∃ lv', levels[l]? = some lv' := ⟨levels[l], by simp [hlen']⟩
    obtain ⟨r, hr, hdr, haway⟩ := hfiner l lv' hl hlv'
    rw [getD_toP g levels l lv' hlv']
    exact finer_level pad hp g lv.d lv' c r hr hd1 hd2 hd3 hdr haway
  rw [query_case1_of_matches [g.1, g.2.1, g.2.2] (levels.map (ILevel.toP g)) (centre3 g lv.d c) L b (by simpa using hLlt)
    (own _ pad0) (own _ pad1) (own _ pad2) (finer _ pad0) (finer _ pad1) (finer _ pad2)]
  rw [getD_toP g levels L lv hL]
  have hlo : (lv.toP g).idxLo.getD b [] = [B.1.1, B.1.2.1, B.1.2.2] := by
    simp [ILevel.toP, List.getD, hb]
  rw [hlo]
  simp only [ILevel.toP, centre3, List.zip_cons_cons, List.zip_nil_right, List.zipWith_cons_cons, List.zipWith_nil_right,
    centre]
  rw [pointLocal_centre g.1 lv.d.1 c.1 B.1.1 (ne_of_gt hd1), pointLocal_centre g.2.1 lv.d.2.1 c.2.1 B.1.2.1 (ne_of_gt hd2),
    pointLocal_centre g.2.2 lv.d.2.2 c.2.2 B.1.2.2 (ne_of_gt hd3)]

end Point
