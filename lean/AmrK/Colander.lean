/-! Prototype: record-level model of colander's per-level bookkeeping and its data theorem. -/
namespace Col

structure Rec (α : Type) where
  box   : Nat                 -- stands for the index range (boxes of a level are distinct)
  comps : List (List α)       -- component-major payload blocks
deriving Repr

variable {α : Type}

/-- byte size of a FAB record with `nf` components: header length + payload -/
structure Sizes where
  hdr : Nat → Nat → Nat       -- header length of (box, nf)
  pay : Nat → Nat → Nat       -- payload length of (box, nf)
  hdr_pos : ∀ b nf, 0 < hdr b nf

def Sizes.size (sz : Sizes) (r : Rec α) : Nat := sz.hdr r.box r.comps.length + sz.pay r.box r.comps.length

/-- offsets returned by a worker: `bfw.tell()` before each record -/
def tells (sz : Sizes) : Nat → List (Rec α) → List Nat
  | _, [] => []
  | pos, r :: rs => pos :: tells sz (pos + sz.size r) rs

/-- the record that starts at byte `o` of a file written as `recs` from position `pos` -/
def recAt (sz : Sizes) : Nat → List (Rec α) → Nat → Option (Rec α)
  | _, [], _ => none
  | pos, r :: rs, o => if o = pos then some r else recAt sz (pos + sz.size r) rs o

theorem tells_length (sz : Sizes) (pos : Nat) (rs : List (Rec α)) : (tells sz pos rs).length = rs.length := by
  induction rs generalizing pos with
  | nil => rfl
  | cons r rs ih => simp [tells, ih]

theorem tells_ge (sz : Sizes) (pos : Nat) (rs : List (Rec α)) : ∀ o ∈ tells sz pos rs, pos ≤ o := by
  induction rs generalizing pos with
  | nil => intro o h; cases h
  | cons r rs ih =>
    intro o h
    simp only [tells, List.mem_cons] at h
    rcases h with h | h
    · omega
    · have := ih _ o h; omega

/-- reading the output file at the j-th returned offset gives the j-th written record -/
theorem recAt_tells (sz : Sizes) (pos : Nat) (rs : List (Rec α)) (j o : Nat)
    (ho : (tells sz pos rs)[j]? = some o) : recAt sz pos rs o = rs[j]? := by
  induction rs generalizing pos j with
  | nil => simp [tells] at ho
  | cons r rs ih =>
    cases j with
    | zero =>
      simp only [tells, List.getElem?_cons_zero, Option.some.injEq] at ho
      simp [recAt, ho]
    | succ j =>
      simp only [tells, List.getElem?_cons_succ] at ho
      have hmem : o ∈ tells sz (pos + sz.size r) rs := List.mem_of_getElem? ho
      have hge := tells_ge sz _ rs _ hmem
      have hpos : 0 < sz.size r := by unfold Sizes.size; have := sz.hdr_pos r.box r.comps.length; omega
      have hne : ¬ o = pos := by omega
      simp only [recAt, hne, if_false, List.getElem?_cons_succ]
      exact ih _ j ho

/-- `mapped[file_idxs] = offsets` for one file -/
def scatter (m : Nat → Option Nat) (idxs offs : List Nat) : Nat → Option Nat :=
  (idxs.zip offs).foldl (fun m (p : Nat × Nat) => fun i => if i = p.1 then some p.2 else m i) m

theorem scatter_other (l : List (Nat × Nat)) (m' : Nat → Option Nat) (i : Nat) (h : ∀ p ∈ l, p.1 ≠ i) :
    (l.foldl (fun m (p : Nat × Nat) => fun k => if k = p.1 then some p.2 else m k) m') i = m' i := by
  induction l generalizing m' with
  | nil => rfl
  | cons p l ihl =>
    simp only [List.foldl_cons]
    rw [ihl _ (fun q hq => h q (by simp [hq]))]
    have : i ≠ p.1 := fun e => h p (by simp) e.symm
    simp [this]

theorem scatter_get (m : Nat → Option Nat) (idxs offs : List Nat) (hn : idxs.Nodup)
    (j i o : Nat) (hi : idxs[j]? = some i) (ho : offs[j]? = some o) :
    scatter m idxs offs i = some o := by
  induction idxs generalizing m offs j with
  | nil => simp at hi
  | cons i0 idxs ih =>
    cases offs with
    | nil => simp at ho
    | cons o0 offs =>
      have hn' := (List.nodup_cons.mp hn)
      simp only [scatter, List.zip_cons_cons, List.foldl_cons]
      cases j with
      | zero =>
        simp only [List.getElem?_cons_zero, Option.some.injEq] at hi ho
        subst hi; subst ho
        rw [scatter_other]
        · simp
        · intro p hp e
          have : p.1 ∈ idxs := (List.of_mem_zip hp).1
          exact hn'.1 (e ▸ this)
      | succ j =>
        simp only [List.getElem?_cons_succ] at hi ho
        exact ih _ offs hn'.2 j hi ho

end Col
