import AmrK.Meets
import Mathlib.Tactic.Linarith
namespace Meets

theorem stack_lo_ge (b : Rat) (rest : List Rat) (hs : (b :: rest).Pairwise (· < ·)) :
    ∀ x ∈ stack (b :: rest), b ≤ x.1 := by
  induction rest generalizing b with
  | nil => intro x hx; simp [stack] at hx
  | cons c r ih =>
    intro x hx
    simp only [stack, List.mem_cons] at hx
    rcases hx with rfl | hx
    · exact le_refl _
    · have hbc : b < c := (List.pairwise_cons.mp hs).1 c (by simp)
      have := ih c (List.pairwise_cons.mp hs).2 x hx
      linarith

theorem last_gt (b : Rat) (c : Rat) (r : List Rat) (hs : (b :: c :: r).Pairwise (· < ·)) (G : Rat)
    (hG : (b :: c :: r).getLast? = some G) : b < G := by
  have hmem : G ∈ c :: r := by
    have : (c :: r).getLast? = some G := by simpa [List.getLast?_cons_cons] using hG
    exact List.mem_of_getLast? this
  exact (List.pairwise_cons.mp hs).1 G hmem

/-- **each exactly once**: through every in-plane cell, whatever the number of boxes stacked along the normal and
    wherever the plane lies in the closed domain - inside a box, on a face shared by two boxes, on either domain
    face - exactly one box of the stack is listed -/
theorem selected_once (fs : List Rat) (hs : fs.Pairwise (· < ·)) (g G pos : Rat) (hlen : 2 ≤ fs.length)
    (hg : fs.head? = some g) (hG : fs.getLast? = some G) (h1 : g ≤ pos) (h2 : pos ≤ G) :
    (selected G pos fs).length = 1 := by
  induction fs generalizing g with
  | nil => simp at hlen
  | cons a t ih =>
    cases t with
    | nil => simp at hlen
    | cons b rest =>
      simp only [List.head?_cons, Option.some.injEq] at hg
      subst hg
      cases rest with
      | nil =>
        simp only [List.getLast?_cons_cons, List.getLast?_singleton, Option.some.injEq] at hG
        subst hG
        simp [selected, stack, meets, h1]
      | cons c r =>
        have hbG : b < G := last_gt b c r (List.pairwise_cons.mp hs).2 G (by simpa [List.getLast?_cons_cons] using hG)
        by_cases hp : pos < b
        · -- the first box holds the plane, every later box starts above it
          have hnone : ∀ x ∈ stack (b :: c :: r), meets G pos x.1 x.2 = false := by
            intro x hx
            have := stack_lo_ge b (c :: r) (List.pairwise_cons.mp hs).2 x hx
            have : ¬ x.1 ≤ pos := by intro h; linarith
            simp [meets, this]
          have hf : (stack (b :: c :: r)).filter (fun x => meets G pos x.1 x.2) = [] :=
            List.filter_eq_nil_iff.mpr (fun x hx => by simp [hnone x hx])
          have hstack : stack (a :: b :: c :: r) = (a, b) :: stack (b :: c :: r) := rfl
          have hm : meets G pos a b = true := by simp [meets, h1, hp]
          simp only [selected, hstack, List.filter_cons, hm, if_true, hf, List.length_singleton]
        · have hp' : b ≤ pos := le_of_not_gt hp
          have hfirst : meets G pos a b = false := by
            have : ¬ b = G := ne_of_lt hbG
            simp [meets, hp, this]
          have ih' := ih (List.pairwise_cons.mp hs).2 b (by simp) (by simp)
            (by simpa [List.getLast?_cons_cons] using hG) hp'
          have hstack : stack (a :: b :: c :: r) = (a, b) :: stack (b :: c :: r) := rfl
          simp only [selected, hstack, List.filter_cons, hfirst, Bool.false_eq_true, if_false]
          exact ih'

/-- a plane on a face shared by two boxes belongs to the upper one only -/
theorem shared_face (G a b c : Rat) (hab : a < b) (hbc : b < c) (hc : c ≤ G) :
    meets G b a b = false ∧ meets G b b c = true := by
  have h1 : ¬ b = G := by intro h; linarith
  simp [meets, hbc, h1]

end Meets
