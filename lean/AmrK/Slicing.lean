/-! `Mandoline.define_slicing_coordinates` (3D): the normal (default 0), the two in-plane axes in ascending order, and the
    position - the domain centre by default, refused when it lies outside the closed interval of the domain along the
    normal.  Exact rationals (the floats' values).  Core-only (run by the driver). -/
namespace Slicing

structure Coord where
  cn : Nat
  cx : Nat
  cy : Nat
  pos : Rat
deriving Repr, DecidableEq

def entry (l : List Rat) (k : Nat) : Rat := l[k]?.getD 0

/-- `none` = ValueError -/
def coords (normal : Option Nat) (pos : Option Rat) (lo hi : List Rat) : Option Coord :=
  let cn := normal.getD 0
  match (List.range 3).filter (· ≠ cn) with
  | [cx, cy] =>
    match pos with
    | none => some ⟨cn, cx, cy, entry lo cn + (entry hi cn - entry lo cn) / 2⟩
    | some p => if p < entry lo cn ∨ p > entry hi cn then none else some ⟨cn, cx, cy, p⟩
  | _ => none

end Slicing
