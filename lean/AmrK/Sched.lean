namespace Sched

abbrev Path := String
abbrev Bytes := List UInt8
abbrev FS := Path → Option Bytes

inductive Step where
  | create (p : Path)
  | append (p : Path) (b : Bytes)

def Step.path : Step → Path
  | .create p => p
  | .append p _ => p

def apply (fs : FS) : Step → FS
  | .create p => fun q => if q = p then some [] else fs q
  | .append p b => fun q => if q = p then some ((fs p).getD [] ++ b) else fs q

def run (fs : FS) (tr : List Step) : FS := tr.foldl apply fs

theorem apply_at (f g : FS) (s : Step) (q : Path) (h : f q = g q) : apply f s q = apply g s q := by
  cases s with
  | create p => simp only [apply]; split <;> simp_all
  | append p b =>
    simp only [apply]
    split
    · rename_i hq; subst hq; rw [h]
    · exact h

theorem apply_other (fs : FS) (s : Step) (q : Path) (h : s.path ≠ q) : apply fs s q = fs q := by
  cases s with
  | create p => simp only [apply, Step.path] at *; rw [if_neg (fun e => h e.symm)]
  | append p b => simp only [apply, Step.path] at *; rw [if_neg (fun e => h e.symm)]

theorem run_at (tr : List Step) (f g : FS) (q : Path) (h : f q = g q) : run f tr q = run g tr q := by
  induction tr generalizing f g with
  | nil => exact h
  | cons s tr ih => exact ih _ _ (apply_at f g s q h)

/-- the content of `q` after a trace only depends on the steps touching `q` -/
theorem run_filter (tr : List Step) (fs : FS) (q : Path) :
    run fs tr q = run fs (tr.filter (fun s => decide (s.path = q))) q := by
  induction tr generalizing fs with
  | nil => rfl
  | cons s tr ih =>
    by_cases h : s.path = q
    · simp only [List.filter_cons, h, decide_true, if_true]
      exact ih (apply fs s)
    · simp only [List.filter_cons, h, decide_false]
      have : run fs (s :: tr) q = run (apply fs s) tr q := rfl
      rw [this, ih (apply fs s)]
      exact run_at _ _ _ q (apply_other fs s q h)

/-- `Merge a b tr`: tr is an interleaving of a and b -/
inductive Merge : List Step → List Step → List Step → Prop where
  | nil : Merge [] [] []
  | left {s a b tr} : Merge a b tr → Merge (s :: a) b (s :: tr)
  | right {s a b tr} : Merge a b tr → Merge a (s :: b) (s :: tr)

theorem merge_filter {a b tr : List Step} (m : Merge a b tr) (p : Step → Bool) (hb : ∀ s ∈ b, p s = false) :
    tr.filter p = a.filter p := by
  induction m with
  | nil => rfl
  | left _ ih => simp only [List.filter_cons]; rw [ih hb]
  | right _ ih =>
    rename_i s a b tr _
    have hs : p s = false := hb s (by simp)
    simp only [List.filter_cons, hs]
    exact ih (fun x hx => hb x (by simp [hx]))

/-- two tasks that touch disjoint path sets: any interleaving ends in the same filesystem as
    running them one after the other -/
theorem merge_run {a b tr : List Step} (m : Merge a b tr)
    (hd : ∀ s ∈ a, ∀ t ∈ b, s.path ≠ t.path) (fs : FS) : run fs tr = run fs (a ++ b) := by
  funext q
  rw [run_filter tr, run_filter (a ++ b)]
  by_cases hq : ∃ t ∈ b, t.path = q
  · -- q belongs to b: no step of a touches it
    obtain ⟨t, ht, htq⟩ := hq
    have ha : ∀ s ∈ a, decide (s.path = q) = false := by
      intro s hs; simp only [decide_eq_false_iff_not]; intro e; exact hd s hs t ht (e.trans htq.symm)
    have m' : Merge b a tr := by
      clear hd ha ht htq
      induction m with
      | nil => exact .nil
      | left _ ih => exact .right ih
      | right _ ih => exact .left ih
    have hnil : a.filter (fun s => decide (s.path = q)) = [] := List.filter_eq_nil_iff.mpr (by simpa using ha)
    rw [merge_filter m' _ ha, List.filter_append, hnil, List.nil_append]
  · have hb : ∀ s ∈ b, decide (s.path = q) = false := by
      intro s hs; simp only [decide_eq_false_iff_not]; intro e; exact hq ⟨s, hs, e⟩
    have hnil : b.filter (fun s => decide (s.path = q)) = [] := List.filter_eq_nil_iff.mpr (by simpa using hb)
    rw [merge_filter m _ hb, List.filter_append, hnil, List.append_nil]

end Sched
