namespace Chunks
/-- ceiling division, as `-(-n // k)` in the drafted repair -/
def cdiv (n k : Nat) : Nat := (n + k - 1) / k

theorem le_mul_cdiv (n k : Nat) (hk : 0 < k) : n ≤ k * cdiv n k := by
  unfold cdiv
  have h := Nat.div_add_mod (n + k - 1) k
  have hm := Nat.mod_lt (n + k - 1) hk
  omega

/-- with `chunk = max ⌈n/k⌉ 1` the number of chunks never exceeds the number of file names `k` -/
theorem chunks_le (n k : Nat) (hk : 0 < k) : cdiv n (max (cdiv n k) 1) ≤ k := by
  have hc : 0 < max (cdiv n k) 1 := by omega
  have h1 : n ≤ k * max (cdiv n k) 1 := by
    have := le_mul_cdiv n k hk
    have hmono : k * cdiv n k ≤ k * max (cdiv n k) 1 := Nat.mul_le_mul_left k (by omega)
    omega
  generalize hcdef : max (cdiv n k) 1 = c at *
  unfold cdiv
  -- (n + c - 1) / c ≤ k  ⇐  n + c - 1 < (k + 1) * c
  apply Nat.le_of_lt_succ
  apply (Nat.div_lt_iff_lt_mul hc).mpr
  have : (k + 1) * c = k * c + c := by rw [Nat.add_mul, Nat.one_mul]
  rw [Nat.succ_eq_add_one, this]
  omega

/-- pinned arithmetic: chunk = n / k, names = k + 1 -/
def pinnedOK (n k : Nat) : Bool := n / k != 0 && cdiv n (n / k) ≤ k + 1
example : pinnedOK 11 4 = false := by decide
example : pinnedOK 3 4 = false := by decide
end Chunks
