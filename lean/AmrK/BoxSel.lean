import AmrK.ReaderR
/-! Box and level selection of the indexing interface (`LevelDataSelector.__getitem__`, `LevelDataStream.__getitem__` /
    `.iter`): which boxes a selector denotes among the `size` boxes of a level, in which order, and when it is refused
    (numpy / Python indexing semantics of `self.bfiles[idx]`).  Core-only (run by the driver). -/
namespace BoxSel
open Reader ReaderR Py

inductive Sel where
  | idx (i : Int)
  | slice (a b c : Option Int)
  | list (l : List Int)
  | mask (m : List Bool)
deriving Repr

/-- a position with Python's negative indexing; `none` = IndexError -/
def wrap (size : Nat) (i : Int) : Option Nat :=
  if -(size : Int) ≤ i ∧ i < (size : Int) then some (i % (size : Int)).toNat else none

/-- positions of the `true` entries -/
def trues : List Bool → Nat → List Nat
  | [], _ => []
  | true :: r, k => k :: trues r (k + 1)
  | false :: r, k => trues r (k + 1)

/-- the boxes a selector denotes, in the order delivered; `none` = the reader raises.  An empty list or mask returns
    no box whatever the level holds (`if len(idx) == 0: return []`); a mask must have one entry per box. -/
def positions (size : Nat) : Sel → Option (List Nat)
  | .idx i => (wrap size i).map fun p => [p]
  | .slice a b c => (sliceIndices a b c size).map fun (s, e, st) => (pyRange s e st).map Int.toNat
  | .list l => l.mapM (wrap size)
  | .mask m => if m.isEmpty then some [] else if m.length = size then some (trues m 0) else none

/-- `selector[key]`: a key above the level limit is refused, negative keys count from the last loaded level -/
def level (nlev : Nat) (key : Int) : Option Nat :=
  if key > (nlev : Int) - 1 then none else wrap nlev key

/-- `pck[fields][level][boxes]` on a level whose box `p` is recorded at byte `entries[p].2` of file `entries[p].1`:
    every selected box is read with the field selector, in the order of `positions` -/
def readAt (files : List Bytes) (entries : List (Nat × Nat)) (nf : Int) (fa : FArg) (p : Nat) : Option Out := do
  let e ← entries[p]?
  let raw ← files[e.1]?
  readR raw e.2 nf fa

def readSel (files : List Bytes) (entries : List (Nat × Nat)) (nf : Int) (fa : FArg) (sel : Sel) : Option (List Out) := do
  let ps ← positions entries.length sel
  ps.mapM (readAt files entries nf fa)

end BoxSel
