import AmrK.TasteDataProofs
import AmrK.TasteComplete
import AmrK.TasteCoordsProofs
import AmrK.TasteAll
import AmrK.TasteWF
import AmrK.Obligations.HeaderLiteral
/-! # C03 — taste accepts every well-formed plotfile under every option combination

Completeness of the validator model (`Taste.tastePlt` / `tasteLevelOpts`, the executable definitions
compared with `Taster` on every generated plotfile).  The two binary checks are the byte walk
`shapeOK` (`mp_fun_shape`) and the per-entry header comparison `headersOK` (`mp_fun_headers`). -/
namespace C03
open Py Taste

/-- **`binary_shape` accepts every well-formed binary file**: a file that is the concatenation of
    canonical FABs of the announced sizes — one per level-header entry, in offset order — passes the
    walk from byte 0 (any number of boxes, any shapes, 2D or 3D, any field count). -/
theorem shape_check_complete (nf : Nat) (e : Entry) (P : Bytes) (eps : List (Entry × Bytes))
    (hg : ∀ p ∈ (e, P) :: eps, GoodSeg nf p) :
    shapeOK (fileOf nf ((e, P) :: eps)) nf (e :: eps.map (·.1)) = true :=
  shapeOK_complete nf e P eps hg

/-- **`binary_headers` accepts every entry whose recorded offset is the start of its canonical
    header**, wherever the FAB sits in the file -/
theorem header_check_complete (nf : Nat) (e : Entry) (pre post : Bytes)
    (hlo : e.lo ≠ []) (hhi : e.hi ≠ []) (hlen : e.lo.length = e.hi.length)
    (hoff : e.offset = (pre.length : Int)) :
    headersOK (pre ++ canonHeader e.lo e.hi nf ++ post) nf [e] = true :=
  headersOK_entry nf e pre post hlo hhi hlen hoff

/-- with both binary options on, the option-aware level validator is the default one (so the
    completeness statements above are about what `Taster(...)` runs by default) -/
theorem default_options (cellH : Bytes) (nfields : Nat) (files : List (String × Bytes)) :
    tasteLevelOpts cellH nfields files true true = tasteLevel cellH nfields files :=
  tasteLevelOpts_default cellH nfields files

/-- the literal printed by `utils.header_from_indices` (regenerated from the source on every run) is
    the prefix of the model's canonical header -/
theorem canonical_header_is_the_codes :
    Py.ofString Generated.utilsHeaderConst = Py.sepJoin (Py.prefixToks.map (·, 32)) ++ Py.lastConst :=
  Generated.utilsHeader_is_model_prefix

/-- **C03 at full strength on the model: every well-formed plotfile is reported good** - a global header
    that is a text of the header renderer (any number of distinct fields, dimensions, levels, boxes), for
    every selected level a directory under the stated name with a rendered level header (followed by any
    further lines) and binary files that are concatenations of canonical FABs of the announced sizes at
    the recorded offsets - for every distribution of the boxes over files and every listing order, every
    level limit within the header's levels, and every combination of `binary_headers` / `binary_shape` -/
theorem well_formed_accepted (H : Header.HData) (n : Nat) (dirs : List (String × LevelDir)) (h : PltWF H n dirs)
    (limit : Option Int) (hn1 : 1 ≤ n) (hn : n ≤ H.levels.length)
    (hlim : (limit = none ∧ n = H.levels.length) ∨ limit = some ((n - 1 : Nat) : Int)) (cH cS : Bool) :
    tastePlt (Header.render H) limit dirs cH cS = (true, "good") :=
  tastePlt_complete H n dirs h limit hn1 hn hlim cH cS

/-- **the hypothesis is checked on real bytes**: the driver evaluates `pltWFB` on the files of every
    generated plotfile (header, level headers, binary files as written to disk) against their claimed
    content; a plotfile that passes is reported good by the validator model -/
theorem certificate_sound (H : Header.HData) (n : Nat) (lv : List (List BoxRow × List Bytes)) (header : Bytes)
    (dirs : List (String × LevelDir)) (h : pltWFB H n lv header dirs = true)
    (limit : Option Int) (hn1 : 1 ≤ n) (hn : n ≤ H.levels.length)
    (hlim : (limit = none ∧ n = H.levels.length) ∨ limit = some ((n - 1 : Nat) : Int)) (cH cS : Bool) :
    tastePlt header limit dirs cH cS = (true, "good") :=
  tastePlt_of_wfB H n lv header dirs h limit hn1 hn hlim cH cS

/-- the per-file order used by the validator is the file's own order: insertion by offset of any
    permutation of entries with strictly increasing offsets gives back that list -/
theorem offset_order_unique (l s : List Entry) (hs : s.Pairwise offLt) (hp : l.Perm s) : sortByOffset l = s :=
  sortByOffset_perm_sorted l s hs hp

/-- non-vacuity of `well_formed_accepted`: a one-level plotfile with two boxes listed against their
    order in the single binary file passes the certificate -/
example :
    let H : Header.HData := ⟨ofString "HyperCLaw-V1.1", [ofString "a"], 3, ofString "0.5",
      [ofString "0.0", ofString "0.0", ofString "0.0"], [ofString "2.0", ofString "1.0", ofString "1.0"], [], [[1, 0, 0]], [0],
      [[ofString "1.0", ofString "1.0", ofString "1.0"]], ofString "0",
      [⟨[[(ofString "0.0", ofString "1.0"), (ofString "0.0", ofString "1.0"), (ofString "0.0", ofString "1.0")],
         [(ofString "1.0", ofString "2.0"), (ofString "0.0", ofString "1.0"), (ofString "0.0", ofString "1.0")]],
        ofString "0.5", ofString "0", ofString "Level_0", ofString "Cell"⟩], [[32], [32]], []⟩
    let e0 : Entry := ⟨[1, 0, 0], [1, 0, 0], "Cell_D_00000", 0⟩
    let e1 : Entry := ⟨[0, 0, 0], [0, 0, 0], "Cell_D_00000", ((canonHeader [1, 0, 0] [1, 0, 0] 1).length + 8 : Nat)⟩
    let rows : List BoxRow := [⟨[0, 0, 0], [0, 0, 0], ofString "Cell_D_00000", (canonHeader [1, 0, 0] [1, 0, 0] 1).length + 8⟩,
                               ⟨[1, 0, 0], [1, 0, 0], ofString "Cell_D_00000", 0⟩]
    pltWFB H 1 [(rows, [ofString "2,1", []])] (Header.render H)
      [("Level_0", ⟨some (renderCellHExt 1 rows [ofString "2,1", []]),
                    [("Cell_D_00000", fileOf 1 [(e0, List.replicate 8 7), (e1, List.replicate 8 9)])]⟩)] = true := by
  decide +kernel

/-- non-vacuity: a concrete file of two FABs (2x1x1 and 1x1x1 cells, one field) is accepted -/
example :
    shapeOK (fileOf 1 [(⟨[0,0,0],[1,0,0],"f",0⟩, List.replicate 16 1), (⟨[2,0,0],[2,0,0],"f",0⟩, List.replicate 8 2)]) 1
      [⟨[0,0,0],[1,0,0],"f",0⟩, ⟨[2,0,0],[2,0,0],"f",0⟩] = true := by decide +kernel

/-- **box coordinates of a well-formed plotfile are accepted** (`boxes_coordinates`, exact arithmetic; the executable check
    `TasteCoords.axisOK` is compared with the real validator on every generated plotfile): a box whose physical bounds are
    the faces of its index range passes in every direction, on a domain of `n` cells of size `dx` -/
theorem coordinates_accepted (lo hi dx : Rat) (n : Nat) (i0 i1 : Nat) (h0 : i0 < n) (h1 : i1 < n) (h : hi = lo + (n : Rat) * dx) :
    TasteCoords.axisOK lo hi dx n i0 i1 (lo + (i0 : Rat) * dx) (lo + ((i1 : Rat) + 1) * dx) = some true :=
  TasteCoords.axisOK_exact lo hi dx n i0 i1 h0 h1 h

/-- **binary data of a well-formed file is accepted** (`binary_data`; the executable check `TasteData.fileOK` over the
    sequential scan `TasteData.scanAll` is run by the driver on the bytes of every binary file and compared with the real
    validator): a file that is a concatenation of canonical FABs (`GoodFab`), whose rows in the level header - sorted by
    offset - record for every checked component exactly the `np.min` / `np.max` of the stored 64-bit values (NaN, ±inf and
    denormals included: `F64.ofBits` is the exact value of the bit pattern), passes -/
theorem binary_data_accepted (nf : Nat) (hnf : 0 < nf) (fields : List Nat) (eps : List (Taste.Entry × Bytes))
    (rows : List (List (Extrema.V × Extrema.V))) (fuel : Nat) (hfuel : eps.length < fuel)
    (hg : ∀ p ∈ eps, Scan.GoodFab nf p) (hlen : eps.length ≤ rows.length)
    (hx : ∀ (i : Nat) (r : List (Extrema.V × Extrema.V)) (p : Taste.Entry × Bytes), rows[i]? = some r → eps[i]? = some p →
      TasteData.RowExact fields r (⟨p.1.lo, p.1.hi, (nf : Int)⟩ : Hdr) p.2) :
    TasteData.fileOK fields rows (TasteData.scanAll (fileOf nf eps) fuel 0) = .good :=
  TasteData.file_accepted nf hnf fields eps rows fuel hfuel hg hlen hx

/-- ... and a whole level: when every binary file the level header names is there and passes against the rows of its boxes
    sorted by offset, `taste_binary_data` passes the level (`TasteData.levelOK`, the definition the driver runs) -/
theorem binary_data_level_accepted (fields : List Nat) (entries : List Taste.Entry) (rows : List (List (Extrema.V × Extrema.V)))
    (files : List (String × Bytes))
    (h : ∀ n ∈ Taste.dedup (entries.map (·.file)), ∃ raw, files.lookup n = some raw ∧
      TasteData.fileOK fields (TasteData.rowsOf entries rows n) (TasteData.scanAll raw (raw.length + 1) 0) = .good) :
    TasteData.levelOK fields entries rows files = .good :=
  TasteData.levelOK_accepted fields entries rows files h

/-- non-vacuity: two FABs of one component (values 1.0, -3.0 | +inf) with their true rows pass; a wrong maximum does not -/
example :
    let one : Bytes := [0,0,0,0,0,0,0xF0,0x3F]
    let m3 : Bytes := [0,0,0,0,0,0,0x08,0xC0]
    let inf : Bytes := [0,0,0,0,0,0,0xF0,0x7F]
    let file := fileOf 1 [(⟨[0,0,0],[1,0,0],"f",0⟩, one ++ m3), (⟨[2,0,0],[2,0,0],"f",0⟩, inf)]
    TasteData.fileOK [0] [[(.fin (-3), .fin 1)], [(.pinf, .pinf)]] (TasteData.scanAll file 5 0) = .good ∧
    TasteData.fileOK [0] [[(.fin (-3), .fin 2)], [(.pinf, .pinf)]] (TasteData.scanAll file 5 0) = .bad ∧
    TasteData.fileOK [0] [[(.fin (-3), .fin 1)]] (TasteData.scanAll file 5 0) = .crash := by decide +kernel

end C03
