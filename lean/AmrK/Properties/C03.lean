import AmrK.TasteComplete
import AmrK.TasteAll
import AmrK.Obligations.HeaderLiteral
/-! # C03 — taste accepts every well-formed plotfile under every option combination

Completeness of the validator model (`Taste.tastePlt` / `tasteLevelOpts`, the executable definitions
compared with `Taster` on every generated plotfile).  The two binary checks are the byte walk
`shapeOK` (`mp_fun_shape`) and the per-entry header comparison `headersOK` (`mp_fun_headers`). -/
namespace C03
open Py Taste

/-- **`binary_shape` accepts every well-formed binary file**: a file that is the concatenation of
    canonical FABs of the announced sizes — one per level-header entry, in offset order — passes the
    walk from byte 0 (any number of boxes, any shapes, 2D or 3D, any field count). -/
theorem shape_check_complete (nf : Nat) (e : Entry) (P : Bytes) (eps : List (Entry × Bytes))
    (hg : ∀ p ∈ (e, P) :: eps, GoodSeg nf p) :
    shapeOK (fileOf nf ((e, P) :: eps)) nf (e :: eps.map (·.1)) = true :=
  shapeOK_complete nf e P eps hg

/-- **`binary_headers` accepts every entry whose recorded offset is the start of its canonical
    header**, wherever the FAB sits in the file -/
theorem header_check_complete (nf : Nat) (e : Entry) (pre post : Bytes)
    (hlo : e.lo ≠ []) (hhi : e.hi ≠ []) (hlen : e.lo.length = e.hi.length)
    (hoff : e.offset = (pre.length : Int)) :
    headersOK (pre ++ canonHeader e.lo e.hi nf ++ post) nf [e] = true :=
  headersOK_entry nf e pre post hlo hhi hlen hoff

/-- with both binary options on, the option-aware level validator is the default one (so the
    completeness statements above are about what `Taster(...)` runs by default) -/
theorem default_options (cellH : Bytes) (nfields : Nat) (files : List (String × Bytes)) :
    tasteLevelOpts cellH nfields files true true = tasteLevel cellH nfields files :=
  tasteLevelOpts_default cellH nfields files

/-- the literal printed by `utils.header_from_indices` (regenerated from the source on every run) is
    the prefix of the model's canonical header -/
theorem canonical_header_is_the_codes :
    Py.ofString Generated.utilsHeaderConst = Py.sepJoin (Py.prefixToks.map (·, 32)) ++ Py.lastConst :=
  Generated.utilsHeader_is_model_prefix

/-- non-vacuity: a concrete file of two FABs (2x1x1 and 1x1x1 cells, one field) is accepted -/
example :
    shapeOK (fileOf 1 [(⟨[0,0,0],[1,0,0],"f",0⟩, List.replicate 16 1), (⟨[2,0,0],[2,0,0],"f",0⟩, List.replicate 8 2)]) 1
      [⟨[0,0,0],[1,0,0],"f",0⟩, ⟨[2,0,0],[2,0,0],"f",0⟩] = true := by decide +kernel

end C03
