import AmrK.Names
import AmrK.WritersSizes
/-! # C05 — colander output holds exactly the kept fields and levels, bit for bit

Record-level model `Writers.colander` (the executable definition the driver runs; compared offset
for offset with the real output).  Payload tags are arbitrary integers: the writer never inspects
values, so "bit-identical" is parametricity made explicit. -/
namespace C05
open Writers

/-- **For any distribution of the boxes over binary files and any order inside them, entry `i` of
    the output level header points into the file of box `i` at a record that is box `i` and holds
    exactly the kept components of the input box, in the requested order** — no side condition. -/
theorem colander_data (boxes : List InBox) (nvars : Nat) (kept : List Nat) (i : Nat) (b : InBox)
    (hb : boxes[i]? = some b) :
    ∃ ob, (colander boxes nvars kept)[i]? = some ob ∧ ob.file = b.file ∧
      ob.found = some (i, kept.filterMap (b.comps[·]?)) :=
  Writers.colander_data boxes nvars kept i b hb (colRec_size_pos boxes nvars kept)

/-- the offset re-mapping core: reading the output file at the `j`-th returned offset gives the
    `j`-th written record (any payload type) -/
theorem offsets_address_records {α : Type} (sz : Col.Sizes) (pos : Nat) (rs : List (Col.Rec α)) (j o : Nat)
    (ho : (Col.tells sz pos rs)[j]? = some o) : Col.recAt sz pos rs o = rs[j]? :=
  Col.recAt_tells sz pos rs j o ho

/-- the level header entry of box `i` receives the offset returned for it (`mapped[file_idxs] = offsets`) -/
theorem remapping (m : Nat → Option Nat) (idxs offs : List Nat) (hn : idxs.Nodup)
    (j i o : Nat) (hi : idxs[j]? = some i) (ho : offs[j]? = some o) :
    Col.scatter m idxs offs i = some o :=
  Col.scatter_get m idxs offs hn j i o hi ho

/-- non-vacuity: three boxes scattered non-monotonically over two files, fields 2 and 0 kept -/
example :
    ((colander [⟨"b", 90, 8, 80, 80, [10, 11, 12]⟩, ⟨"a", 0, 8, 80, 80, [20, 21, 22]⟩, ⟨"b", 0, 4, 80, 80, [30, 31, 32]⟩] 3 [2, 0]).map (·.found))
      = [some (0, [12, 10]), some (1, [22, 20]), some (2, [32, 30])] := by decide +kernel

/-- **which fields colander writes**: with a request, the requested names that exist, in request order
    (a sublist of the request, every existing requested name present); without one, all fields in file
    order.  `Names.select` is run by the driver and compared with the field list and the kept positions
    of every real output. -/
theorem kept_fields_rule (names r : List String) :
    (Names.select names (some r)).Sublist r ∧ (∀ x ∈ Names.select names (some r), x ∈ names) ∧
      (∀ x, x ∈ r → x ∈ names → x ∈ Names.select names (some r)) ∧ Names.select names none = names :=
  ⟨Names.select_some_sublist names r, fun x hx => Names.mem_select names (some r) x hx,
   fun x hr hn => Names.select_complete names r x hr hn, rfl⟩

end C05
