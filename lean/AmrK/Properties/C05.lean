import AmrK.Names
import AmrK.CellHRewriteProofs
import AmrK.HeaderRewriteProofs
import AmrK.WritersSizes
/-! # C05 — colander output holds exactly the kept fields and levels, bit for bit

Record-level model `Writers.colander` (the executable definition the driver runs; compared offset
for offset with the real output).  Payload tags are arbitrary integers: the writer never inspects
values, so "bit-identical" is parametricity made explicit. -/
namespace C05
open Writers

/-- **For any distribution of the boxes over binary files and any order inside them, entry `i` of
    the output level header points into the file of box `i` at a record that is box `i` and holds
    exactly the kept components of the input box, in the requested order** — no side condition. -/
theorem colander_data (boxes : List InBox) (nvars : Nat) (kept : List Nat) (i : Nat) (b : InBox)
    (hb : boxes[i]? = some b) :
    ∃ ob, (colander boxes nvars kept)[i]? = some ob ∧ ob.file = b.file ∧
      ob.found = some (i, kept.filterMap (b.comps[·]?)) :=
  Writers.colander_data boxes nvars kept i b hb (colRec_size_pos boxes nvars kept)

/-- the offset re-mapping core: reading the output file at the `j`-th returned offset gives the
    `j`-th written record (any payload type) -/
theorem offsets_address_records {α : Type} (sz : Col.Sizes) (pos : Nat) (rs : List (Col.Rec α)) (j o : Nat)
    (ho : (Col.tells sz pos rs)[j]? = some o) : Col.recAt sz pos rs o = rs[j]? :=
  Col.recAt_tells sz pos rs j o ho

/-- the level header entry of box `i` receives the offset returned for it (`mapped[file_idxs] = offsets`) -/
theorem remapping (m : Nat → Option Nat) (idxs offs : List Nat) (hn : idxs.Nodup)
    (j i o : Nat) (hi : idxs[j]? = some i) (ho : offs[j]? = some o) :
    Col.scatter m idxs offs i = some o :=
  Col.scatter_get m idxs offs hn j i o hi ho

/-- non-vacuity: three boxes scattered non-monotonically over two files, fields 2 and 0 kept -/
example :
    ((colander [⟨"b", 90, 8, 80, 80, [10, 11, 12]⟩, ⟨"a", 0, 8, 80, 80, [20, 21, 22]⟩, ⟨"b", 0, 4, 80, 80, [30, 31, 32]⟩] 3 [2, 0]).map (·.found))
      = [some (0, [12, 10]), some (1, [22, 20]), some (2, [32, 30])] := by decide +kernel

/-- **which fields colander writes**: with a request, the requested names that exist, in request order
    (a sublist of the request, every existing requested name present); without one, all fields in file
    order.  `Names.select` is run by the driver and compared with the field list and the kept positions
    of every real output. -/
theorem kept_fields_rule (names r : List String) :
    (Names.select names (some r)).Sublist r ∧ (∀ x ∈ Names.select names (some r), x ∈ names) ∧
      (∀ x, x ∈ r → x ∈ names → x ∈ Names.select names (some r)) ∧ Names.select names none = names :=
  ⟨Names.select_some_sublist names r, fun x hx => Names.mem_select names (some r) x hx,
   fun x hr hn => Names.select_complete names r x hr hn, rfl⟩

/-- the positions at which the kept fields are taken from the input are positions of those very names -/
theorem kept_positions (names sel : List String) (h : ∀ x ∈ sel, x ∈ names) :
    (Names.indices names sel).length = sel.length ∧
      ∀ (k i : Nat), (Names.indices names sel)[k]? = some i → ∃ x, sel[k]? = some x ∧ names[i]? = some x :=
  Names.indices_spec names sel h

/-- **the output header**: for a good input header read under the limit `l`, the header colander writes (the executable
    writer model `Header.rewriteOf`, compared byte for byte with every written `Header`) has levels `0 … l` and is read
    back as: the new field table, and the input's time, domain bounds and - cut after level `l` - cell sizes, grid sizes,
    step numbers, box counts and physical boxes (float tokens already in Python's shortest form) -/
theorem output_header_keeps_mesh (Hin : Header.HData) (hin : Hin.Good) (l : Nat) (hl : l < Hin.levels.length)
    (coord : Py.Bytes) (names : List Py.Bytes) :
    let Hout := Header.rewriteOf id true (Hin.meta (l + 1)) coord names
    let M := Hout.meta (l + 1)
    Hout.levels.length = l + 1 ∧
    M.fields = Header.tableOf names ∧ M.maxLevel = (l : Int) ∧ M.limitLevel = (l : Int) ∧ M.ndims = Hin.ndims ∧
    M.time = Hin.time ∧ M.geoLo = Hin.geoLo ∧ M.geoHi = Hin.geoHi ∧
    M.dx = Hin.dx.take (l + 1) ∧ M.gridSizes = (Hin.gridHi.take (l + 1)).map (·.map (· + 1)) ∧
    M.steps = Hin.steps.take (l + 1) ∧
    M.boxes = (Hin.levels.take (l + 1)).map (·.boxes) ∧
    M.npoints = (Hin.levels.take (l + 1)).map (fun L => (L.boxes.length : Int)) :=
  Header.rewrite_keeps_mesh Hin hin l hl true coord names

/-- … and that written header is read back as its content whenever it passes the executable check `goodB`
    (evaluated by the driver on every written header; any float formatting `fl`) -/
theorem output_header_read_back (fl : Py.Bytes → Py.Bytes) (m : Header.Meta) (coord : Py.Bytes) (names : List Py.Bytes)
    (hg : (Header.rewriteOf fl true m coord names).goodB = true) :
    Header.parse (Header.render (Header.rewriteOf fl true m coord names)) none =
      .ok ((Header.rewriteOf fl true m coord names).meta (Header.rewriteOf fl true m coord names).levels.length) :=
  Header.rewrite_read_back fl true m coord names hg

/-- **the level header of the output** (`update_cell_header`, the executable line rewriter `CellHRewrite.rewriteLines`,
    compared byte for byte with every `Cell_H` colander writes): for an input level header of any number of boxes and
    fields, the output keeps the index ranges and file names, carries the number of kept fields and the new offsets, and
    **every per-box minimum / maximum row is the input's row restricted to the kept fields, in the kept order** -/
theorem level_header_rows_restricted (l0 l1 lnf : Py.Bytes) (pre : List Py.Bytes)
    (hpre : ∀ l ∈ pre, CellHRewrite.containsSub CellHRewrite.fabTag l = false)
    (r0 : Py.Bytes × Nat) (rows : List (Py.Bytes × Nat)) (hrows : ∀ r ∈ r0 :: rows, r.1 ≠ [] ∧ Py.NoSpace r.1)
    (o0 : Nat) (offs : List Nat) (hlen : offs.length = rows.length)
    (nf : Nat) (mins maxs : List (List Py.Bytes)) (blank1 blank2 : Py.Bytes)
    (hmin : ∀ r ∈ mins, r.length = nf ∧ ∀ v ∈ r, Py.NoByte 44 v) (hmax : ∀ r ∈ maxs, r.length = nf ∧ ∀ v ∈ r, Py.NoByte 44 v)
    (kept : List Nat) (hk : ∀ k ∈ kept, k < nf) (rest : List Py.Bytes) :
    CellHRewrite.rewriteLines kept (o0 :: offs)
      (l0 :: l1 :: lnf :: (pre ++ Taste.fabLine r0.1 r0.2 :: (rows.map (fun r => Taste.fabLine r.1 r.2) ++
        (blank1 :: CellHRewrite.cntLine mins.length nf :: (mins.map CellHRewrite.rowText ++
          (blank2 :: CellHRewrite.cntLine maxs.length nf :: (maxs.map CellHRewrite.rowText ++ rest))))))) =
    some (l0 :: l1 :: Py.natBytes kept.length :: (pre ++ [Taste.fabLine r0.1 o0] ++
      ((rows.zip offs).map (fun p => Taste.fabLine p.1.1 p.2) ++
        ((blank1 :: CellHRewrite.cntLine mins.length kept.length ::
            mins.map (fun r => CellHRewrite.rowText (kept.map (r.getD · [])))) ++
          (blank2 :: CellHRewrite.cntLine maxs.length kept.length ::
            maxs.map (fun r => CellHRewrite.rowText (kept.map (r.getD · []))))))) ) :=
  CellHRewrite.rewriteLines_spec l0 l1 lnf pre hpre r0 rows hrows o0 offs hlen nf mins maxs blank1 blank2 hmin hmax kept hk rest

/-- lines without the letter `F` (index ranges, counts) meet the hypothesis on the copied lines -/
theorem copied_lines_hypothesis (s : Py.Bytes) (h : Py.NoByte 70 s) : CellHRewrite.containsSub CellHRewrite.fabTag s = false :=
  CellHRewrite.containsSub_of_noF s h

/-- non-vacuity: two boxes, three fields, the last and the first kept -/
example :
    CellHRewrite.rewrite [2, 0] [0, 77]
      "1\n1\n3\n0\n(2 0\n((0,0) (3,3) (0,0))\n((4,0) (7,3) (0,0))\n)\n2\nFabOnDisk: Cell_D_00000 500\nFabOnDisk: Cell_D_00001 0\n\n2,3\n1.0,2.0,3.0,\n4.0,5.0,6.0,\n\n2,3\n7.0,8.0,9.0,\n1e1,1e2,1e3,\n".toUTF8.toList =
    some "1\n1\n2\n0\n(2 0\n((0,0) (3,3) (0,0))\n((4,0) (7,3) (0,0))\n)\n2\nFabOnDisk: Cell_D_00000 0\nFabOnDisk: Cell_D_00001 77\n\n2,2\n3.0,1.0,\n6.0,4.0,\n\n2,2\n9.0,7.0,\n1e3,1e1,\n".toUTF8.toList := by
  decide +kernel

end C05
