import AmrK.Scan
import AmrK.IterLevel
import AmrK.BoxSelProofs
import AmrK.Ghost
/-! # C15 — level iteration yields every box exactly once, whatever the schedule -/
namespace C15
open Py Taste Reader ReaderR Scan

/-- **Scanning a well-formed file for field `f` returns, in disk order, the `f`-th component block of
    every FAB — each exactly once — and stops at end of file** (wherever the file content starts,
    for any fuel larger than the number of FABs). -/
theorem scan_yields_each_box_once (nf f : Nat) (hf : f < nf)
    (eps : List (Entry × Bytes)) (pre : Bytes) (fuel : Nat) (hfuel : eps.length < fuel)
    (hg : ∀ p ∈ eps, GoodFab nf p) :
    scan (pre ++ fileOf nf eps) f fuel pre.length = eps.map fun p => block p.2 (cellsOf p.1) f :=
  scan_fileOf nf f hf eps pre fuel hfuel hg

/-- the number of yielded boxes is the number of FABs of the file: none lost, none repeated -/
theorem scan_count (nf f : Nat) (hf : f < nf) (eps : List (Entry × Bytes)) (fuel : Nat)
    (hfuel : eps.length < fuel) (hg : ∀ p ∈ eps, GoodFab nf p) :
    (scan (fileOf nf eps) f fuel 0).length = eps.length := by
  have := scan_fileOf nf f hf eps [] fuel hfuel hg
  simp only [List.nil_append, List.length_nil] at this
  rw [this, List.length_map]

/-- **Iterating over a level yields every box of the level exactly once and then stops**: however
    the level's boxes are distributed over the binary files (`boxes` is a permutation of the
    concatenated file contents), the chained per-file scans return a permutation of the boxes'
    selected blocks (a finite list) -/
theorem level_iteration_perm (nf f : Nat) (hf : f < nf) (parts : List (List (Entry × Bytes)))
    (boxes : List (Entry × Bytes)) (hp : boxes.Perm parts.flatten)
    (hg : ∀ eps ∈ parts, ∀ p ∈ eps, GoodFab nf p) :
    (iterLevel (parts.map (fileOf nf)) f).Perm (boxes.map fun p => block p.2 (cellsOf p.1) f) :=
  iterLevel_perm nf f hf parts boxes hp hg

/-- **The on-demand iterator over a box selection yields the selected boxes in the requested order** (`stream.iter(sel)`:
    the selection `BoxSel.positions` - compared with the boxes the real iterator delivers for every selector form - followed by
    one read per selected box, delivered in submission order by `imap`): on a level whose every recorded entry points at the
    FAB of its box the items are, position by position, the component blocks of the boxes the selector denotes -/
theorem on_demand_order (files : List Bytes) (entries : List (Nat × Nat)) (nf : Nat) (fa : FArg) (sel : BoxSel.Sel)
    (hdr : Nat → Hdr) (cells : Nat → Nat) (payload : Nat → Bytes) (ps fs : List Nat)
    (hbox : ∀ p e, entries[p]? = some e → BoxSel.BoxAt files e nf (hdr p) (cells p) (payload p))
    (hps : BoxSel.positions entries.length sel = some ps) (hfs : selected nf fa = some fs) :
    ∃ shape : Nat → List Int, BoxSel.readSel files entries (nf : Int) fa sel
      = some (ps.map fun p => ⟨shape p, fs.map (block (payload p) (cells p))⟩) := by
  have h := BoxSel.readSel_exact files entries nf fa sel hdr cells payload hbox
  rw [hps] at h
  simp only [hfs] at h
  exact h

/-- **Plotfiles written with ghost cells**: when every FAB on disk is its (valid) box grown by `g` cells in each direction, the
    scan yields, in disk order, the grown block of every box - each exactly once - and stops at end of file.  The hypotheses are
    validity of the boxes and the payload sizes only: goodness of the grown FABs is proved (`Ghost.goodFab_grow`), not assumed. -/
theorem ghost_cells_scan (nf f g : Nat) (hf : f < nf) (eps : List (Entry × Bytes)) (pre : Bytes) (fuel : Nat)
    (hfuel : eps.length < fuel) (hv : ∀ p ∈ eps, Ghost.ValidBox p.1)
    (hs : ∀ p ∈ eps, p.2.length = cellsOf (Ghost.grow g p.1) * nf * 8) :
    scan (pre ++ fileOf nf (eps.map fun p => (Ghost.grow g p.1, p.2))) f fuel pre.length
      = eps.map fun p => block p.2 (cellsOf (Ghost.grow g p.1)) f :=
  Ghost.scan_grown nf f g hf eps pre fuel hfuel hv hs

/-- non-vacuity of `ghost_cells_scan`: the 2 x 3 box (0,0)-(1,2) is valid and has 4 x 5 = 20 cells once grown by one -/
example : Ghost.ValidBox ⟨[0, 0], [1, 2], "Cell_D_00000", 0⟩ ∧ cellsOf (Ghost.grow 1 ⟨[0, 0], [1, 2], "Cell_D_00000", 0⟩) = 20 := by
  refine ⟨⟨by decide, by decide, ?_⟩, by decide⟩
  intro p hp
  simp at hp
  rcases hp with rfl | rfl <;> decide

/-- **Level iteration over a plotfile written with ghost cells**: however the level's (valid) boxes are spread over the binary
    files, the chained per-file scans return a permutation of the boxes' *grown* blocks (a finite list) -/
theorem ghost_cells_level_iteration_perm (nf f g : Nat) (hf : f < nf) (parts : List (List (Entry × Bytes)))
    (boxes : List (Entry × Bytes)) (hp : boxes.Perm parts.flatten)
    (hv : ∀ eps ∈ parts, ∀ p ∈ eps, Ghost.ValidBox p.1)
    (hs : ∀ eps ∈ parts, ∀ p ∈ eps, p.2.length = cellsOf (Ghost.grow g p.1) * nf * 8) :
    (iterLevel ((parts.map fun eps => eps.map fun p => (Ghost.grow g p.1, p.2)).map (fileOf nf)) f).Perm
      (boxes.map fun p => block p.2 (cellsOf (Ghost.grow g p.1)) f) :=
  Ghost.iterLevel_grown_perm nf f g hf parts boxes hp hv hs

end C15
