import AmrK.ReaderRProofs
import AmrK.BoxSelProofs
import AmrK.Codec
import AmrK.Obligations.FortranOrder
/-! # C01 — box data read through the indexing interface is exactly what is on disk

Property theorems only (helper lemmas live in `ReaderRProofs`, `SliceLemmas`, `Codec*`).
The model is `ReaderR.readR` (field-argument normalisation of `LevelDataSelector.__init__` followed
by the three `mp_read_box_*` functions), the executable definition the driver runs and the
correspondence check compares bit for bit with `pck[sel][level][box]`. -/
namespace C01
open Py Taste Reader ReaderR

/-- **Closing statement.**  A FAB (header line `line` announcing `n > 0` cells and `nf` components,
    followed by its payload) placed *anywhere* in *any* file (`pre`, `post` arbitrary).  For **every**
    field selector: if Python/numpy give the selector no meaning over `nf` fields (or the reader does
    not support the form) the read is refused; otherwise the result holds exactly the component blocks
    the selector denotes, in the order requested — never another field, box or shape. -/
theorem read_refuse_or_exact (pre line payload post : Bytes) (h : Hdr) (n nf : Nat)
    (hl : IsLine line) (hp : parseFabHeader line = some h) (hcells : ncells h = (n : Int)) (hn : 0 < n)
    (hnf : h.nf = (nf : Int)) (hlen : payload.length = n * nf * 8) (fa : FArg) :
    match selected nf fa with
    | none => readR (pre ++ line ++ payload ++ post) pre.length (nf : Int) fa = none
    | some sel => ∃ shape, readR (pre ++ line ++ payload ++ post) pre.length (nf : Int) fa
        = some ⟨shape, sel.map (block payload n)⟩ :=
  readR_refuse_or_exact pre line payload post h n nf hl hp hcells hn hnf hlen fa

/-- single index (negative indices count from the last field): the spatial shape of the header and
    exactly that component's block -/
theorem read_index (pre line payload post : Bytes) (h : Hdr) (n nf : Nat)
    (hl : IsLine line) (hp : parseFabHeader line = some h) (hcells : ncells h = (n : Int)) (hn : 0 < n)
    (hlen : payload.length = n * nf * 8)
    (i : Int) (hlo : -(nf : Int) ≤ i) (hhi : i < (nf : Int)) :
    readR (pre ++ line ++ payload ++ post) pre.length (nf : Int) (.idx i)
      = some ⟨spatial h, [block payload n (i % (nf : Int)).toNat]⟩ :=
  readR_idx pre line payload post h n nf hl hp hcells hn hlen i hlo hhi

/-- index list: component `l[m]` at position `m` of the last axis -/
theorem read_list (pre line payload post : Bytes) (h : Hdr) (n nf : Nat)
    (hl : IsLine line) (hp : parseFabHeader line = some h) (hcells : ncells h = (n : Int)) (hn : 0 < n)
    (hlen : payload.length = n * nf * 8)
    (l : List Int) (hne : l ≠ []) (hall : ∀ i ∈ l, -(nf : Int) ≤ i ∧ i < (nf : Int)) :
    readR (pre ++ line ++ payload ++ post) pre.length (nf : Int) (.list l)
      = some ⟨spatial h ++ [(l.length : Int)], l.map fun i => block payload n (i % (nf : Int)).toNat⟩ :=
  readR_list pre line payload post h n nf hl hp hcells hn hlen l hne hall

/-- every forward slice, with Python's `slice.indices` semantics -/
theorem read_slice (pre line payload post : Bytes) (h : Hdr) (n nf : Nat)
    (hl : IsLine line) (hp : parseFabHeader line = some h) (hcells : ncells h = (n : Int)) (hn : 0 < n)
    (hnf : h.nf = (nf : Int)) (hlen : payload.length = n * nf * 8)
    (a b c : Option Int) (hc : ∀ st, c = some st → 0 < st) :
    ∃ s e st, sliceIndices a b c (nf : Int) = some (s, e, st) ∧
      readR (pre ++ line ++ payload ++ post) pre.length (nf : Int) (.slice a b c)
        = some ⟨spatial h ++ [((pyRange s e st).length : Int)],
                (pyRange s e st).map fun i => block payload n i.toNat⟩ :=
  readR_slice pre line payload post h n nf hl hp hcells hn hnf hlen a b c hc

/-- **the whole selection `pck[fields][level][boxes]`** (`BoxSel.readSel`: the box selector's meaning among the boxes of the
    level - `BoxSel.positions`, the executable definition compared with the boxes the real reader returns for every selector
    form - and then the field read of every selected box).  On a level whose every recorded entry points at the FAB of its
    box: a box selector without meaning is refused; a field selector without meaning is refused as soon as a box is selected;
    otherwise the result lists, for each selected box **in the order requested**, exactly the component blocks the field
    selector denotes of **that box's** payload - never another field, box or shape. -/
theorem selection_refuse_or_exact (files : List Bytes) (entries : List (Nat × Nat)) (nf : Nat) (fa : FArg) (sel : BoxSel.Sel)
    (hdr : Nat → Hdr) (cells : Nat → Nat) (payload : Nat → Bytes)
    (hbox : ∀ p e, entries[p]? = some e → BoxSel.BoxAt files e nf (hdr p) (cells p) (payload p)) :
    match BoxSel.positions entries.length sel with
    | none => BoxSel.readSel files entries (nf : Int) fa sel = none
    | some ps =>
      match selected nf fa with
      | none => ps = [] ∨ BoxSel.readSel files entries (nf : Int) fa sel = none
      | some fs => ∃ shape : Nat → List Int, BoxSel.readSel files entries (nf : Int) fa sel
          = some (ps.map fun p => ⟨shape p, fs.map (block (payload p) (cells p))⟩) :=
  BoxSel.readSel_exact files entries nf fa sel hdr cells payload hbox

/-- every selector form (index, slice with any step, index list, boolean mask) denotes boxes of the level only -/
theorem box_positions_in_level (size : Nat) (sel : BoxSel.Sel) (ps : List Nat) (h : BoxSel.positions size sel = some ps) :
    ∀ p ∈ ps, p < size :=
  BoxSel.positions_lt size sel ps h

/-- an index list is delivered entry by entry in the order requested (negative entries count from the last box) -/
theorem box_list_order (size : Nat) (l : List Int) (ps : List Nat) (h : BoxSel.positions size (.list l) = some ps) :
    ps.length = l.length ∧ ∀ (k : Nat) (i : Int) (p : Nat), l[k]? = some i → ps[k]? = some p →
      ((0 ≤ i → (p : Int) = i) ∧ (i < 0 → (p : Int) = i + size)) := by
  obtain ⟨h1, h2⟩ := BoxSel.mapM_wrap_order size l ps h
  exact ⟨h1, fun k i p hi hp => BoxSel.wrap_spec size i p (h2 k i p hi hp)⟩

/-- a boolean mask with one entry per box denotes exactly the boxes marked true, in increasing order -/
theorem box_mask (m : List Bool) (hne : m ≠ []) :
    ∃ ps, BoxSel.positions m.length (.mask m) = some ps ∧ (∀ p, p ∈ ps ↔ m[p]? = some true) ∧ ps.Pairwise (· < ·) :=
  BoxSel.positions_mask m hne

example : BoxSel.positions 5 (.slice none none (some (-2))) = some [4, 2, 0] ∧
    BoxSel.positions 5 (.list [-1, 0, 3]) = some [4, 0, 3] ∧ BoxSel.positions 5 (.list [5]) = none ∧
    BoxSel.positions 3 (.mask [true, false, true]) = some [0, 2] ∧ BoxSel.positions 3 (.mask [true]) = none ∧
    BoxSel.positions 3 (.idx (-4)) = none ∧ BoxSel.level 3 (-1) = some 2 ∧ BoxSel.level 3 3 = none := by decide +kernel

/-- the canonical header the writers print parses back to the box it names (codec law), so the
    hypotheses `IsLine` / `parseFabHeader line = some h` are met by every header the toolbox writes -/
theorem header_codec (lo hi : List Int) (nf : Nat) (hlo : lo ≠ []) (hhi : hi ≠ []) (hlen : lo.length = hi.length) :
    parseFabHeader (canonB lo hi nf) = some ⟨lo, hi, (nf : Int)⟩ :=
  parse_canonB lo hi nf hlo hhi hlen

/-- no reshape / flatten in the package asks explicitly for an order other than Fortran (x fastest, the
    layout `block` assumes; regenerated from the sources on every run) -/
theorem x_fastest_everywhere : Generated.nonFortranReshapes = [] := Generated.fortran_order_everywhere

/-- non-vacuity: a concrete 2x1x1 box with two fields read through `[-1]` returns the second block -/
def exPayload : Bytes := (List.range 32).map fun i => i.toUInt8
example :
    readR ([7, 7] ++ canonB [0, 0, 0] [1, 0, 0] 2 ++ exPayload ++ [9]) 2 2 (.idx (-1))
      = some ⟨[2, 1, 1], [(exPayload.drop 16).take 16]⟩ := by decide +kernel

end C01
