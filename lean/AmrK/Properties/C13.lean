import AmrK.Paths
/-! # C13 — tools never touch their inputs and report failures instead of returning

POSIX path model on bytes: a path is a list of components, `render` joins them with `/`,
`Inside out inp` = the components of `inp` are a proper prefix of those of `out`. -/
namespace C13
open Py Paths

/-- **`normpath(p) + suffix` is never inside `p`** (repaired default outputs of chef `_ck` and
    marinate `.pkl`): appending to the last component creates a sibling -/
theorem concat_not_inside (abs : Bool) (cs : List Bytes) (last suffix : Bytes)
    (h : GoodComps (cs ++ [last])) (hs : suffix ≠ []) (hsuf : NoByte 47 suffix) :
    ¬ Inside (render abs (cs ++ [last]) ++ suffix) (render abs (cs ++ [last])) :=
  Paths.concat_not_inside abs cs last suffix h hs hsuf

/-- **the pinned concatenation `p + suffix` *is* inside `p` for every input written with a trailing
    slash** (checked record of the repaired defect) -/
theorem concat_inside_trailing_slash (abs : Bool) (cs : List Bytes) (suffix : Bytes)
    (h : GoodComps cs) (hs : suffix ≠ []) (hsuf : NoByte 47 suffix) :
    Inside (render abs cs ++ [47] ++ suffix) (render abs cs ++ [47]) :=
  Paths.concat_inside_trailing_slash abs cs suffix h hs hsuf

end C13
