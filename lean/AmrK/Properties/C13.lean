import AmrK.Paths
import AmrK.PathsMore
import AmrK.PathsDefaults
import AmrK.Effects
import AmrK.Obligations.NoSwallow
/-! # C13 — tools never touch their inputs and report failures instead of returning

POSIX path model on bytes: a path is a list of components, `render` joins them with `/`,
`Inside out inp` = the components of `inp` are a proper prefix of those of `out`. -/
namespace C13
open Py Paths

/-- **`normpath(p) + suffix` is never inside `p`** (repaired default outputs of chef `_ck` and
    marinate `.pkl`): appending to the last component creates a sibling -/
theorem concat_not_inside (abs : Bool) (cs : List Bytes) (last suffix : Bytes)
    (h : GoodComps (cs ++ [last])) (hs : suffix ≠ []) (hsuf : NoByte 47 suffix) :
    ¬ Inside (render abs (cs ++ [last]) ++ suffix) (render abs (cs ++ [last])) :=
  Paths.concat_not_inside abs cs last suffix h hs hsuf

/-- **the pinned concatenation `p + suffix` *is* inside `p` for every input written with a trailing
    slash** (checked record of the repaired defect) -/
theorem concat_inside_trailing_slash (abs : Bool) (cs : List Bytes) (suffix : Bytes)
    (h : GoodComps cs) (hs : suffix ≠ []) (hsuf : NoByte 47 suffix) :
    Inside (render abs cs ++ [47] ++ suffix) (render abs cs ++ [47]) :=
  Paths.concat_inside_trailing_slash abs cs suffix h hs hsuf

/-- **sibling defaults** (repaired mandoline `split(normpath p)[0]/S…`, chk2plt, combine): a path with
    the same parent and any single last component is never inside `p` -/
theorem sibling_not_inside (abs : Bool) (cs : List Bytes) (last name : Bytes)
    (h : GoodComps (cs ++ [last])) (hn : name ≠ [] ∧ NoByte 47 name) :
    ¬ Inside (render abs (cs ++ [name])) (render abs (cs ++ [last])) :=
  Paths.sibling_not_inside abs cs last name h hn

/-- … and it differs from the input itself exactly when the name differs from the input's last
    component (chk2plt: a checkpoint name without `chk` now gets the suffix `_plt`) -/
theorem sibling_ne_iff (abs : Bool) (cs : List Bytes) (last name : Bytes)
    (h : GoodComps (cs ++ [last])) (hn : name ≠ [] ∧ NoByte 47 name) :
    render abs (cs ++ [name]) ≠ render abs (cs ++ [last]) ↔ name ≠ last :=
  Paths.sibling_ne_iff abs cs last name h hn

/-- **the executable default-path model** (`Paths.chefDefault`, `marinateDefault`, compared with where
    the real tools write): `normpath(p) + suffix` is outside `p` however `p` is written (trailing or
    doubled slashes included) -/
theorem concat_default_not_inside (p suffix : Bytes) (h : GoodComps (comps p)) (hs : suffix ≠ []) (hsuf : NoByte 47 suffix) :
    ¬ Inside (normpath p ++ suffix) p :=
  Paths.concat_default_not_inside p suffix h hs hsuf

/-- … and every sibling default (`Paths.chk2pltDefault`, `mandolineDefault`) is outside `p` -/
theorem sibling_default_not_inside (p name : Bytes) (h : GoodComps (comps p)) (hn : name ≠ [] ∧ NoByte 47 name) :
    ¬ Inside (sibling p name) p :=
  Paths.sibling_default_not_inside p name h hn

/-- chk2plt's default name always differs from the checkpoint's own name (never the input itself) -/
theorem chk2plt_name_differs (base : Bytes) :
    (if replaceAll (ofString "chk") (ofString "plt") base = base then base ++ ofString "_plt"
     else replaceAll (ofString "chk") (ofString "plt") base) ≠ base :=
  Paths.chk2plt_name_differs base

/-- **A fault at any write-side call of a run surfaces as an exception** when no write-side call sits
    inside a `try` block whose handlers swallow I/O errors (effects model) -/
theorem fault_propagates (prog : List Effects.Item) (h : Effects.NoSwallow prog) (k : Nat) (hk : k < Effects.total prog) :
    Effects.exec prog k = .raised :=
  Effects.fault_propagates prog h k hk

/-- … and a write inside a swallowing block makes some fault return normally -/
theorem swallow_returns (pre : List Effects.Item) (n : Nat) (hn : 0 < n) (post : List Effects.Item) (hpre : Effects.NoSwallow pre) :
    Effects.exec (pre ++ ⟨n, true⟩ :: post) (Effects.total pre) = .returned :=
  Effects.swallow_returns pre n hn post hpre

/-- **the hypothesis holds of the code as it is now**: the table of write-side calls inside swallowing
    `try` blocks, regenerated from the Python sources on every run, is empty -/
theorem no_swallowed_writes_in_source : Generated.swallowedWriteSites = [] := Generated.no_swallowed_writes

end C13
