import AmrK.WritersSizes
/-! # C06 — combine merges fields box by box, independent of either input's file layout -/
namespace C06
open Writers

/-- **In both pairing modes, for independent layouts of the two inputs, entry `i` of the output level
    header points at a record that is box `i` and holds the selected components of box `i` of the
    first input followed by the selected components of box `i` of the second** — no side condition. -/
theorem combine_data (mode : Bool) (b1 b2 : List InBox) (v1 v2 : List Nat)
    (hlen : b1.length = b2.length)
    (i : Nat) (x y : InBox) (hx : b1[i]? = some x) (hy : b2[i]? = some y) :
    ∃ ob, (combineLevel mode b1 b2 v1 v2)[i]? = some ob ∧ ob.file = x.file ∧
      ob.found = some (i, v1.filterMap (x.comps[·]?) ++ v2.filterMap (y.comps[·]?)) :=
  Writers.combine_data mode b1 b2 v1 v2 hlen (cmbRec_size_pos b1 b2 v1 v2) i x y hx hy

/-- non-vacuity: two boxes, second input stores them in the other order in another file -/
example :
    ((combineLevel false [⟨"a", 0, 8, 80, 80, [1, 2]⟩, ⟨"a", 208, 8, 80, 80, [3, 4]⟩]
        [⟨"z", 300, 8, 80, 80, [5]⟩, ⟨"z", 0, 8, 80, 80, [6]⟩] [1] [0]).map (·.found))
      = [some (0, [2, 5]), some (1, [4, 6])] := by decide +kernel

end C06
