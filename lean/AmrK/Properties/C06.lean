import AmrK.Names
import AmrK.WritersSizes
/-! # C06 — combine merges fields box by box, independent of either input's file layout -/
namespace C06
open Writers

/-- **In both pairing modes, for independent layouts of the two inputs, entry `i` of the output level
    header points at a record that is box `i` and holds the selected components of box `i` of the
    first input followed by the selected components of box `i` of the second** — no side condition. -/
theorem combine_data (mode : Bool) (b1 b2 : List InBox) (v1 v2 : List Nat)
    (hlen : b1.length = b2.length)
    (i : Nat) (x y : InBox) (hx : b1[i]? = some x) (hy : b2[i]? = some y) :
    ∃ ob, (combineLevel mode b1 b2 v1 v2)[i]? = some ob ∧ ob.file = x.file ∧
      ob.found = some (i, v1.filterMap (x.comps[·]?) ++ v2.filterMap (y.comps[·]?)) :=
  Writers.combine_data mode b1 b2 v1 v2 hlen (cmbRec_size_pos b1 b2 v1 v2) i x y hx hy

/-- non-vacuity: two boxes, second input stores them in the other order in another file -/
example :
    ((combineLevel false [⟨"a", 0, 8, 80, 80, [1, 2]⟩, ⟨"a", 208, 8, 80, 80, [3, 4]⟩]
        [⟨"z", 300, 8, 80, 80, [5]⟩, ⟨"z", 0, 8, 80, 80, [6]⟩] [1] [0]).map (·.found))
      = [some (0, [2, 5]), some (1, [4, 6])] := by decide +kernel

/-- **which fields combine writes**: the selection of the first input comes first and unchanged, a field
    is present iff it is selected from the first input or selected from the second and not already
    taken, the second input's contribution keeps the order of its selection, and no name occurs twice.
    `Names.combine` is run by the driver and compared with the field list of every real output. -/
theorem field_rule (n1 n2 : List String) (v1 v2 : Option (List String)) :
    (Names.combine n1 n2 v1 v2).take (Names.select n1 v1).length = Names.select n1 v1 ∧
    (∀ x, x ∈ Names.combine n1 n2 v1 v2 ↔ x ∈ Names.select n1 v1 ∨ (x ∈ Names.select n2 v2 ∧ x ∉ Names.select n1 v1)) ∧
    ((Names.combine n1 n2 v1 v2).drop (Names.select n1 v1).length).Sublist (Names.select n2 v2) :=
  ⟨Names.combine_first n1 n2 v1 v2, fun x => Names.mem_combine n1 n2 v1 v2 x, Names.combine_second_sublist n1 n2 v1 v2⟩

theorem field_names_distinct (n1 n2 : List String) (v1 v2 : Option (List String)) (h1 : n1.Nodup) (h2 : n2.Nodup)
    (hr1 : ∀ r, v1 = some r → r.Nodup) (hr2 : ∀ r, v2 = some r → r.Nodup) : (Names.combine n1 n2 v1 v2).Nodup :=
  Names.combine_nodup n1 n2 v1 v2 h1 h2 hr1 hr2

/-- non-vacuity: a shared name left out of the first selection is taken from the second input -/
example : Names.combine ["a", "b", "c"] ["b", "d"] (some ["c", "x", "a"]) none = ["c", "a", "b", "d"] := by decide

end C06
