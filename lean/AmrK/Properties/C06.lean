import AmrK.Names
import AmrK.MeshEqProofs
import AmrK.CellHRewriteProofs
import AmrK.HeaderRewriteProofs
import AmrK.WritersSizes
/-! # C06 — combine merges fields box by box, independent of either input's file layout -/
namespace C06
open Writers

/-- **In both pairing modes, for independent layouts of the two inputs, entry `i` of the output level
    header points at a record that is box `i` and holds the selected components of box `i` of the
    first input followed by the selected components of box `i` of the second** — no side condition. -/
theorem combine_data (mode : Bool) (b1 b2 : List InBox) (v1 v2 : List Nat)
    (hlen : b1.length = b2.length)
    (i : Nat) (x y : InBox) (hx : b1[i]? = some x) (hy : b2[i]? = some y) :
    ∃ ob, (combineLevel mode b1 b2 v1 v2)[i]? = some ob ∧ ob.file = x.file ∧
      ob.found = some (i, v1.filterMap (x.comps[·]?) ++ v2.filterMap (y.comps[·]?)) :=
  Writers.combine_data mode b1 b2 v1 v2 hlen (cmbRec_size_pos b1 b2 v1 v2) i x y hx hy

/-- non-vacuity: two boxes, second input stores them in the other order in another file -/
example :
    ((combineLevel false [⟨"a", 0, 8, 80, 80, [1, 2]⟩, ⟨"a", 208, 8, 80, 80, [3, 4]⟩]
        [⟨"z", 300, 8, 80, 80, [5]⟩, ⟨"z", 0, 8, 80, 80, [6]⟩] [1] [0]).map (·.found))
      = [some (0, [2, 5]), some (1, [4, 6])] := by decide +kernel

/-- **which fields combine writes**: the selection of the first input comes first and unchanged, a field
    is present iff it is selected from the first input or selected from the second and not already
    taken, the second input's contribution keeps the order of its selection, and no name occurs twice.
    `Names.combine` is run by the driver and compared with the field list of every real output. -/
theorem field_rule (n1 n2 : List String) (v1 v2 : Option (List String)) :
    (Names.combine n1 n2 v1 v2).take (Names.select n1 v1).length = Names.select n1 v1 ∧
    (∀ x, x ∈ Names.combine n1 n2 v1 v2 ↔ x ∈ Names.select n1 v1 ∨ (x ∈ Names.select n2 v2 ∧ x ∉ Names.select n1 v1)) ∧
    ((Names.combine n1 n2 v1 v2).drop (Names.select n1 v1).length).Sublist (Names.select n2 v2) :=
  ⟨Names.combine_first n1 n2 v1 v2, fun x => Names.mem_combine n1 n2 v1 v2 x, Names.combine_second_sublist n1 n2 v1 v2⟩

theorem field_names_distinct (n1 n2 : List String) (v1 v2 : Option (List String)) (h1 : n1.Nodup) (h2 : n2.Nodup)
    (hr1 : ∀ r, v1 = some r → r.Nodup) (hr2 : ∀ r, v2 = some r → r.Nodup) : (Names.combine n1 n2 v1 v2).Nodup :=
  Names.combine_nodup n1 n2 v1 v2 h1 h2 hr1 hr2

/-- non-vacuity: a shared name left out of the first selection is taken from the second input -/
example : Names.combine ["a", "b", "c"] ["b", "d"] (some ["c", "x", "a"]) none = ["c", "a", "b", "d"] := by decide

/-- **the output header**: for a good input header read under the limit `l`, the header combine writes (the executable
    writer model `Header.rewriteOf`, compared byte for byte with every written `Header`) has levels `0 … l` and is read
    back as: the new field table, and the input's time, domain bounds and - cut after level `l` - cell sizes, grid sizes,
    step numbers, box counts and physical boxes (float tokens already in Python's shortest form) -/
theorem output_header_keeps_mesh (Hin : Header.HData) (hin : Hin.Good) (l : Nat) (hl : l < Hin.levels.length)
    (coord : Py.Bytes) (names : List Py.Bytes) :
    let Hout := Header.rewriteOf id false (Hin.meta (l + 1)) coord names
    let M := Hout.meta (l + 1)
    Hout.levels.length = l + 1 ∧
    M.fields = Header.tableOf names ∧ M.maxLevel = (l : Int) ∧ M.limitLevel = (l : Int) ∧ M.ndims = Hin.ndims ∧
    M.time = Hin.time ∧ M.geoLo = Hin.geoLo ∧ M.geoHi = Hin.geoHi ∧
    M.dx = Hin.dx.take (l + 1) ∧ M.gridSizes = (Hin.gridHi.take (l + 1)).map (·.map (· + 1)) ∧
    M.steps = Hin.steps.take (l + 1) ∧
    M.boxes = (Hin.levels.take (l + 1)).map (·.boxes) ∧
    M.npoints = (Hin.levels.take (l + 1)).map (fun L => (L.boxes.length : Int)) :=
  Header.rewrite_keeps_mesh Hin hin l hl false coord names

/-- … and that written header is read back as its content whenever it passes the executable check `goodB`
    (evaluated by the driver on every written header; any float formatting `fl`) -/
theorem output_header_read_back (fl : Py.Bytes → Py.Bytes) (m : Header.Meta) (coord : Py.Bytes) (names : List Py.Bytes)
    (hg : (Header.rewriteOf fl false m coord names).goodB = true) :
    Header.parse (Header.render (Header.rewriteOf fl false m coord names)) none =
      .ok ((Header.rewriteOf fl false m coord names).meta (Header.rewriteOf fl false m coord names).levels.length) :=
  Header.rewrite_read_back fl false m coord names hg

/-- **min/max rows assembled from the same sources** (`rewrite_level_header`, the executable line rewriter
    `CellHRewrite.combineLines`, compared byte for byte with every `Cell_H` combine writes): in each table of the output
    level header the row of a box is the picked columns of the first input's row for that box followed by the picked columns
    of the second input's row for that box - any number of boxes, fields and picked columns, in any order -/
theorem level_header_rows_assembled (nf : Nat) (k1 k2 : List Nat) (nf1 nf2 : Nat) (rows : List (List Py.Bytes × List Py.Bytes))
    (blank b2 c2 : Py.Bytes)
    (hr : ∀ r ∈ rows, (r.1.length = nf1 ∧ ∀ v ∈ r.1, Py.NoByte 44 v) ∧ (r.2.length = nf2 ∧ ∀ v ∈ r.2, Py.NoByte 44 v))
    (hk1 : ∀ k ∈ k1, k < nf1) (hk2 : ∀ k ∈ k2, k < nf2) (rest1 rest2 : List Py.Bytes) :
    CellHRewrite.combineTable nf k1 k2
        (blank :: CellHRewrite.cntLine rows.length nf1 :: (rows.map (fun r => CellHRewrite.rowText r.1) ++ rest1))
        (b2 :: c2 :: (rows.map (fun r => CellHRewrite.rowText r.2) ++ rest2)) =
      some (blank :: CellHRewrite.cntLine rows.length nf ::
          rows.map (fun r => CellHRewrite.rowText2 (k1.map (r.1.getD · []) ++ k2.map (r.2.getD · []))), rest1, rest2) :=
  CellHRewrite.combineTable_spec nf k1 k2 nf1 nf2 rows blank b2 c2 hr hk1 hk2 rest1 rest2

/-- non-vacuity: two boxes; columns 1, 0 of the first input and column 0 of the second -/
example :
    CellHRewrite.combine 3 [1, 0] [0] [0, 640]
      "1\n1\n2\n0\n(2 0\n((0,0,0) (3,3,3) (0,0,0))\n((4,0,0) (7,3,3) (0,0,0))\n)\n2\nFabOnDisk: Cell_D_00000 0\nFabOnDisk: Cell_D_00000 1100\n\n2,2\n1.0,2.0,\n4.0,5.0,\n\n2,2\n7.0,8.0,\n1e1,1e2,\n".toUTF8.toList
      "1\n1\n1\n0\n(2 0\n((0,0,0) (3,3,3) (0,0,0))\n((4,0,0) (7,3,3) (0,0,0))\n)\n2\nFabOnDisk: Cell_D_00001 0\nFabOnDisk: Cell_D_00000 0\n\n2,1\n-3.0,\n-6.0,\n\n2,1\n-9.0,\n-1e3,\n".toUTF8.toList =
    some "1\n1\n3\n0\n(2 0\n((0,0,0) (3,3,3) (0,0,0))\n((4,0,0) (7,3,3) (0,0,0))\n)\n2\nFabOnDisk: Cell_D_00000 0\nFabOnDisk: Cell_D_00000 640\n\n2,3\n2.0,1.0,-3.0,\n5.0,4.0,-6.0,\n\n2,3\n8.0,7.0,-9.0,\n1e2,1e1,-1e3,\n".toUTF8.toList := by
  decide +kernel

/-- **the compatibility test accepts the same mesh** (`PlotfileCooker.__eq__` = `MeshEq.eq`, the executable definition compared
    with `p == q` on every generated pair, matched and mismatched): two readers with the same level limit whose levels up to
    the limit carry the same physical bounds and index ranges compare equal, whatever their fields, files and offsets are -/
theorem same_mesh_accepted (lim : Nat) (A B : List MeshEq.Lv) (h : A.take (lim + 1) = B.take (lim + 1)) :
    MeshEq.eq lim lim A B = true :=
  MeshEq.eq_same_mesh lim A B h

/-- **... and refuses inputs whose level count or boxes differ**: another level limit, a level with another number of boxes,
    or a single differing index range makes the comparison false (so combine raises before anything is written) -/
theorem different_mesh_refused (limA limB : Nat) (A B : List MeshEq.Lv)
    (h : limA ≠ limB ∨ ∃ (lv : Nat) (a b : MeshEq.Lv), lv ≤ limA ∧ A[lv]? = some a ∧ B[lv]? = some b ∧
      (a.bounds.length ≠ b.bounds.length ∨ a.idx ≠ b.idx)) :
    MeshEq.eq limA limB A B = false :=
  MeshEq.eq_refuses limA limB A B h

example :
    let a : MeshEq.Lv := ⟨[[(0, 1), (0, 1)], [(1, 2), (0, 1)]], [([0, 0], [7, 7]), ([8, 0], [15, 7])]⟩
    let b : MeshEq.Lv := ⟨[[(0, 1), (0, 1)], [(1, 2), (0, 1)]], [([0, 0], [7, 7]), ([8, 0], [15, 8])]⟩
    MeshEq.eq 0 0 [a] [a] = true ∧ MeshEq.eq 0 0 [a] [b] = false ∧ MeshEq.eq 0 1 [a] [a] = false := by decide +kernel

end C06
