import AmrK.MenuR
import AmrK.Menu
/-! # C18 — header-only tools report what the full reader holds -/
namespace C18

/-- **The (repaired) two-column min/max table shows every field exactly once**, for every field count -/
theorem table_covers (n i : Nat) (hi : i < n) : (MenuR.shown n).count (some i) = 1 := MenuR.shown_covers n i hi

/-- the pinned layout (`not len//2` as oddness test) drops the last of three fields
    (checked record of the repaired defect) -/
theorem pinned_drops_a_field : ¬ MenuProbe.Covers 3 := MenuProbe.covers_counterexample

example : MenuR.shown 5 = [some 0, some 3, some 1, some 4, some 2, none] := by decide

end C18
