import AmrK.MenuR
import AmrK.MenuClassProofs
import AmrK.Menu
import AmrK.ExtremaProofs
/-! # C18 — header-only tools report what the full reader holds -/
namespace C18

/-- **The (repaired) two-column min/max table shows every field exactly once**, for every field count -/
theorem table_covers (n i : Nat) (hi : i < n) : (MenuR.shown n).count (some i) = 1 := MenuR.shown_covers n i hi

/-- **the all-level entries of the min/max table are the extrema over the per-box tables of every box of
    every level**: the reduction of the per-level reductions (`np.min([… .min() for lv …])`) equals the
    reduction over all boxes, with numpy's semantics (NaN absorbing, ±inf ordinary extreme values) -/
theorem extrema_over_all_levels (levels : List (List Extrema.V)) :
    Extrema.overLevels Extrema.vmin levels = Extrema.reduce Extrema.vmin levels.flatten ∧
    Extrema.overLevels Extrema.vmax levels = Extrema.reduce Extrema.vmax levels.flatten :=
  ⟨Extrema.min_over_levels levels, Extrema.max_over_levels levels⟩

/-- a NaN in any per-box entry makes the table entry NaN (it is not dropped by the reduction) -/
theorem nan_is_shown (l : List Extrema.V) (h : Extrema.V.nan ∈ l) :
    Extrema.reduce Extrema.vmin l = some .nan ∧ Extrema.reduce Extrema.vmax l = some .nan :=
  ⟨Extrema.reduce_nan _ (fun _ => rfl) (fun x => by cases x <;> rfl) l h,
   Extrema.reduce_nan _ (fun _ => rfl) (fun x => by cases x <;> rfl) l h⟩

/-- non-vacuity: three levels, a NaN on the second one; the finest level alone has finite extrema -/
example :
    Extrema.overLevels Extrema.vmin [[.fin 1, .fin (-2)], [.fin 0, .nan], [.fin 5, .ninf]] = some .nan ∧
    Extrema.finest Extrema.vmin [[.fin 1, .fin (-2)], [.fin 0, .nan], [.fin 5, .ninf]] = some .ninf ∧
    Extrema.finest Extrema.vmax [[.fin 1, .fin (-2)], [.fin 0, .nan], [.fin 5, .ninf]] = some (.fin 5) := by decide +kernel

/-- the pinned layout (`not len//2` as oddness test) drops the last of three fields
    (checked record of the repaired defect) -/
theorem pinned_drops_a_field : ¬ MenuProbe.Covers 3 := MenuProbe.covers_counterexample

example : MenuR.shown 5 = [some 0, some 3, some 1, some 4, some 2, none] := by decide

/-- **the listing shows every field exactly once** (`MenuClass.variables`: the first-match loop of `variables_finder` over
    the database in dictionary order, its `else` branch, the case-insensitive sort; the regular-expression subset of the
    database matched by `MenuClass.search`; all run by the driver on the database of the module under test and compared
    with the printed listing).  Whatever the database holds: nothing is listed twice; every field of the header is shown,
    under its own name or under the key of a database entry whose pattern finds it; every listed name is a field or such a
    key. -/
theorem listing_covers_once (t : List MenuClass.Entry) (fields : List String) (L : List String) (t' : List MenuClass.Entry)
    (h : MenuClass.variables t fields = some (L, t')) :
    L.Nodup ∧ (∀ f ∈ fields, f ∈ L ∨ ∃ key pat, MenuClass.search pat f = some true ∧ key ∈ L) ∧
    (∀ x ∈ L, x ∈ fields ∨ ∃ f ∈ fields, ∃ pat, MenuClass.search pat f = some true) :=
  MenuClass.variables_spec t fields L t' h

example : (MenuClass.variables [("temp", "^temp$", "[K]"), ("Y", "^Y\\(.+\\)$", "[-]"), ("velocity", "^\\w+_velocity$", "[m/s]")]
      ["Y", "x_velocity", "Y(H2)", "Zeta", "temp", "alpha", "y_velocity"]).map (·.1)
    = some ["alpha", "temp", "velocity", "Y", "Y(H2)", "Zeta"] := by decide +kernel

end C18
