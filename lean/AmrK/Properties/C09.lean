import AmrK.PestleMask
import AmrK.PestleIntegral
import AmrK.Hyps
import AmrK.PestleVFProofs
/-! # C09 — pestle integrates every point of the domain exactly once -/
namespace C09
open Pestle

/-- **For every even occupancy resolution `r` to which all box faces are aligned, the covering mask
    of a coarse box is defined (numpy raises no shape error) and marks exactly the cells that no box
    of the next level covers** — three dimensions, any mix of box sizes. -/
theorem mask_correct (r : Nat) (fine : Level) (b : Box) (l0 l1 l2 h0 h1 h2 g0 g1 g2 : Nat)
    (A : Aligned3 r fine b l0 l1 l2 h0 h1 h2 g0 g1 g2) :
    mask fine r b = some ((cells b.shape).map fun c => !covered fine b c) :=
  Pestle.mask_correct r fine b l0 l1 l2 h0 h1 h2 g0 g1 g2 A

/-- **The integral is the sum over the cells not covered by a finer selected level of value × cell
    volume: every point of the domain is counted exactly once** — any number of levels (the list is
    already truncated to the level limit), any mix of box sizes aligned to the resolution `r`. -/
theorem integral_eq_sum_over_uncovered (r : Nat) (lvls : List Level) (h : AlignedAll r lvls) :
    integralGo r lvls = some (integralSpec lvls) :=
  integralGo_eq_spec r lvls h

/-- the alignment hypothesis in decidable form, evaluated by the driver on every generated mesh:
    whenever it reports `aligned`, the conclusion holds -/
theorem integral_of_checked_alignment (r : Nat) (lvls : List Level) (h : alignedAllB r lvls = true) :
    integralGo r lvls = some (integralSpec lvls) :=
  Pestle.integral_of_checked r lvls h

/-- the per-axis arithmetic behind it: the mask lookup equals the true occupancy entry -/
theorem mask_entry (r lo c : Nat) (hr : 0 < r) (heven : r % 2 = 0) (hal : (2 * lo) % r = 0) (hc : lo ≤ c) :
    Probe.maskEntry r lo c = Probe.entry r c := Probe.maskEntry_eq r lo c hr heven hal hc
theorem aligned_lo (r l x : Nat) (hr : 0 < r) (hl : l % r = 0) : l / r ≤ x / r ↔ l ≤ x := aligned_lo_iff r l x hr hl
theorem aligned_hi (r h x : Nat) (hr : 0 < r) (hh : (h + 1) % r = 0) : x / r ≤ h / r ↔ x ≤ h := aligned_hi_iff r h x hr hh
theorem extent (r lo hi : Nat) (hr : 0 < r) (heven : r % 2 = 0) (hlo : (2 * lo) % r = 0) (hhi : (2 * hi + 2) % r = 0)
    (hle : lo ≤ hi) : ((2 * hi) / r - (2 * lo) / r + 1) * (r / 2) = hi + 1 - lo := mask_extent r lo hi hr heven hlo hhi hle

/-- the repaired resolution (gcd of all faces) divides every face: the alignment hypothesis of
    `mask_correct` is met by construction -/
theorem gcd_divides (l : List Nat) : ∀ x ∈ l, listGcd l ∣ x := by
  unfold listGcd
  have gen : ∀ (l : List Nat) (a : Nat), (l.foldl Nat.gcd a ∣ a) ∧ ∀ x ∈ l, l.foldl Nat.gcd a ∣ x := by
    intro l
    induction l with
    | nil => intro a; exact ⟨Nat.dvd_refl _, by intro x hx; cases hx⟩
    | cons y l ih =>
      intro a
      obtain ⟨h1, h2⟩ := ih (Nat.gcd a y)
      refine ⟨Nat.dvd_trans h1 (Nat.gcd_dvd_left a y), ?_⟩
      intro x hx
      rcases List.mem_cons.mp hx with rfl | hx
      · exact Nat.dvd_trans h1 (Nat.gcd_dvd_right a x)
      · exact h2 x hx
  exact (gen l 0).2

/-- the pinned resolution (smallest box extent) mis-registers a mixed mesh: boxes of 12 and 24
    cells, integral of 1 below the domain volume (checked record of the repaired defect) -/
example :
    let lv0 : Level := ⟨[12, 6, 6], [1, 1, 1], [⟨[0,0,0],[5,5,5], List.replicate 216 1⟩, ⟨[6,0,0],[11,5,5], List.replicate 216 1⟩]⟩
    let lv1 : Level := ⟨[24, 12, 12], [1/2, 1/2, 1/2], [⟨[4,0,0],[9,5,5], List.replicate 216 1⟩]⟩
    integral false [lv0, lv1] ≠ some (integralSpec [lv0, lv1]) ∧ integral true [lv0, lv1] = some (integralSpec [lv0, lv1]) := by
  decide +kernel

/-- **the call as made** (`x volume fraction when requested`, `any level limit, which restricts the
    integral to levels 0..limit`): for a field of the plotfile, with all components of every box, the
    volume-fraction flag and the limit as arguments, the result is the sum over the cells of levels
    `0 … limit` not covered by the next selected level of value × cell volume × (the volume fraction of
    that very cell, when requested and the plotfile holds `volFrac`) -/
theorem as_called (names : List String) (field : String) (useVF : Bool) (limit : Option Nat)
    (lvls : List MLevel) (i : Nat) (hi : names.idxOf? field = some i)
    (hal : alignedAllB (boxRez true (selected names field useVF limit lvls)) (selected names field useVF limit lvls) = true) :
    volumeIntegral names field useVF limit lvls = some (integralSpec (selected names field useVF limit lvls)) :=
  volumeIntegral_spec names field useVF limit lvls i hi hal

/-- the limit keeps levels `0 … limit`; a limit at or above the finest level keeps them all -/
theorem limit_levels (names : List String) (field : String) (useVF : Bool) (limit : Option Nat) (lvls : List MLevel) :
    (selected names field useVF limit lvls).length =
      match limit with
      | some l => min (l + 1) lvls.length
      | none => lvls.length :=
  selected_length names field useVF limit lvls

theorem unknown_field_is_an_error (names : List String) (field : String) (useVF : Bool) (limit : Option Nat)
    (lvls : List MLevel) (h : field ∉ names) : volumeIntegral names field useVF limit lvls = none :=
  volumeIntegral_unknown names field useVF limit lvls h

/-- the workers' weighted sums are the plain sums of the products (the step the weighting rests on) -/
theorem weighted_sum (data vf : List Rat) (m : List Bool) : sumMasked2 data vf m = sumMasked (mul data vf) m :=
  sumMasked2_eq data vf m

/-- non-vacuity: two coarse boxes (one un-refined, with cut cells), one fine box over the other,
    volume fractions different from 1, with and without the flag and with a limit -/
example :
    let c := fun (v : Rat) => List.replicate 8 v
    let lv0 : MLevel := ⟨[4, 2, 2], [1, 1, 1], [⟨[0,0,0],[1,1,1],[c 2, c (1/2)]⟩, ⟨[2,0,0],[3,1,1],[c 3, c (1/4)]⟩]⟩
    let lv1 : MLevel := ⟨[8, 4, 4], [1/2, 1/2, 1/2], [⟨[0,0,0],[3,3,3],[List.replicate 64 5, List.replicate 64 1]⟩]⟩
    volumeIntegral ["density", "volFrac"] "density" true none [lv0, lv1] = some (8 * 3 * (1/4) + 64 * 5 * (1/8)) ∧
    volumeIntegral ["density", "volFrac"] "density" false none [lv0, lv1] = some (8 * 3 + 64 * 5 * (1/8)) ∧
    volumeIntegral ["density", "volFrac"] "density" true (some 0) [lv0, lv1] = some (8 * 2 * (1/2) + 8 * 3 * (1/4)) ∧
    volumeIntegral ["density", "other"] "density" true none [lv0, lv1] = some (8 * 3 + 64 * 5 * (1/8)) := by
  decide +kernel

end C09
