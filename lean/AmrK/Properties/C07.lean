import AmrK.ColumnAffine
import AmrK.SlicingProofs
import AmrK.RatProbe
import AmrK.Grid
import AmrK.Hyps
/-! # C07 — mandoline 3D slices interpolate the right samples at every pixel

One-pixel column model (`Column.result`, `Column.gridLevel`: `compute_mpinput_3d`, the four cases of
`slice_box`, `reducemp_data_ortho` and the final interpolation, values over `Rat`), the executable
definition compared with every pixel of every generated slice. -/
namespace C07
open Column

/-- **Every pixel is determined by stored data only**: for a well-formed column (the level-0 boxes
    covering the pixel tile the cells `0 … N-1` along the normal) and *every* position in the closed
    domain, both samples of the pixel have been written before the pixel is computed — whatever
    boxes the finer levels hold. -/
theorem slice_initialised (c : Cfg) (bs : List CBox) (rest : List (List CBox)) (N : Nat)
    (hlv : c.levels = bs :: rest) (wf : WF0 c bs N) (h1 : c.g ≤ c.pos) (h2 : c.pos ≤ c.G) :
    (result c).isSome :=
  Column.slice_initialised c bs rest N hlv wf h1 h2

/-- the well-formedness hypothesis in decidable form, evaluated by the driver on every generated pixel
    column: whenever it reports `wf0`, the pixel is computed from stored data only -/
theorem initialised_of_checked_column (c : Cfg) (N : Nat) (h : wf0B c N = true) (h1 : c.g ≤ c.pos) (h2 : c.pos ≤ c.G) :
    (result c).isSome :=
  Column.initialised_of_checked c N h h1 h2

/-- **A field affine along the normal is reproduced exactly**: if every stored value is `a + b·centre`
    on every level, the pixel is `a + b·pos` — or the two samples are `isclose` and the pixel is the
    right one's value (the tolerance band of `numpy.isclose`, and the domain faces). -/
theorem slice_affine (a b : Rat) (c : Cfg)
    (hdata : ∀ l bs, c.levels[l]? = some bs → ∀ bx ∈ bs, BoxOnLine a b c l bx)
    (r : Rat) (hr : result c = some r) :
    r = a + b * c.pos ∨ ∃ L R : Sample, (reduce c).left = some L ∧ (reduce c).right = some R ∧
        close L.n R.n = true ∧ r = a + b * R.n :=
  Column.slice_affine a b c hdata r hr

/-- the interpolation formula itself: exact on affine data, constant on constant data -/
theorem lerp_affine (a b nL nR p : Rat) (h : nL ≠ nR) :
    RatProbe.lerp (a + b * nL) nL (a + b * nR) nR p = a + b * p := RatProbe.lerp_affine a b nL nR p h
theorem lerp_const (v nL nR p : Rat) (h : nL ≠ nR) : RatProbe.lerp v nL v nR p = v := RatProbe.lerp_const v nL nR p h

/-- in-plane placement of every box's plane data (`expand_array` + slice assignment) -/
theorem inplane_placement (b : Grid.GBox) (f : Nat) (hf : 0 < f) (p : List Nat) :
    Grid.modelVal b f p = Grid.specVal b f p := Grid.modelVal_eq_specVal b f hf p

/-- the pinned selection rule read never-written memory in the half cell next to a box face
    (checked record of the repaired defect) -/
example : result ⟨0, 4, 1, [[⟨0, [1, 2]⟩, ⟨2, [3, 4]⟩]], 7/4, false⟩ = none := by decide +kernel
/-- non-vacuity: the repaired rule interpolates between the two neighbouring boxes there -/
example : result ⟨0, 4, 1, [[⟨0, [1, 2]⟩, ⟨2, [3, 4]⟩]], 7/4, true⟩ = some (9/4) := by decide +kernel

/-- **the default position is the domain centre** (`Slicing.coords` = `Mandoline.define_slicing_coordinates`, run by the driver on
    the exact values of the header's floats and compared with what the real method returns or refuses for every position tried,
    including positions one unit in the last place outside the domain) -/
theorem default_position_is_centre (normal : Option Nat) (lo hi : List Rat) (h : normal.getD 0 < 3) :
    ∃ c, Slicing.coords normal none lo hi = some c ∧ c.cn = normal.getD 0 ∧
      c.pos = Slicing.entry lo c.cn + (Slicing.entry hi c.cn - Slicing.entry lo c.cn) / 2 ∧
      c.cx < c.cy ∧ c.cx ≠ c.cn ∧ c.cy ≠ c.cn ∧ c.cy < 3 :=
  Slicing.default_is_centre normal lo hi h

/-- **positions outside the domain are refused**, however little outside -/
theorem position_outside_refused (normal : Option Nat) (p : Rat) (lo hi : List Rat)
    (hout : p < Slicing.entry lo (normal.getD 0) ∨ p > Slicing.entry hi (normal.getD 0)) :
    Slicing.coords normal (some p) lo hi = none :=
  Slicing.outside_refused normal p lo hi hout

/-- ... and every position of the closed domain is sliced at that very position -/
theorem position_inside_kept (normal : Option Nat) (p : Rat) (lo hi : List Rat) (h : normal.getD 0 < 3)
    (hin : Slicing.entry lo (normal.getD 0) ≤ p ∧ p ≤ Slicing.entry hi (normal.getD 0)) :
    ∃ c, Slicing.coords normal (some p) lo hi = some c ∧ c.cn = normal.getD 0 ∧ c.pos = p :=
  Slicing.inside_kept normal p lo hi h hin

end C07
