import AmrK.ColumnAffine
import AmrK.RatProbe
import AmrK.Grid
import AmrK.Hyps
/-! # C07 — mandoline 3D slices interpolate the right samples at every pixel

One-pixel column model (`Column.result`, `Column.gridLevel`: `compute_mpinput_3d`, the four cases of
`slice_box`, `reducemp_data_ortho` and the final interpolation, values over `Rat`), the executable
definition compared with every pixel of every generated slice. -/
namespace C07
open Column

/-- **Every pixel is determined by stored data only**: for a well-formed column (the level-0 boxes
    covering the pixel tile the cells `0 … N-1` along the normal) and *every* position in the closed
    domain, both samples of the pixel have been written before the pixel is computed — whatever
    boxes the finer levels hold. -/
theorem slice_initialised (c : Cfg) (bs : List CBox) (rest : List (List CBox)) (N : Nat)
    (hlv : c.levels = bs :: rest) (wf : WF0 c bs N) (h1 : c.g ≤ c.pos) (h2 : c.pos ≤ c.G) :
    (result c).isSome :=
  Column.slice_initialised c bs rest N hlv wf h1 h2

/-- the well-formedness hypothesis in decidable form, evaluated by the driver on every generated pixel
    column: whenever it reports `wf0`, the pixel is computed from stored data only -/
theorem initialised_of_checked_column (c : Cfg) (N : Nat) (h : wf0B c N = true) (h1 : c.g ≤ c.pos) (h2 : c.pos ≤ c.G) :
    (result c).isSome :=
  Column.initialised_of_checked c N h h1 h2

/-- **A field affine along the normal is reproduced exactly**: if every stored value is `a + b·centre`
    on every level, the pixel is `a + b·pos` — or the two samples are `isclose` and the pixel is the
    right one's value (the tolerance band of `numpy.isclose`, and the domain faces). -/
theorem slice_affine (a b : Rat) (c : Cfg)
    (hdata : ∀ l bs, c.levels[l]? = some bs → ∀ bx ∈ bs, BoxOnLine a b c l bx)
    (r : Rat) (hr : result c = some r) :
    r = a + b * c.pos ∨ ∃ L R : Sample, (reduce c).left = some L ∧ (reduce c).right = some R ∧
        close L.n R.n = true ∧ r = a + b * R.n :=
  Column.slice_affine a b c hdata r hr

/-- the interpolation formula itself: exact on affine data, constant on constant data -/
theorem lerp_affine (a b nL nR p : Rat) (h : nL ≠ nR) :
    RatProbe.lerp (a + b * nL) nL (a + b * nR) nR p = a + b * p := RatProbe.lerp_affine a b nL nR p h
theorem lerp_const (v nL nR p : Rat) (h : nL ≠ nR) : RatProbe.lerp v nL v nR p = v := RatProbe.lerp_const v nL nR p h

/-- in-plane placement of every box's plane data (`expand_array` + slice assignment) -/
theorem inplane_placement (b : Grid.GBox) (f : Nat) (hf : 0 < f) (p : List Nat) :
    Grid.modelVal b f p = Grid.specVal b f p := Grid.modelVal_eq_specVal b f hf p

/-- the pinned selection rule read never-written memory in the half cell next to a box face
    (checked record of the repaired defect) -/
example : result ⟨0, 4, 1, [[⟨0, [1, 2]⟩, ⟨2, [3, 4]⟩]], 7/4, false⟩ = none := by decide +kernel
/-- non-vacuity: the repaired rule interpolates between the two neighbouring boxes there -/
example : result ⟨0, 4, 1, [[⟨0, [1, 2]⟩, ⟨2, [3, 4]⟩]], 7/4, true⟩ = some (9/4) := by decide +kernel

end C07
