import AmrK.Grid
import AmrK.NamesMore
import AmrK.CoordsProofs
/-! # C08 — mandoline 2D flattening equals the finest-level covering grid exactly -/
namespace C08
open Grid

/-- **In-plane placement**: `expand_array(arr, f)` written into the slice `[lo·f, (hi+1)·f)` puts at
    every fine cell the stored value of the coarse cell containing it, and nothing elsewhere
    (the repeat/reshape and slice arithmetic as written vs. the specification `p / f`). -/
theorem placement (b : GBox) (f : Nat) (hf : 0 < f) (p : List Nat) : modelVal b f p = specVal b f p :=
  modelVal_eq_specVal b f hf p

/-- **The flattened grid holds at every pixel the value (and level) of the last box, in write order
    coarse to fine, whose footprint contains the pixel** — for any number of levels and boxes. -/
theorem last_covering_wins (levels : List (List GBox)) (L : Nat) (p : List Nat) :
    coverAt levels L p =
      match (writes levels).reverse.find? (fun w => (specVal w.2 (factor L w.1) p).isSome) with
      | some w => (specVal w.2 (factor L w.1) p).map fun v => (v, w.1)
      | none => none :=
  coverAt_last levels L p

/-- **… which is the finest covering box** when writes are level-ordered and boxes of one level
    agree where they overlap (they are disjoint in a well-formed plotfile) -/
theorem finest_covering {Pix α : Type} (ws : List (Cover.LWrite Pix α)) (a : Pix → Option α) (p : Pix) (w : Cover.LWrite Pix α)
    (hs : Cover.Sorted ws) (hw : w ∈ ws) (hc : w.covers p = true)
    (hmax : ∀ w' ∈ ws, w'.covers p = true → w'.lv ≤ w.lv)
    (hagree : ∀ w' ∈ ws, w'.lv = w.lv → w'.covers p = true → w'.val p = w.val p) :
    ws.foldl Cover.applyL a p = some (w.val p) :=
  Cover.cover_finest ws a p w hs hw hc hmax hagree

theorem region (f lo hi p : Nat) (hf : 0 < f) : (lo * f ≤ p ∧ p < (hi + 1) * f) ↔ (lo ≤ p / f ∧ p / f ≤ hi) :=
  Cover.region_iff f lo hi p hf
theorem repeat_reshape (n1 f i j : Nat) (hf : 0 < f) (hj : j < n1 * f) : (i * (n1 * f) + j) / f = i * n1 + j / f :=
  Cover.repeat_reshape_index n1 f i j hf hj

/-- non-vacuity: a 4x2 level-0 box and a finer 2x2 box over its first coarse cell, flattened at L = 1 -/
example :
    (cells [8, 4]).map (fun p => (coverAt [[⟨[0, 0], [3, 1], [1, 2, 3, 4, 5, 6, 7, 8]⟩], [⟨[0, 0], [1, 1], [10, 20, 30, 40]⟩]] 1 p).map (·.1))
      = [some 10, some 20, some 2, some 2, some 3, some 3, some 4, some 4,
         some 30, some 40, some 2, some 2, some 3, some 3, some 4, some 4,
         some 5, some 5, some 6, some 6, some 7, some 7, some 8, some 8,
         some 5, some 5, some 6, some 6, some 7, some 7, some 8, some 8] := by decide +kernel

/-- **for every requested field**: an explicit list of existing field names (and `grid_level`) is
    returned under exactly those names in request order, each read from the component holding that
    name, and the grid-level map is produced iff asked for; a name that is neither is refused -/
theorem requested_fields (names r : List String) (hall : "all" ∉ r)
    (hex : ∀ x ∈ r, x = "grid_level" ∨ x ∈ names) :
    ∃ idx, Names.mandolineIdx names (some r) = some idx ∧ idx.length = r.length ∧
      Names.mandolineNames names idx = r.filter (· != "grid_level") ∧
      Names.mandolineGrid idx = r.contains "grid_level" :=
  Names.mandoline_list names r hall hex

/-- `all` anywhere in the request: every field of the file, in file order, plus the grid-level map -/
theorem all_fields (names r : List String) (h : "all" ∈ r) :
    ∃ idx, Names.mandolineIdx names (some r) = some idx ∧ Names.mandolineNames names idx = names ∧
      Names.mandolineGrid idx = true :=
  Names.mandoline_all names r h

theorem unknown_field_refused (names r : List String) (hall : "all" ∉ r) (x : String) (hx : x ∈ r)
    (hg : x ≠ "grid_level") (hn : x ∉ names) : Names.mandolineIdx names (some r) = none :=
  Names.mandoline_unknown names r hall x hx hg hn

/-- non-vacuity: a plain field before and after the pseudo field, on a file that also holds `Y(OH)` -/
example : Names.mandolineIdx ["Y_OH", "temp", "Y(OH)"] (some ["Y_OH", "grid_level", "Y(OH)"]) = some [some 0, none, some 2] ∧
    Names.mandolineNames ["Y_OH", "temp", "Y(OH)"] [some 0, none, some 2] = ["Y_OH", "Y(OH)"] := by decide +kernel

/-- **the cell-centre coordinates of that grid**: `np.linspace(lo + dx/2, hi - dx/2, n)` over a domain
    of `n` cells of size `dx` is, entry by entry, the centre of each cell (exact arithmetic) -/
theorem coordinates_are_cell_centres (lo hi dx : Rat) (n : Nat) (h : hi = lo + (n : Rat) * dx) :
    Coords.axis lo hi dx n = Coords.centres lo dx n ∧ (Coords.axis lo hi dx n).length = n :=
  ⟨Coords.axis_eq_centres lo hi dx n h, Coords.axis_length lo hi dx n⟩

example : Coords.axis (-1) 2 (1/2) 6 = [-3/4, -1/4, 1/4, 3/4, 5/4, 7/4] := by decide +kernel

end C08
