import AmrK.TasteDataProofs
import AmrK.HeaderCodec
import AmrK.CellHCodec
import AmrK.ColumnAffine
import AmrK.Chunks
import AmrK.ChunksCover
import AmrK.Basic
import AmrK.MeetsProofs
import AmrK.HeaderRewriteProofs
import AmrK.Obligations.MandolineLiteral
/-! # C16 — mandoline's plotfile-format slice is a valid 2D plotfile of the plane data

The data written for level `l` at a cell is the column model (C07) evaluated on the configuration
truncated to levels `0 … l`; what C16 adds is the box list, the chunking over binary files and the
header literal. -/
namespace C16
open Column

/-- the column configuration of level `l`: levels `0 … l` of the same column -/
def truncate (l : Nat) (c : Cfg) : Cfg := { c with levels := c.levels.take (l + 1) }

/-- **Every cell of every written box of every level is determined by stored data**: the truncated
    configuration is still well-formed (level 0 is kept), so `slice_initialised` applies. -/
theorem level_data_initialised (c : Cfg) (bs : List CBox) (rest : List (List CBox)) (N l : Nat)
    (hlv : c.levels = bs :: rest) (wf : WF0 c bs N) (h1 : c.g ≤ c.pos) (h2 : c.pos ≤ c.G) :
    (result (truncate l c)).isSome := by
  apply Column.slice_initialised (truncate l c) bs (rest.take l) N
  · simp [truncate, hlv, List.take_succ_cons]
  · exact ⟨wf.fixed, wf.d0pos, wf.Npos, wf.Gdef, wf.inside, wf.cover⟩
  · exact h1
  · exact h2

/-- **Affine fields are reproduced exactly in every box of every level** (up to the `isclose` band) -/
theorem level_data_affine (a b : Rat) (c : Cfg) (l : Nat)
    (hdata : ∀ k bs, c.levels[k]? = some bs → ∀ bx ∈ bs, BoxOnLine a b c k bx)
    (r : Rat) (hr : result (truncate l c) = some r) :
    r = a + b * c.pos ∨ ∃ L R : Sample, (reduce (truncate l c)).left = some L ∧ (reduce (truncate l c)).right = some R ∧
        close L.n R.n = true ∧ r = a + b * R.n := by
  have := Column.slice_affine a b (truncate l c) ?_ r hr
  · exact this
  · intro k bs hk bx hbx
    have hk' : c.levels[k]? = some bs := by
      simp only [truncate] at hk
      rw [List.getElem?_take] at hk
      split at hk
      · exact hk
      · cases hk
    exact hdata k bs hk' bx hbx

/-- **Chunking over binary files**: with the repaired chunk size `max ⌈n/nfiles⌉ 1` the `n` boxes
    need at most `nfiles` chunks (so every box gets a file name; `zip` drops nothing) -/
theorem chunks_le (n k : Nat) (hk : 0 < k) : Chunks.cdiv n (max (Chunks.cdiv n k) 1) ≤ k := Chunks.chunks_le n k hk

/-- and the chunks cover all `n` boxes -/
theorem chunks_cover (n k : Nat) (hk : 0 < k) : n ≤ max (Chunks.cdiv n k) 1 * Chunks.cdiv n (max (Chunks.cdiv n k) 1) :=
  Chunks.le_mul_cdiv n _ (by omega)

/-- **every listed box is written to exactly one binary file, in order**: with the repaired chunk size
    and the `nfiles + 1` names the code prepares, the chunks `boxes[i : i + chunk]` concatenate to
    all `n` boxes — for all `n` and `nfiles` -/
theorem every_box_written_once (n nfiles : Nat) (hf : 0 < nfiles) :
    (Chunks.written n (max (Chunks.cdiv n nfiles) 1) (nfiles + 1)).flatten = List.range n :=
  Chunks.repaired_covers n nfiles hf

/-- the FAB header literal duplicated in `write_cell_data_at_level` equals `header_from_indices`'
    (regenerated from the source on every run) — otherwise taste rejects the slice -/
theorem header_literal : Generated.mandolineHeaderConst = Generated.utilsHeaderConst := Generated.mandolineHeader_eq_utilsHeader
theorem threshold : Generated.mandolineChunkBytes = 1000000 := Generated.chunk_threshold

/-- the pinned arithmetic `chunk = n // nfiles` loses the 11th of 11 boxes over 4 files and divides
    by zero for fewer boxes than files (checked record of the repaired defect) -/
example : Probe.chunkOK 11 4 = false ∧ Probe.chunkOK 3 4 = false := by decide

/-- **the headers of the written plotfile are read back as what they were printed from**: the
    global header as its content (fields, mesh, time) and each level header as its index ranges,
    binary files and offsets - for every number of fields, levels and boxes (the renderers are
    compared byte for byte with the `Header` / `Cell_H` files the tool writes on every run) -/
theorem written_headers_read_back (H : Header.HData) (hg : H.Good) (nf : Nat) (rows : List Taste.BoxRow)
    (hr : ∀ r ∈ rows, r.Good) :
    Header.parse (Header.render H) none = .ok (H.meta H.levels.length) ∧
      Taste.parseCellH (Taste.renderCellH nf rows) nf = .ok (rows.map Taste.BoxRow.entry) :=
  ⟨Header.parse_render H hg, Taste.parseCellH_render nf rows hr⟩

/-- **every box the plane meets, each exactly once**: along the normal through any in-plane cell the boxes of a level
    are stacked face to face (`f₀ < f₁ < … < fₙ`); for every plane position in the closed domain - inside a box, on a
    face shared by two boxes, on either face of the domain - the test of `write_cell_data_at_level` selects exactly one
    box of the stack (exact arithmetic; the executable test is compared with the boxes every written slice lists) -/
theorem each_box_once (fs : List Rat) (hs : fs.Pairwise (· < ·)) (g G pos : Rat) (hlen : 2 ≤ fs.length)
    (hg : fs.head? = some g) (hG : fs.getLast? = some G) (h1 : g ≤ pos) (h2 : pos ≤ G) :
    (Meets.selected G pos fs).length = 1 :=
  Meets.selected_once fs hs g G pos hlen hg hG h1 h2

/-- a plane on a face shared by two boxes belongs to the upper box only -/
theorem shared_face_upper (G a b c : Rat) (hab : a < b) (hbc : b < c) (hc : c ≤ G) :
    Meets.meets G b a b = false ∧ Meets.meets G b b c = true := Meets.shared_face G a b c hab hbc hc

example : Meets.selected 3 1 [0, 1, 2, 3] = [(1, 2)] ∧ Meets.selected 3 3 [0, 1, 2, 3] = [(2, 3)] ∧
    Meets.selected 3 0 [0, 1, 2, 3] = [(0, 1)] := by decide +kernel

/-- **the 2D header carries the input's time and in-plane geometry** (`write_2d_slice_global_header`, the executable
    writer model `Header.slice2D` applied to the reader model's parse of the 3D input header; compared byte for byte with
    the `Header` of every written slice): two dimensions, the sliced field names, the input's time, levels `0 … limit`,
    the in-plane components of the domain bounds and of each level's cell sizes and grid sizes, and per level exactly the
    in-plane bounds of the selected boxes (those `each_box_once` is about), in order -/
theorem slice_header_content (m : Header.Meta) (coord : Py.Bytes) (names : List Py.Bytes) (cx cy : Nat) (sel : List (List Nat)) :
    let n := (m.limitLevel + 1).toNat
    let H := Header.slice2D id m coord names cx cy sel
    let M := H.meta H.levels.length
    H.levels.length = n ∧ M.ndims = 2 ∧ M.fields = Header.tableOf names ∧ M.time = m.time ∧
    M.geoLo = [m.geoLo.getD cx [], m.geoLo.getD cy []] ∧ M.geoHi = [m.geoHi.getD cx [], m.geoHi.getD cy []] ∧
    M.dx = (m.dx.take n).map (fun d => [d.getD cx [], d.getD cy []]) ∧
    M.gridSizes = (m.gridSizes.take n).map (fun g => [g.getD cx 0, g.getD cy 0]) ∧
    M.steps = m.steps.take n ∧
    M.boxes = (List.range n).map (fun lv => (sel.getD lv []).map fun i => Header.box2D id cx cy ((m.boxes.getD lv []).getD i [])) ∧
    M.npoints = (List.range n).map (fun lv => ((sel.getD lv []).length : Int)) :=
  Header.slice2D_meta m coord names cx cy sel

/-- … and that header is read back as this content whenever it passes the executable check (evaluated on every written slice) -/
theorem slice_header_read_back (fl : Py.Bytes → Py.Bytes) (m : Header.Meta) (coord : Py.Bytes) (names : List Py.Bytes) (cx cy : Nat)
    (sel : List (List Nat)) (hg : (Header.slice2D fl m coord names cx cy sel).goodB = true) :
    Header.parse (Header.render (Header.slice2D fl m coord names cx cy sel)) none =
      .ok ((Header.slice2D fl m coord names cx cy sel).meta (Header.slice2D fl m coord names cx cy sel).levels.length) :=
  Header.slice2D_read_back fl m coord names cx cy sel hg

/-- **true extrema** (the rows the driver recomputes from the bytes of every written FAB with `TasteData.fabExtrema` and
    compares with the written level header): the `np.min` / `np.max` of a NaN-free block of values is an element of the
    block below / above every element; a block holding a NaN has NaN for both -/
theorem extrema_are_true (l : List Extrema.V) (hne : l ≠ []) (hl : TasteData.NoNan l) :
    (∃ m, Extrema.reduce Extrema.vmin l = some m ∧ m ∈ l ∧ ∀ x ∈ l, Extrema.le m x = true) ∧
    (∃ m, Extrema.reduce Extrema.vmax l = some m ∧ m ∈ l ∧ ∀ x ∈ l, Extrema.le x m = true) :=
  ⟨TasteData.reduce_vmin_spec l hne hl, TasteData.reduce_vmax_spec l hne hl⟩

theorem extrema_nan (l : List Extrema.V) (h : Extrema.V.nan ∈ l) :
    Extrema.reduce Extrema.vmin l = some .nan ∧ Extrema.reduce Extrema.vmax l = some .nan :=
  ⟨Extrema.reduce_nan _ (by intro x; cases x <;> rfl) (by intro x; cases x <;> rfl) l h,
   Extrema.reduce_nan _ (by intro x; cases x <;> rfl) (by intro x; cases x <;> rfl) l h⟩

example : TasteData.fabExtrema ([0,0,0,0,0,0,0xF0,0x3F] ++ [0,0,0,0,0,0,0x08,0xC0]) 2 0 = some (.fin (-3), .fin 1) := by
  decide +kernel

end C16
