import AmrK.TasteDataProofs
import AmrK.TasteProofs
import AmrK.TasteCoordsProofs
import AmrK.TasteComplete
import AmrK.TasteLevelSound
import AmrK.TastePltSound
/-! # C04 — taste rejects missing, truncated, shifted or inconsistent plotfile data

Soundness of the validator's byte walk: acceptance implies a *declarative* layout of the file, so
each listed layout fault (truncated, extended, bytes inserted or removed, wrong box shape or
component count, non-canonical later header) — the negation of one conjunct — is rejected. -/
namespace C04
open Py Taste

/-- **If `mp_fun_shape`'s walk accepts a file, the file *is* a chain**: header line · payload of the
    announced size · canonical header of the next entry · … ending exactly at end of file.
    No hypothesis on the bytes except that no line parses to a degenerate (negative-size) header. -/
theorem shape_check_sound (raw : Bytes) (nf : Nat) (es : List Entry) (hnd : NoDegenerate raw)
    (hne : es ≠ []) (hcan : ∀ e ∈ es, canonHeader e.lo e.hi nf ≠ [])
    (h : shapeOK raw nf es = true) : Layout nf raw es :=
  shapeOK_sound raw nf es hnd hne hcan h

/-- **What acceptance of a level by default validation means**: the level header parses, every
    referenced binary file is present, and for every file the header check and the byte walk both
    accept that file's entries taken in offset order -/
theorem level_accepts (cellH : Bytes) (nf : Nat) (files : List (String × Bytes))
    (h : (tasteLevel cellH nf files).1 = true) :
    ∃ entries, parseCellH cellH nf = .ok entries ∧
      ∀ n ∈ dedup (entries.map (·.file)), ∃ raw, files.lookup n = some raw ∧
        headersOK raw nf (sortByOffset (entries.filter (·.file == n))) = true ∧
        shapeOK raw nf (sortByOffset (entries.filter (·.file == n))) = true :=
  tasteLevel_accepts cellH nf files h

/-- **… hence every binary file of an accepted level is a chain** along its entries in offset order -/
theorem accepted_level_is_chain (cellH : Bytes) (nf : Nat) (files : List (String × Bytes))
    (h : (tasteLevel cellH nf files).1 = true) :
    ∃ entries, parseCellH cellH nf = .ok entries ∧
      ∀ n ∈ dedup (entries.map (·.file)), ∃ raw, files.lookup n = some raw ∧
        (NoDegenerate raw → sortByOffset (entries.filter (·.file == n)) ≠ [] →
          Layout nf raw (sortByOffset (entries.filter (·.file == n)))) :=
  accepted_level_layout cellH nf files h

/-- **whole plotfile**: if default validation reports good then the global header parses and, in every
    validated level, the directory and level header exist, the level header parses, every binary file it
    names is present, passes the header check, and is a chain header line · payload of the announced
    size · canonical next header · … ending exactly at its end (entries in offset order).  Every listed
    fault negates one conjunct. -/
theorem good_plotfile_layout (header : Bytes) (limit : Option Int) (dirs : List (String × LevelDir))
    (h : (tastePlt header limit dirs true true).1 = true) :
    ∃ m, Header.parse header limit = .ok m ∧
      ∀ p ∈ m.cellPaths, ∃ d c entries, dirs.lookup (String.fromUTF8! ⟨p.toArray⟩) = some d ∧ d.cellH = some c ∧
        parseCellH c m.fields.length = .ok entries ∧
        ∀ n ∈ dedup (entries.map (·.file)), ∃ raw, d.files.lookup n = some raw ∧
          headersOK raw m.fields.length (sortByOffset (entries.filter (·.file == n))) = true ∧
          (NoDegenerate raw → sortByOffset (entries.filter (·.file == n)) ≠ [] →
            Layout m.fields.length raw (sortByOffset (entries.filter (·.file == n)))) :=
  Taste.good_plotfile_layout header limit dirs h

/-- a validated level whose directory is missing is never reported good, whatever the options -/
theorem missing_level_rejected (header : Bytes) (limit : Option Int) (dirs : List (String × LevelDir)) (cH cS : Bool)
    (m : Header.Meta) (hm : Header.parse header limit = .ok m) (p : Bytes) (hp : p ∈ m.cellPaths)
    (hmiss : dirs.lookup (String.fromUTF8! ⟨p.toArray⟩) = none) :
    (tastePlt header limit dirs cH cS).1 = false :=
  Taste.missing_dir_rejected header limit dirs cH cS m hm p hp hmiss

/-- a last entry's layout fixes the file length: truncating or extending the file by any number of
    bytes breaks `Layout` (the conjunct the walk checks with `bf.seek(0, 2)`) -/
theorem last_length_determined (nf : Nat) (s : Bytes) (e : Entry) (h : Layout nf s [e]) :
    ∃ hd, parseFabHeader (lineOf s) = some hd ∧ (s.length : Int) = ((lineOf s).length : Int) + hd.nbytes := by
  cases h with
  | last _ _ hd hp _ hlen => exact ⟨hd, hp, hlen⟩

/-- canonical headers are never empty (side condition `hcan` of `shape_check_sound` is always met
    for entries with non-empty index lists) -/
theorem canonical_nonempty (lo hi : List Int) (nf : Nat) : Reader.IsLine (canonB lo hi nf) :=
  isLine_canonB lo hi nf

/-- non-vacuity: the well-formed two-FAB file is accepted, its truncation by one byte and its
    extension by one byte are rejected -/
example :
    shapeOK (fileOf 1 [(⟨[0,0,0],[1,0,0],"f",0⟩, List.replicate 16 1)]) 1 [⟨[0,0,0],[1,0,0],"f",0⟩] = true ∧
    shapeOK ((fileOf 1 [(⟨[0,0,0],[1,0,0],"f",0⟩, List.replicate 16 1)]).dropLast) 1 [⟨[0,0,0],[1,0,0],"f",0⟩] = false ∧
    shapeOK (fileOf 1 [(⟨[0,0,0],[1,0,0],"f",0⟩, List.replicate 16 1)] ++ [0]) 1 [⟨[0,0,0],[1,0,0],"f",0⟩] = false := by
  decide +kernel

/-- **what an accepted box-coordinate check means** (exact arithmetic): the physical bounds lie within numpy's tolerance
    band `1e-8 + 1e-5·|bound|` of the faces of the box's index range -/
theorem coordinates_sound (lo hi dx : Rat) (n : Nat) (i0 i1 : Nat) (h0 : i0 < n) (h1 : i1 < n) (h : hi = lo + (n : Rat) * dx)
    (blo bhi : Rat) (hok : TasteCoords.axisOK lo hi dx n i0 i1 blo bhi = some true) :
    |lo + (i0 : Rat) * dx - blo| ≤ TasteCoords.tol blo ∧ |lo + ((i1 : Rat) + 1) * dx - bhi| ≤ TasteCoords.tol bhi :=
  TasteCoords.axisOK_sound lo hi dx n i0 i1 h0 h1 h blo bhi hok

/-- **a box whose lower bound is off by a whole number of cells is rejected** whenever a cell is wider than the tolerance
    band at that bound -/
theorem shifted_bound_rejected (lo hi dx : Rat) (n : Nat) (i0 i1 : Nat) (h0 : i0 < n) (h1 : i1 < n) (h : hi = lo + (n : Rat) * dx)
    (k : Int) (hk : k ≠ 0) (bhi : Rat) (hdx : TasteCoords.tol (lo + ((i0 : Rat) + k) * dx) < dx) :
    TasteCoords.axisOK lo hi dx n i0 i1 (lo + ((i0 : Rat) + k) * dx) bhi ≠ some true :=
  TasteCoords.shifted_lo_rejected lo hi dx n i0 i1 h0 h1 h k hk bhi hdx

example : TasteCoords.axisOK (-1) 3 (1/2) 8 2 5 0 2 = some true ∧ TasteCoords.axisOK (-1) 3 (1/2) 8 2 5 (1/2) 2 = some false ∧
    TasteCoords.axisOK (-1) 3 (1/2) 8 2 8 0 2 = none ∧ TasteCoords.axisOK (-1) 3 (1/2) 8 (-6) 5 0 2 = some true := by decide +kernel

/-- **what acceptance of the binary data means** (`binary_data`): every FAB the sequential scan meets has a row, every
    checked component exists in it, and the recorded minimum / maximum is `np.isclose(..., equal_nan=True)` to the extremum
    of the stored values: both NaN, the same infinity, or two finite numbers within numpy's band `1e-8 + 1e-5·|stored|` -/
theorem binary_data_sound (fields : List Nat) (rows : List (List (Extrema.V × Extrema.V))) (fabs : List (Taste.Hdr × Py.Bytes))
    (hg : TasteData.fileOK fields rows fabs = .good) :
    fabs.length ≤ rows.length ∧
    ∀ (i : Nat) (r : List (Extrema.V × Extrema.V)) (p : Taste.Hdr × Py.Bytes), rows[i]? = some r → fabs[i]? = some p →
      ∀ f ∈ fields, f < p.1.nf.toNat ∧ ∃ mn mx hmn hmx,
        TasteData.fabExtrema p.2 (Reader.ncells p.1).toNat f = some (mn, mx) ∧ r[f]? = some (hmn, hmx) ∧
        TasteData.vclose hmn mn = true ∧ TasteData.vclose hmx mx = true := by
  obtain ⟨h1, h2⟩ := TasteData.fileOK_sound fields rows fabs hg
  exact ⟨h1, fun i r p hr hp => TasteData.fabOK_sound fields r p.1 p.2 (h2 i r p hr hp)⟩

/-- … where closeness is exactly: -/
theorem binary_data_close (a b : Extrema.V) :
    TasteData.vclose a b = true ↔
      (a = .nan ∧ b = .nan) ∨ (a = .pinf ∧ b = .pinf) ∨ (a = .ninf ∧ b = .ninf) ∨
      ∃ x y, a = .fin x ∧ b = .fin y ∧ |x - y| ≤ TasteCoords.tol y :=
  TasteData.vclose_iff a b

end C04
