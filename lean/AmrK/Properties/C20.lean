import AmrK.ReadAfterTaste
import AmrK.TasteProofs
/-! # C20 — whatever taste accepts, the reader can read completely and consistently -/
namespace C20
open Py Taste Reader ReaderR

/-- **A recorded offset anywhere inside a FAB's header line whose remaining text still parses reads
    exactly that FAB's payload** (all fields, shape of the parsed header): the reader and the header
    check of the validator look at the same line, so acceptance implies a consistent read. -/
theorem read_after_accept (pre L payload post : Bytes) (h' : Hdr) (n nf d : Nat)
    (hl : IsLine L) (hd : d < L.length)
    (hp : parseFabHeader (L.drop d) = some h')
    (hcells : ncells h' = (n : Int)) (hn : 0 < n) (hnf : h'.nf = (nf : Int))
    (hlen : payload.length = n * nf * 8) :
    ∃ s e st, sliceIndices none none none (nf : Int) = some (s, e, st) ∧
      readR (pre ++ L ++ payload ++ post) (pre.length + d) (nf : Int) (.slice none none none)
        = some ⟨spatial h' ++ [((pyRange s e st).length : Int)],
                (pyRange s e st).map fun i => block payload n i.toNat⟩ :=
  read_inside_header pre L payload post h' n nf d hl hd hp hcells hn hnf hlen

/-- what acceptance by the walk gives the reader to rely on (from C04) -/
theorem accepted_layout (raw : Bytes) (nf : Nat) (es : List Entry) (hnd : NoDegenerate raw)
    (hne : es ≠ []) (hcan : ∀ e ∈ es, canonHeader e.lo e.hi nf ≠ [])
    (h : shapeOK raw nf es = true) : Layout nf raw es :=
  shapeOK_sound raw nf es hnd hne hcan h

end C20
