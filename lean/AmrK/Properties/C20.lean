import AmrK.ReadAfterTaste
import AmrK.JunkPrefix
import AmrK.TasteProofs
import AmrK.TastePltSound
/-! # C20 — whatever taste accepts, the reader can read completely and consistently -/
namespace C20
open Py Taste Reader ReaderR

/-- **A recorded offset anywhere inside a FAB's header line whose remaining text still parses reads
    exactly that FAB's payload** (all fields, shape of the parsed header): the reader and the header
    check of the validator look at the same line, so acceptance implies a consistent read. -/
theorem read_after_accept (pre L payload post : Bytes) (h' : Hdr) (n nf d : Nat)
    (hl : IsLine L) (hd : d < L.length)
    (hp : parseFabHeader (L.drop d) = some h')
    (hcells : ncells h' = (n : Int)) (hn : 0 < n) (hnf : h'.nf = (nf : Int))
    (hlen : payload.length = n * nf * 8) :
    ∃ s e st, sliceIndices none none none (nf : Int) = some (s, e, st) ∧
      readR (pre ++ L ++ payload ++ post) (pre.length + d) (nf : Int) (.slice none none none)
        = some ⟨spatial h' ++ [((pyRange s e st).length : Int)],
                (pyRange s e st).map fun i => block payload n i.toNat⟩ :=
  read_inside_header pre L payload post h' n nf d hl hd hp hcells hn hnf hlen

/-- what acceptance by the walk gives the reader to rely on (from C04) -/
theorem accepted_layout (raw : Bytes) (nf : Nat) (es : List Entry) (hnd : NoDegenerate raw)
    (hne : es ≠ []) (hcan : ∀ e ∈ es, canonHeader e.lo e.hi nf ≠ [])
    (h : shapeOK raw nf es = true) : Layout nf raw es :=
  shapeOK_sound raw nf es hnd hne hcan h

/-- **whole plotfile**: if default validation reports good then every box listed in the level header
    of every validated level has its binary file, and at its recorded byte position stands a FAB header
    line naming exactly its index range with the plotfile's component count - the premise of
    `read_after_accept` for every box the indexing interface can be asked for -/
theorem good_plotfile_entries (header : Bytes) (limit : Option Int) (dirs : List (String × LevelDir))
    (h : (tastePlt header limit dirs true true).1 = true) :
    ∃ m, Header.parse header limit = .ok m ∧
      ∀ p ∈ m.cellPaths, ∃ d c entries, dirs.lookup (String.fromUTF8! ⟨p.toArray⟩) = some d ∧ d.cellH = some c ∧
        parseCellH c m.fields.length = .ok entries ∧
        ∀ e ∈ entries, ∃ raw, d.files.lookup e.file = some raw ∧ 0 ≤ e.offset ∧
          ∃ hd, parseFabHeader (lineOf (raw.drop e.offset.toNat)) = some hd ∧
            hd.lo = e.lo ∧ hd.hi = e.hi ∧ hd.nf = (m.fields.length : Int) :=
  Taste.good_plotfile_entries header limit dirs h

/-- **bytes glued in front of a FAB header line change nothing**: bytes without white space (hence without a line end), within
    ASCII, put directly ahead of the magic `FAB` become part of the line's first token; `readline` takes them and the header as
    one line, and the header parse shared by validator and reader (last four tokens) reads the same box from it.  So "junk ahead
    of the only FAB of a file, with the recorded offset moved along" is an edit of the header *text*: validation accepts it and
    the reader reads the box - consistently - whereas junk that ends in a line end makes the file start with a line that is
    no header (a layout fault, rejected: C04). -/
theorem junk_glued_to_header_is_ignored (junk : Py.Bytes) (hj : Py.NoSpace junk) (hja : Py.isAscii junk = true)
    (lo hi : List Int) (nf : Nat) (hlo : lo ≠ []) (hhi : hi ≠ []) (hlen : lo.length = hi.length) (rest : Py.Bytes) :
    Taste.lineOf (junk ++ Py.canonB lo hi nf ++ rest) = junk ++ Py.canonB lo hi nf ∧
    Taste.parseFabHeader (junk ++ Py.canonB lo hi nf) = some ⟨lo, hi, (nf : Int)⟩ :=
  ⟨JunkPrefix.junk_glued_line junk hj lo hi nf rest, JunkPrefix.junk_glued_ignored junk hj hja lo hi nf hlo hhi hlen⟩

example : (Taste.parseFabHeader ([65, 66, 67] ++ Py.canonB [0, 0, 0] [3, 1, 0] 2)).map (fun h => (h.lo, h.hi, h.nf))
      = some ([0, 0, 0], [3, 1, 0], 2) ∧
    (Taste.parseFabHeader (Taste.lineOf ([65, 10] ++ Py.canonB [0, 0, 0] [3, 1, 0] 2))).isNone = true := by decide +kernel

end C20
