import AmrK.ReadAfterTaste
import AmrK.TasteProofs
import AmrK.TastePltSound
/-! # C20 — whatever taste accepts, the reader can read completely and consistently -/
namespace C20
open Py Taste Reader ReaderR

/-- **A recorded offset anywhere inside a FAB's header line whose remaining text still parses reads
    exactly that FAB's payload** (all fields, shape of the parsed header): the reader and the header
    check of the validator look at the same line, so acceptance implies a consistent read. -/
theorem read_after_accept (pre L payload post : Bytes) (h' : Hdr) (n nf d : Nat)
    (hl : IsLine L) (hd : d < L.length)
    (hp : parseFabHeader (L.drop d) = some h')
    (hcells : ncells h' = (n : Int)) (hn : 0 < n) (hnf : h'.nf = (nf : Int))
    (hlen : payload.length = n * nf * 8) :
    ∃ s e st, sliceIndices none none none (nf : Int) = some (s, e, st) ∧
      readR (pre ++ L ++ payload ++ post) (pre.length + d) (nf : Int) (.slice none none none)
        = some ⟨spatial h' ++ [((pyRange s e st).length : Int)],
                (pyRange s e st).map fun i => block payload n i.toNat⟩ :=
  read_inside_header pre L payload post h' n nf d hl hd hp hcells hn hnf hlen

/-- what acceptance by the walk gives the reader to rely on (from C04) -/
theorem accepted_layout (raw : Bytes) (nf : Nat) (es : List Entry) (hnd : NoDegenerate raw)
    (hne : es ≠ []) (hcan : ∀ e ∈ es, canonHeader e.lo e.hi nf ≠ [])
    (h : shapeOK raw nf es = true) : Layout nf raw es :=
  shapeOK_sound raw nf es hnd hne hcan h

/-- **whole plotfile**: if default validation reports good then every box listed in the level header
    of every validated level has its binary file, and at its recorded byte position stands a FAB header
    line naming exactly its index range with the plotfile's component count - the premise of
    `read_after_accept` for every box the indexing interface can be asked for -/
theorem good_plotfile_entries (header : Bytes) (limit : Option Int) (dirs : List (String × LevelDir))
    (h : (tastePlt header limit dirs true true).1 = true) :
    ∃ m, Header.parse header limit = .ok m ∧
      ∀ p ∈ m.cellPaths, ∃ d c entries, dirs.lookup (String.fromUTF8! ⟨p.toArray⟩) = some d ∧ d.cellH = some c ∧
        parseCellH c m.fields.length = .ok entries ∧
        ∀ e ∈ entries, ∃ raw, d.files.lookup e.file = some raw ∧ 0 ≤ e.offset ∧
          ∃ hd, parseFabHeader (lineOf (raw.drop e.offset.toNat)) = some hd ∧
            hd.lo = e.lo ∧ hd.hi = e.hi ∧ hd.nf = (m.fields.length : Int) :=
  Taste.good_plotfile_entries header limit dirs h

end C20
