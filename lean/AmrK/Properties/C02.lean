import AmrK.HeaderProofs
import AmrK.F64Order
import AmrK.MaxMinsProofs
import AmrK.Codec
import AmrK.CellHCodec
import AmrK.HeaderCodec
/-! # C02 — opening a plotfile exposes exactly the metadata its headers state

Line/token model of `PlotfileCooker.__init__` + `read_boxes` (`Header.parse`) and of
`read_cell_headers` (`Taste.parseCellH`), the executable definitions compared attribute by attribute
with the real reader and the oracle for every opening mode.  Float tokens are kept verbatim. -/
namespace C02
open Py Header

/-- **Field names: the table exposed has pairwise distinct keys** (repeated names are renamed) -/
theorem field_keys_distinct (tbl : List (Bytes × Nat)) (name : Bytes) (i : Nat) (h : (tbl.map (·.1)).Nodup) :
    ((addField tbl name i).map (·.1)).Nodup := addField_keys_nodup tbl name i h

/-- **the `i`-th header name is registered under index `i`**, earlier entries are untouched -/
theorem field_index (tbl : List (Bytes × Nat)) (name : Bytes) (i : Nat) :
    addField tbl name i = tbl ∨ ∃ nm, addField tbl name i = tbl ++ [(nm, i)] := addField_appends tbl name i

/-- **first occurrences keep their own name** -/
theorem field_first_occurrence (tbl : List (Bytes × Nat)) (name : Bytes) (i : Nat) (h : name ∉ tbl.map (·.1)) :
    addField tbl name i = tbl ++ [(name, i)] := addField_fresh tbl name i h

/-- **the 1-D grids are the cell centres** `lo + (i + ½)·dx` (over the rationals; `hi - lo = n·dx`) -/
theorem grids_are_cell_centres (lo hi dx : Rat) (n i : Nat) (hn : 2 ≤ n) (hw : hi - lo = (n : Rat) * dx) :
    linspaceAt (lo + dx / 2) (hi - dx / 2) n i = lo + ((i : Rat) + 1 / 2) * dx :=
  Header.grids_are_cell_centres lo hi dx n i hn hw

/-- binary file and index range of a box are what its FAB header states (codec law of the header
    text every writer of the toolbox prints) -/
theorem fab_header_codec (lo hi : List Int) (nf : Nat) (hlo : lo ≠ []) (hhi : hi ≠ []) (hlen : lo.length = hi.length) :
    Taste.parseFabHeader (canonB lo hi nf) = some ⟨lo, hi, (nf : Int)⟩ := parse_canonB lo hi nf hlo hhi hlen

/-- **`parse ∘ render = id` for the level header**: the text a writer prints for any list of boxes
    (index ranges of any dimension, file names without whitespace, offsets) parses back to exactly
    those index ranges, binary files and byte offsets, in order -/
theorem level_header_parse_render (nf : Nat) (rows : List Taste.BoxRow) (hg : ∀ r ∈ rows, r.Good) :
    Taste.parseCellH (Taste.renderCellH nf rows) nf = .ok (rows.map Taste.BoxRow.entry) :=
  Taste.parseCellH_render nf rows hg

/-- **`parse ∘ render = id` for the global header**: the text printed for any header content `H` -
    any number of fields, dimensions, levels and boxes, float tokens kept verbatim, trailing blanks as
    AMReX or the toolbox print them - is read back as exactly that content (`H.meta`) -/
theorem global_header_parse_render (H : HData) (hg : H.Good) :
    parse (render H) none = .ok (H.meta H.levels.length) := Header.parse_render H hg

/-- **under a level limit `l` within the header's levels the same metadata is exposed, the
    per-level tables cut after level `l`** -/
theorem global_header_limit (H : HData) (hg : H.Good) (l : Nat) (hl : l < H.levels.length) :
    parse (render H) (some (l : Int)) = .ok (H.meta (l + 1)) := Header.parse_render_limit H hg l hl

/-- **a level limit above the finest level is refused** -/
theorem global_header_limit_above (H : HData) (hg : H.Good) (l : Int) (hl : (H.levels.length : Int) ≤ l) :
    parse (render H) (some l) = .refused "limit" := Header.parse_render_limit_above H hg l hl

/-- with pairwise distinct names the exposed field table is the header's list of names with their
    positions -/
theorem field_table_distinct (names : List Bytes) (h : names.Nodup) : tableOf names = names.zipIdx :=
  Header.tableOf_nodup names h

/-- the hypothesis `H.Good` is decided on real headers by the executable `H.goodB` of the driver -/
theorem global_header_hypothesis_decidable (H : HData) (h : H.goodB = true) : H.Good := HData.goodB_sound H h

/-- non-vacuity: a two-level, two-field 2D header satisfies the hypothesis, and its text is read back -/
example : (⟨ofString "HyperCLaw-V1.1", [ofString "a", ofString "b"], 2, ofString "0.5", [ofString "0.0", ofString "-1.0"],
      [ofString "1.0", ofString "0.0"], [2], [[7, 7], [15, 15]], [3, 3],
      [[ofString "0.125", ofString "0.125"], [ofString "0.0625", ofString "0.0625"]], ofString "0",
      [⟨[[(ofString "0.0", ofString "1.0"), (ofString "-1.0", ofString "0.0")]], ofString "0.5", ofString "3", ofString "Level_0", ofString "Cell"⟩,
       ⟨[[(ofString "0.0", ofString "0.5"), (ofString "-1.0", ofString "-0.5")], [(ofString "0.5", ofString "1.0"), (ofString "-1.0", ofString "-0.5")]],
        ofString "0.5", ofString "3", ofString "Level_1", ofString "Cell"⟩],
      [[32], [32], [], [], [32]], [[32], []]⟩ : HData).goodB = true := by decide +kernel

/-- non-vacuity: the names a, b, a, a are exposed as a, b, a_2, a_3 with indices 0..3 -/
example :
    ([ofString "a", ofString "b", ofString "a", ofString "a"].zipIdx.foldl (fun t (n, i) => addField t n i) []).map
        (fun p => (String.fromUTF8! ⟨p.1.toArray⟩, p.2))
      = [("a", 0), ("b", 1), ("a_2", 2), ("a_3", 3)] := by decide +kernel

/-- **when requested, the per-box minimum and maximum of every field**: the two tables after the `FabOnDisk:` lines
    (blank line, count line, one comma-terminated row per box) are read back row for row (`MaxMins.readTables`, the executable
    model of the `maxmins=True` branch of `read_cell_headers`, compared with what the reader exposes for every generated
    plotfile), and the entry exposed under the `k`-th field for box `b` is the `k`-th value of row `b` -/
theorem minmax_tables_read_back (mins maxs : List (List Py.Bytes)) (hlen : maxs.length = mins.length)
    (hmin : ∀ r ∈ mins, ∀ v ∈ r, Py.NoByte 44 v) (hmax : ∀ r ∈ maxs, ∀ v ∈ r, Py.NoByte 44 v)
    (b1 c1 b2 c2 : Py.Bytes) (rest : List Py.Bytes) :
    MaxMins.readTables mins.length (b1 :: c1 :: (mins.map CellHRewrite.rowText ++ (b2 :: c2 :: (maxs.map CellHRewrite.rowText ++ rest))))
      = some (mins, maxs) :=
  MaxMins.readTables_spec mins maxs hlen hmin hmax b1 c1 b2 c2 rest

theorem minmax_per_field (names : List Py.Bytes) (rows : List (List Py.Bytes)) (k : Nat) (nm : Py.Bytes) (hk : names[k]? = some nm) :
    (MaxMins.byField names rows)[k]? = some (nm, rows.map (·.getD k [])) :=
  MaxMins.byField_entry names rows k nm hk

/-- **the numbers exposed are the numbers stated**: the reader exposes `float(token)` for the time, the domain bounds, the
    cell sizes and the physical box bounds (compared attribute by attribute with an independent parse); the driver decides for
    every such token of every generated header (`F64.tokenOK`: exact rational of the decimal text `F64.decimalValue`, exact value
    `F64.mag` of the bit pattern, the two neighbouring patterns, ties to even) that those bits are the correctly rounded double.
    Soundness of that test: accepted bits are at least as close to the stated value as every finite double of that sign.
    It rests on `F64.mag_strictMono`: among finite non-negative doubles the value grows strictly with the bit pattern. -/
theorem exposed_float_is_nearest_double (q : Rat) (w : Nat) (h : F64.nearestC q w = true) :
    w < F64.infBits ∧ ∀ v, v < F64.infBits → |F64.mag w - q| ≤ |F64.mag v - q| :=
  F64.nearestC_sound q w h

theorem double_order_is_bit_order (a b : Nat) (hab : a < b) (hb : b < F64.infBits) : F64.mag a < F64.mag b :=
  F64.mag_strictMono a b hab hb

example : F64.tokenOK "0.1".toUTF8.toList 0x3FB999999999999A = some true ∧
    F64.tokenOK "0.1".toUTF8.toList 0x3FB999999999999B = some false ∧
    F64.tokenOK "-1.5e-3".toUTF8.toList 0xBF589374BC6A7EFA = some true ∧
    F64.tokenOK "5e-324".toUTF8.toList 1 = some true := by decide +kernel

end C02
