import AmrK.Pipeline
import AmrK.PipelineLevels
import AmrK.HeaderCodec
import AmrK.CellHCodec
/-! # C14 — tool outputs are valid tool inputs: pipelines equal the composed pure operations

Record level, one AMR level (every tool treats levels independently): a level is a list of `InBox`
records, its contents are the component lists of its boxes; `Pipeline.step` runs the executable
models of colander, chef and combine and re-opens their output as the next input. -/
namespace C14
open Writers Pipeline

/-- **For every finite operation sequence, the contents of the final result equal the same sequence
    of pure operations on the contents of the starting plotfile** (induction over the sequence from
    the per-tool data theorems C05/C06/C11, for every layout of every intermediate). -/
theorem pipeline_refines (ops : List Op) (s : List InBox) :
    content (run step s ops) = run pureStep (content s) ops :=
  Pipeline.pipeline_refines ops s

/-- each single tool refines its pure operation -/
theorem step_refines (s : List InBox) (op : Op) : content (step s op) = pureStep (content s) op :=
  Pipeline.step_refines s op

/-- **straining with all fields is the identity on contents** -/
theorem strain_all_id (c : List (List Int)) (n : Nat) (h : ∀ comps ∈ c, comps.length = n) :
    pureStep c (.strain (List.range n)) = c :=
  Pipeline.strain_all_id c n h

/-- **cooking a field and combining it back into the original gives the original fields unchanged
    plus the new one** -/
theorem cook_then_combine_back (s : List InBox) (n : Nat) (ρ : List Int → List Int)
    (hn : ∀ b ∈ s, b.comps.length = n) (hρ : ∀ b ∈ s, (ρ b.comps).length = 1) :
    pureStep (content s) (.combine (step s (.cook [] ρ)) (List.range n) [0])
      = (content s).map fun comps => comps ++ ρ comps :=
  Pipeline.cook_then_combine_back s n ρ hn hρ

/-- the generic induction: any family of steps that each refine a pure operation and preserve an
    invariant ("is a valid input") composes, and every intermediate satisfies the invariant -/
theorem generic {S C Op' : Type} (step' : S → Op' → S) (pure' : C → Op' → C) (content' : S → C)
    (Inv : S → Prop) (hinv : ∀ s op, Inv s → Inv (step' s op))
    (h : ∀ s op, Inv s → content' (step' s op) = pure' (content' s) op) (ops : List Op') (s : S) (hs : Inv s) :
    Inv (run step' s ops) ∧ content' (run step' s ops) = run pure' (content' s) ops :=
  run_refines step' pure' content' Inv hinv h ops s hs

/-- **what a writer prints is a well-formed input for the reader, metadata included**: the global
    header text of any content is read back as that content (mesh: dimensions, domain, cell sizes,
    grid sizes, physical boxes, level directories; fields; time), and the level header text as the
    index ranges, binary files and offsets it was printed from (the renderers are compared byte for
    byte with the headers the tools write, see DESIGN) -/
theorem written_headers_read_back (H : Header.HData) (hg : H.Good) (nf : Nat) (rows : List Taste.BoxRow)
    (hr : ∀ r ∈ rows, r.Good) :
    Header.parse (Header.render H) none = .ok (H.meta H.levels.length) ∧
      Taste.parseCellH (Taste.renderCellH nf rows) nf = .ok (rows.map Taste.BoxRow.entry) :=
  ⟨Header.parse_render H hg, Taste.parseCellH_render nf rows hr⟩

/-- non-vacuity: strain, cook, combine back on a two-box level with a permuted layout -/
example :
    content (run step [⟨"a", 96, 8, 80, 80, [1, 2, 3]⟩, ⟨"a", 0, 8, 80, 80, [4, 5, 6]⟩]
      [.strain [2, 0], .cook [1] (fun c => [c.foldl (· + ·) 0]),
       .combine [⟨"z", 0, 8, 80, 80, [7]⟩, ⟨"y", 0, 8, 80, 80, [8]⟩] [1, 0] [0]])
      = [[4, 1, 7], [10, 4, 8]] := by decide +kernel

/-- **whole plotfiles** (any number of levels; colander's level limit cuts the levels after it, chef cooks every level,
    combine works level by level and leaves its input alone when the other plotfile has another number of levels or of boxes
    in some level): for every finite operation sequence the contents of every level of the final plotfile are what the same
    sequence of pure operations yields on the contents of the starting plotfile -/
theorem pipeline_refines_levels (ops : List PipelineLevels.Op) (s : PipelineLevels.Plt) :
    PipelineLevels.content (run PipelineLevels.step s ops) = run PipelineLevels.pureStep (PipelineLevels.content s) ops :=
  PipelineLevels.pipeline_refines ops s

theorem strain_keeps_levels_up_to_limit (s : PipelineLevels.Plt) (kept : List Nat) (limit : Nat) :
    (PipelineLevels.step s (.strain kept limit)).length = min (limit + 1) s.length :=
  PipelineLevels.strain_levels s kept limit

end C14
