import AmrK.Grid
import AmrK.Basic
import AmrK.WritePerm
/-! # C10 — whip's uniform grid is the covering grid of the chosen field -/
namespace C10
open Grid

/-- cell for cell the value of the last covering write (= the finest covering box), 3D -/
theorem covering_grid (levels : List (List GBox)) (L : Nat) (p : List Nat) :
    coverAt levels L p =
      match (writes levels).reverse.find? (fun w => (specVal w.2 (factor L w.1) p).isSome) with
      | some w => (specVal w.2 (factor L w.1) p).map fun v => (v, w.1)
      | none => none :=
  coverAt_last levels L p

theorem placement (b : GBox) (f : Nat) (hf : 0 < f) (p : List Nat) : modelVal b f p = specVal b f p :=
  modelVal_eq_specVal b f hf p

/-- **The array does not depend on the order in which the per-file results of a level arrive**:
    writes to disjoint regions commute -/
theorem completion_order_independent (a : Nat → Option Nat) (w1 w2 : (Nat → Bool) × Nat)
    (hd : ∀ i, ¬ (w1.1 i = true ∧ w2.1 i = true)) :
    Probe.write (Probe.write a w1) w2 = Probe.write (Probe.write a w2) w1 :=
  Probe.write_comm a w1 w2 hd

/-- **… for any number of results and any permutation of their arrival**: pairwise-disjoint region
    writes of one level give the same array in every order -/
theorem any_arrival_order {l l' : List ((Nat → Bool) × Nat)} (p : l.Perm l') (h : Probe.PairwiseDisjoint l)
    (a : Nat → Option Nat) : l.foldl Probe.write a = l'.foldl Probe.write a :=
  Probe.foldl_write_perm p h a

end C10
