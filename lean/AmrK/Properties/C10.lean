import AmrK.Grid
import AmrK.F32Order
import AmrK.Basic
import AmrK.WritePerm
/-! # C10 — whip's uniform grid is the covering grid of the chosen field -/
namespace C10
open Grid

/-- cell for cell the value of the last covering write (= the finest covering box), 3D -/
theorem covering_grid (levels : List (List GBox)) (L : Nat) (p : List Nat) :
    coverAt levels L p =
      match (writes levels).reverse.find? (fun w => (specVal w.2 (factor L w.1) p).isSome) with
      | some w => (specVal w.2 (factor L w.1) p).map fun v => (v, w.1)
      | none => none :=
  coverAt_last levels L p

theorem placement (b : GBox) (f : Nat) (hf : 0 < f) (p : List Nat) : modelVal b f p = specVal b f p :=
  modelVal_eq_specVal b f hf p

/-- **The array does not depend on the order in which the per-file results of a level arrive**:
    writes to disjoint regions commute -/
theorem completion_order_independent (a : Nat → Option Nat) (w1 w2 : (Nat → Bool) × Nat)
    (hd : ∀ i, ¬ (w1.1 i = true ∧ w2.1 i = true)) :
    Probe.write (Probe.write a w1) w2 = Probe.write (Probe.write a w2) w1 :=
  Probe.write_comm a w1 w2 hd

/-- **… for any number of results and any permutation of their arrival**: pairwise-disjoint region
    writes of one level give the same array in every order -/
theorem any_arrival_order {l l' : List ((Nat → Bool) × Nat)} (p : l.Perm l') (h : Probe.PairwiseDisjoint l)
    (a : Nat → Option Nat) : l.foldl Probe.write a = l'.foldl Probe.write a :=
  Probe.foldl_write_perm p h a

/-- **converted to the requested data type**: the driver decides for the saved single-precision values (`F32.castOK`: exact value
    of the double's bit pattern, exact values of the single's pattern and of its two neighbours - infinity standing for `2^128` -,
    ties to even, NaN and the infinities kept) that each is the correctly rounded double.  Soundness of the neighbour test: an
    accepted pattern is at least as close to the double's value as every single-precision magnitude. -/
theorem cast_is_correctly_rounded (q : Rat) (v : Nat) (h : F32.nearestC q v = true) :
    v ≤ F32.infBits ∧ ∀ u, u ≤ F32.infBits → |F32.magC v - q| ≤ |F32.magC u - q| :=
  F32.nearestC_sound q v h

example : F32.castOK 0x3FB999999999999A 0x3DCCCCCD = true ∧ F32.castOK 0x3FB999999999999A 0x3DCCCCCC = false ∧
    F32.castOK 0x47EFFFFFF0000000 0x7F800000 = true ∧ F32.castOK 0x4197D78404000000 0x4CBEBC20 = true ∧
    F32.castOK 0x7FF8000000000000 0x7FC00000 = true ∧ F32.castOK 0x3690000000000000 0 = true := by decide +kernel

end C10
