import AmrK.TasteDataProofs
import AmrK.Names
import AmrK.HeaderRewriteProofs
import AmrK.WritersSizes
/-! # C11 — chef writes recipe(box) under the right names with true min/max

The recipe is a parameter (`newComps i` = the components the recipe returns for box `i`). -/
namespace C11
open Writers

/-- **Whatever the distribution and order of the boxes in the input files, entry `i` of chef's level
    header points at a record that is box `i` and holds the kept components of the input box
    followed by the recipe's components for that box** (files are rewritten in disk order and the
    offsets mapped back through the offset-sorted box map) — no side condition. -/
theorem chef_data (boxes : List InBox) (nfIn : Nat) (kept : List Nat) (newComps : Nat → List Int)
    (i : Nat) (b : InBox) (hb : boxes[i]? = some b) :
    ∃ ob, (chef boxes nfIn kept newComps)[i]? = some ob ∧ ob.file = b.file ∧
      ob.found = some (i, kept.filterMap (b.comps[·]?) ++ newComps i) :=
  Writers.chef_data boxes nfIn kept newComps (chefRec_size_pos boxes nfIn kept newComps) i b hb

/-- visiting a file's boxes in offset order lists each box of the file exactly once -/
theorem offset_order_good (boxes : List InBox) : GoodOrder boxes (offsetOrder boxes) :=
  goodOrder_offset boxes

/-- non-vacuity: three boxes in one file in the disk order 2, 0, 1; one kept field, one new component -/
example :
    ((chef [⟨"a", 100, 8, 80, 80, [1, 2]⟩, ⟨"a", 300, 8, 80, 80, [3, 4]⟩, ⟨"a", 0, 4, 80, 80, [5, 6]⟩] 2 [1]
        (fun i => [100 + (i : Int)])).map (·.found))
      = [some (0, [2, 100]), some (1, [4, 101]), some (2, [6, 102])] := by decide +kernel

/-- **which fields chef writes**: the kept fields that exist, then the recipe's names (`Names.chef`,
    compared as a set with the field list of every real output; the property leaves the order open) -/
theorem field_rule (names kept new : List String) :
    (Names.chef names kept new).take (kept.filter (names.contains ·)).length = kept.filter (names.contains ·) ∧
    (Names.chef names kept new).drop (kept.filter (names.contains ·)).length = new :=
  Names.chef_split names kept new

/-- **the output header**: for a good input header read under the limit `l`, the header chef writes (the executable
    writer model `Header.rewriteOf`, compared byte for byte with every written `Header`) has levels `0 … l` and is read
    back as: the new field table, and the input's time, domain bounds and - cut after level `l` - cell sizes, grid sizes,
    step numbers, box counts and physical boxes (float tokens already in Python's shortest form) -/
theorem output_header_keeps_mesh (Hin : Header.HData) (hin : Hin.Good) (l : Nat) (hl : l < Hin.levels.length)
    (coord : Py.Bytes) (names : List Py.Bytes) :
    let Hout := Header.rewriteOf id true (Hin.meta (l + 1)) coord names
    let M := Hout.meta (l + 1)
    Hout.levels.length = l + 1 ∧
    M.fields = Header.tableOf names ∧ M.maxLevel = (l : Int) ∧ M.limitLevel = (l : Int) ∧ M.ndims = Hin.ndims ∧
    M.time = Hin.time ∧ M.geoLo = Hin.geoLo ∧ M.geoHi = Hin.geoHi ∧
    M.dx = Hin.dx.take (l + 1) ∧ M.gridSizes = (Hin.gridHi.take (l + 1)).map (·.map (· + 1)) ∧
    M.steps = Hin.steps.take (l + 1) ∧
    M.boxes = (Hin.levels.take (l + 1)).map (·.boxes) ∧
    M.npoints = (Hin.levels.take (l + 1)).map (fun L => (L.boxes.length : Int)) :=
  Header.rewrite_keeps_mesh Hin hin l hl true coord names

/-- … and that written header is read back as its content whenever it passes the executable check `goodB`
    (evaluated by the driver on every written header; any float formatting `fl`) -/
theorem output_header_read_back (fl : Py.Bytes → Py.Bytes) (m : Header.Meta) (coord : Py.Bytes) (names : List Py.Bytes)
    (hg : (Header.rewriteOf fl true m coord names).goodB = true) :
    Header.parse (Header.render (Header.rewriteOf fl true m coord names)) none =
      .ok ((Header.rewriteOf fl true m coord names).meta (Header.rewriteOf fl true m coord names).levels.length) :=
  Header.rewrite_read_back fl true m coord names hg

/-- **true extrema** (the rows the driver recomputes from the bytes of every written FAB with `TasteData.fabExtrema` and
    compares with the written level header): the `np.min` / `np.max` of a NaN-free block of values is an element of the
    block below / above every element; a block holding a NaN has NaN for both -/
theorem extrema_are_true (l : List Extrema.V) (hne : l ≠ []) (hl : TasteData.NoNan l) :
    (∃ m, Extrema.reduce Extrema.vmin l = some m ∧ m ∈ l ∧ ∀ x ∈ l, Extrema.le m x = true) ∧
    (∃ m, Extrema.reduce Extrema.vmax l = some m ∧ m ∈ l ∧ ∀ x ∈ l, Extrema.le x m = true) :=
  ⟨TasteData.reduce_vmin_spec l hne hl, TasteData.reduce_vmax_spec l hne hl⟩

theorem extrema_nan (l : List Extrema.V) (h : Extrema.V.nan ∈ l) :
    Extrema.reduce Extrema.vmin l = some .nan ∧ Extrema.reduce Extrema.vmax l = some .nan :=
  ⟨Extrema.reduce_nan _ (by intro x; cases x <;> rfl) (by intro x; cases x <;> rfl) l h,
   Extrema.reduce_nan _ (by intro x; cases x <;> rfl) (by intro x; cases x <;> rfl) l h⟩

example : TasteData.fabExtrema ([0,0,0,0,0,0,0xF0,0x3F] ++ [0,0,0,0,0,0,0x08,0xC0]) 2 0 = some (.fin (-3), .fin 1) := by
  decide +kernel

end C11
