import AmrK.SchedN
import AmrK.PathsMore
import AmrK.WritePerm
import AmrK.Obligations.PoolCalls
/-! # C12 — results do not depend on worker count, task order or serial/parallel mode

File system as `Path → Option Bytes`, a task as its list of create/append steps; a pool run is any
interleaving of the tasks' step lists (each task keeps its own order). -/
namespace C12
open Sched

/-- **Whatever the interleaving of any number of tasks touching pairwise disjoint paths, the final
    file system is the one obtained by running the tasks one after the other in submission order.** -/
theorem any_interleaving (ts : List (List Step)) (tr : List Step) (m : MergeAll ts tr)
    (hd : Disjoint ts) (fs : FS) : run fs tr = run fs ts.flatten :=
  mergeAll_run m hd fs

/-- two tasks -/
theorem two_tasks {a b tr : List Step} (m : Merge a b tr)
    (hd : ∀ s ∈ a, ∀ t ∈ b, s.path ≠ t.path) (fs : FS) : run fs tr = run fs (a ++ b) :=
  merge_run m hd fs

/-- consequently any two interleavings of the same tasks agree (worker count and completion order
    only choose the interleaving) -/
theorem interleavings_agree (ts : List (List Step)) (tr tr' : List Step) (m : MergeAll ts tr) (m' : MergeAll ts tr')
    (hd : Disjoint ts) (fs : FS) : run fs tr = run fs tr' := by
  rw [mergeAll_run m hd fs, mergeAll_run m' hd fs]

/-- **the per-file tasks of colander, combine, chef and chk2plt write pairwise distinct files**:
    `join(out, level_dir, basename(file))` is injective in the basename (the disjointness hypothesis
    above, for the output side; the audit of every pool call checks it on the real code) -/
theorem task_outputs_distinct (abs : Bool) (cs : List Py.Bytes) (b1 b2 : Py.Bytes)
    (h1 : Paths.GoodComps (cs ++ [b1])) (h2 : Paths.GoodComps (cs ++ [b2]))
    (he : Paths.render abs (cs ++ [b1]) = Paths.render abs (cs ++ [b2])) : b1 = b2 :=
  Paths.out_path_injective abs cs b1 b2 h1 h2 he

/-- in-memory results (whip's array): any arrival order of pairwise-disjoint region writes -/
theorem unordered_results {l l' : List ((Nat → Bool) × Nat)} (p : l.Perm l') (h : Probe.PairwiseDisjoint l)
    (a : Nat → Option Nat) : l.foldl Probe.write a = l'.foldl Probe.write a :=
  Probe.foldl_write_perm p h a

/-- **results are delivered in completion order only in whip** (regenerated from the sources on every
    run): every other pool call zips the results with the submission list, so its outputs do not
    depend on the completion order at all -/
theorem unordered_delivery_only_in_whip :
    Generated.unorderedPoolCalls = [("amr_kitchen/whip/cli.py", "main")] := Generated.unordered_only_in_whip

/-- non-vacuity: two tasks writing two files, interleaved step by step -/
example : MergeAll [[.create "a", .append "a" [1]], [.create "b", .append "b" [2]]]
    [.create "b", .create "a", .append "b" [2], .append "a" [1]] :=
  .cons (.cons .nil (.left (.left .nil))) (.right (.left (.right (.left .nil))))

end C12
