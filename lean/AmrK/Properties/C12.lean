import AmrK.SchedN
/-! # C12 — results do not depend on worker count, task order or serial/parallel mode

File system as `Path → Option Bytes`, a task as its list of create/append steps; a pool run is any
interleaving of the tasks' step lists (each task keeps its own order). -/
namespace C12
open Sched

/-- **Whatever the interleaving of any number of tasks touching pairwise disjoint paths, the final
    file system is the one obtained by running the tasks one after the other in submission order.** -/
theorem any_interleaving (ts : List (List Step)) (tr : List Step) (m : MergeAll ts tr)
    (hd : Disjoint ts) (fs : FS) : run fs tr = run fs ts.flatten :=
  mergeAll_run m hd fs

/-- two tasks -/
theorem two_tasks {a b tr : List Step} (m : Merge a b tr)
    (hd : ∀ s ∈ a, ∀ t ∈ b, s.path ≠ t.path) (fs : FS) : run fs tr = run fs (a ++ b) :=
  merge_run m hd fs

/-- consequently any two interleavings of the same tasks agree (worker count and completion order
    only choose the interleaving) -/
theorem interleavings_agree (ts : List (List Step)) (tr tr' : List Step) (m : MergeAll ts tr) (m' : MergeAll ts tr')
    (hd : Disjoint ts) (fs : FS) : run fs tr = run fs tr' := by
  rw [mergeAll_run m hd fs, mergeAll_run m' hd fs]

/-- non-vacuity: two tasks writing two files, interleaved step by step -/
example : MergeAll [[.create "a", .append "a" [1]], [.create "b", .append "b" [2]]]
    [.create "b", .create "a", .append "b" [2], .append "a" [1]] :=
  .cons (.cons .nil (.left (.left .nil))) (.right (.left (.right (.left .nil))))

end C12
