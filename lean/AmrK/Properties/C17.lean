import AmrK.TasteDataProofs
import AmrK.HeaderCodec
import AmrK.NamesMore
import AmrK.CellHCodec
import AmrK.WritersSizes
import AmrK.Obligations.ChkTables
/-! # C17 — chk2plt carries the checkpoint's interior state into a valid plotfile -/
namespace C17
open Writers

/-- **Each output record is box `i`'s interior state components followed by that box's own pressure
    gradient and reaction-rate components**, whatever the distribution and order of the boxes in the
    state files and wherever the other data subsets keep that box — no side condition. -/
theorem chk_data (boxes : List InBox) (gradp ir : Nat → List Int) (doG doR : Bool)
    (i : Nat) (b : InBox) (hb : boxes[i]? = some b) :
    ∃ ob, (chk2plt boxes gradp ir doG doR)[i]? = some ob ∧ ob.file = b.file ∧
      ob.found = some (i, b.comps ++ (if doG then gradp i else []) ++ (if doR then ir i else [])) :=
  Writers.chk_data boxes gradp ir doG doR (chkRec_size_pos boxes gradp ir doG doR) i b hb

/-- the state-vector layout assumed by the output names is what `CheckpointReader` declares
    (regenerated from the source on every run) -/
theorem state_vector_layout :
    Generated.stateFieldIndices.lookup "Y_start" = some 4 ∧ Generated.stateFieldIndices.lookup "Y_end" = some (-3)
    ∧ Generated.stateFieldIndices.lookup "rhoh" = some (-3) ∧ Generated.stateFieldIndices.lookup "temp" = some (-2)
    ∧ Generated.stateFieldIndices.lookup "RhoRT" = some (-1) :=
  Generated.state_layout

theorem output_names :
    Generated.chk2pltNameLists.head? = some ["x_velocity", "y_velocity", "z_velocity", "density"] ∧
    Generated.chk2pltNameLists[1]? = some ["rhoh", "temp", "RhoRT"] :=
  Generated.output_names_match_state_order

/-- ghost stripping: `data[g : -g]` of an axis of `n + 2g` cells keeps exactly the `n` interior
    cells `g … g+n-1` (Python slice semantics, `g ≥ 1`) -/
theorem ghost_strip (n g : Nat) (hg : 0 < g) (l : List α) (hl : l.length = n + 2 * g) :
    ((l.take (l.length - g)).drop g).length = n ∧
    ∀ k, k < n → ((l.take (l.length - g)).drop g)[k]? = l[g + k]? := by
  constructor
  · simp only [List.length_drop, List.length_take]; omega
  · intro k hk
    rw [List.getElem?_drop, List.getElem?_take]
    have : g + k < l.length - g := by omega
    simp [this]

/-- non-vacuity: two boxes in one state file in reverse disk order, gradp and reactions on -/
example :
    ((chk2plt [⟨"state_D_00000", 500, 8, 0, 80, [1, 2, 3]⟩, ⟨"state_D_00000", 0, 8, 0, 80, [4, 5, 6]⟩]
        (fun i => [10 + (i : Int)]) (fun i => [20 + (i : Int)]) true true).map (·.found))
      = [some (0, [1, 2, 3, 10, 20]), some (1, [4, 5, 6, 11, 21])] := by decide +kernel

/-- **the headers of the written plotfile are read back as what they were printed from**: the
    global header as its content (fields, mesh, time) and each level header as its index ranges,
    binary files and offsets - for every number of fields, levels and boxes (the renderers are
    compared byte for byte with the `Header` / `Cell_H` files the tool writes on every run) -/
theorem written_headers_read_back (H : Header.HData) (hg : H.Good) (nf : Nat) (rows : List Taste.BoxRow)
    (hr : ∀ r ∈ rows, r.Good) :
    Header.parse (Header.render H) none = .ok (H.meta H.levels.length) ∧
      Taste.parseCellH (Taste.renderCellH nf rows) nf = .ok (rows.map Taste.BoxRow.entry) :=
  ⟨Header.parse_render H hg, Taste.parseCellH_render nf rows hr⟩

/-- **the field list**: velocity, density, species mass fractions, rhoh, temp, RhoRT, then the
    pressure gradient and the reaction rates when requested — and its names line up with the
    components of `chk_data`'s record group by group (state under state names, gradient under
    gradient names, the rate of each species under its `I_R` name) -/
theorem field_names_align {α : Type} (sp : List String) (doG doR : Bool) (s g r : List α)
    (hs : s.length = (Names.stateNames sp).length) (hg : g.length = 3) :
    (Names.chkFields sp doG doR).zip (s ++ (if doG then g else []) ++ (if doR then r else [])) =
      (Names.stateNames sp).zip s ++ (if doG then Names.gradNames.zip g else []) ++
        (if doR then (Names.irNames sp).zip r else []) :=
  Names.chk_names_align sp doG doR s g r hs hg

theorem field_count (sp : List String) (doG doR : Bool) :
    (Names.chkFields sp doG doR).length = 7 + sp.length + (if doG then 3 else 0) + (if doR then sp.length else 0) :=
  Names.chkFields_length sp doG doR

example : Names.chkFields ["H2", "O2"] true true =
    ["x_velocity", "y_velocity", "z_velocity", "density", "Y(H2)", "Y(O2)", "rhoh", "temp", "RhoRT",
     "gradpx", "gradpy", "gradpz", "I_R(H2)", "I_R(O2)"] := by decide +kernel

/-- **true extrema** (the rows the driver recomputes from the bytes of every written FAB with `TasteData.fabExtrema` and
    compares with the written level header): the `np.min` / `np.max` of a NaN-free block of values is an element of the
    block below / above every element; a block holding a NaN has NaN for both -/
theorem extrema_are_true (l : List Extrema.V) (hne : l ≠ []) (hl : TasteData.NoNan l) :
    (∃ m, Extrema.reduce Extrema.vmin l = some m ∧ m ∈ l ∧ ∀ x ∈ l, Extrema.le m x = true) ∧
    (∃ m, Extrema.reduce Extrema.vmax l = some m ∧ m ∈ l ∧ ∀ x ∈ l, Extrema.le x m = true) :=
  ⟨TasteData.reduce_vmin_spec l hne hl, TasteData.reduce_vmax_spec l hne hl⟩

theorem extrema_nan (l : List Extrema.V) (h : Extrema.V.nan ∈ l) :
    Extrema.reduce Extrema.vmin l = some .nan ∧ Extrema.reduce Extrema.vmax l = some .nan :=
  ⟨Extrema.reduce_nan _ (by intro x; cases x <;> rfl) (by intro x; cases x <;> rfl) l h,
   Extrema.reduce_nan _ (by intro x; cases x <;> rfl) (by intro x; cases x <;> rfl) l h⟩

example : TasteData.fabExtrema ([0,0,0,0,0,0,0xF0,0x3F] ++ [0,0,0,0,0,0,0x08,0xC0]) 2 0 = some (.fin (-3), .fin 1) := by
  decide +kernel

end C17
