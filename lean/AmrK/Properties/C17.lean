import AmrK.TasteDataProofs
import AmrK.HeaderCodec
import AmrK.ChkHeaderProofs
import AmrK.NamesMore
import AmrK.CellHCodec
import AmrK.WritersSizes
import AmrK.Obligations.ChkTables
/-! # C17 — chk2plt carries the checkpoint's interior state into a valid plotfile -/
namespace C17
open Writers

/-- **Each output record is box `i`'s interior state components followed by that box's own pressure
    gradient and reaction-rate components**, whatever the distribution and order of the boxes in the
    state files and wherever the other data subsets keep that box — no side condition. -/
theorem chk_data (boxes : List InBox) (gradp ir : Nat → List Int) (doG doR : Bool)
    (i : Nat) (b : InBox) (hb : boxes[i]? = some b) :
    ∃ ob, (chk2plt boxes gradp ir doG doR)[i]? = some ob ∧ ob.file = b.file ∧
      ob.found = some (i, b.comps ++ (if doG then gradp i else []) ++ (if doR then ir i else [])) :=
  Writers.chk_data boxes gradp ir doG doR (chkRec_size_pos boxes gradp ir doG doR) i b hb

/-- the state-vector layout assumed by the output names is what `CheckpointReader` declares
    (regenerated from the source on every run) -/
theorem state_vector_layout :
    Generated.stateFieldIndices.lookup "Y_start" = some 4 ∧ Generated.stateFieldIndices.lookup "Y_end" = some (-3)
    ∧ Generated.stateFieldIndices.lookup "rhoh" = some (-3) ∧ Generated.stateFieldIndices.lookup "temp" = some (-2)
    ∧ Generated.stateFieldIndices.lookup "RhoRT" = some (-1) :=
  Generated.state_layout

theorem output_names :
    Generated.chk2pltNameLists.head? = some ["x_velocity", "y_velocity", "z_velocity", "density"] ∧
    Generated.chk2pltNameLists[1]? = some ["rhoh", "temp", "RhoRT"] :=
  Generated.output_names_match_state_order

/-- ghost stripping: `data[g : -g]` of an axis of `n + 2g` cells keeps exactly the `n` interior
    cells `g … g+n-1` (Python slice semantics, `g ≥ 1`) -/
theorem ghost_strip (n g : Nat) (hg : 0 < g) (l : List α) (hl : l.length = n + 2 * g) :
    ((l.take (l.length - g)).drop g).length = n ∧
    ∀ k, k < n → ((l.take (l.length - g)).drop g)[k]? = l[g + k]? := by
  constructor
  · simp only [List.length_drop, List.length_take]; omega
  · intro k hk
    rw [List.getElem?_drop, List.getElem?_take]
    have : g + k < l.length - g := by omega
    simp [this]

/-- non-vacuity: two boxes in one state file in reverse disk order, gradp and reactions on -/
example :
    ((chk2plt [⟨"state_D_00000", 500, 8, 0, 80, [1, 2, 3]⟩, ⟨"state_D_00000", 0, 8, 0, 80, [4, 5, 6]⟩]
        (fun i => [10 + (i : Int)]) (fun i => [20 + (i : Int)]) true true).map (·.found))
      = [some (0, [1, 2, 3, 10, 20]), some (1, [4, 5, 6, 11, 21])] := by decide +kernel

/-- **the headers of the written plotfile are read back as what they were printed from**: the
    global header as its content (fields, mesh, time) and each level header as its index ranges,
    binary files and offsets - for every number of fields, levels and boxes (the renderers are
    compared byte for byte with the `Header` / `Cell_H` files the tool writes on every run) -/
theorem written_headers_read_back (H : Header.HData) (hg : H.Good) (nf : Nat) (rows : List Taste.BoxRow)
    (hr : ∀ r ∈ rows, r.Good) :
    Header.parse (Header.render H) none = .ok (H.meta H.levels.length) ∧
      Taste.parseCellH (Taste.renderCellH nf rows) nf = .ok (rows.map Taste.BoxRow.entry) :=
  ⟨Header.parse_render H hg, Taste.parseCellH_render nf rows hr⟩

/-- **the field list**: velocity, density, species mass fractions, rhoh, temp, RhoRT, then the
    pressure gradient and the reaction rates when requested — and its names line up with the
    components of `chk_data`'s record group by group (state under state names, gradient under
    gradient names, the rate of each species under its `I_R` name) -/
theorem field_names_align {α : Type} (sp : List String) (doG doR : Bool) (s g r : List α)
    (hs : s.length = (Names.stateNames sp).length) (hg : g.length = 3) :
    (Names.chkFields sp doG doR).zip (s ++ (if doG then g else []) ++ (if doR then r else [])) =
      (Names.stateNames sp).zip s ++ (if doG then Names.gradNames.zip g else []) ++
        (if doR then (Names.irNames sp).zip r else []) :=
  Names.chk_names_align sp doG doR s g r hs hg

theorem field_count (sp : List String) (doG doR : Bool) :
    (Names.chkFields sp doG doR).length = 7 + sp.length + (if doG then 3 else 0) + (if doR then sp.length else 0) :=
  Names.chkFields_length sp doG doR

example : Names.chkFields ["H2", "O2"] true true =
    ["x_velocity", "y_velocity", "z_velocity", "density", "Y(H2)", "Y(O2)", "rhoh", "temp", "RhoRT",
     "gradpx", "gradpy", "gradpz", "I_R(H2)", "I_R(O2)"] := by decide +kernel

/-- **true extrema** (the rows the driver recomputes from the bytes of every written FAB with `TasteData.fabExtrema` and
    compares with the written level header): the `np.min` / `np.max` of a NaN-free block of values is an element of the
    block below / above every element; a block holding a NaN has NaN for both -/
theorem extrema_are_true (l : List Extrema.V) (hne : l ≠ []) (hl : TasteData.NoNan l) :
    (∃ m, Extrema.reduce Extrema.vmin l = some m ∧ m ∈ l ∧ ∀ x ∈ l, Extrema.le m x = true) ∧
    (∃ m, Extrema.reduce Extrema.vmax l = some m ∧ m ∈ l ∧ ∀ x ∈ l, Extrema.le x m = true) :=
  ⟨TasteData.reduce_vmin_spec l hne hl, TasteData.reduce_vmax_spec l hne hl⟩

theorem extrema_nan (l : List Extrema.V) (h : Extrema.V.nan ∈ l) :
    Extrema.reduce Extrema.vmin l = some .nan ∧ Extrema.reduce Extrema.vmax l = some .nan :=
  ⟨Extrema.reduce_nan _ (by intro x; cases x <;> rfl) (by intro x; cases x <;> rfl) l h,
   Extrema.reduce_nan _ (by intro x; cases x <;> rfl) (by intro x; cases x <;> rfl) l h⟩

example : TasteData.fabExtrema ([0,0,0,0,0,0,0xF0,0x3F] ++ [0,0,0,0,0,0,0x08,0xC0]) 2 0 = some (.fin (-3), .fin 1) := by
  decide +kernel

/-- **the converted plotfile's grid is the checkpoint's**: the level-0 grid size the reader derives (`ChkHeader.gridSize0`, part of
    the reading `ChkHeader.parse` that the driver runs on the Header of every generated checkpoint and that is compared with the
    real reader's attributes) is, in every direction, the largest upper index of the level-0 boxes plus one - at least every
    box's, reached by some box - so it does not depend on the order in which the checkpoint lists its boxes -/
theorem grid_size_is_largest_upper_index (d : Nat) (boxes : List (List Int × List Int)) (hne : boxes ≠ [])
    (hd : ∀ b ∈ boxes, b.2.length = d) :
    ∃ g, ChkHeader.gridSize0 boxes = some g ∧ g.length = d ∧ ∀ k, k < d →
      (∀ b ∈ boxes, ChkHeader.at' b.2 k + 1 ≤ ChkHeader.at' g k) ∧ ∃ b ∈ boxes, ChkHeader.at' g k = ChkHeader.at' b.2 k + 1 :=
  ChkHeader.gridSize0_spec d boxes hne hd

theorem grid_size_order_independent (d : Nat) (b1 b2 : List (List Int × List Int)) (hne : b1 ≠ [])
    (hmem : ∀ b, b ∈ b1 ↔ b ∈ b2) (hd : ∀ b ∈ b1, b.2.length = d) : ChkHeader.gridSize0 b1 = ChkHeader.gridSize0 b2 :=
  ChkHeader.gridSize0_order_independent d b1 b2 hne hmem hd

/-- **the checkpoint's time, partial**: the reading reports the token of the time line exactly when that token's value is not
    integral; when it is integral the reader takes the line for an optional integer line and reports the NEXT line's token
    (the known finding `chk2plt-integral-time`: the on-disk format does not distinguish the two) -/
theorem time_read_partial (v l1 l2 l3 : Py.Bytes) (rest : List Py.Bytes) (P : ChkHeader.Parsed)
    (h : ChkHeader.parse (v :: l1 :: l2 :: l3 :: rest) = some P) :
    (ChkHeader.integral l3 = false → P.time = Py.strip l3) ∧
    (ChkHeader.integral l3 = true → ∃ t r, rest = t :: r ∧ P.time = Py.strip t) :=
  ChkHeader.time_rule v l1 l2 l3 rest P h

/-- the full statement fails: a well-formed header whose time is `2.0` is not read (every later line is taken one line too
    early and the constructor raises), the same header with time `2.5` is read with that time and the grid `8 x 8 x 4` -/
theorem integral_time_not_read :
    let hdr (t : String) : List Py.Bytes := ["Checkpoint version: 1", "0", "7", t, "1e-06", "2e-06", "0.0 0.0 0.0 ", "1.0 1.0 0.5 ",
      "(2 0", "((0,0,0) (3,7,3) (0,0,0))", "((4,0,0) (7,7,3) (0,0,0))", ")", "101325.0", "0", "0"].map Py.ofString
    ChkHeader.parse (hdr "2.0") = none ∧
    (ChkHeader.parse (hdr "2.5")).map (fun P => (P.time, P.gridSizes)) = some (Py.ofString "2.5", [[8, 8, 4]]) := by
  decide +kernel

end C17
