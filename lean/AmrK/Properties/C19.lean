import AmrK.Point
import AmrK.PointCase1
/-! # C19 — point queries at interior cell centres return the stored cell value -/
namespace C19
open Point

/-- **The centre of cell `i` maps to index `i`, wherever the domain is placed and whatever the cell
    size** (repaired conversion `((point - origin)/dx) - 0.5`) -/
theorem centre_index (g dx : Rat) (i : Int) (hdx : dx ≠ 0) : pointIdxR g dx (g + ((i : Rat) + 1/2) * dx) = i :=
  pointIdxR_centre g dx i hdx

/-- hence the local index inside a box starting at `lo` is `i - lo`: the interpolation is asked for
    exactly the stored cell -/
theorem local_index (g dx : Rat) (i lo : Int) (hdx : dx ≠ 0) :
    pointIdxR g dx (g + ((i : Rat) + 1/2) * dx) - lo = ((i - lo : Int) : Rat) := pointLocal_centre g dx i lo hdx

/-- **single-box case, per axis**: the centre of any cell of box `B` passes the inner match of `B` … -/
theorem inner_match (g dx : Rat) (lo hi i : Int) (hdx : 0 < dx) (h1 : lo ≤ i) (h2 : i ≤ hi) :
    pLo g dx lo + dx / 2 ≤ centre g dx i ∧ centre g dx i ≤ pHi g dx hi - dx / 2 :=
  Point.inner_match g dx lo hi i hdx h1 h2

/-- … and for a cell at least one cell away from `B`'s faces, no box of the level that is disjoint from
    `B` along the axis passes the outer match (so all three match lists hold exactly `B`) -/
theorem outer_miss_below (g dx : Rat) (lo i hi' : Int) (hdx : 0 < dx) (hdis : hi' < lo) (h1 : lo + 1 ≤ i) :
    ¬ (centre g dx i ≤ pHi g dx hi' + dx / 2) := Point.outer_miss_below g dx lo i hi' hdx hdis h1
theorem outer_miss_above (g dx : Rat) (hi i lo' : Int) (hdx : 0 < dx) (hdis : hi < lo') (h1 : i + 1 ≤ hi) :
    ¬ (pLo g dx lo' - dx / 2 ≤ centre g dx i) := Point.outer_miss_above g dx hi i lo' hdx hdis h1

/-- the pinned conversion is wrong for every non-zero origin (checked record of the repaired defect) -/
theorem pinned_wrong (g dx : Rat) (i : Int) (hdx : dx ≠ 0) (hg : g ≠ 0) : pointIdxP dx (g + ((i : Rat) + 1/2) * dx) ≠ i :=
  pointIdxP_wrong g dx i hdx hg

/-- non-vacuity of the matching model: an interior centre of the single box of a one-level domain
    with origin (1, -2, 1/4) is the single-box case with the right local index -/
example :
    query [1, -2, 1/4] [⟨[1/2, 1/4, 1/8], [[(1, 3), (-2, -1), (1/4, 3/4)]], [[0, 0, 0]]⟩] [1 + 3/4, -2 + 5/8, 1/4 + 3/16]
      = .case1 0 0 [1, 2, 1] := by decide +kernel

end C19
