import AmrK.Point
/-! # C19 — point queries at interior cell centres return the stored cell value -/
namespace C19
open Point

/-- **The centre of cell `i` maps to index `i`, wherever the domain is placed and whatever the cell
    size** (repaired conversion `((point - origin)/dx) - 0.5`) -/
theorem centre_index (g dx : Rat) (i : Int) (hdx : dx ≠ 0) : pointIdxR g dx (g + ((i : Rat) + 1/2) * dx) = i :=
  pointIdxR_centre g dx i hdx

/-- hence the local index inside a box starting at `lo` is `i - lo`: the interpolation is asked for
    exactly the stored cell -/
theorem local_index (g dx : Rat) (i lo : Int) (hdx : dx ≠ 0) :
    pointIdxR g dx (g + ((i : Rat) + 1/2) * dx) - lo = ((i - lo : Int) : Rat) := pointLocal_centre g dx i lo hdx

/-- the pinned conversion is wrong for every non-zero origin (checked record of the repaired defect) -/
theorem pinned_wrong (g dx : Rat) (i : Int) (hdx : dx ≠ 0) (hg : g ≠ 0) : pointIdxP dx (g + ((i : Rat) + 1/2) * dx) ≠ i :=
  pointIdxP_wrong g dx i hdx hg

/-- non-vacuity of the matching model: an interior centre of the single box of a one-level domain
    with origin (1, -2, 1/4) is the single-box case with the right local index -/
example :
    query [1, -2, 1/4] [⟨[1/2, 1/4, 1/8], [[(1, 3), (-2, -1), (1/4, 3/4)]], [[0, 0, 0]]⟩] [1 + 3/4, -2 + 5/8, 1/4 + 3/16]
      = .case1 0 0 [1, 2, 1] := by decide +kernel

end C19
