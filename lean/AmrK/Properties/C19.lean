import AmrK.Point
import AmrK.PointCase1
import AmrK.PointFull
/-! # C19 — point queries at interior cell centres return the stored cell value -/
namespace C19
open Point

/-- **The centre of cell `i` maps to index `i`, wherever the domain is placed and whatever the cell
    size** (repaired conversion `((point - origin)/dx) - 0.5`) -/
theorem centre_index (g dx : Rat) (i : Int) (hdx : dx ≠ 0) : pointIdxR g dx (g + ((i : Rat) + 1/2) * dx) = i :=
  pointIdxR_centre g dx i hdx

/-- hence the local index inside a box starting at `lo` is `i - lo`: the interpolation is asked for
    exactly the stored cell -/
theorem local_index (g dx : Rat) (i lo : Int) (hdx : dx ≠ 0) :
    pointIdxR g dx (g + ((i : Rat) + 1/2) * dx) - lo = ((i - lo : Int) : Rat) := pointLocal_centre g dx i lo hdx

/-- **single-box case, per axis**: the centre of any cell of box `B` passes the inner match of `B` … -/
theorem inner_match (g dx : Rat) (lo hi i : Int) (hdx : 0 < dx) (h1 : lo ≤ i) (h2 : i ≤ hi) :
    pLo g dx lo + dx / 2 ≤ centre g dx i ∧ centre g dx i ≤ pHi g dx hi - dx / 2 :=
  Point.inner_match g dx lo hi i hdx h1 h2

/-- … and for a cell at least one cell away from `B`'s faces, no box of the level that is disjoint from
    `B` along the axis passes the outer match (so all three match lists hold exactly `B`) -/
theorem outer_miss_below (g dx : Rat) (lo i hi' : Int) (hdx : 0 < dx) (hdis : hi' < lo) (h1 : lo + 1 ≤ i) :
    ¬ (centre g dx i ≤ pHi g dx hi' + dx / 2) := Point.outer_miss_below g dx lo i hi' hdx hdis h1
theorem outer_miss_above (g dx : Rat) (hi i lo' : Int) (hdx : 0 < dx) (hdis : hi < lo') (h1 : i + 1 ≤ hi) :
    ¬ (pLo g dx lo' - dx / 2 ≤ centre g dx i) := Point.outer_miss_above g dx hi i lo' hdx hdis h1

/-- **the whole query (full strength on the model)**: at the centre of a cell `c` of box `B = boxes[b]`
    of level `L`, at least one cell away from `B`'s faces, with the other boxes of the level separated
    from `B` along some axis and no box of a finer level (cells `r ≥ 2` times smaller) touching the
    cell - i.e. `L` is the finest level covering the point - `Point.query` takes the single-box branch
    for `(L, b)` and asks the interpolation for the local index `c - lo(B)`: the stored cell.  Any
    number of levels and boxes, any placement `g` of the domain, any positive cell sizes per axis. -/
theorem query_interior_centre (g : R3) (levels : List ILevel) (L b : Nat) (lv : ILevel) (B : I3 × I3) (c : I3)
    (hL : levels[L]? = some lv) (hb : lv.boxes[b]? = some B)
    (hd : 0 < lv.d.1 ∧ 0 < lv.d.2.1 ∧ 0 < lv.d.2.2)
    (hin : (B.1.1 + 1 ≤ c.1 ∧ c.1 + 1 ≤ B.2.1) ∧ (B.1.2.1 + 1 ≤ c.2.1 ∧ c.2.1 + 1 ≤ B.2.2.1) ∧
      (B.1.2.2 + 1 ≤ c.2.2 ∧ c.2.2 + 1 ≤ B.2.2.2))
    (hsame : ∀ i B', lv.boxes[i]? = some B' → i ≠ b → Disj B B')
    (hfiner : ∀ l lv', L < l → levels[l]? = some lv' → ∃ r : Nat, 2 ≤ r ∧
      lv'.d = (lv.d.1 / r, lv.d.2.1 / r, lv.d.2.2 / r) ∧ ∀ B' ∈ lv'.boxes, Away r c B') :
    query [g.1, g.2.1, g.2.2] (levels.map (ILevel.toP g)) (centre3 g lv.d c) =
      .case1 L b [((c.1 - B.1.1 : Int) : Rat), ((c.2.1 - B.1.2.1 : Int) : Rat), ((c.2.2 - B.1.2.2 : Int) : Rat)] :=
  Point.query_interior_centre g levels L b lv B c hL hb hd hin hsame hfiner

/-- the decision part alone: all three match lists of level `L` equal `[b]` and nothing matches on a
    finer level ⇒ single-box case for `(L, b)` -/
theorem single_box_case (g : List Rat) (levels : List PLevel) (p : List Rat) (L b : Nat) (hL : L < levels.length)
    (hE : matchList (fun _ => 0) (levels.getD L ⟨[], [], []⟩) p = [b])
    (hI : matchList (fun d => d / 2) (levels.getD L ⟨[], [], []⟩) p = [b])
    (hO : matchList (fun d => -(d / 2)) (levels.getD L ⟨[], [], []⟩) p = [b])
    (hfE : ∀ l, L < l → l < levels.length → matchList (fun _ => 0) (levels.getD l ⟨[], [], []⟩) p = [])
    (hfI : ∀ l, L < l → l < levels.length → matchList (fun d => d / 2) (levels.getD l ⟨[], [], []⟩) p = [])
    (hfO : ∀ l, L < l → l < levels.length → matchList (fun d => -(d / 2)) (levels.getD l ⟨[], [], []⟩) p = []) :
    query g levels p = .case1 L b
      (List.zipWith (fun i (l : Int) => i - (l : Rat))
        (List.zipWith (fun (gd : Rat × Rat) x => pointIdxR gd.1 gd.2 x) (List.zip g (levels.getD L ⟨[], [], []⟩).dx) p)
        ((levels.getD L ⟨[], [], []⟩).idxLo.getD b [])) :=
  query_case1_of_matches g levels p L b hL hE hI hO hfE hfI hfO

/-- non-vacuity of `query_interior_centre`: two levels, two coarse boxes, a fine box over part of the
    second one; the centre of cell (1,1,2) of the first coarse box (origin (1,-2,1/4)) -/
example :
    query [1, -2, 1/4]
      ([⟨(1/2, 1/4, 1/8), [((0,0,0),(3,3,3)), ((4,0,0),(7,3,3))]⟩, ⟨(1/4, 1/8, 1/16), [((8,0,0),(11,3,3))]⟩].map
        (ILevel.toP (1, -2, 1/4)))
      (centre3 (1, -2, 1/4) (1/2, 1/4, 1/8) (1, 1, 2)) = .case1 0 0 [1, 1, 2] := by decide +kernel

/-- the pinned conversion is wrong for every non-zero origin (checked record of the repaired defect) -/
theorem pinned_wrong (g dx : Rat) (i : Int) (hdx : dx ≠ 0) (hg : g ≠ 0) : pointIdxP dx (g + ((i : Rat) + 1/2) * dx) ≠ i :=
  pointIdxP_wrong g dx i hdx hg

/-- non-vacuity of the matching model: an interior centre of the single box of a one-level domain
    with origin (1, -2, 1/4) is the single-box case with the right local index -/
example :
    query [1, -2, 1/4] [⟨[1/2, 1/4, 1/8], [[(1, 3), (-2, -1), (1/4, 3/4)]], [[0, 0, 0]]⟩] [1 + 3/4, -2 + 5/8, 1/4 + 3/16]
      = .case1 0 0 [1, 2, 1] := by decide +kernel

end C19
