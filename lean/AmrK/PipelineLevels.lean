import AmrK.Pipeline
/-! C14 over whole plotfiles: a plotfile is a list of levels, each a list of box records.  colander cuts the levels after
    its limit and strains each remaining level; chef cooks every level; combine refuses (leaves its input alone) unless the
    other plotfile has the same number of levels and, level by level, the same number of boxes - otherwise it combines level
    by level.  Every finite sequence of such operations equals the composed pure operations on the contents. -/
namespace PipelineLevels
open Writers Pipeline

abbrev Plt := List (List InBox)

inductive Op where
  | strain (kept : List Nat) (limit : Nat)
  | cook (kept : List Nat) (ρ : List Int → List Int)
  | combine (other : Plt) (v1 v2 : List Nat)

/-- the mesh test of combine as far as the record model sees it: same level count, same box count per level -/
def sameShape {α β} (a : List (List α)) (b : List (List β)) : Bool :=
  a.length == b.length && (List.zip a b).all fun (x, y) => x.length == y.length

def step (s : Plt) : Op → Plt
  | .strain kept limit => (s.take (limit + 1)).map fun lv => Pipeline.step lv (.strain kept)
  | .cook kept ρ => s.map fun lv => Pipeline.step lv (.cook kept ρ)
  | .combine other v1 v2 =>
    if sameShape s other then (List.zip s other).map fun (a, b) => Pipeline.step a (.combine b v1 v2) else s

def content (s : Plt) : List (List (List Int)) := s.map Pipeline.content

def pureStep (c : List (List (List Int))) : Op → List (List (List Int))
  | .strain kept limit => (c.take (limit + 1)).map fun lv => Pipeline.pureStep lv (.strain kept)
  | .cook kept ρ => c.map fun lv => Pipeline.pureStep lv (.cook kept ρ)
  | .combine other v1 v2 =>
    if sameShape c other then (List.zip c other).map fun (a, b) => Pipeline.pureStep a (.combine b v1 v2) else c

theorem sameShape_content (s other : Plt) : sameShape (content s) other = sameShape s other := by
  unfold sameShape content
  simp only [List.length_map]
  congr 1
  induction s generalizing other with
  | nil => simp
  | cons a as ih =>
    cases other with
    | nil => simp
    | cons b bs =>
      simp only [List.map_cons, List.zip_cons_cons, List.all_cons]
      rw [ih bs]
      simp [Pipeline.content]

/-- **each tool refines its pure operation on the contents of the whole plotfile** -/
theorem step_refines (s : Plt) (op : Op) : content (step s op) = pureStep (content s) op := by
  cases op with
  | strain kept limit =>
    simp only [step, pureStep, content, List.map_map, List.map_take]
    congr 1
    apply List.map_congr_left
    intro lv _
    exact Pipeline.step_refines lv (.strain kept)
  | cook kept ρ =>
    simp only [step, pureStep, content, List.map_map]
    apply List.map_congr_left
    intro lv _
    exact Pipeline.step_refines lv (.cook kept ρ)
  | combine other v1 v2 =>
    simp only [step, pureStep]
    rw [sameShape_content]
    by_cases h : sameShape s other = true
    · rw [if_pos h, if_pos h]
      unfold content
      rw [List.map_map]
      clear h
      induction s generalizing other with
      | nil => simp
      | cons a as ih =>
        cases other with
        | nil => simp
        | cons b bs =>
          simp only [List.map_cons, List.zip_cons_cons, Function.comp]
          rw [Pipeline.step_refines a (.combine b v1 v2)]
          congr 1
          have := ih bs
          simpa [Function.comp] using this
    · rw [if_neg h, if_neg h]

/-- **C14, whole plotfiles.**  For every finite sequence of strain (with a level limit) / cook / combine operations the
    contents of every level of the final plotfile are what the same sequence of pure operations yields on the contents of the
    starting plotfile - whatever layouts the intermediate files have, however many levels and boxes there are. -/
theorem pipeline_refines (ops : List Op) (s : Plt) :
    content (run step s ops) = run pureStep (content s) ops :=
  (run_refines step pureStep content (fun _ => True) (fun _ _ _ => trivial) (fun s op _ => step_refines s op) ops s trivial).2

/-- a level limit keeps exactly the levels `0 … limit` -/
theorem strain_levels (s : Plt) (kept : List Nat) (limit : Nat) :
    (step s (.strain kept limit)).length = min (limit + 1) s.length := by
  simp [step]

/-- plotfiles of different shape are refused: nothing changes -/
theorem combine_refused (s other : Plt) (v1 v2 : List Nat) (h : sameShape s other = false) :
    step s (.combine other v1 v2) = s := by
  simp [step, h]

end PipelineLevels
