import AmrK.MenuClass
/-! menu lists every field of the header exactly once: under its own name or under the key of a database entry whose
    pattern finds it; nothing is listed twice; nothing is listed that is neither (C18). -/
namespace MenuClass

theorem insertBy_perm (key : String → String) (x : String) (l : List String) : (insertBy key x l).Perm (x :: l) := by
  induction l with
  | nil => exact List.Perm.refl _
  | cons y ys ih =>
    unfold insertBy
    split
    · exact List.Perm.refl _
    · exact (List.Perm.cons y ih).trans (List.Perm.swap x y ys)

theorem sortBy_perm (key : String → String) (l : List String) : (sortBy key l).Perm l := by
  induction l with
  | nil => exact List.Perm.refl _
  | cons x xs ih =>
    show (insertBy key x (sortBy key xs)).Perm (x :: xs)
    exact (insertBy_perm key x _).trans (List.Perm.cons x ih)

theorem classify_some (t : List Entry) (f : String) (e : Entry) (h : classify t f = some (some e)) :
    e ∈ t ∧ search e.2.1 f = some true := by
  induction t with
  | nil => simp [classify] at h
  | cons x r ih =>
    unfold classify at h
    split at h
    · cases h
    · rename_i hs
      simp at h; subst h
      exact ⟨List.mem_cons_self, hs⟩
    · obtain ⟨h1, h2⟩ := ih h
      exact ⟨List.mem_cons_of_mem _ h1, h2⟩

/-- what the loop guarantees, whatever the database: the names accumulated so far stay, stay distinct, every field
    gets shown (own name or the key of an entry that finds it), and nothing else is added -/
theorem finder_spec (fields : List String) : ∀ (t : List Entry) (acc l : List String) (t' : List Entry),
    finder t acc fields = some (l, t') → acc.Nodup →
    l.Nodup ∧ (∀ x ∈ acc, x ∈ l) ∧
    (∀ f ∈ fields, f ∈ l ∨ ∃ key pat, search pat f = some true ∧ key ∈ l) ∧
    (∀ x ∈ l, x ∈ acc ∨ x ∈ fields ∨ ∃ f ∈ fields, ∃ pat, search pat f = some true) := by
  induction fields with
  | nil =>
    intro t acc l t' h hn
    simp [finder] at h
    obtain ⟨rfl, _⟩ := h
    exact ⟨hn, fun x hx => hx, fun f hf => (by cases hf), fun x hx => Or.inl hx⟩
  | cons f fs ih =>
    intro t acc l t' h hn
    unfold finder at h
    split at h
    · cases h
    · rename_i e hc
      obtain ⟨_, hs⟩ := classify_some t f e hc
      by_cases hm : acc.contains e.1 = true
      · rw [if_pos hm] at h
        obtain ⟨h1, h2, h3, h4⟩ := ih t acc l t' h hn
        have hmem : e.1 ∈ acc := by simpa using hm
        refine ⟨h1, h2, ?_, ?_⟩
        · intro g hg
          rcases List.mem_cons.mp hg with rfl | hg
          · exact Or.inr ⟨e.1, e.2.1, hs, h2 _ hmem⟩
          · exact h3 g hg
        · intro x hx
          rcases h4 x hx with a | a | ⟨g, hg, p, hp⟩
          · exact Or.inl a
          · exact Or.inr (Or.inl (List.mem_cons_of_mem _ a))
          · exact Or.inr (Or.inr ⟨g, List.mem_cons_of_mem _ hg, p, hp⟩)
      · rw [if_neg hm] at h
        have hnm : e.1 ∉ acc := by simpa using hm
        have hn' : (acc ++ [e.1]).Nodup := by
          rw [List.nodup_append]
          exact ⟨hn, by simp, by intro a ha b hb; simp at hb; subst hb; intro hab; subst hab; exact hnm ha⟩
        obtain ⟨h1, h2, h3, h4⟩ := ih t (acc ++ [e.1]) l t' h hn'
        refine ⟨h1, fun x hx => h2 x (List.mem_append_left _ hx), ?_, ?_⟩
        · intro g hg
          rcases List.mem_cons.mp hg with rfl | hg
          · exact Or.inr ⟨e.1, e.2.1, hs, h2 _ (by simp)⟩
          · exact h3 g hg
        · intro x hx
          rcases h4 x hx with a | a | ⟨g, hg, p, hp⟩
          · rcases List.mem_append.mp a with a | a
            · exact Or.inl a
            · simp at a; subst a
              exact Or.inr (Or.inr ⟨f, List.mem_cons_self, e.2.1, hs⟩)
          · exact Or.inr (Or.inl (List.mem_cons_of_mem _ a))
          · exact Or.inr (Or.inr ⟨g, List.mem_cons_of_mem _ hg, p, hp⟩)
    · by_cases hm : acc.contains f = true
      · rw [if_pos hm] at h
        obtain ⟨h1, h2, h3, h4⟩ := ih t acc l t' h hn
        have hmem : f ∈ acc := by simpa using hm
        refine ⟨h1, h2, ?_, ?_⟩
        · intro g hg
          rcases List.mem_cons.mp hg with rfl | hg
          · exact Or.inl (h2 _ hmem)
          · exact h3 g hg
        · intro x hx
          rcases h4 x hx with a | a | ⟨g, hg, p, hp⟩
          · exact Or.inl a
          · exact Or.inr (Or.inl (List.mem_cons_of_mem _ a))
          · exact Or.inr (Or.inr ⟨g, List.mem_cons_of_mem _ hg, p, hp⟩)
      · rw [if_neg hm] at h
        have hnm : f ∉ acc := by simpa using hm
        have hn' : (acc ++ [f]).Nodup := by
          rw [List.nodup_append]
          exact ⟨hn, by simp, by intro a ha b hb; simp at hb; subst hb; intro hab; subst hab; exact hnm ha⟩
        obtain ⟨h1, h2, h3, h4⟩ := ih _ (acc ++ [f]) l t' h hn'
        refine ⟨h1, fun x hx => h2 x (List.mem_append_left _ hx), ?_, ?_⟩
        · intro g hg
          rcases List.mem_cons.mp hg with rfl | hg
          · exact Or.inl (h2 _ (by simp))
          · exact h3 g hg
        · intro x hx
          rcases h4 x hx with a | a | ⟨g, hg, p, hp⟩
          · rcases List.mem_append.mp a with a | a
            · exact Or.inl a
            · simp at a; subst a
              exact Or.inr (Or.inl List.mem_cons_self)
          · exact Or.inr (Or.inl (List.mem_cons_of_mem _ a))
          · exact Or.inr (Or.inr ⟨g, List.mem_cons_of_mem _ hg, p, hp⟩)

/-- **C18, listing.**  Whatever the database holds: the list menu shows has no entry twice; every field of the header is
    shown, under its own name or under the key of a database entry whose pattern finds it; and every shown name is a field
    or such a key. -/
theorem variables_spec (t : List Entry) (fields : List String) (L : List String) (t' : List Entry)
    (h : variables t fields = some (L, t')) :
    L.Nodup ∧ (∀ f ∈ fields, f ∈ L ∨ ∃ key pat, search pat f = some true ∧ key ∈ L) ∧
    (∀ x ∈ L, x ∈ fields ∨ ∃ f ∈ fields, ∃ pat, search pat f = some true) := by
  unfold variables at h
  cases hf : finder t [] fields with
  | none => simp [hf] at h
  | some r =>
    obtain ⟨l, t2⟩ := r
    simp [hf] at h
    obtain ⟨rfl, rfl⟩ := h
    obtain ⟨h1, _, h3, h4⟩ := finder_spec fields t [] l t2 hf List.nodup_nil
    have hp := sortBy_perm String.toLower l
    refine ⟨hp.nodup_iff.mpr h1, ?_, ?_⟩
    · intro f hf'
      rcases h3 f hf' with a | ⟨k, p, hs, hk⟩
      · exact Or.inl (hp.mem_iff.mpr a)
      · exact Or.inr ⟨k, p, hs, hp.mem_iff.mpr hk⟩
    · intro x hx
      rcases h4 x (hp.mem_iff.mp hx) with a | a | a
      · cases a
      · exact Or.inl a
      · exact Or.inr a

end MenuClass
