import AmrK.ColumnProofs
/-! Probe: affine data along the normal is reproduced exactly (C07 `slice_affine`). -/
namespace Column

/-- a sample lies on the line `a + b·n` -/
def OnLine (a b : Rat) (x : Sample) : Prop := x.v = a + b * x.n

def StOnLine (a b : Rat) (s : St) : Prop :=
  (∀ x, s.left = some x → OnLine a b x) ∧ (∀ x, s.right = some x → OnLine a b x)

/-- every stored value of every box of level `l` lies on the line -/
def BoxOnLine (a b : Rat) (c : Cfg) (l : Nat) (bx : CBox) : Prop :=
  ∀ i, i < bx.vals.length → bx.vals[i]?.getD 0 = a + b * centre c l bx i

theorem sliceBox_onLine (a b : Rat) (c : Cfg) (l : Nat) (bx : CBox) (h : BoxOnLine a b c l bx) :
    (∀ x, (sliceBox c l bx).1 = some x → OnLine a b x) ∧
    (∀ x, (sliceBox c l bx).2 = some x → OnLine a b x) := by
  unfold sliceBox
  by_cases hn : bx.vals.length = 0
  · simp [hn]
  · simp only [hn, if_false]
    have hlast := h (bx.vals.length - 1) (by omega)
    have hfirst := h 0 (by omega)
    split
    · simp [OnLine, hlast]
    · split
      · simp [OnLine, hfirst]
      · split
        · rename_i i hi
          have hi' : i < bx.vals.length := by
            have := List.find?_some hi  -- not needed for membership
            have hm := List.mem_of_find?_eq_some hi
            exact List.mem_range.mp hm
          simp [OnLine, h i hi']
        · split
          · rename_i il ir hil hir
            have h1 : il < bx.vals.length := by
              have hm := List.mem_of_find?_eq_some hil
              exact List.mem_range.mp (List.mem_reverse.mp hm)
            have h2 : ir < bx.vals.length := List.mem_range.mp (List.mem_of_find?_eq_some hir)
            simp [OnLine, h il h1, h ir h2]
          · simp

theorem absorb_onLine (a b : Rat) (c : Cfg) (l : Nat) (s : St) (o : Option Sample × Option Sample)
    (hs : StOnLine a b s) (h1 : ∀ x, o.1 = some x → OnLine a b x) (h2 : ∀ x, o.2 = some x → OnLine a b x) :
    StOnLine a b (absorb c l s o) := by
  unfold absorb StOnLine at *
  rcases o with ⟨o1, o2⟩
  obtain ⟨hl, hr⟩ := hs
  cases o1 <;> cases o2 <;> simp only [] <;> (repeat' split) <;> simp_all

theorem reduce_onLine (a b : Rat) (c : Cfg)
    (hdata : ∀ l bs, c.levels[l]? = some bs → ∀ bx ∈ bs, BoxOnLine a b c l bx) :
    StOnLine a b (reduce c) := by
  unfold reduce
  have key : ∀ (lvls : List (List CBox)) (l : Nat) (s : St), StOnLine a b s →
      (∀ k bs, lvls[k]? = some bs → ∀ bx ∈ bs, BoxOnLine a b c (l + k) bx) →
      StOnLine a b (reduce.go c l lvls s) := by
    intro lvls
    induction lvls with
    | nil => intro l s hs _; exact hs
    | cons bs rest ih =>
      intro l s hs hd
      unfold reduce.go
      apply ih
      · -- fold over the selected boxes of this level
        have hbs : ∀ bx ∈ bs.filter (selected c l), BoxOnLine a b c l bx := by
          intro bx hbx
          have := hd 0 bs (by simp) bx (List.mem_filter.mp hbx).1
          simpa using this
        generalize bs.filter (selected c l) = sel at hbs
        induction sel generalizing s with
        | nil => exact hs
        | cons bx sel ihs =>
          simp only [List.foldl_cons]
          apply ihs
          · obtain ⟨h1, h2⟩ := sliceBox_onLine a b c l bx (hbs bx (by simp))
            exact absorb_onLine a b c l s _ hs h1 h2
          · intro y hy; exact hbs y (by simp [hy])
      · intro k bs' hk bx hbx
        have := hd (k + 1) bs' (by simpa using hk) bx hbx
        rw [show l + 1 + k = l + (k + 1) by omega]; exact this
  apply key c.levels 0 {} 
  · constructor <;> (intro x h; simp at h)
  · intro k bs hk bx hbx
    simpa using hdata k bs hk bx hbx

/-- **C07 `slice_affine`.**  If every stored value of every level is `a + b·(cell centre)`, the
    pixel is `a + b·pos` exactly whenever its two samples are distinct in numpy's `isclose`
    sense; otherwise it is the value of a stored sample the plane is within tolerance of. -/
theorem slice_affine (a b : Rat) (c : Cfg)
    (hdata : ∀ l bs, c.levels[l]? = some bs → ∀ bx ∈ bs, BoxOnLine a b c l bx)
    (r : Rat) (hr : result c = some r) :
    r = a + b * c.pos ∨ ∃ L R : Sample, (reduce c).left = some L ∧ (reduce c).right = some R ∧
        close L.n R.n = true ∧ r = a + b * R.n := by
  obtain ⟨hl, hrr⟩ := reduce_onLine a b c hdata
  unfold result at hr
  cases hL : (reduce c).left with
  | none => simp [hL] at hr
  | some L =>
    cases hR : (reduce c).right with
    | none => simp [hL, hR] at hr
    | some R =>
      simp only [hL, hR] at hr
      have hLv := hl L hL
      have hRv := hrr R hR
      unfold OnLine at hLv hRv
      by_cases hc : close L.n R.n = true
      · right
        simp only [hc, Bool.not_true, Bool.false_eq_true, if_false, Option.some.injEq] at hr
        exact ⟨L, R, rfl, rfl, hc, by rw [← hr, hRv]⟩
      · left
        have hc' : close L.n R.n = false := by simpa using hc
        simp only [hc', Bool.not_false, if_true, Option.some.injEq] at hr
        have hne : L.n ≠ R.n := by
          intro he; rw [he, close_refl] at hc'; exact absurd hc' (by simp)
        rw [← hr, hLv, hRv]
        have hden : R.n - L.n ≠ 0 := sub_ne_zero.mpr (Ne.symm hne)
        field_simp
        ring

end Column
