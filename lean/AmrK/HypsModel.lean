import AmrK.Pestle
import AmrK.Column
/-! Decidable forms of theorem hypotheses (core only: evaluated by the driver). -/
namespace Pestle

def aligned3B (r : Nat) (fine : Level) (b : Box) : Bool :=
  match b.lo, b.hi, fine.grid with
  | [l0, l1, l2], [h0, h1, h2], [g0, g1, g2] =>
    decide (0 < r) && decide (r % 2 = 0) &&
    decide (g0 % r = 0 ∧ g1 % r = 0 ∧ g2 % r = 0) &&
    decide (l0 ≤ h0 ∧ l1 ≤ h1 ∧ l2 ≤ h2) &&
    decide (2 * l0 % r = 0 ∧ 2 * l1 % r = 0 ∧ 2 * l2 % r = 0) &&
    decide ((2 * h0 + 2) % r = 0 ∧ (2 * h1 + 2) % r = 0 ∧ (2 * h2 + 2) % r = 0) &&
    decide (2 * h0 + 2 ≤ g0 ∧ 2 * h1 + 2 ≤ g1 ∧ 2 * h2 + 2 ≤ g2) &&
    fine.boxes.all fun fb =>
      match fb.lo, fb.hi with
      | [a0, a1, a2], [b0, b1, b2] =>
        decide (a0 % r = 0 ∧ a1 % r = 0 ∧ a2 % r = 0 ∧ (b0 + 1) % r = 0 ∧ (b1 + 1) % r = 0 ∧ (b2 + 1) % r = 0)
      | _, _ => false
  | _, _, _ => false

def alignedAllB (r : Nat) : List Level → Bool
  | lv :: fine :: rest => lv.boxes.all (aligned3B r fine) && alignedAllB r (fine :: rest)
  | _ => true

end Pestle

namespace Column

def wf0B (c : Cfg) (N : Nat) : Bool :=
  match c.levels with
  | bs :: _ =>
    c.fixed && decide (0 < c.d0) && decide (0 < N) && decide (c.G = c.g + (N : Rat) * c.d0) &&
    bs.all (fun b => decide (0 ≤ b.a ∧ b.a + (b.vals.length : Int) ≤ (N : Int))) &&
    (List.range N).all fun i => bs.any fun b => decide (b.a ≤ (i : Int) ∧ (i : Int) < b.a + (b.vals.length : Int))
  | [] => false

end Column
