import AmrK.Cover
/-! Probe: the covering grid holds, at every pixel, the value of the finest-level box covering it
    (mandoline 2D flattening C08, whip C10, in-plane part of the slices). -/
namespace Cover

variable {Pix α : Type}

structure LWrite (Pix α : Type) extends Write Pix α where
  lv : Nat

def applyL (a : Pix → Option α) (w : LWrite Pix α) : Pix → Option α := apply a w.toWrite

/-- writes are issued level by level (coarse to fine) -/
def Sorted : List (LWrite Pix α) → Prop
  | [] => True
  | w :: ws => (∀ w' ∈ ws, w.lv ≤ w'.lv) ∧ Sorted ws

theorem sorted_append_singleton (ws : List (LWrite Pix α)) (z : LWrite Pix α) (h : Sorted (ws ++ [z])) :
    Sorted ws ∧ ∀ w ∈ ws, w.lv ≤ z.lv := by
  induction ws with
  | nil => exact ⟨trivial, by intro w hw; cases hw⟩
  | cons a ws ih =>
    obtain ⟨h1, h2⟩ := h
    obtain ⟨h3, h4⟩ := ih h2
    refine ⟨⟨fun w' hw' => h1 w' (by simp [hw']), h3⟩, ?_⟩
    intro w hw
    rcases List.mem_cons.mp hw with rfl | hw
    · exact h1 z (by simp)
    · exact h4 w hw

/-- **covering grid.**  If `w` covers pixel `p`, no write of a finer level covers `p`, and writes of
    one level that cover `p` agree there (boxes of a level are disjoint), then after all the
    level-ordered overwrites the pixel holds `w`'s value. -/
theorem cover_finest (ws : List (LWrite Pix α)) (a : Pix → Option α) (p : Pix) (w : LWrite Pix α)
    (hs : Sorted ws) (hw : w ∈ ws) (hc : w.covers p = true)
    (hmax : ∀ w' ∈ ws, w'.covers p = true → w'.lv ≤ w.lv)
    (hagree : ∀ w' ∈ ws, w'.lv = w.lv → w'.covers p = true → w'.val p = w.val p) :
    ws.foldl applyL a p = some (w.val p) := by
  -- induction on the length, peeling the last write
  generalize hn : ws.length = n
  induction n generalizing ws with
  | zero =>
    have : ws = [] := List.length_eq_zero_iff.mp hn
    subst this; cases hw
  | succ n ih =>
    rcases List.eq_nil_or_concat ws with hnil | ⟨init, z, hz⟩
    · subst hnil; cases hw
    · subst hz
      rw [List.concat_eq_append] at *
      obtain ⟨hsi, hle⟩ := sorted_append_singleton init z hs
      rw [List.foldl_append]
      simp only [List.foldl_cons, List.foldl_nil]
      unfold applyL apply
      by_cases hzc : z.covers p = true
      · simp only [hzc, if_true]
        have h1 : z.lv ≤ w.lv := hmax z (by simp) hzc
        have h2 : w.lv ≤ z.lv := by
          rcases List.mem_append.mp hw with h | h
          · exact hle w h
          · simp at h; subst h; exact Nat.le_refl _
        rw [hagree z (by simp) (by omega) hzc]
      · simp only [hzc, Bool.false_eq_true, if_false]
        have hwi : w ∈ init := by
          rcases List.mem_append.mp hw with h | h
          · exact h
          · simp at h; subst h; exact absurd hc hzc
        have hlen : init.length = n := by simp at hn; omega
        exact ih init hsi hwi (fun w' hw' => hmax w' (by simp [hw'])) (fun w' hw' => hagree w' (by simp [hw'])) hlen

end Cover
