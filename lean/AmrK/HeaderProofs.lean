import Mathlib.Tactic.FieldSimp
import Mathlib.Tactic.Ring
import Mathlib.Tactic.Linarith
import Mathlib.Algebra.Order.Field.Rat
import AmrK.Header
/-! Theorems about the global-Header model (`PlotfileCooker.__init__`): field-name table and the
    grids of cell centres. -/
namespace Header
open Py

theorem any_false_iff (tbl : List (Bytes × Nat)) (name : Bytes) :
    tbl.any (fun x => x.1 == name) = false ↔ name ∉ tbl.map (·.1) := by
  induction tbl with
  | nil => simp
  | cons x tbl ih =>
    simp only [List.any_cons, Bool.or_eq_false_iff, List.map_cons, List.mem_cons, not_or, ih]
    constructor
    · rintro ⟨h1, h2⟩
      refine ⟨?_, h2⟩
      intro e; subst e; simp at h1
    · rintro ⟨h1, h2⟩
      refine ⟨?_, h2⟩
      simp only [beq_eq_false_iff_ne, ne_eq]
      exact fun e => h1 e.symm

theorem nodup_snoc (tbl : List (Bytes × Nat)) (nm : Bytes) (i : Nat) (h : (tbl.map (·.1)).Nodup)
    (hn : nm ∉ tbl.map (·.1)) : ((tbl ++ [(nm, i)]).map (·.1)).Nodup := by
  rw [List.map_append, List.nodup_append]
  refine ⟨h, by simp, ?_⟩
  intro a ha b hb
  simp only [List.map_cons, List.map_nil, List.mem_singleton] at hb
  subst hb
  exact fun e => hn (e ▸ ha)

theorem go_spec (tbl : List (Bytes × Nat)) (name : Bytes) (i : Nat) (fuel k : Nat) :
    addField.go tbl name i k fuel = tbl ∨
      ∃ nm, nm ∉ tbl.map (·.1) ∧ addField.go tbl name i k fuel = tbl ++ [(nm, i)] := by
  induction fuel generalizing k with
  | zero => left; simp [addField.go]
  | succ fuel ih =>
    unfold addField.go
    simp only
    split
    · rename_i hc
      right
      refine ⟨_, ?_, rfl⟩
      have : tbl.any (fun x => x.1 == name ++ ofString s!"_{k}") = false := by
        simpa using hc
      exact (any_false_iff tbl _).mp this
    · exact ih (k + 1)

/-- **the exposed field table has pairwise distinct names** (repeated header names get `_2`, `_3`, …) -/
theorem addField_keys_nodup (tbl : List (Bytes × Nat)) (name : Bytes) (i : Nat) (h : (tbl.map (·.1)).Nodup) :
    ((addField tbl name i).map (·.1)).Nodup := by
  unfold addField
  split
  · rename_i hc
    have : tbl.any (fun x => x.1 == name) = false := by simpa using hc
    exact nodup_snoc tbl name i h ((any_false_iff tbl name).mp this)
  · rcases go_spec tbl name i (tbl.length + 2) 2 with h1 | ⟨nm, hn, h1⟩
    · rw [h1]; exact h
    · rw [h1]; exact nodup_snoc tbl nm i h hn

/-- **the `i`-th header name is registered under index `i`** and earlier entries are untouched -/
theorem addField_appends (tbl : List (Bytes × Nat)) (name : Bytes) (i : Nat) :
    addField tbl name i = tbl ∨ ∃ nm, addField tbl name i = tbl ++ [(nm, i)] := by
  unfold addField
  split
  · right; exact ⟨name, rfl⟩
  · rcases go_spec tbl name i (tbl.length + 2) 2 with h1 | ⟨nm, _, h1⟩
    · left; exact h1
    · right; exact ⟨nm, h1⟩

/-- a first occurrence keeps its own name -/
theorem addField_fresh (tbl : List (Bytes × Nat)) (name : Bytes) (i : Nat) (h : name ∉ tbl.map (·.1)) :
    addField tbl name i = tbl ++ [(name, i)] := by
  unfold addField
  have : tbl.any (fun x => x.1 == name) = false := (any_false_iff tbl name).mpr h
  simp [this]

/-- `numpy.linspace(a, b, n)[i]` for `n ≥ 2` over the rationals -/
def linspaceAt (a b : Rat) (n i : Nat) : Rat := a + (i : Rat) * ((b - a) / ((n : Rat) - 1))

/-- **the exposed 1-D grids are the cell centres**: `linspace(lo + dx/2, hi - dx/2, n)[i] = lo + (i + ½)·dx`
    whenever `hi - lo = n·dx` -/
theorem grids_are_cell_centres (lo hi dx : Rat) (n i : Nat) (hn : 2 ≤ n) (hw : hi - lo = (n : Rat) * dx) :
    linspaceAt (lo + dx / 2) (hi - dx / 2) n i = lo + ((i : Rat) + 1 / 2) * dx := by
  unfold linspaceAt
  have hn1 : (n : Rat) - 1 ≠ 0 := by
    have : (2 : Rat) ≤ (n : Rat) := by exact_mod_cast hn
    intro h; linarith
  have hb : hi - dx / 2 - (lo + dx / 2) = ((n : Rat) - 1) * dx := by
    have : hi = lo + (n : Rat) * dx := by linarith
    rw [this]; ring
  rw [hb]
  field_simp
  ring

end Header
