import AmrK.Scan
/-! C15: iterating over a level = scanning each binary file (in sorted order) sequentially; the
    result holds every box of the level exactly once (a permutation of the level's boxes). -/
namespace Scan
open Py Taste Reader ReaderR

theorem length_fileOf_ge (nf : Nat) (eps : List (Entry × Bytes)) : eps.length ≤ (fileOf nf eps).length := by
  induction eps with
  | nil => simp [fileOf]
  | cons q eps ih =>
    obtain ⟨e, P⟩ := q
    simp only [fileOf, List.length_append, List.length_cons]
    obtain ⟨body, hb, _⟩ := isLine_canonB e.lo e.hi nf
    have : 0 < (canonHeader e.lo e.hi nf).length := by
      unfold canonHeader; rw [hb]; simp
    omega

/-- `for box in pck[f][level]`: the per-file scans chained in file order (fuel = file length + 1) -/
def iterLevel (files : List Bytes) (f : Nat) : List Bytes :=
  files.flatMap fun raw => scan raw f (raw.length + 1) 0

/-- the chained scans return the selected block of every FAB of every file, in file order -/
theorem iterLevel_files (nf f : Nat) (hf : f < nf) (parts : List (List (Entry × Bytes)))
    (hg : ∀ eps ∈ parts, ∀ p ∈ eps, GoodFab nf p) :
    iterLevel (parts.map (fileOf nf)) f = parts.flatten.map fun p => block p.2 (cellsOf p.1) f := by
  unfold iterLevel
  induction parts with
  | nil => rfl
  | cons eps parts ih =>
    simp only [List.map_cons, List.flatMap_cons, List.flatten_cons, List.map_append]
    rw [ih (fun e he => hg e (by simp [he]))]
    congr 1
    have := scan_fileOf nf f hf eps [] ((fileOf nf eps).length + 1)
      (by have := length_fileOf_ge nf eps; omega) (hg eps (by simp))
    simpa using this

/-- **Every box of the level is yielded exactly once**: if the level's boxes are distributed over the
    files in any way (`boxes` is a permutation of the concatenated file contents), the iteration
    result is a permutation of the boxes' selected blocks — and it is finite: iteration stops. -/
theorem iterLevel_perm (nf f : Nat) (hf : f < nf) (parts : List (List (Entry × Bytes)))
    (boxes : List (Entry × Bytes)) (hp : boxes.Perm parts.flatten)
    (hg : ∀ eps ∈ parts, ∀ p ∈ eps, GoodFab nf p) :
    (iterLevel (parts.map (fileOf nf)) f).Perm (boxes.map fun p => block p.2 (cellsOf p.1) f) := by
  rw [iterLevel_files nf f hf parts hg]
  exact (hp.map _).symm

end Scan
